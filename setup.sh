#!/bin/sh
# MANIFEST.setup_cmd: build the Lean project (models, theorems, driver) and warm the Go build cache.
set -e
cd /verif/lean && lake build
cd /verif/harness && cp /repo/go.sum . && mkdir -p /verif/work && \
  GOFLAGS=-mod=mod GOPROXY=off go test -c -tags verif -o /verif/work/harness.test . 
echo setup-ok
