import Swim.Props.C03
#print axioms Swim.Probe.C03_probe_target_ok
#print axioms Swim.Probe.C03_probe_advances
#print axioms Swim.Probe.probeLoop_skip
#print axioms Swim.Probe.C03_pass_step
#print axioms Swim.Probe.C03_detectBound_mono
#print axioms Swim.Probe.C03_reset_keeps_listed
