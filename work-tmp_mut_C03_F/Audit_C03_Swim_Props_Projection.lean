import Swim.Props.Projection
#print axioms Swim.Cluster.find_map_replace
#print axioms Swim.Cluster.act_nodeAt
#print axioms Swim.Cluster.act_proj
#print axioms Swim.Cluster.merge_single
#print axioms Swim.Cluster.announce_cfg
#print axioms Swim.Cluster.probeFail_cfg
#print axioms Swim.Cluster.step_projection
#print axioms Swim.Cluster.nodeRun_fst
#print axioms Swim.Cluster.nodeRun_cons
#print axioms Swim.Cluster.projection
#print axioms Swim.Cluster.C07_cluster_sync
#print axioms Swim.Cluster.C02_cluster_selfOk
#print axioms Swim.Cluster.C01_cluster_forward
#print axioms Swim.Cluster.C18_cluster_allowed
