import Swim.Lemmas.Merge
#print axioms Swim.Merge.lookup_setRec_ne
#print axioms Swim.Merge.lookup_setRec_self
#print axioms Swim.Merge.lookup_name
#print axioms Swim.Merge.lookup_append_stub_ne
#print axioms Swim.Merge.lookup_append_stub_self
#print axioms Swim.Merge.setRec_same
#print axioms Swim.Merge.kle_refl
#print axioms Swim.Merge.kle_trans
