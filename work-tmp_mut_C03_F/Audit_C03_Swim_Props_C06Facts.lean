import Swim.Props.C06Facts
#print axioms Swim.Gen.C06_timeout_in_own_goroutine
