import Swim.Props.C03Cluster
#print axioms Swim.Cluster.C03_own_evidence
#print axioms Swim.Cluster.nodeAt_name
#print axioms Swim.Cluster.C03_cluster_own_evidence
