import Swim.Props.C06
#print axioms Swim.Susp.new_inv
#print axioms Swim.Susp.fire_inv
#print axioms Swim.Susp.fire_pending
#print axioms Swim.Susp.confirm_inv
#print axioms Swim.Susp.C06_fire_bounds
#print axioms Swim.Susp.C06_confirm_once
#print axioms Swim.Susp.C06_accuser_recorded
#print axioms Swim.Susp.C06_stops_at_k
#print axioms Swim.Susp.C06_k0_exact_min
#print axioms Swim.Susp.C06_deadline_formula
#print axioms Swim.Merge.C06_stale_timer_harmless
#print axioms Swim.Merge.C06_timer_kills_only_its_suspicion
#print axioms Swim.Merge.C06_k_rule
