import Swim.Props.GenTie.Codec
#print axioms Swim.GenTie.Codec.tmod_nat
#print axioms Swim.GenTie.Codec.encryptedLength_tie
#print axioms Swim.GenTie.Codec.encryptOverhead_tie
#print axioms Swim.GenTie.Codec.labelOverhead_tie
#print axioms Swim.GenTie.Codec.dropped_calls_none
