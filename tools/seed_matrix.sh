#!/bin/bash
# seed_matrix.sh [regex]: run every kept seeded change (whose directory name matches the regex) against the check of the property it targets,
# record the outcome in its meta.json (caught_by) and print one line per change.
V=${VERIF_ROOT:-/verif}; cd $V
for d in $(ls seeded | sort | grep -E -e "${1:-.}"); do
  line=$(tools/run_seeded.sh $d 2>&1 | tail -1)
  rc=$(echo "$line" | sed -n 's/.* rc=\([0-9]*\) .*/\1/p')
  nf=$(echo "$line" | grep -c "no-failing-input-found")
  prop=$(python3 -c "import json;print(json.load(open('seeded/$d/meta.json'))['property'])")
  python3 - "$d" "$rc" "$nf" "$prop" "$V" <<'PY'
import json,sys
d,rc,nf,prop,v=sys.argv[1:]
p=f'{v}/seeded/{d}/meta.json'
m=json.load(open(p))
m['caught_by']=(f"./check {prop} --tier quick: VIOLATION" + (" (no-failing-input-found: broken theorem/correspondence)" if nf=='1' else " with a failing input as replay")) if rc=='1' else None
m['ran']=[f"tools/run_seeded.sh {d}  (git -C /repo apply patch.diff; ./check {prop}; git -C /repo checkout -- .)"]
json.dump(m,open(p,'w'),indent=1)
PY
  echo "$d rc=$rc nf=$nf"
done
