#!/bin/bash
# try_patch.sh <Cnn> <letter> [checks...]: apply /tmp/seed/Cnn/out/<letter>.diff to a scratch copy of /repo and run
# the given checks (default: Cnn) against it, before the change has been validated and kept.
set -u
P=$1; M=$2; shift 2
CHECKS=${@:-$P}
C=/tmp/mut/try-$P-$M
rm -rf $C; mkdir -p /tmp/mut; rsync -a --exclude .git /repo/ $C/ || exit 2
( cd $C && patch -p1 -s < /tmp/seed/$P/out/$M.diff ) || { echo "patch does not apply"; rm -rf $C; exit 3; }
for c in $CHECKS; do
  out=$(cd /verif && VERIF_REPO=$C ./check $c 2>&1); rc=$?
  echo "$P-$M check=$c rc=$rc $(echo "$out" | grep -c '^VIOLATION') viol $(echo "$out" | grep '^VIOLATION' | head -1 | grep -c no-failing) nf :: $(echo "$out" | tail -1 | cut -c1-150)"
done
rm -rf $C /verif/work-$(echo $C | sed 's/[^A-Za-z0-9]\+/_/g; s/^_//; s/_$//')
