#!/bin/bash
# sweep.sh <tier> <seed>... : run every claimed check for several seeds on the unchanged tree and
# print one line per (check, seed); exit 1 if any check exits non-zero. Used to hunt false alarms.
cd "$(dirname "$0")/.."
tier=$1; shift
fail=0
for seed in "$@"; do
  for p in $(python3 -c "import json;print(' '.join(c['property_id'] for c in json.load(open('MANIFEST.json'))['checks']))"); do
    out=$(VERIF_SEED=$seed ./check $p --tier $tier 2>&1); rc=$?
    echo "seed=$seed $(echo "$out" | grep -E '^\[' | tail -1) rc=$rc $(echo "$out" | grep -c '^VIOLATION') viol $(echo "$out" | grep -c '^KNOWN-FINDING') known"
    if [ $rc -ne 0 ]; then fail=1; echo "$out" | grep '^VIOLATION'; fi
  done
done
exit $fail
