#!/bin/bash
# run_seeded.sh <seeded-dir-name> [check ids...] : apply a kept seeded change to a scratch copy of /repo,
# run the given checks (default: the property it targets) against that copy (VERIF_REPO), remove the
# copy. /repo itself is never touched. Prints one summary line per check.
# With INPLACE=1 the change is applied to /repo instead (and undone afterwards), exactly as the brief
# describes; the default avoids disturbing checks of /repo that run at the same time.
set -u
V=${VERIF_ROOT:-/verif}
D=$V/seeded/$1; shift
P=$(python3 -c "import json;print(json.load(open('$D/meta.json'))['property'])")
CHECKS=${@:-$P}
if [ "${INPLACE:-0}" = "1" ]; then
  git -C /repo diff --quiet || { echo "/repo dirty"; exit 2; }
  git -C /repo apply $D/patch.diff || { echo "patch does not apply"; exit 3; }
  for c in $CHECKS; do
    out=$(cd $V && ./check $c --tier ${TIER:-quick} 2>&1); rc=$?
    echo "$(basename $D) check=$c rc=$rc $(echo "$out" | grep -c '^VIOLATION') violation line(s): $(echo "$out" | grep '^VIOLATION' | head -2 | tr '\n' ' ') $(echo "$out" | tail -1)"
  done
  git -C /repo checkout -- .
  exit 0
fi
C=${MUT_DIR:-/tmp/mut}/$(basename $D)
rm -rf $C; mkdir -p ${MUT_DIR:-/tmp/mut}
rsync -a --exclude .git /repo/ $C/ || exit 2
( cd $C && patch -p1 -s < $D/patch.diff ) || { echo "patch does not apply"; rm -rf $C; exit 3; }
for c in $CHECKS; do
  out=$(cd $V && VERIF_REPO=$C ./check $c --tier ${TIER:-quick} 2>&1); rc=$?
  echo "$(basename $D) check=$c rc=$rc $(echo "$out" | grep -c '^VIOLATION') violation line(s): $(echo "$out" | grep '^VIOLATION' | head -2 | tr '\n' ' ') $(echo "$out" | tail -1)"
done
rm -rf $C $V/work-$(echo $C | sed 's/[^A-Za-z0-9]\+/_/g; s/^_//; s/_$//')
