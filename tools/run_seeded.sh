#!/bin/bash
# run_seeded.sh <seeded-dir-name> [check ids...] : apply a kept seeded change to /repo, run the given checks
# (default: the property it targets), undo it. Prints one summary line per check.
set -u
D=/verif/seeded/$1; shift
P=$(python3 -c "import json;print(json.load(open('$D/meta.json'))['property'])")
CHECKS=${@:-$P}
git -C /repo diff --quiet || { echo "/repo dirty"; exit 2; }
git -C /repo apply $D/patch.diff || { echo "patch does not apply"; exit 3; }
for c in $CHECKS; do
  out=$(cd /verif && ./check $c --tier ${TIER:-quick} 2>&1); rc=$?
  echo "$(basename $D) check=$c rc=$rc $(echo "$out" | grep -c '^VIOLATION') violation line(s): $(echo "$out" | grep '^VIOLATION' | head -2 | tr '\n' ' ') $(echo "$out" | tail -1)"
done
git -C /repo checkout -- .
