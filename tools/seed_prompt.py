#!/usr/bin/env python3
"""Prints the sub-agent prompt for a seeded-change request (property text only, nothing from /verif)."""
import json, sys
pid = sys.argv[1]
L1, L2 = (sys.argv[2], sys.argv[3]) if len(sys.argv) > 3 else ("A", "B")
avoid = sys.argv[4] if len(sys.argv) > 4 else ""
p = next(json.loads(l) for l in open('/verif/properties.jsonl') if json.loads(l)['id'] == pid)
print(f"""You are helping to test a verification framework by playing the role of a developer who introduces a subtle regression.

Repository: a git worktree of the Go library hashicorp/memberlist (SWIM/Lifeguard gossip membership) at /tmp/seed/{pid}/wt . Work ONLY inside /tmp/seed/{pid}/ (the worktree /tmp/seed/{pid}/wt and the output directory /tmp/seed/{pid}/out). Never touch /repo or /verif, never read anything under /verif.

Property that the library is supposed to satisfy ("{p['title']}"):

  {p['statement']}

  It is quantified: {p['quantifier']['text']}

Your task: produce TWO independent source changes (mutants {L1} and {L2}, using different mechanisms / different code sites) to the non-test Go files of the worktree, each of which
  1. BREAKS the property above (for at least one input / schedule / history the statement is false with the change applied),
  2. still compiles (`go build ./...` and `go vet` clean enough to build tests),
  3. still passes the repository's existing test suite, unedited (`go test -vet=off -count=1 -timeout 25m ./...` in the worktree; the suite binds loopback ports, so if a test fails in a way unrelated to your change re-run that test alone once before concluding; do not run more than one full-suite run at a time),
  4. is REALISTIC and SUBTLE: the kind of slip a maintainer could make in a refactor or optimisation (an off-by-one in a comparison, a dropped guard, a wrong variable, a reordered pair of statements, a missing case, an early return, a budget miscalculation, a lock released too early...). It must need something specific to manifest - a particular interleaving, a crash or fault at a particular point, a multi-step sequence of operations, an unusual input, or two cooperating sites that each look fine alone. Do NOT produce changes that ordinary use would expose at once (e.g. nothing works any more), and do not add obviously malicious code, special-case magic values, or touch test files, build tags, or the file verif_hooks.go.
For each mutant also write a DEMONSTRATION: a Go test file (package memberlist, placed in the worktree root only while you run it, e.g. zz_demo_test.go) containing one test that FAILS with the change applied and PASSES on the unchanged worktree (to compare: `git diff > /tmp/seed/{pid}/out/X.diff; git checkout -- .; ...; git apply /tmp/seed/{pid}/out/X.diff`; do NOT use `git stash`, it is shared by all worktrees of the repository). The demo should exercise the real code (internal functions are fine since it is in-package) and fail by an assertion that corresponds to the property, not by an incidental detail.

Environment (offline sandbox): run Go with `export GOFLAGS=-mod=mod GOPROXY=off` in every shell call; do not set GOTOOLCHAIN or GOSUMDB. The first build takes ~40 s. There is no network.

Deliverables, written to /tmp/seed/{pid}/out/ :
  {L1}.diff and {L2}.diff      - `git diff` of the worktree for each mutant (source change only, WITHOUT the demo test file)
  {L1}_demo_test.go, {L2}_demo_test.go - the demonstration tests
  {L1}.md, {L2}.md             - 5-10 lines each: what was changed, why it breaks the property, what exactly is needed for it to manifest (input / sequence / interleaving), the commands you ran and their results (build, full suite with the change, demo with and without the change)
{('Changes at these code sites have already been made by others; choose different functions and mechanisms: ' + avoid + chr(10)) if avoid else ''}Leave the worktree clean (git checkout -- . and remove the demo file) when you finish. If after a serious attempt you can only produce one qualifying mutant, deliver that one and say so. Reply with a short summary of the two mutants.""")
