#!/bin/bash
# validate_seed.sh Cnn A|B : confirm a sub-agent's change in its scratch worktree:
#  builds, passes the unedited suite, demo fails with the change and passes without.
# On success copies it to /verif/seeded/Cnn-X/ (patch.diff, demo_test.go, notes.md, meta.json).
set -u
P=$1; M=$2
S=/tmp/seed/$P; W=$S/wt; O=$S/out
export GOFLAGS=-mod=mod GOPROXY=off
log() { echo "[$P-$M] $*"; }
[ -f $O/$M.diff ] || { log "no diff"; exit 2; }
cd $W || exit 2
git checkout -q -- . ; rm -f zz_*_test.go
git checkout -q --detach $(git -C /repo rev-parse HEAD) || { log "cannot move worktree to HEAD"; exit 2; }
git apply $O/$M.diff || { log "patch does not apply to current HEAD"; exit 3; }
go build ./... || { log "does not build"; git checkout -q -- .; exit 3; }
( flock 9; go test -vet=off -count=1 -timeout 25m ./... > $S/suite_$M.log 2>&1 ) 9>/tmp/seed/.suite.lock
if ! grep -q "^ok  	github.com/hashicorp/memberlist	" $S/suite_$M.log; then
  # the suite's timing tests fail under load with or without a change: re-run the failing tests alone (twice at most)
  FT=$(grep -oE '^--- FAIL: (Test[A-Za-z0-9_]+)' $S/suite_$M.log | awk '{print $3}' | sort -u | paste -sd'|')
  ok=1
  if [ -n "$FT" ] && ! grep -q '^panic:' $S/suite_$M.log; then
    for try in 1 2; do
      ( flock 9; go test -vet=off -count=1 -timeout 15m -run "^($FT)\$" . > $S/suite_${M}_alone.log 2>&1 ) 9>/tmp/seed/.suite.lock && { ok=0; break; }
    done
  fi
  if [ $ok -ne 0 ]; then
    log "suite FAILS with change: $(grep -E '^(--- FAIL|FAIL|panic:)' $S/suite_$M.log | head -3 | tr '\n' ' ')"; git checkout -q -- .; exit 4
  fi
  log "suite: [$FT] failed in the full run and passed alone"
fi
cp $O/${M}_demo_test.go zz_demo_test.go
DT=$(grep -oE 'func (Test[A-Za-z0-9_]+)' zz_demo_test.go | awk '{print $2}' | paste -sd'|')
go test -vet=off -count=1 -timeout 10m -run "^($DT)\$" . > $S/demo_with_$M.log 2>&1; RW=$?
git checkout -q -- .
go test -vet=off -count=1 -timeout 10m -run "^($DT)\$" . > $S/demo_without_$M.log 2>&1; RO=$?
rm -f zz_demo_test.go
if [ $RW -ne 0 ] && [ $RO -eq 0 ]; then
  D=/verif/seeded/$P-$M; mkdir -p $D
  cp $O/$M.diff $D/patch.diff; cp $O/${M}_demo_test.go $D/demo_test.go; cp $O/$M.md $D/notes.md 2>/dev/null
  python3 - "$P" "$M" "$D" <<'PY'
import json,sys,subprocess
p,m,d=sys.argv[1:]
head=subprocess.run(["git","-C","/repo","rev-parse","--short","HEAD"],capture_output=True,text=True).stdout.strip()
notes=open(d+"/notes.md").read() if __import__("os").path.exists(d+"/notes.md") else ""
json.dump({"property":p,"mutant":m,"base_commit":head,
 "needs_to_manifest":"see notes.md (written by the independent sub-agent)",
 "confirmed":["go build ./... ok with change","unedited suite passes with change (go test -vet=off -count=1 ./...)",
              "demo test fails with change","demo test passes without change"],
 "caught_by":None},open(d+"/meta.json","w"),indent=1)
PY
  log "VALID (demo fails with, passes without; suite green)"
else
  log "INVALID demo: with-change rc=$RW without rc=$RO"
fi
