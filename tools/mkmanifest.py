#!/usr/bin/env python3
"""Regenerates MANIFEST.json from tools/propcfg.py (claimed properties) and properties.jsonl."""
import json, os, sys, subprocess
ROOT = os.path.dirname(os.path.dirname(os.path.abspath(__file__)))
sys.path.insert(0, os.path.join(ROOT, "tools"))
import propcfg
props = [json.loads(l)["id"] for l in open(os.path.join(ROOT, "properties.jsonl"))]
hooks = subprocess.run(["git", "-C", "/repo", "log", "--format=%h %s"], capture_output=True, text=True).stdout.splitlines()
hook_commits = [l.split()[0] for l in hooks if "verif hooks" in l]
checks = []
for pid in props:
    c = propcfg.PROPS.get(pid)
    if not c or c.get("unclaimed"):
        continue
    checks.append(dict(
        property_id=pid,
        quick_cmd=f"./check {pid} --tier quick",
        thorough_cmd=f"./check {pid} --tier thorough",
        evidence_file=f"/verif/evidence/{pid}.json",
        replay_cmd_template=f"./check {pid} --replay {{path}}",
        engine="lean-model+" + c.get("engine", "step-harness"),
        level_claimed=dict(category="proof", text=c["level_text"], design_ref=c.get("design_ref", "DESIGN.md section 8 " + pid)),
        level_note=c["level_note"],
        technique=c.get("technique", "Lean 4 theorems over a hand-written executable model + differential correspondence check against the Go implementation"
                        + ("; fact theorems over program facts regenerated from the source on every run" if pid in propcfg.FACT_PROPS else "")
                        + ("; equality theorems between the model and Lean definitions translated from the Go source on every run"
                           if any("GenTie" in m for m in c["lean_modules"]) else "")),
    ))
na = [dict(property_id=p, reason=propcfg.NOT_CLAIMED.get(p, "check not built yet (build round in progress)"))
      for p in props if p not in [c["property_id"] for c in checks]]
m = dict(
    version=1,
    setup_cmd="./setup.sh",
    hooks=dict(guard="verif", enable="go test -c -tags verif (harness module with replace => /repo)",
               baseline_off_cmd="cd /repo && go test -mod=mod -vet=off -count=1 -timeout 25m ./...",
               source_commits=hook_commits, add_only=True),
    engines=[
        dict(name="lean-model", path="lean/", serves_properties=[c["property_id"] for c in checks],
             kind_free_text="Lean 4 models, property theorems, core-only compiled line-protocol driver"),
        dict(name="go-harness", path="harness/", serves_properties=[c["property_id"] for c in checks],
             kind_free_text="Go test binary (tag verif) driving the real implementation; emits one line per case"),
        dict(name="fact-extractor", path="tools/extract/", serves_properties=propcfg.FACT_PROPS,
             kind_free_text="regenerates lean/Swim/Gen/Facts.lean (constants, call-site facts) from /repo on every run"),
    ],
    checks=checks,
    notes="All checks: ./check <id> --tier quick|thorough. VERIF_SEED seeds every generator. See DESIGN.md.",
    not_applicable=na,
)
json.dump(m, open(os.path.join(ROOT, "MANIFEST.json"), "w"), indent=1)
print("checks:", [c["property_id"] for c in checks], "unclaimed:", len(na))
