#!/bin/bash
# run_all.sh [quick|thorough]: run every claimed check on the current /repo tree (refreshes evidence/).
cd "$(dirname "$0")/.."
git -C /repo diff --quiet || { echo "/repo has uncommitted changes"; exit 2; }
tier=${1:-quick}
fail=0
for p in $(python3 -c "import json;print(' '.join(c['property_id'] for c in json.load(open('MANIFEST.json'))['checks']))"); do
  out=$(./check $p --tier $tier 2>&1); rc=$?
  echo "$(echo "$out" | grep -E '^\[' | tail -1) rc=$rc $(echo "$out" | grep -c '^VIOLATION') viol $(echo "$out" | grep -c '^KNOWN-FINDING') known"
  [ $rc -ne 0 ] && fail=1
done
exit $fail
