package main

// A deliberately tiny translator from Go to Lean for a fixed list of small integer functions of
// the package (no loops, no floats, no slices): the generated definitions are compared with the
// hand-written model by theorems (Swim/Props/GenTie.lean), so a change to one of these functions
// changes a definition the kernel re-checks on the next run.
//
// Supported subset: if / else-if / else, switch on an integer tag, return, :=, =, +=, -=, assignments
// to fields of the receiver, integer arithmetic (+ - * / %), comparisons, && || !, len(x), x == "",
// integer conversions, type assertions used as aliases, argument-less getters on the receiver (an input),
// panic (the result becomes an Option).
// Calls in statement position (locks, metrics, logging) are dropped and listed in `droppedCalls`.
// Go ints are translated to unbounded Int: overflow is outside this translation (trusted base).

import (
	"fmt"
	"go/ast"
	"go/token"
	"sort"
	"strings"
)

type trSpec struct{ group, file, name, lean string }

var trList = []trSpec{
	{"Codec", "security.go", "encryptOverhead", "encryptOverhead"},
	{"Codec", "security.go", "encryptedLength", "encryptedLength"},
	{"Codec", "label.go", "labelOverhead", "labelOverhead"},
	{"Codec", "net.go", "Memberlist.encryptionVersion", "encryptionVersion"},
	{"Acks", "awareness.go", "awareness.ApplyDelta", "applyDelta"},
	{"Acks", "awareness.go", "awareness.ScaleTimeout", "scaleTimeout"},
	{"Queue", "queue.go", "limitedBroadcast.Less", "bcastLess"},
	{"Keyring", "keyring.go", "ValidateKey", "validateKey"},
	{"State", "state.go", "nodeState.DeadOrLeft", "deadOrLeft"},
	// loops over the member list / the allow-list (existence test, count, filter)
	{"Lists", "memberlist.go", "Memberlist.anyAlive", "anyAlive"},
	{"Lists", "memberlist.go", "Memberlist.NumMembers", "numMembers"},
	{"Lists", "memberlist.go", "Memberlist.Members", "members"},
	{"Lists", "config.go", "Config.IPMustBeChecked", "ipMustBeChecked"},
	{"Lists", "config.go", "Config.IPAllowed", "ipAllowed"},
	{"Lists", "util.go", "randomOffset", "randomOffset"},
	// the exclusion rules handed to kRandomNodes (function literals, see closureDecls)
	{"Select", "state.go", "Memberlist.gossip/exclude", "gossipExclude"},
	{"Select", "state.go", "Memberlist.probeNode/exclude", "relayExclude"},
	{"Select", "state.go", "Memberlist.pushPull/exclude", "pushPullExclude"},
}

// closureDecls wraps the function literal passed as the last argument of the first call of `callee`
// inside each function declaration into a declaration of its own, keyed "<file>:<function>/exclude".
func closureDecls(decls map[string]*ast.FuncDecl, callee string) map[string]*ast.FuncDecl {
	out := map[string]*ast.FuncDecl{}
	for key, fd := range decls {
		ast.Inspect(fd.Body, func(n ast.Node) bool {
			ce, ok := n.(*ast.CallExpr)
			if !ok || len(ce.Args) == 0 {
				return true
			}
			if id, ok := ce.Fun.(*ast.Ident); !ok || id.Name != callee {
				return true
			}
			if lit, ok := ce.Args[len(ce.Args)-1].(*ast.FuncLit); ok {
				if _, dup := out[key+"/exclude"]; !dup {
					out[key+"/exclude"] = &ast.FuncDecl{Name: ast.NewIdent("exclude"), Type: lit.Type, Body: lit.Body}
				}
			}
			return true
		})
	}
	return out
}

// flat renders a chain of selectors a.b.c as a_b_c ("" when the expression is anything else).
func flat(e ast.Expr) string {
	switch x := e.(type) {
	case *ast.Ident:
		return x.Name
	case *ast.SelectorExpr:
		if b := flat(x.X); b != "" {
			return b + "_" + x.Sel.Name
		}
	}
	return ""
}

type translator struct {
	fset     *token.FileSet
	bound    map[string]bool     // variables in scope
	alias    map[string]string   // o -> than
	params   []string            // free variables in order of first use (become parameters)
	loopVar  string              // inside a range loop: the element variable
	loopList string              // ... and the list it ranges over
	lists    []string            // list parameters in order of first use
	feats    map[string][]string // list parameter -> features of an element, in order of first use
	seen     map[string]bool
	dropped  []string
	mutated  []string // receiver fields assigned, in order
	hasPan   bool
	resKind  string // "int" | "bool" | "err" | "state"
	err      error
}

func (t *translator) fail(f string, a ...any) string {
	if t.err == nil {
		t.err = fmt.Errorf(f, a...)
	}
	return "UNSUPPORTED"
}

// mentions reports whether the flattened name v has the loop variable as one of its components.
func mentions(v, lv string) bool {
	for _, part := range strings.Split(v, "_") {
		if part == lv {
			return true
		}
	}
	return false
}

func (t *translator) use(v string) string {
	if t.loopVar != "" && mentions(v, t.loopVar) {
		// a property of the element the loop is looking at: a component of the list parameter's elements
		for _, f := range t.feats[t.loopList] {
			if f == v {
				return v
			}
		}
		t.feats[t.loopList] = append(t.feats[t.loopList], v)
		return v
	}
	if !t.bound[v] && !t.seen[v] {
		t.seen[v] = true
		t.params = append(t.params, v)
	}
	return v
}

func (t *translator) sel(e *ast.SelectorExpr) string {
	if id, ok := e.X.(*ast.Ident); ok {
		base := id.Name
		if a, ok := t.alias[base]; ok {
			base = a
		}
		return t.use(base + "_" + e.Sel.Name)
	}
	if f := flat(e); f != "" {
		return t.use(f)
	}
	return t.fail("selector %s", exprStr(t.fset, e))
}

// intExpr translates an integer-valued expression.
func (t *translator) intExpr(e ast.Expr) string {
	switch x := e.(type) {
	case *ast.BasicLit:
		if x.Kind == token.INT {
			return "(" + x.Value + " : Int)"
		}
	case *ast.Ident:
		if t.bound[x.Name] {
			return x.Name
		}
		return "(c_" + x.Name + " : Int)" // a package constant, regenerated from the running code
	case *ast.SelectorExpr:
		return t.sel(x)
	case *ast.ParenExpr:
		return "(" + t.intExpr(x.X) + ")"
	case *ast.UnaryExpr:
		if x.Op == token.SUB {
			return "(-" + t.intExpr(x.X) + ")"
		}
	case *ast.BinaryExpr:
		a, b := t.intExpr(x.X), t.intExpr(x.Y)
		switch x.Op {
		case token.ADD:
			return "(" + a + " + " + b + ")"
		case token.SUB:
			return "(" + a + " - " + b + ")"
		case token.MUL:
			return "(" + a + " * " + b + ")"
		case token.QUO:
			return "(Int.tdiv " + a + " " + b + ")"
		case token.REM:
			return "(Int.tmod " + a + " " + b + ")"
		}
	case *ast.CallExpr:
		fn := exprStr(t.fset, x.Fun)
		if fn == "len" && len(x.Args) == 1 {
			if f := flat(x.Args[0]); f != "" {
				return t.use(f + "_len")
			}
		}
		if (fn == "int" || fn == "time.Duration" || fn == "int32" || fn == "int64" || fn == "uint32") && len(x.Args) == 1 {
			return t.intExpr(x.Args[0])
		}
		// time.Since(x.y): the age of a stamp, one more input of the function
		if fn == "time.Since" && len(x.Args) == 1 {
			if f := flat(x.Args[0]); f != "" {
				return t.use("since_" + f)
			}
		}
		// a getter on the receiver or a parameter, called without arguments: one more input of the function
		if se, ok := x.Fun.(*ast.SelectorExpr); ok && len(x.Args) == 0 {
			if _, ok := se.X.(*ast.Ident); ok {
				return t.sel(se)
			}
		}
	}
	return t.fail("integer expression %s", exprStr(t.fset, e))
}

// propExpr translates a condition to a decidable Prop.
func (t *translator) propExpr(e ast.Expr) string {
	switch x := e.(type) {
	case *ast.ParenExpr:
		return "(" + t.propExpr(x.X) + ")"
	case *ast.UnaryExpr:
		if x.Op == token.NOT {
			return "(¬ " + t.propExpr(x.X) + ")"
		}
	case *ast.CallExpr:
		// a Boolean method of a record, possibly applied to plain variables: one more flag input
		if se, ok := x.Fun.(*ast.SelectorExpr); ok {
			if f := flat(se); f != "" {
				okArgs := true
				for _, a := range x.Args {
					if fa := flat(a); fa != "" {
						f += "_" + fa
					} else {
						okArgs = false
					}
				}
				if okArgs {
					return "(" + t.use(f) + " ≠ 0)"
				}
			}
		}
	case *ast.Ident:
		if x.Name == "true" {
			return "True"
		}
		if x.Name == "false" {
			return "False"
		}
	case *ast.BinaryExpr:
		switch x.Op {
		case token.LAND:
			return "(" + t.propExpr(x.X) + " ∧ " + t.propExpr(x.Y) + ")"
		case token.LOR:
			return "(" + t.propExpr(x.X) + " ∨ " + t.propExpr(x.Y) + ")"
		}
		// x == "" / x != "" on a string parameter: its length is zero
		if lit, ok := x.Y.(*ast.BasicLit); ok && lit.Kind == token.STRING && lit.Value == `""` {
			if id, ok := x.X.(*ast.Ident); ok {
				l := t.use(id.Name + "_len")
				if x.Op == token.EQL {
					return "(" + l + " = 0)"
				}
				if x.Op == token.NEQ {
					return "(" + l + " ≠ 0)"
				}
			}
		}
		// equality of two name fields (strings): a flag input, non-zero when they are equal
		if x.Op == token.EQL || x.Op == token.NEQ {
			a, b := flat(x.X), flat(x.Y)
			if a != "" && b != "" && strings.HasSuffix(a, "_Name") && strings.HasSuffix(b, "_Name") {
				f := t.use("same_" + a + "_" + b)
				if x.Op == token.EQL {
					return "(" + f + " ≠ 0)"
				}
				return "(" + f + " = 0)"
			}
		}
		ops := map[token.Token]string{token.LSS: "<", token.GTR: ">", token.LEQ: "≤", token.GEQ: "≥", token.EQL: "=", token.NEQ: "≠"}
		if op, ok := ops[x.Op]; ok {
			return "(" + t.intExpr(x.X) + " " + op + " " + t.intExpr(x.Y) + ")"
		}
	}
	return t.fail("condition %s", exprStr(t.fset, e))
}

func (t *translator) ret(v string) string {
	if t.hasPan {
		return "some (" + v + ")"
	}
	return v
}

// stmts translates a statement list; k is the Lean expression for "fell off the end".
func (t *translator) stmts(list []ast.Stmt, k string) string {
	if len(list) == 0 {
		return k
	}
	s, rest := list[0], list[1:]
	switch x := s.(type) {
	case *ast.ReturnStmt:
		if len(x.Results) == 0 {
			return k
		}
		switch t.resKind {
		case "list":
			if id, ok := x.Results[0].(*ast.Ident); ok && t.bound[id.Name] {
				return t.ret(id.Name)
			}
			return t.fail("list result %s", exprStr(t.fset, x.Results[0]))
		case "bool":
			return t.ret("decide " + t.propExpr(x.Results[0]))
		case "err":
			if id, ok := x.Results[0].(*ast.Ident); ok && id.Name == "nil" {
				return t.ret("true")
			}
			return t.ret("false") // any non-nil error value
		default:
			return t.ret(t.intExpr(x.Results[0]))
		}
	case *ast.ExprStmt:
		if ce, ok := x.X.(*ast.CallExpr); ok {
			fn := exprStr(t.fset, ce.Fun)
			if fn == "panic" {
				return "none"
			}
			t.dropped = append(t.dropped, fn)
			return t.stmts(rest, k)
		}
	case *ast.AssignStmt:
		if len(x.Lhs) == 1 && len(x.Rhs) == 1 {
			// alias by type assertion: o := than.(*T)
			if ta, ok := x.Rhs[0].(*ast.TypeAssertExpr); ok {
				if l, ok := x.Lhs[0].(*ast.Ident); ok {
					if r, ok := ta.X.(*ast.Ident); ok {
						t.alias[l.Name] = r.Name
						return t.stmts(rest, k)
					}
				}
			}
			// acc := make([]T, 0, n): an empty accumulator
			if ce, ok := x.Rhs[0].(*ast.CallExpr); ok && exprStr(t.fset, ce.Fun) == "make" {
				if l, ok := x.Lhs[0].(*ast.Ident); ok {
					t.bound[l.Name] = true
					return "let " + l.Name + " := []\n  " + t.stmts(rest, k)
				}
			}
			var name string
			switch l := x.Lhs[0].(type) {
			case *ast.Ident:
				name = l.Name
			case *ast.SelectorExpr:
				name = t.sel(l)
				found := false
				for _, m := range t.mutated {
					found = found || m == name
				}
				if !found {
					t.mutated = append(t.mutated, name)
				}
			default:
				return t.fail("assignment target %s", exprStr(t.fset, x.Lhs[0]))
			}
			rhs := t.intExpr(x.Rhs[0])
			switch x.Tok {
			case token.ADD_ASSIGN:
				rhs = "(" + name + " + " + rhs + ")"
			case token.SUB_ASSIGN:
				rhs = "(" + name + " - " + rhs + ")"
			case token.DEFINE, token.ASSIGN:
			default:
				return t.fail("assignment operator %s", x.Tok)
			}
			if _, isIdent := x.Lhs[0].(*ast.Ident); isIdent {
				t.bound[name] = true
			}
			return "let " + name + " := " + rhs + "\n  " + t.stmts(rest, k)
		}
	case *ast.RangeStmt:
		return t.rangeStmt(x, rest, k)
	case *ast.DeferStmt:
		// deferred unlocks: dropped and listed, like calls in statement position
		t.dropped = append(t.dropped, "defer "+exprStr(t.fset, x.Call.Fun))
		return t.stmts(rest, k)
	case *ast.IfStmt:
		var pre []ast.Stmt
		if x.Init != nil {
			pre = []ast.Stmt{x.Init}
		}
		inner := &ast.IfStmt{Cond: x.Cond, Body: x.Body, Else: x.Else}
		if len(pre) > 0 {
			return t.stmts(append(pre, append([]ast.Stmt{inner}, rest...)...), k)
		}
		saved := t.snapshot()
		thenE := t.stmts(append(append([]ast.Stmt{}, x.Body.List...), rest...), k)
		t.restore(saved)
		var elseList []ast.Stmt
		switch e := x.Else.(type) {
		case *ast.BlockStmt:
			elseList = e.List
		case *ast.IfStmt:
			elseList = []ast.Stmt{e}
		}
		elseE := t.stmts(append(append([]ast.Stmt{}, elseList...), rest...), k)
		t.restore(saved)
		return "if " + t.propExpr(x.Cond) + " then\n  " + thenE + "\n  else\n  " + elseE
	case *ast.SwitchStmt:
		if x.Tag != nil && x.Init == nil {
			tag := t.intExpr(x.Tag)
			var def []ast.Stmt
			type arm struct {
				cond string
				body []ast.Stmt
			}
			var arms []arm
			for _, c := range x.Body.List {
				cc := c.(*ast.CaseClause)
				if cc.List == nil {
					def = cc.Body
					continue
				}
				var cs []string
				for _, v := range cc.List {
					cs = append(cs, "("+tag+" = "+t.intExpr(v)+")")
				}
				arms = append(arms, arm{strings.Join(cs, " ∨ "), cc.Body})
			}
			saved := t.snapshot()
			out := t.stmts(append(append([]ast.Stmt{}, def...), rest...), k)
			t.restore(saved)
			for i := len(arms) - 1; i >= 0; i-- {
				b := t.stmts(append(append([]ast.Stmt{}, arms[i].body...), rest...), k)
				t.restore(saved)
				out = "if " + arms[i].cond + " then\n  " + b + "\n  else\n  " + out
			}
			return out
		}
	}
	return t.fail("statement %s", strings.SplitN(exprStr(t.fset, s), "\n", 2)[0])
}

// rangeStmt translates `for _, v := range L { if c { ... } }` in its three supported shapes:
// return inside (an existence test), v++ inside (a count), acc = append(acc, ..v..) inside (a filter).
func (t *translator) rangeStmt(x *ast.RangeStmt, rest []ast.Stmt, k string) string {
	v, ok := x.Value.(*ast.Ident)
	L := flat(x.X)
	if !ok || L == "" || x.Tok != token.DEFINE || len(x.Body.List) != 1 {
		return t.fail("range loop %s", exprStr(t.fset, x.X))
	}
	if key, ok := x.Key.(*ast.Ident); x.Key != nil && (!ok || key.Name != "_") {
		return t.fail("range loop with an index")
	}
	ifs, ok := x.Body.List[0].(*ast.IfStmt)
	if !ok || ifs.Else != nil || ifs.Init != nil || len(ifs.Body.List) != 1 {
		return t.fail("range body %s", exprStr(t.fset, x.X))
	}
	known := false
	for _, l := range t.lists {
		known = known || l == L
	}
	if !known {
		t.lists = append(t.lists, L)
	}
	t.loopVar, t.loopList = v.Name, L
	cond := t.propExpr(ifs.Cond)
	t.loopVar, t.loopList = "", ""
	lam := func() string {
		fs := t.feats[L]
		switch len(fs) {
		case 0:
			return "(fun _ => decide " + cond + ")"
		case 1:
			return "(fun " + fs[0] + " => decide " + cond + ")"
		}
		return "(fun (" + strings.Join(fs, ", ") + ") => decide " + cond + ")"
	}
	switch b := ifs.Body.List[0].(type) {
	case *ast.ReturnStmt:
		saved := t.snapshot()
		thenE := t.stmts([]ast.Stmt{b}, k)
		t.restore(saved)
		elseE := t.stmts(rest, k)
		return "if " + L + ".any " + lam() + " then\n  " + thenE + "\n  else\n  " + elseE
	case *ast.IncDecStmt:
		if id, ok := b.X.(*ast.Ident); ok && b.Tok == token.INC && t.bound[id.Name] {
			return "let " + id.Name + " := " + id.Name + " + ((" + L + ".countP " + lam() + " : Nat) : Int)\n  " + t.stmts(rest, k)
		}
	case *ast.AssignStmt:
		if len(b.Lhs) == 1 && len(b.Rhs) == 1 {
			if id, ok := b.Lhs[0].(*ast.Ident); ok && t.bound[id.Name] {
				if ce, ok := b.Rhs[0].(*ast.CallExpr); ok && exprStr(t.fset, ce.Fun) == "append" && len(ce.Args) == 2 && exprStr(t.fset, ce.Args[0]) == id.Name &&
					strings.Contains(exprStr(t.fset, ce.Args[1]), v.Name) {
					return "let " + id.Name + " := " + id.Name + " ++ " + L + ".filter " + lam() + "\n  " + t.stmts(rest, k)
				}
			}
		}
	}
	return t.fail("range body %s", strings.SplitN(exprStr(t.fset, ifs.Body.List[0]), "\n", 2)[0])
}

func (t *translator) snapshot() map[string]bool {
	m := map[string]bool{}
	for k, v := range t.bound {
		m[k] = v
	}
	return m
}
func (t *translator) restore(m map[string]bool) {
	t.bound = map[string]bool{}
	for k, v := range m {
		t.bound[k] = v
	}
}

func containsPanic(n ast.Node) bool {
	found := false
	ast.Inspect(n, func(x ast.Node) bool {
		if ce, ok := x.(*ast.CallExpr); ok {
			if id, ok := ce.Fun.(*ast.Ident); ok && id.Name == "panic" {
				found = true
			}
		}
		return true
	})
	return found
}

// translateFuncs renders one generated Lean file per group of translated functions; each starts with a
// marker line `--==FILE <name>==` that the check driver splits on.
func translateFuncs(fset *token.FileSet, decls map[string]*ast.FuncDecl) string {
	var sb strings.Builder
	var groups []string
	for _, sp := range trList {
		if len(groups) == 0 || groups[len(groups)-1] != sp.group {
			groups = append(groups, sp.group)
		}
	}
	for _, g := range groups {
		fmt.Fprintf(&sb, "--==FILE Funcs%s==\n", g)
		sb.WriteString("import Swim.Gen.Facts\n")
		sb.WriteString("/- GENERATED on every check run: Go functions translated to Lean by tools/extract/translate.go (see its header for the subset). Do not edit. -/\n")
		fmt.Fprintf(&sb, "namespace Swim.GenF.%s\nopen Swim.Gen\n\n", g)
		var dropped []string
		for _, sp := range trList {
			if sp.group != g {
				continue
			}
			dropped = append(dropped, translateOne(&sb, fset, decls, sp)...)
		}
		sort.Strings(dropped)
		var ds []string
		for i, d := range dropped {
			if i == 0 || dropped[i-1] != d { // a statement after an if is translated once per branch
				ds = append(ds, q(d))
			}
		}
		fmt.Fprintf(&sb, "/-- calls in statement position that the translation dropped (locks, metrics) -/\ndef droppedCalls : List String := [%s]\n\n", strings.Join(ds, ", "))
		fmt.Fprintf(&sb, "end Swim.GenF.%s\n", g)
	}
	return sb.String()
}

func translateOne(sb *strings.Builder, fset *token.FileSet, decls map[string]*ast.FuncDecl, sp trSpec) []string {
	fd := decls[sp.file+":"+sp.name]
	if fd == nil {
		fmt.Fprintf(sb, "/-- %s: %s not found in the source -/\ndef %s_missing : Unit := ()\n\n", sp.file, sp.name, sp.lean)
		return nil
	}
	t := &translator{fset: fset, bound: map[string]bool{}, alias: map[string]string{}, seen: map[string]bool{}, feats: map[string][]string{}}
	t.hasPan = containsPanic(fd.Body)
	t.resKind = "state"
	if fd.Type.Results != nil && len(fd.Type.Results.List) == 1 {
		rt := exprStr(fset, fd.Type.Results.List[0].Type)
		switch {
		case rt == "bool":
			t.resKind = "bool"
		case rt == "error":
			t.resKind = "err"
		case strings.HasPrefix(rt, "[]"):
			t.resKind = "list"
		default:
			t.resKind = "int"
		}
	}
	// a named integer result starts at zero and is what a bare return hands back
	namedRes := ""
	if t.resKind == "int" && len(fd.Type.Results.List[0].Names) == 1 {
		namedRes = fd.Type.Results.List[0].Names[0].Name
		t.bound[namedRes] = true
	}
	// declared integer parameters are parameters of the Lean function, in order; everything else
	// (fields of the receiver and of other parameters, lengths) is added on first use
	var declared []string
	for _, f := range fd.Type.Params.List {
		ty := exprStr(fset, f.Type)
		if ty == "int" || ty == "int32" || ty == "uint32" || ty == "time.Duration" || ty == "encryptionVersion" {
			for _, n := range f.Names {
				declared = append(declared, n.Name)
				t.bound[n.Name] = true
			}
		}
	}
	body := t.stmts(fd.Body.List, "FALLTHROUGH")
	if namedRes != "" {
		body = "let " + namedRes + " := (0 : Int)\n  " + body
	}
	fall := "default"
	if namedRes != "" {
		fall = namedRes
	}
	if t.resKind == "state" {
		fall = strings.Join(t.mutated, ", ")
		if len(t.mutated) != 1 {
			fall = "(" + fall + ")"
		}
		if t.hasPan {
			fall = "some " + fall
		}
	} else if t.hasPan {
		fall = "none"
	}
	body = strings.ReplaceAll(body, "FALLTHROUGH", fall)
	if t.err != nil {
		fmt.Fprintf(sb, "/-- %s: %s could not be translated: %s -/\ndef %s_untranslated : Unit := ()\n\n", sp.file, sp.name, t.err, sp.lean)
		return nil
	}
	ps := append(append([]string{}, declared...), t.params...)
	ty := map[string]string{"int": "Int", "bool": "Bool", "err": "Bool", "state": "Int"}[t.resKind]
	elemTy := func(l string) string {
		n := len(t.feats[l])
		if n == 0 {
			return "Int"
		}
		return strings.TrimSuffix(strings.Repeat("Int × ", n), " × ")
	}
	if t.resKind == "list" && len(t.lists) > 0 {
		ty = "List (" + elemTy(t.lists[0]) + ")"
	}
	if t.resKind == "state" && len(t.mutated) != 1 {
		ty = strings.TrimSuffix(strings.Repeat("Int × ", len(t.mutated)), " × ")
	}
	if t.hasPan {
		ty = "Option (" + ty + ")"
	}
	sig := ""
	if len(ps) > 0 {
		sig = " (" + strings.Join(ps, " ") + " : Int)"
	}
	for _, l := range t.lists {
		sig += " (" + l + " : List (" + elemTy(l) + "))"
	}
	what := map[string]string{"err": "; result: the returned error is nil", "state": "; result: the receiver field(s) " + strings.Join(t.mutated, ", ") + " afterwards"}[t.resKind]
	fmt.Fprintf(sb, "/-- %s: %s%s -/\ndef %s%s : %s :=\n  %s\n\n", sp.file, sp.name, what, sp.lean, sig, ty, body)
	var dropped []string
	for _, d := range t.dropped {
		dropped = append(dropped, sp.name+": "+d)
	}
	return dropped
}
