#!/bin/bash
# lk.sh <lake targets...>: under the lock of ./check, regenerate lean/Swim/Gen from /repo and build the targets
# (manual builds while checks run in the background must not race with their regenerated files).
cd "$(dirname "$0")/.."
mkdir -p work
exec 9>work/.lock
flock 9
( cd tools/extract && cp /repo/go.sum . && GOFLAGS=-mod=mod GOPROXY=off VERIF_REPO=/repo go run -tags verif . > ../../work/ext.out ) || exit 1
python3 - <<'PY'
import re
out=open('work/ext.out').read()
parts = re.split(r"^--==FILE (\w+)==\n", out, flags=re.M)
files = {"Facts": parts[0]}
for i in range(1, len(parts) - 1, 2):
    files[parts[i]] = parts[i + 1]
for n,t in files.items():
    p=f'lean/Swim/Gen/{n}.lean'
    try: old=open(p).read()
    except FileNotFoundError: old=None
    if old!=t: open(p,'w').write(t)
PY
cd lean && lake build "$@" 2>&1 | grep -v '^⚠\|^✔'
