"""Per-property configuration of ./check (what to build, which harness tests, trusted base text)."""

COMMON_TB = [
    "Lean 4.33.0 kernel; axioms per theorem as printed by `#print axioms` (subset of propext, Classical.choice, Quot.sound)",
    "hand-written Lean model = Go code on inputs the correspondence run did not sample",
    "Go harness, Lean driver line parser, tools/extract, ./check",
]

NOT_CLAIMED = {}
FACT_PROPS = ["C03", "C04", "C06", "C07", "C08", "C10", "C11", "C12", "C13", "C15", "C16", "C17", "C19", "C20"]

PROPS = {
    "C17": dict(
        lean_modules=["Swim.Props.C17", "Swim.Props.GenTie.Keyring"],
        tests="^TestC17$",
        rule=("random NewKeyring + call sequences (1-24 calls over a pool of valid/invalid/duplicate/absent/primary keys) "
              "and random barrier-respecting rotation interleavings (2-6 nodes, with duplicate steps); "
              "non-trivial = the model ring changed at least twice in the sequence / a full rotation run; "
              "distinct = distinct canonical lines"),
        trusted_base=COMMON_TB + ["crypto/aes, crypto/cipher (AES-GCM) for the pairwise seal/open leg of rotation runs"],
        assumptions=["keyring mutex serialises concurrent calls (Go sync.Mutex); concurrency with encrypt/decrypt is not modelled"],
        level_text=("Proof: Lean theorems (ring invariant over every call sequence, primary stability, refusal cases, "
                    "rotation safety for every cluster size and barrier-respecting interleaving) about a model of keyring.go, "
                    "tied to the code by a differential run of the real Keyring (and real AES-GCM seal/open for rotation)."),
        level_note="Trusted: Lean kernel; model=code beyond sampled call sequences; harness/driver; Go mutex semantics (concurrent calls are serialised by Keyring.l, not modelled).",
        explanation="Theorems: ring invariant over all call sequences, primary stability, refusal cases, rotation safety for every cluster size and interleaving; tie: differential run of the real Keyring against the model.",
    ),
    "C10": dict(
        lean_modules=["Swim.Props.C10", "Swim.Props.C10Prefer", "Swim.Props.GenTie.Queue", "Swim.Props.Scale"],
        tests="^TestC10$",
        rule=("random sequences of 1-40 QueueBroadcast (named incl. empty name / unique / plain with subjects; sizes 0-40 incl. equal) / "
              "GetBroadcasts (overhead -1..3, limit -5..1400) / Prune (-1..5) / Reset / NumQueued with changing NumNodes and RetransmitMult 0-8, "
              "tree snapshot after every call; plus retransmitLimit(mult,n) against mult*digits(n) around powers of ten; "
              "non-trivial = a sequence with at least one retrieval that returned two or more messages; distinct = distinct canonical lines"),
        trusted_base=COMMON_TB + ["google/btree modelled as a duplicate-free list with Less-minimum selection",
                                  "math.Log10/Ceil in retransmitLimit (compared with mult*digits(n) on sampled n, not proved)"],
        assumptions=["ids and transmit counters do not wrap (int64)", "queue mutex serialises calls"],
        level_text=("Proof: Lean theorems for every operation sequence (ids unique, one broadcast per name, conservation = no silent loss and "
                    "exactly-once completion, get_fits, limit_exact, Less-least selection; C10_get_prefers: over the whole walk of one retrieval, at every hand-out the item is the Less-least of its tier that fits and no less-transmitted item that still fits is waiting; C10_out_sorted) about a model of queue.go, tied to the code by a "
                    "differential run with a tree snapshot after every call."),
        level_note="Trusted: Lean kernel; model=code beyond sampled sequences; btree semantics; float log10 in retransmitLimit; harness/driver.",
        explanation="conservation/invariants by induction over operation lists; get loop by a fuel-indexed induction principle",
    ),
    "C01": dict(
        lean_modules=["Swim.Lemmas.Merge", "Swim.Props.C01", 'Swim.Model.Cluster', 'Swim.Props.Cluster', 'Swim.Props.Projection'],
        tests="^TestC01$",
        shards_quick=8,
        rule='exhaustive table: prior view of n1 (absent/alive/suspect/dead/left x inc 1-3 x aged x timer full) x claim (alive/suspect x2/dead/self-signed dead/push-pull entry in 4 states) x inc 0-4 x address same/other/disallowed/v4-mapped x metadata x version vector x reclaim x allow-list, each executed on a real Memberlist; plus random histories of 1-30 operations; non-trivial = history with at least 3 operations that had an observable effect; distinct = distinct canonical lines',
        trusted_base=COMMON_TB + ["addresses/metadata abstracted to codes (distinct byte strings = distinct codes, checked by the harness pool)",
                                  "time abstracted to recent/long-ago classes; Go monotonic clock gives distinct change stamps",
                                  "net.IPNet.Contains as the allow-list predicate; go-msgpack for decoding queued broadcasts in the hook"],
        assumptions=["calls are serialised by nodeLock (no concurrency in the model)", "incarnations below 2^32-1 where stated"],
        level_text='Proof: Lean theorems over the merge-rule model (frame, forward in the precedence order, stale claims are no-ops, regression only by legitimate takeover; per alive/suspect/dead claim, push/pull entries and the timer callback); C01_history: by induction over every operation sequence the view of any other member only moves forward except at a named takeover/reap step; C01_cluster_forward: the same for every node of every history of the cluster model (projection theorem: a cluster history restricted to one node is a single-node history). Tied to state.go by an exhaustive small-scope table plus random histories run on the real aliveNode/suspectNode/deadNode/mergeState.',
        level_note='Trusted: Lean kernel; model = code outside the enumerated scope; abstraction of addresses/metadata/time to codes and classes; harness/driver.',
        engine="step-harness",
    ),
    "C02": dict(
        lean_modules=["Swim.Lemmas.Merge", "Swim.Props.C02", 'Swim.Model.Cluster', 'Swim.Props.Cluster', 'Swim.Props.ClusterG', 'Swim.Props.C02Cluster', 'Swim.Props.Projection'],
        tests="^TestC02$",
        shards_quick=8,
        rule='table with the local node as target (own incarnation 1-3, left or not) x the same claim dimensions as C01, plus random histories in which 70% of the claims are about the local node incl. far-ahead and 2^32-2 / 2^32-1 incarnations; non-trivial/distinct as C01',
        trusted_base=COMMON_TB + ["addresses/metadata abstracted to codes (distinct byte strings = distinct codes, checked by the harness pool)",
                                  "time abstracted to recent/long-ago classes; Go monotonic clock gives distinct change stamps",
                                  "net.IPNet.Contains as the allow-list predicate; go-msgpack for decoding queued broadcasts in the hook"],
        assumptions=["calls are serialised by nodeLock (no concurrency in the model)", "incarnations below 2^32-1 where stated", "cluster-level theorems: restart-free histories of the cluster model (network = monotone pool of claims delivered in any order/multiplicity, push/pull entry-wise, timing and target selection free); fewer than 2^32 steps"],
        level_text='Proof: refuteInc is strictly above every accusation below 2^32-1 (uint32 arithmetic, wrap witness at the excluded point); suspect/dead/alive accusations against the running local node yield a refutation (incarnation above the claim, record carries it, one alive broadcast, score+1); C02_history: the local record stays alive over every operation sequence. Cluster level (C02_cluster_bounded, C02_cluster_defends): in every history of the cluster model - any number of nodes, lossy/reordering/duplicating network, failed probes, timeouts, joins, updates, leaves - no record or claim about a member ever exceeds the incarnation the member itself reached, so the counter side conditions hold in every reachable state and a running node refutes every accusation that can reach it (induction over cluster histories). Lean theorems over the model, tied by table + histories on the real code (state, effects and claim content).',
        level_note="Trusted: as C01. Interpretation: an alive claim about the local node counts only if it passes the admission filters (version sanity, alive delegate, allow-list) and names the node's own address; a different address is the hijack clause of C08.",
        engine="step-harness",
    ),
    "C07": dict(
        lean_modules=["Swim.Lemmas.Merge", "Swim.Props.C07", 'Swim.Model.Cluster', 'Swim.Props.Cluster', 'Swim.Props.Projection', "Swim.Props.GenTie.State", "Swim.Props.GenTie.Lists"],
        tests="^TestC07$",
        shards_quick=8,
        rule='random histories of 1-40 operations of every kind (claims, merges, timer callbacks incl. stale ones, reaping, UpdateNode, Leave, ageing); the event log of every step is replayed on the Members() view before the step and compared with Members() after it (names, address, metadata); non-trivial/distinct as C01',
        trusted_base=COMMON_TB + ["addresses/metadata abstracted to codes (distinct byte strings = distinct codes, checked by the harness pool)",
                                  "time abstracted to recent/long-ago classes; Go monotonic clock gives distinct change stamps",
                                  "net.IPNet.Contains as the allow-list predicate; go-msgpack for decoding queued broadcasts in the hook"],
        assumptions=["calls are serialised by nodeLock (no concurrency in the model)", "incarnations below 2^32-1 where stated"],
        level_text='Proof: C07_history - over every operation sequence of the model (claims by every path, merges, timer expiries, reaping, UpdateNode, Leave) replaying the event log on the initially listed set yields exactly the finally listed set (induction, invariant: unique names + own record present); C07_cluster_sync: the same for the log of every node of every cluster history (projection). Event/Members() synchronisation is also evaluated on the implementation for every step of every generated history, and the model agrees with the implementation on every step. Serialisation of callbacks is a structural fact (Notify* only under nodeLock) checked by the fact extractor and a concurrent-callback probe.',
        level_note="Trusted: as C01; Go's sync.RWMutex for non-concurrency of callbacks.",
        engine="step-harness",
    ),
    "C08": dict(
        lean_modules=["Swim.Lemmas.Merge", "Swim.Props.C08", 'Swim.Model.Cluster', 'Swim.Props.Cluster', 'Swim.Props.ClusterG', 'Swim.Props.C08Cluster', 'Swim.Props.Projection', 'Swim.Props.C03Cluster', 'Swim.Props.C04Cluster', 'Swim.Props.C08Final', "Swim.Model.Select", "Swim.Props.Select", "Swim.Props.GenTie.Select", "Swim.Props.GenTie.Lists"],
        tests="^TestC08(Sim)?$",
        shards_quick=8,
        rule='the C01 table (address same/other/disallowed/v4-mapped x prior state x aged x reclaim) judged by the hijack/reuse/departure predicate, plus random histories with Leave; non-trivial/distinct as C01 (sel) member selection: moveDeadNodes on lists of 0-40 records with ages at and around the window, kRandomNodes (k 0-6, list lengths around 3k, random exclusion sets) on a seeded generator - the draws of randomOffset and the permutation of shuffleNodes are observed first, then the generator is reseeded - both compared exactly (order and index) with Swim/Model/Select.lean; the members a real node addresses in gossip(), pushPull() and the indirect-ping round of probeNode() (records alive/suspect/dead/left, ages at the gossip-to-the-dead window) judged by the conclusions of the selection theorems under the model\'s exclusion rule',
        trusted_base=COMMON_TB + ["addresses/metadata abstracted to codes (distinct byte strings = distinct codes, checked by the harness pool)",
                                  "time abstracted to recent/long-ago classes; Go monotonic clock gives distinct change stamps",
                                  "net.IPNet.Contains as the allow-list predicate; go-msgpack for decoding queued broadcasts in the hook"],
        assumptions=["calls are serialised by nodeLock (no concurrency in the model)", "incarnations below 2^32-1 where stated", "cluster-level theorems: restart-free histories of the cluster model (network = monotone pool of claims delivered in any order/multiplicity, push/pull entry-wise, timing and target selection free); fewer than 2^32 steps"],
        level_text="Proof (partial): conflict keeps the address and fires the callback, reclaim rules, departure recorded as left, no resurrection by alive claims no newer than the departure; cluster level (C08_cluster_left_is_left): in every history of the cluster model a member is recorded as left by anybody, or announced as departed on the network, only if it called Leave - C08_cluster_leave_final: once a member has left and a peer holds it as left at the member's own incarnation, every further cluster history without the reaper at that peer keeps it left (no alive claim in the system is newer than the departure, and all carry the member's own address); C08_cluster_leaver_stays_gone: the leaver never holds itself alive again - Lean theorems over the model tied by table + histories. The 'Leave returned nil so a peer was sent the departure' clause is covered by the simulator leg. Member selection (Props/Select): moveDeadNodes is a permutation that splits exactly at the returned index and refines the filter of the probe-cursor model; kRandomNodes returns at most k distinct admissible members for every shuffle and every sequence of draws and is exhaustive on lists shorter than 3k; the exclusion rules of gossip/probeNode/pushPull are translated from the source on every run and proved equal to the model's (GenTie/Select), and the call sites of both helpers are a regenerated fact (reaping uses GossipToTheDeadTime).",
        level_note='Trusted: as C01. Known findings: second Leave after a timed-out Leave returns nil without sending; tombstone expiry allows resurrection (protocol design).',
        engine="step-harness",
    ),
    "C18": dict(
        lean_modules=["Swim.Lemmas.Merge", "Swim.Props.C18", 'Swim.Model.Cluster', 'Swim.Props.Cluster', 'Swim.Props.Projection', "Swim.Props.Handoff", "Swim.Props.C18Parse", "Swim.Props.GenTie.Lists"],
        tests="^TestC18$",
        shards_quick=8,
        rule='random histories with the allow-list on (10.0.0.0/8, fd00::/8) and half of the claimed addresses drawn from outside / malformed / IPv6 / v4-mapped classes, over direct alive claims, push/pull entries, address changes and name reclaims; every record and join event after every step must carry an allowed address; non-trivial/distinct as C01',
        trusted_base=COMMON_TB + ["addresses/metadata abstracted to codes (distinct byte strings = distinct codes, checked by the harness pool)",
                                  "time abstracted to recent/long-ago classes; Go monotonic clock gives distinct change stamps",
                                  "net.IPNet.Contains as the allow-list predicate; go-msgpack for decoding queued broadcasts in the hook"],
        assumptions=["calls are serialised by nodeLock (no concurrency in the model)", "incarnations below 2^32-1 where stated"],
        level_text='Proof: allowed-address invariant of the record table over the merge-rule model for an arbitrary allow predicate, for every operation sequence (C18_history) and for every node of every cluster history (C18_cluster_allowed, by projection); tied by histories on the real code with real net.IPNet lists; the UDP source gate (handleAlive) is exercised by the packet harness leg.',
        level_note='Trusted: as C01; net.IPNet.Contains.',
        engine="step-harness",
    ),
    "C11": dict(
        lean_modules=['Swim.Model.Codec', 'Swim.Props.C11', "Swim.Props.GenTie.Codec"],
        tests="^TestC11$",
        rule='three families: (cmp) makeCompoundMessages/decode on generated message lists of 0-600 parts incl. 254-257 and 64 KiB boundary sizes, compared byte-exactly (length+digest) with the model; (dec) decodeCompoundMessage on truncated/mutated/random input compared byte-exactly; (pkt) a real sender packs its membership queue and user-delegate queue (0-80 membership, 0-700 tiny user messages) through gossip() or sendMsg() under random UDPBufferSize/label/encryption version/compression/peer protocol version, the packets are measured and fed to a real receiver; non-trivial = more than one part; distinct = distinct canonical lines',
        trusted_base=COMMON_TB + ["compression (compress/lzw), AES-GCM and CRC-32 are opaque primitives: laws as theorem hypotheses, behaviour exercised end to end by the harness",
                                  "go-msgpack: the encoder of the twelve wire structs is modelled byte for byte (compared on every run), the decoder by a strict model compared with the real decoder wherever the model accepts; what the real, more liberal decoder does with other encodings is not modelled",
                                  "regenerated constants in lean/Swim/Gen/Facts.lean (tools/extract runs the verif-tagged accessor)"],
        assumptions=["messages packed into packets are shorter than 64 KiB (UDPBufferSize <= 65535)"],
        level_text='Proof: compound round-trip for <=255 parts and for any count through makeCompoundMessages, and packet_fits for gossip() and sendMsg() budgets over every label/encryption/checksum setting (Lean, constants regenerated from the code); tied by byte-exact compound correspondence and end-to-end packing runs on the real code (measured wire length <= UDPBufferSize, receiver gets exactly the picked messages).',
        level_note='Trusted: Lean kernel; budget arithmetic of gossip()/sendMsg()/getBroadcasts() modelled by hand and compared with the real selection on every run; compression only ever shrinks the payload (checked: the code keeps the original otherwise); user delegate honours the limit it is given.',
        engine="codec-harness",
    ),
    "C12": dict(
        lean_modules=['Swim.Model.Codec', 'Swim.Props.C11', 'Swim.Props.C16', 'Swim.Props.C12', "Swim.Props.GenTie.Codec", "Swim.Model.Msgpack", "Swim.Props.Msgpack", "Swim.Props.C12Wire"],
        tests="^TestC12$",
        rule='(mp) one random message of one of the twelve wire structs (boundary widths 127/128, 255/256, 65535/65536, 2^31, 2^32-1, 2^63-1; nil / empty / 31-32-255-256-65535-65536 byte strings; omitempty fields empty or not) through the real encode() and decode(): the model encoder must produce the same bytes, the model decoder the same fields, and on one mutated copy (bit flip, byte replaced, truncation) the real decoder must agree with the model decoder whenever the latter accepts; (rt) round trips on real sender/receiver pairs: best-effort user message (packet path), reliable user message (stream path, random fragmentation, up to 73 KB), and a full join (both directions of push/pull over an in-memory duplex stream with user state) under random label 0-255 / encryption none,v0,v1 / key size / compression / checksum; payload sizes around the 16-byte block boundaries, first payload byte drawn from the marker values; non-trivial = payload of at least 16 bytes',
        trusted_base=COMMON_TB + ["compression (compress/lzw), AES-GCM, CRC-32 and go-msgpack are opaque primitives: laws as theorem hypotheses, behaviour exercised end to end by the harness",
                                  "regenerated constants in lean/Swim/Gen/Facts.lean (tools/extract runs the verif-tagged accessor)"],
        assumptions=["messages packed into packets are shorter than 64 KiB (UDPBufferSize <= 65535)"],
        level_text='Proof: PKCS7, label and compound layers byte-exact; msgpack round trip and injectivity of every wire struct (schema-driven model, one induction over the field list); packet_roundtrip over abstract compression/AEAD/checksum primitives with their laws as hypotheses, for every emitted message type (fact theorem), label, key, nonce, compression decision, checksum setting and encryption version; tied by end-to-end round trips through the real send and receive functions.',
        level_note='Trusted: Lean kernel; lzw, AES-GCM, CRC-32 (laws assumed, exercised); msgpack: C12_msgpack_roundtrip / C12_msgpack_injective hold for the modelled encoder and strict decoder of the twelve wire structs (non-negative ints, lengths below 2^32, omitempty fields canonical); the stream path is proved through its shared layers (label, AEAD, compression) and the struct headers, the concatenation of node states behind a push/pull header is exercised, not modelled.',
        engine="codec-harness",
    ),
    "C16": dict(
        lean_modules=['Swim.Model.Codec', 'Swim.Props.C16'],
        tests="^TestC16$",
        rule='(lbl) AddLabelHeaderToPacket then RemoveLabelHeaderFromPacket for label lengths 0,1,2,7,254,255,256,300 x payloads incl. empty and marker-first, byte-exact against the model; (rm) RemoveLabelHeaderFromPacket and ...FromStream (random fragmentation) on hostile bytes, compared with the model and with each other; (gate) sender label x receiver label (empty, equal, prefix/extension, 255-byte differing in the last byte) x SkipInboundLabelCheck x encryption x path (packet user message, ping, reliable stream) on real nodes: acted/replied must match the gate; non-trivial = a label is involved',
        trusted_base=COMMON_TB + ["compression (compress/lzw), AES-GCM, CRC-32 and go-msgpack are opaque primitives: laws as theorem hypotheses, behaviour exercised end to end by the harness",
                                  "regenerated constants in lean/Swim/Gen/Facts.lean (tools/extract runs the verif-tagged accessor)"],
        assumptions=["messages packed into packets are shorter than 64 KiB (UDPBufferSize <= 65535)"],
        level_text='Proof: label add/remove round-trip for every label of 1-255 bytes and every payload, accept-iff-equal gate, double-header rejection, receiver always continues with its own label as AAD (Lean); fact theorems on the message numbering; tied byte-exactly on packets and fragmented streams and by gate runs on real nodes.',
        level_note='Trusted: Lean kernel; bufio.Reader.Peek returns the same prefix whatever the fragmentation (exercised by the fragmentation campaign).',
        engine="codec-harness",
    ),
    "C13": dict(
        lean_modules=["Swim.Model.Ingest", "Swim.Props.C13", "Swim.Model.Msgpack", "Swim.Props.Msgpack", "Swim.Props.Handoff", "Swim.Model.Acks", "Swim.Props.C19"],
        tests="^TestC13$",
        shards_quick=4,
        rule=("(pkt) random framing trees on the plaintext packet path (compound nesting to depth 4, user / unsupported / undecodable leaves, "
              "checksum header right or wrong, label header own / foreign / malformed, then truncation or bit flip), delivered user payloads compared "
              "with the model's leaf list; (mut) every truncation and three bit patterns per byte of genuine ping/ack/suspect/dead/alive/user/compound "
              "packets under random label/encryption/compression, inputs whose leaf no longer decodes (or whose ciphertext is altered) must be inert; "
              "(str) every cut point plus 60 bit flips of genuine user / push-pull / ping streams through handleConn with random fragmentation, "
              "goroutine and connection accounting; (caps) declared sizes beyond every documented cap incl. 2^31, 2^32+k, negative, and a flooded "
              "handoff queue; non-trivial = a campaign of at least 50 inputs or a tree delivering 2+ messages"),
        trusted_base=COMMON_TB + ["go-msgpack and compress/lzw decoders return errors instead of panicking (exercised by the mutation campaign, not proved)",
                                  "hash/crc32 (re-implemented in the driver for the comparison)", "runtime.MemStats.TotalAlloc as the measure of buffering"],
        assumptions=["AEAD is abstract in the model: any function may stand for crypto/cipher's Open"],
        level_text=("Proof (partial): no-panic of the whole packet path (label removal, gate, decryptPayload with PKCS7, checksum, command dispatch with "
                    "arbitrary compound nesting) for every byte string and configuration, with Go's slice/index panics modelled explicitly; termination of "
                    "compound recursion; drops have no effect (Lean). Tied by a byte-exact framing correspondence and mutation / cut-point / cap campaigns "
                    "on the real code."),
        level_note=("Partial: panics inside go-msgpack/lzw, hangs, goroutine or connection leaks and the cap checks on the stream path are observed by the "
                    "harness (every cut point, oversize declarations), not proved; nesting of compressMsg layers is bounded only by the decompression cap."),
        engine="codec-harness",
    ),
    "C14": dict(
        lean_modules=["Swim.Model.Ingest", "Swim.Props.C13", "Swim.Props.C14"],
        tests="^TestC14$",
        shards_quick=6,
        rule=("genuine user messages sealed under the receiver's primary or secondary key, a foreign key, a removed key, another label (re-headed), or "
              "not sealed at all, encryption version 0 and 1, packet and stream path; for each: every bit of the version byte, every bit of nonce, tag, "
              "label header and stream prefix, every bit (short) or one bit per byte (long) of the body, every truncation, extensions; the receiver's "
              "delegate, membership and replies are observed after each input; non-trivial = at least 100 mutations of one ciphertext"),
        trusted_base=COMMON_TB + ["AES-GCM ciphertext integrity (the hypothesis `Integrity` of C14_accept_genuine), sampled by the mutation campaign"],
        assumptions=["GossipVerifyIncoming is on", "keys not known to the adversary"],
        level_text=("Proof (partial): decryptPayload returns a plaintext only if an installed key opens the carried nonce/body under the receiver's own "
                    "associated data; under the AEAD integrity hypothesis this is a genuine sealing; plaintext exact when the version byte is unchanged; "
                    "rejection when no installed key opens (Lean, symbolic AEAD). Tied by a bit-level mutation campaign on real ciphertexts."),
        level_note=("Known finding C14-version-byte: the version byte is outside the authenticated data (witness theorem C14_version_flip_witness, "
                    "reproduced on the real code by every run). AES-GCM integrity is assumed, not proved."),
        engine="codec-harness",
    ),
    "C06": dict(
        lean_modules=["Swim.Model.Susp", "Swim.Lemmas.Merge", "Swim.Props.C06", 'Swim.Gen.Facts', 'Swim.Props.C06Facts', 'Swim.Props.C06History', 'Swim.Model.Cluster', 'Swim.Props.Cluster', 'Swim.Props.Projection', 'Swim.Props.C06Cluster', "Swim.Props.Scale", "Swim.Props.GenTie.Lists", "Swim.Model.Acks", "Swim.Props.C19"],
        tests="^TestC06$",
        rule=("(susp) timed confirmation scripts on the real suspicion timer in virtual time (testing/synctest): k in {0,1,2,3,4,6}, minimum timeouts "
              "incl. values that are not whole milliseconds, max = 1,2,6 x min, up to 8 confirmations from 7 names incl. the accuser and duplicates at "
              "delays before, around and after the would-be deadline; the timeout table is read from remainingSuspicionTime and checked against the "
              "schedule hypotheses, firing instant compared exactly with the model; (hist) node-level histories of suspect / refute / re-suspect / "
              "departure / name reuse / stale timer callbacks; non-trivial = at least one accepted confirmation or 3 effective operations"),
        trusted_base=COMMON_TB + ["math.Log / math.Floor in remainingSuspicionTime: the table for the run's (k,min,max) is an input whose required shape "
                                  "(bounded, minimum at k, non-increasing) is checked on every run, not proved",
                                  "Go timers in a synctest bubble fire at their deadline; Stop reports whether it prevented the firing"],
        assumptions=["state changes carry distinct change times (monotonic clock)"],
        level_text=("Proof: for every timed sequence of confirmations the timer fires within [start+min, start+max], each distinct confirmer counts once, "
                    "the accuser never, nothing after k, an accepted confirmation re-arms to exactly start+tmo(n) or fires at once, k=0 uses the minimum "
                    "from the start; a stale timer callback is harmless (Lean, under the schedule hypotheses). Tied by exact virtual-time comparison of "
                    "the real timer with the model and by node-level histories."),
        level_note="Trusted: Lean kernel; float evaluation of the schedule (checked per run); Go timer semantics under synctest.",
        engine="step-harness+synctest",
    ),
    "C09": dict(
        lean_modules=["Swim.Model.Verify", "Swim.Lemmas.Merge", "Swim.Props.C09", 'Swim.Model.Cluster', 'Swim.Props.Cluster', 'Swim.Props.ClusterG', 'Swim.Props.Projection', 'Swim.Props.C05Recover', 'Swim.Props.C09Cluster', "Swim.Model.Msgpack", "Swim.Props.Msgpack", "Swim.Model.Codec", "Swim.Props.C16", "Swim.Lemmas.Merge", "Swim.Props.C06"],
        tests="^TestC09$",
        shards_quick=4,
        rule=("(vp) verifyProtocol on local tables of 1-4 records (alive/suspect/dead, admitted version vectors or none) against remote lists of 0-3 "
              "entries in every state with boundary-biased 6-tuples {0,1,2,3,5,255}, short vectors and a near-compatible half; (adm) mergeRemoteState "
              "with version errors and merge-delegate vetoes: nothing may change; (join) a real Join over an in-memory duplex stream between a host "
              "with a random history and a joiner, both post-states compared with the model's mergeState of the other side's pre-state; (cut) request "
              "and response of a push/pull cut at every byte under random label/encryption/compression; (cap) an encrypted envelope just over the 20 MiB "
              "cap with a complete body; non-trivial = multi-entry tables / successful joins with 3+ records"),
        trusted_base=COMMON_TB + ["go-msgpack stream decoding of the push/pull state (exercised at every cut point, not modelled)", "net.Pipe"],
        assumptions=["join exchanges are not concurrent with other state changes on the two nodes (concurrent gossip is the simulator's leg)"],
        level_text=("Proof: verifyProtocol soundness (acceptance implies every listed node's spoken versions lie within every alive node's understood "
                    "range, both sides), admission order (version error / veto before any merge), hearsay never kills, reported-alive members are listed "
                    "after the merge; C09_cluster_join_lists: in every reachable state of the cluster model a running node's own state entry, delivered to any node whose filters pass it, leaves that node listing the sender - whether it was unknown, held older in any state, or already listed - the address condition being an invariant (Lean). Tied by table correspondence of verifyProtocol, full joins compared with the model on both nodes, and "
                    "cut-at-every-byte / oversize campaigns on the real stream code; C09_pushpull_framing_roundtrip: the framing of the state exchange "
                    "(header, node states back to back, user state) is parsed back to the same content and the parser stops at its end (msgpack model, "
                    "tied to the stream a real node writes for a Join)."),
        level_note="Trusted: Lean kernel; TCP behaviour and the real decoder on non-canonical encodings are exercised, not proved (all-or-nothing at byte level is an enumeration).",
        engine="step-harness+codec-harness",
    ),
    "C19": dict(
        lean_modules=["Swim.Model.Acks", "Swim.Props.C19", 'Swim.Model.Handlers', 'Swim.Props.C19Table', "Swim.Props.GenTie.Acks", "Swim.Model.Select", "Swim.Props.Select", "Swim.Props.GenTie.Select", "Swim.Props.C04Facts"],
        tests="^TestC19$",
        rule=("virtual-time scripts (testing/synctest) on a real node with a capturing transport: (probe) probeNode against a target with 0-4 relays "
              "of mixed protocol versions, IndirectChecks 0/1/3, initial health score 0-3, AwarenessMaxMultiplier 1/2/8, TCP fallback off / refused / "
              "answering / answering with a wrong sequence number, and up to 5 injected acks and nacks with own or foreign sequence numbers placed before "
              "the probe timeout, before the deadline, 1-3 ms either side of the deadline and long after; (relay) handleIndirectPing with the target's "
              "ack in time / late / foreign / duplicated / absent, nack requested or not; (score) random delta sequences; non-trivial = 2+ injected events (sel) member selection: moveDeadNodes on lists of 0-40 records with ages at and around the window, kRandomNodes (k 0-6, list lengths around 3k, random exclusion sets) on a seeded generator - the draws of randomOffset and the permutation of shuffleNodes are observed first, then the generator is reseeded - both compared exactly (order and index) with Swim/Model/Select.lean; the members a real node addresses in gossip(), pushPull() and the indirect-ping round of probeNode() (records alive/suspect/dead/left, ages at the gossip-to-the-dead window) judged by the conclusions of the selection theorems under the model's exclusion rule"),
        trusted_base=COMMON_TB + ["Go timers and channels under testing/synctest; events at exactly equal instants are avoided by the generator",
                                  "kRandomNodes' choice of relays is observed (expected nacks are counted from the indirect pings actually sent)"],
        assumptions=["processing time is zero in virtual time", "the window between map insertion and timer assignment in setAckHandler is below the model's granularity"],
        level_text=("Proof (partial on timing): answered-iff-own-ack-before-deadline, foreign/late acks and nacks are no-ops, score always within "
                    "[0,max-1] and moving only for the stated causes over every delta sequence, relay sends exactly one ack or (iff requested) one nack "
                    "(Lean); the score falls only when the ping left and its own acknowledgement arrived, whatever the transport did with the send "
                    "(probeWithSend); pending-acknowledgement table as a state machine (every record discarded by its deadline, foreign numbers are "
                    "no-ops); fact theorem: the sequence-number generator is one atomic step. Tied by exact virtual-time scripts on the real "
                    "probeNode / handleIndirectPing / awareness code, refused-ping scripts, table scripts and a concurrent freshness run. Member selection (Props/Select): moveDeadNodes is a permutation that splits exactly at the returned index and refines the filter of the probe-cursor model; kRandomNodes returns at most k distinct admissible members for every shuffle and every sequence of draws and is exhaustive on lists shorter than 3k; the exclusion rules of gossip/probeNode/pushPull are translated from the source on every run and proved equal to the model's (GenTie/Select), and the call sites of both helpers are a regenerated fact (reaping uses GossipToTheDeadTime)."),
        level_note="Partial: goroutine scheduling order at equal instants and real network timing are not modelled; observed only in virtual time.",
        engine="synctest-harness",
    ),
    "C15": dict(
        lean_modules=["Swim.Model.Codec", "Swim.Props.C11", "Swim.Props.C16", "Swim.Props.C12", "Swim.Props.C15"],
        tests="^TestC15$",
        shards_quick=4,
        rule=("wire tap on a real node that enforces outgoing encryption, over every sending path in one battery per case: best-effort and addressed "
              "user messages, reliable user message, gossip with membership (names, metadata) and user broadcasts, ping with piggyback, ack to an inbound "
              "ping, indirect-ping relay and nack, push/pull as initiator and as host, TCP fallback ping ack, error replies on undecodable and on "
              "plaintext streams; configurations: label none/short/40 bytes, SkipInboundLabelCheck, protocol 1/2/5 (encryption version 0/1), compression, "
              "peer protocol 2/5, key installed after creation, rotation in progress (second key installed, possibly primary); every buffer must be "
              "label header + ciphertext that opens under the current primary key with the label (stream: type|length|label) as associated data, and "
              "must not contain any planted plaintext marker; non-trivial = at least 8 buffers captured"),
        trusted_base=COMMON_TB + ["tools/extract's syntactic list of Write/WriteTo/WriteToAddress call sites (a send through another method name or through reflection "
                                  "would escape it)", "AES-GCM decryption as the test that a buffer is a ciphertext under the primary key"],
        assumptions=["the keyring is not empty and GossipVerifyOutgoing is on at the time of sending"],
        level_text=("Proof over extracted program facts + model: the complete list of transport / connection write sites is pinned by a regenerated fact "
                    "theorem (only rawSendMsgPacket, rawSendMsgStream and the label-header writer reach the wire); sendPacket's output is label header + "
                    "version + nonce + AEAD sealing under the primary key with the label as AAD (Lean). Tied by a wire tap over all sending paths."),
        level_note=("The order encrypt-then-write inside the two functions is established by the correspondence, not by a data-flow proof of the Go text; "
                    "stream framing on the sending side is exercised, not modelled."),
        engine="codec-harness+fact-extractor",
    ),
    "C03": dict(
        lean_modules=['Swim.Model.Probe', 'Swim.Model.Susp', 'Swim.Lemmas.Merge', 'Swim.Props.C06', 'Swim.Props.C03', 'Swim.Model.Cluster', 'Swim.Props.Cluster', 'Swim.Props.ClusterG', 'Swim.Props.Projection', 'Swim.Props.C03Cluster', 'Swim.Gen.Facts', 'Swim.Props.C06Facts', "Swim.Model.Select", "Swim.Props.Select", "Swim.Props.GenTie.Select", "Swim.Props.C04Facts"],
        tests="^TestC03$",
        timeout_quick=400,
        shards_quick=4,
        rule="(cursor) the real probe() driven tick by tick on a node whose membership changes in between (inserts with random offsets, deaths, departures, aged records, revivals), each ping answered at once; the probed target, probeIndex and list order after every tick are compared with the model (the shuffle at a wrap is observed); (sim) clusters of 3-12 nodes (thorough: to 40) with crashes at random times incl. during joins and push/pulls, 0-20% loss among survivors, half of the runs with every suspect/dead message between survivors dropped (own evidence), occasional encryption+label; every survivor's drop time is compared with detectBound evaluated at the slowest pace the survivor showed; non-trivial = 5+ probe ticks / 2+ (survivor, crashed) pairs (sel) member selection: moveDeadNodes on lists of 0-40 records with ages at and around the window, kRandomNodes (k 0-6, list lengths around 3k, random exclusion sets) on a seeded generator - the draws of randomOffset and the permutation of shuffleNodes are observed first, then the generator is reseeded - both compared exactly (order and index) with Swim/Model/Select.lean; the members a real node addresses in gossip(), pushPull() and the indirect-ping round of probeNode() (records alive/suspect/dead/left, ages at the gossip-to-the-dead window) judged by the conclusions of the selection theorems under the model's exclusion rule",
        trusted_base=COMMON_TB + ["testing/synctest virtual time: Go timers, channels and the scheduler inside a bubble; processing time is zero",
                                  "the simulator transport (non-blocking delivery, latency/loss/duplication/partition injection, net.Pipe streams)",
                                  "math/rand target selection is seeded but goroutine scheduling is not fully deterministic: the recorded outcome is the replay artifact"],
        assumptions=["goroutine scheduling delays and real network timing are not modelled (virtual time)", "cluster-level theorems: restart-free histories of the cluster model (network = monotone pool of claims delivered in any order/multiplicity, push/pull entry-wise, timing and target selection free); fewer than 2^32 steps"],
        level_text='Proof (partial): probe target is never self or dead, each eligible peer is returned in list order before the wrap-around (pass_step), the local and listed records survive reaping, the stale-timer and timeout bounds of C06, monotonicity of the bound; C03_own_evidence / C03_cluster_own_evidence: in any cluster state, whatever the other nodes do, one unanswered probe of a member held alive followed by the expiry of the suspicion it started leaves the prober not listing the member, with a leave event and a dead broadcast signed by the prober (Lean). Tied by an exact cursor correspondence on the real probe(), by the step harness (suspicion and timer callback on the real code) and by crash simulations in virtual time against the bound, with the cluster-invariant monitor on the wire. Member selection (Props/Select): moveDeadNodes is a permutation that splits exactly at the returned index and refines the filter of the probe-cursor model; kRandomNodes returns at most k distinct admissible members for every shuffle and every sequence of draws and is exhaustive on lists shorter than 3k; the exclusion rules of gossip/probeNode/pushPull are translated from the source on every run and proved equal to the model\'s (GenTie/Select), and the call sites of both helpers are a regenerated fact (reaping uses GossipToTheDeadTime).',
        level_note="Partial: the time per probe tick (awareness-scaled interval), the ticker and TCP-fallback timing are observed in virtual time, not derived; the bound is measured from the later of the crash and the survivor's last join/update event for the member.",
        engine="cluster-simulator",
    ),
    "C04": dict(
        lean_modules=['Swim.Model.Acks', 'Swim.Lemmas.Merge', 'Swim.Props.C19', 'Swim.Props.C18', 'Swim.Props.C04', 'Swim.Model.Cluster', 'Swim.Props.Cluster', 'Swim.Props.C04Cluster', "Swim.Props.GenTie.Acks", "Swim.Props.C04Facts"],
        tests="^TestC04(Cluster)?$",
        timeout_quick=400,
        shards_quick=4,
        rule='(a) multi-node step harness: 2-3 real Memberlist instances without tickers, the harness plays the network (pool of every claim queued for gossip and of every snapshot entry, delivered in random order with repetition through the real aliveNode/deadNode/mergeState), joins/updates/leaves/reaping/ageing, no failed probes; every step is replayed on the cluster model (delivered claim must be in the model pool; state, effects and claim contents of the acting node compared) and the healthy-cluster conclusions are evaluated on the real nodes; (b) healthy clusters of 3-10 nodes in virtual time: every packet delivered within half the probe timeout (a third of the runs with every packet exactly at the bound), staggered joins, UpdateNode, graceful leaves (the leaver keeps running), user messages, IndirectChecks 0/1/3, TCP pings on/off; a wire tap looks for suspect messages, every node is polled for health score, suspect/dead records, leave events of live members, conflicts, callback overlap, and event-log = Members(); non-trivial = 3+ user operations',
        trusted_base=COMMON_TB + ["testing/synctest virtual time: Go timers, channels and the scheduler inside a bubble; processing time is zero",
                                  "the simulator transport (non-blocking delivery, latency/loss/duplication/partition injection, net.Pipe streams)",
                                  "math/rand target selection is seeded but goroutine scheduling is not fully deterministic: the recorded outcome is the replay artifact"],
        assumptions=["goroutine scheduling delays and real network timing are not modelled (virtual time)", "cluster-level theorems: restart-free histories of the cluster model (network = monotone pool of claims delivered in any order/multiplicity, push/pull entry-wise, timing and target selection free); fewer than 2^32 steps"],
        level_text='Proof (partial): an ack within the latency bound answers the probe (no suspicion, score moves down); C04_cluster_history: in the cluster model (any number of nodes running the merge rules over a network that reorders, duplicates, delays and loses claims) every history without an unanswered probe - any interleaving of joins, updates, deliveries, push/pull exchanges, leaves, reaping, timer callbacks - keeps every node free of suspect/dead records and timers with score 0, puts no suspect claim or accusation on the network and reports leave events only for members that called Leave (Lean, induction over histories). Tied by the single-node step harness (state, effects and the content of every claim handed to the broadcast queue) and by healthy-cluster simulations on the real code.',
        level_note="Partial: 'responsive' and 'delivered within half the probe timeout' are runtime conditions; the theorem takes their consequence (no probe goes unanswered, C04_ack_in_time_no_suspect) as the definition of a healthy history, and the simulator realises them in virtual time. The composition of nodes and network in the cluster model is not itself compared step by step with a multi-node run (the simulator checks the theorem's conclusions on the real code instead). Interpretation: a leave event for a member that itself called Leave is legitimate.",
        engine="cluster-simulator",
    ),
    "C05": dict(
        lean_modules=['Swim.Lemmas.Merge', 'Swim.Props.C02', 'Swim.Props.C09', 'Swim.Props.C05', 'Swim.Model.Cluster', 'Swim.Props.Cluster', 'Swim.Props.ClusterG', 'Swim.Props.C02Cluster', 'Swim.Props.C05Cluster', 'Swim.Props.Projection', 'Swim.Props.C04Cluster', 'Swim.Props.C05Recover', 'Swim.Props.C09Cluster', 'Swim.Props.C05Converge', "Swim.Props.Scale", "Swim.Model.Probe", "Swim.Props.C03"],
        tests="^TestC05(Cluster)?$",
        timeout_quick=400,
        shards_quick=4,
        rule='(a) multi-node step harness as in C04 but with unanswered probes, suspicion timers firing and accusations circulating; the general cluster invariant (no record above its subject, own address, left only after Leave, alive content) is evaluated on the real nodes after every step; (b) clusters of 3-10 nodes: a fault phase of 10-40 virtual seconds (0-50% loss, duplication, delays to 2 s, up to two partitions of 1-13 s, crashes, leave+shutdown, same-address restarts with a fresh incarnation, metadata updates), then a perfect network; connectivity of the listing graph is evaluated when faults stop and the final state after 10 push/pull intervals + 200 s is classified converged / stable split / not converged (lists a departed member, views differ inside a group, stale metadata, sticking accusation); non-trivial = a history with departures or restarts',
        trusted_base=COMMON_TB + ["testing/synctest virtual time: Go timers, channels and the scheduler inside a bubble; processing time is zero",
                                  "the simulator transport (non-blocking delivery, latency/loss/duplication/partition injection, net.Pipe streams)",
                                  "math/rand target selection is seeded but goroutine scheduling is not fully deterministic: the recorded outcome is the replay artifact"],
        assumptions=["goroutine scheduling delays and real network timing are not modelled (virtual time)", "cluster-level theorems: restart-free histories of the cluster model (network = monotone pool of claims delivered in any order/multiplicity, push/pull entry-wise, timing and target selection free); fewer than 2^32 steps"],
        level_text="Proof (partial): an accusation is overridden wherever the accused's newer alive claim is delivered; the accused always produces such a claim; a state exchange only moves views forward. Cluster level: in every history of the cluster model every accusation held by anybody is bounded by the accused member's own incarnation (C02_cluster_bounded), the running accused refutes it when it hears of it (C02_cluster_defends), and any newer alive claim in flight - gossip or state entry - clears it wherever it is delivered, the address condition being an invariant (C05_cluster_override, C05_cluster_state_override); C05_cluster_recoverable: from every reachable state, for every accusation anybody holds against a running member, a continuation of at most three steps (state exchange, refutation, delivery) makes the holder list the member alive again; C05_cluster_quiescent_agrees: in any reachable state in which no state exchange between two nodes changes the receiver any more, each holds every running member alive at the member's own incarnation and metadata - the only fixed points of push/pull are converged views, so a split can persist only between nodes that no longer exchange state (Lean, induction over cluster histories). Convergence itself (that the deliveries happen) is classified by the simulator on every history.",
        level_note='Partial: settling time and convergence depend on random target selection. Known finding C05-stable-split (protocol-level, no re-join mechanism); every other non-converged final state is reported.',
        engine="cluster-simulator",
    ),
    "C20": dict(
        lean_modules=['Swim.Model.Merge', 'Swim.Props.C20', 'Swim.Model.Lifecycle', "Swim.Props.GenTie.Lists", "Swim.Model.Acks", "Swim.Props.C19", "Swim.Model.Select", "Swim.Props.Select"],
        tests="^TestC20$",
        timeout_quick=400,
        shards_quick=4,
        rule='a node of a live 3-node cluster in virtual time receives 6-30 public API calls (Members, NumMembers, LocalNode, UpdateNode incl. timeout 0, SendBestEffort, SendReliable, SendToAddress, Ping, GetHealthScore, Join, Leave, ProtocolVersion) from 1-3 goroutines at the stages joined, left, left-and-reaped (after GossipToTheDeadTime and a probe wrap), then two concurrent Shutdown calls racing further calls; every call runs under a watchdog (panic, blocking, overrunning its timeout); send attempts long after Shutdown and goroutines still blocked at the end of the bubble are findings; non-trivial = 10+ calls',
        trusted_base=COMMON_TB + ["testing/synctest virtual time: Go timers, channels and the scheduler inside a bubble; processing time is zero",
                                  "the simulator transport (non-blocking delivery, latency/loss/duplication/partition injection, net.Pipe streams)",
                                  "math/rand target selection is seeded but goroutine scheduling is not fully deterministic: the recorded outcome is the replay artifact"],
        assumptions=["goroutine scheduling delays and real network timing are not modelled (virtual time)"],
        level_text='Proof (partial): a stage model of the public API in which, at every stage where the node is a member of itself, the only panic is the documented Leave-after-Shutdown and no call blocks (C20_api_total_partial; the full statement is refuted by the witness LocalNode at the self-denied stage, a recorded finding; every other call is total there too), idempotence of Leave and Shutdown, the local record is never reaped; fact theorems regenerated from the source: Shutdown closes the transport first, every background loop selects on the shutdown channel, the list of go statements (Lean). Tied by API sequences on real nodes in virtual time with goroutine accounting.',
        level_note='Partial: data races and lock-order deadlocks among real goroutines are sampled (virtual time, watchdogs), not proved; a mutex wait is not a durable block under synctest, so two overlapping Leave calls are not generated. Known finding C20-selfdenied-localnode: LocalNode() panics on a node whose configuration refuses its own address. Documented, not registered: Members() hands out pointers into live state (race with aliveNode; race detector leg not part of the quick tier).',
        engine="cluster-simulator",
    ),
}

# Legs added in build rounds 3 and 4 (appended to the rule text of each property; DESIGN section 13 says
# which seeded change each one answers).
EXTRA_RULES = {
    "C01": "Also: (rrs) plaintext state exchanges with port-less entries through the real readRemoteState against the msgpack model and its port normalisation; (probe) an unanswered probe of incarnation N while a newer alive (N+1) is accepted - the verdict must not override it.",
    "C02": "Also: (gossip) accusations against the node interleaved with equal-length gossip, queue never reset, everything drained: the alive carrying the final incarnation must have been handed out; (stir) gossip / push-pull / probe ticks on three goroutines at once, afterwards every member listed exactly once.",
    "C03": "Also: (hist) node-level histories around one member's suspicion (stale and current dead claims, refutations, timer expiry) judged by the timer model; crash modes: silent, hung (socket open), unreachable (sends refused), address taken over; optional membership writer at every send.",
    "C04": "Also: (udp) a burst of K alive messages over the stock UDP transport while the node is busy - exactly those K members afterwards; (lockstir) membership updates against broadcast retrieval and the query API in tight loops, every goroutine must come back; healthy clusters with keys (both encryption formats, padded names) and slow transport returns.",
    "C05": "Also: (lockstir) as for C04; (scale) pushPullScale against its integer model over whole ranges; address take-over by a new name without a gap.",
    "C06": "Also: (scale) suspicionTimeout against its integer model.",
    "C07": "Also: (poll) Members() polled while claims arrive on other goroutines - every result equals the event replay at some moment of the call; (chan) the package's ChannelEventDelegate read late - every event carries the data of its moment; application metadata changed without UpdateNode before self-accusations.",
    "C08": "Also: leave simulator with user broadcasts pending and with an application that has one for every packet.",
    "C09": "Also: (ppf) the plaintext stream a real node writes for a Join parsed and re-encoded by the msgpack model; (rrs) as for C01; (busy) a join against a host serving 125-127 stalled exchanges: success must be mutual.",
    "C10": "Also: (scale) retransmitLimit against its integer model over whole ranges.",
    "C13": "Also: (handoff) messages piling up in small handoff queues while the handler is parked - what takes effect afterwards, and in which order, against the queue model; sealed-length declarations above the cap on a keyed node (bytes taken off the connection counted); (nacks) more nacks for an in-flight probe than its channel holds, with watchdogs on the packet path, the probe and Shutdown; degenerate compression envelopes.",
    "C14": "Also: sources with unsealed compressed frames, keys removed mid-stream, and a foreign label header on a skip-inbound receiver.",
    "C15": "Also: user messages of random lengths on both paths in every case; rotation histories with repeated and absent keys; (race) old-key traffic read on some goroutines while others send - everything sealed under the primary key.",
    "C16": "Also: the sender may delegate its own inbound check; (alias) transports that keep the slices they are handed: a packet must not change after WriteTo returned.",
    "C17": "Also: rotation on running nodes (keyring, SecretKey, or both with the application's own handle) judged on real packets and streams and on the key that seals them; (conc) two keyring calls at once over thousands of rounds, results and final ring matched against both sequential orders of the model.",
    "C18": "Also: allow-lists in both in-memory forms; (transport) the stock NetTransport ingestion entry; (parse) ParseCIDRs on lists with malformed entries against net.ParseCIDR; (full) an alive from outside while the handoff queue is full of allowed gossip.",
    "C19": "Also: (senderr) pings refused by the transport (local / remote error); (fresh) 8-16 goroutines drawing sequence numbers; (ping) the Ping API over interval/timeout combinations against pingAnswered; (tbl) pending-table scripts.",
    "C20": "Also: (selfdenied) nodes whose configuration refuses their own address, before and after Leave and Shutdown; (lockstir) as for C04; hung and stalled (never reading) peers.",
}
for _p, _t in EXTRA_RULES.items():
    PROPS[_p]["rule"] = PROPS[_p]["rule"] + " " + _t

# legs and theorems added in build round 6 (DESIGN sections 11, 13 and 19)
ROUND6_RULES = {
    "C04": "A third of the healthy clusters run on a node-aware transport that routes by the name in the address.",
    "C05": "Half of the crashes of the fault phase are frozen processes (socket open, nothing answers); (cursor) the probe schedule tick by tick, with suspected members, against the cursor model.",
    "C06": "(probe) real probe rounds against silent, late and answering peers: who signs the suspicion queued on the node's own evidence; a third of the timer histories contain suspicion - refutation - new suspicion - expiry of the first timer.",
    "C07": "(stir) gossip / push-pull / probe ticks at once: every member listed exactly once afterwards; (boot) a packet that is already waiting when Create starts the listeners - gossip about the node itself or about another member - handled before setAlive: the event log must replay to Members().",
    "C09": "(auth) joins between a keyed host (label, inbound check checked or delegated) and a joiner with the same or another key and label, against sealedStreamAdmitted; (hist) timer histories with the stale-timer chain.",
    "C12": "(pkt) a real sender packs membership and user queues (also hundreds of 0-2 byte parts) through gossip() or sendMsg(), a real receiver unpacks; (aliveport) alive messages with ports 0 / own / foreign through the real handleAlive on receivers speaking protocol versions 1-5, against alivePort.",
    "C13": "A third of the stream-campaign receivers have no Delegate; the complete stream is fed as well.",
    "C14": "(fbping) the reply of the stream fallback ping, as initiator: sealed under the same or another key and label, unsealed, or with a foreign number.",
    "C17": "Half of the node-level rotation runs exchange 70 kB incompressible stream messages.",
    "C19": "(dupack) duplicates of an acknowledgement while the first one's handler runs.",
    "C20": "(probe) the probe rounds of C19: a round never outlasts its deadline; (sel) the selection and reaping legs of C03.",
}
for _p, _t in ROUND6_RULES.items():
    PROPS[_p]["rule"] = PROPS[_p]["rule"] + " " + _t
ROUND6_LEVEL = {
    "C06": " Regenerated: NumMembers() = len(Members()) as the two functions are written now (C07_numMembers_is_length_of_members).",
    "C07": " Regenerated (GenTie/Lists): Members(), NumMembers() and anyAlive() translated from the source and proved equal to the model's filter / count / existence test; NumMembers() = len(Members()); the loops hold the read lock until they return.",
    "C09": " C14_sealed_stream_needs_own_label / C09_honest_sender_admitted_iff: a sealed stream is admitted only under an installed key with the receiver's own label as associated data, also when the inbound check is delegated.",
    "C12": " C12_alive_port_recovered / C12_alive_port_same_rule_as_stream: the port of an alive message is recovered unchanged from protocol version 2 on.",
    "C18": " Regenerated (GenTie/Lists): Config.IPAllowed / IPMustBeChecked translated from the source and proved equal to the allow-list verdict of the model (no list admits everything, a list admits exactly what one of its networks contains).",
    "C20": " C20_reset_keeps_own: the node's own record survives every reaping pass (model of resetNodes over the exact moveDeadNodes loop); the loops behind the query API hold the read lock until they return (regenerated).",
    "C05": " The probe schedule keeps visiting suspected members (cursor model, C03 theorems).",
}
for _p, _t in ROUND6_LEVEL.items():
    PROPS[_p]["level_text"] = PROPS[_p]["level_text"] + _t
PROPS["C07"]["level_note"] += " Known finding C07-startup-double-join: gossip about the node itself handled between the start of the listeners and setAlive delivers the node's own join twice (DESIGN section 12)."
