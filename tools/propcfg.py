"""Per-property configuration of ./check (what to build, which harness tests, trusted base text)."""

COMMON_TB = [
    "Lean 4.33.0 kernel; axioms per theorem as printed by `#print axioms` (subset of propext, Classical.choice, Quot.sound)",
    "hand-written Lean model = Go code on inputs the correspondence run did not sample",
    "Go harness, Lean driver line parser, tools/extract, ./check",
]

NOT_CLAIMED = {}
FACT_PROPS = []

PROPS = {
    "C17": dict(
        lean_modules=["Swim.Props.C17"],
        tests="^TestC17$",
        rule=("random NewKeyring + call sequences (1-24 calls over a pool of valid/invalid/duplicate/absent/primary keys) "
              "and random barrier-respecting rotation interleavings (2-6 nodes, with duplicate steps); "
              "non-trivial = the model ring changed at least twice in the sequence / a full rotation run; "
              "distinct = distinct canonical lines"),
        trusted_base=COMMON_TB + ["crypto/aes, crypto/cipher (AES-GCM) for the pairwise seal/open leg of rotation runs"],
        assumptions=["keyring mutex serialises concurrent calls (Go sync.Mutex); concurrency with encrypt/decrypt is not modelled"],
        level_text=("Proof: Lean theorems (ring invariant over every call sequence, primary stability, refusal cases, "
                    "rotation safety for every cluster size and barrier-respecting interleaving) about a model of keyring.go, "
                    "tied to the code by a differential run of the real Keyring (and real AES-GCM seal/open for rotation)."),
        level_note="Trusted: Lean kernel; model=code beyond sampled call sequences; harness/driver; Go mutex semantics (concurrent calls are serialised by Keyring.l, not modelled).",
        explanation="Theorems: ring invariant over all call sequences, primary stability, refusal cases, rotation safety for every cluster size and interleaving; tie: differential run of the real Keyring against the model.",
    ),
}
