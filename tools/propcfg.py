"""Per-property configuration of ./check (what to build, which harness tests, trusted base text)."""

COMMON_TB = [
    "Lean 4.33.0 kernel; axioms per theorem as printed by `#print axioms` (subset of propext, Classical.choice, Quot.sound)",
    "hand-written Lean model = Go code on inputs the correspondence run did not sample",
    "Go harness, Lean driver line parser, tools/extract, ./check",
]

NOT_CLAIMED = {}
FACT_PROPS = []

PROPS = {
    "C17": dict(
        lean_modules=["Swim.Props.C17"],
        tests="^TestC17$",
        rule=("random NewKeyring + call sequences (1-24 calls over a pool of valid/invalid/duplicate/absent/primary keys) "
              "and random barrier-respecting rotation interleavings (2-6 nodes, with duplicate steps); "
              "non-trivial = the model ring changed at least twice in the sequence / a full rotation run; "
              "distinct = distinct canonical lines"),
        trusted_base=COMMON_TB + ["crypto/aes, crypto/cipher (AES-GCM) for the pairwise seal/open leg of rotation runs"],
        assumptions=["keyring mutex serialises concurrent calls (Go sync.Mutex); concurrency with encrypt/decrypt is not modelled"],
        level_text=("Proof: Lean theorems (ring invariant over every call sequence, primary stability, refusal cases, "
                    "rotation safety for every cluster size and barrier-respecting interleaving) about a model of keyring.go, "
                    "tied to the code by a differential run of the real Keyring (and real AES-GCM seal/open for rotation)."),
        level_note="Trusted: Lean kernel; model=code beyond sampled call sequences; harness/driver; Go mutex semantics (concurrent calls are serialised by Keyring.l, not modelled).",
        explanation="Theorems: ring invariant over all call sequences, primary stability, refusal cases, rotation safety for every cluster size and interleaving; tie: differential run of the real Keyring against the model.",
    ),
    "C10": dict(
        lean_modules=["Swim.Props.C10"],
        tests="^TestC10$",
        rule=("random sequences of 1-40 QueueBroadcast (named incl. empty name / unique / plain with subjects; sizes 0-40 incl. equal) / "
              "GetBroadcasts (overhead -1..3, limit -5..1400) / Prune (-1..5) / Reset / NumQueued with changing NumNodes and RetransmitMult 0-8, "
              "tree snapshot after every call; plus retransmitLimit(mult,n) against mult*digits(n) around powers of ten; "
              "non-trivial = a sequence with at least one retrieval that returned two or more messages; distinct = distinct canonical lines"),
        trusted_base=COMMON_TB + ["google/btree modelled as a duplicate-free list with Less-minimum selection",
                                  "math.Log10/Ceil in retransmitLimit (compared with mult*digits(n) on sampled n, not proved)"],
        assumptions=["ids and transmit counters do not wrap (int64)", "queue mutex serialises calls"],
        level_text=("Proof: Lean theorems for every operation sequence (ids unique, one broadcast per name, conservation = no silent loss and "
                    "exactly-once completion, get_fits, limit_exact, Less-least selection) about a model of queue.go, tied to the code by a "
                    "differential run with a tree snapshot after every call."),
        level_note="Trusted: Lean kernel; model=code beyond sampled sequences; btree semantics; float log10 in retransmitLimit; harness/driver.",
        explanation="conservation/invariants by induction over operation lists; get loop by a fuel-indexed induction principle",
    ),
}
