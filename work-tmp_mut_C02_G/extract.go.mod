module verif/extract

go 1.25.0

require github.com/hashicorp/memberlist v0.0.0

require (
	github.com/armon/go-metrics v0.4.1 // indirect
	github.com/google/btree v1.1.3 // indirect
	github.com/hashicorp/errwrap v1.1.0 // indirect
	github.com/hashicorp/go-immutable-radix v1.3.1 // indirect
	github.com/hashicorp/go-metrics v0.6.0 // indirect
	github.com/hashicorp/go-msgpack/v2 v2.1.5 // indirect
	github.com/hashicorp/go-multierror v1.1.1 // indirect
	github.com/hashicorp/go-sockaddr v1.0.7 // indirect
	github.com/hashicorp/golang-lru v0.5.0 // indirect
	github.com/miekg/dns v1.1.72 // indirect
	github.com/sean-/seed v0.0.0-20170313163322-e2103e2c3529 // indirect
	golang.org/x/net v0.55.0 // indirect
	golang.org/x/sys v0.45.0 // indirect
)

replace github.com/hashicorp/memberlist => /tmp/mut/C02-G
