import Swim.Util.Parse
import Swim.Drv.C17
import Swim.Drv.C10
import Swim.Drv.Merge
import Swim.Drv.Codec
import Swim.Drv.Ingest
import Swim.Drv.C06
import Swim.Drv.C09
import Swim.Drv.C19
import Swim.Drv.C03
import Swim.Drv.Sim
import Swim.Drv.Cluster
import Swim.Drv.Scale
import Swim.Drv.Select
/-! Line-protocol driver: `<PROP> <kind> k=v ...` in, `<PROP> <id> <agree|DISAGREE> <ok|BAD:..> ...` out. -/
open Swim.Parse

def dispatch (line : String) : String :=
  let toks := line.splitOn " "
  match toks with
  | prop :: kind :: _ =>
    let fs := fields line
    let id := getD fs "id" "?"
    let body := if kind == "scale" then Swim.Drv.Scale.handle fs
      else if kind == "lockstir" then Swim.Drv.Scale.handleLockStir fs
      else if kind == "movedead" || kind == "krand" || kind == "gossipsel" || kind == "ppsel" || kind == "relaysel" || kind == "resetsel" || kind == "boot" then Swim.Drv.Select.handle kind fs
      else if kind == "leak" && prop != "C20" then Swim.Drv.C03.handle kind fs
      else if kind == "probe" && prop == "C13" then Swim.Drv.C19.handle kind fs
      else if kind == "stall" && prop == "C20" then Swim.Drv.Ingest.handleC13 kind fs
      else if kind == "stir" then Swim.Drv.Merge.handle prop kind fs else match prop with
      | "C17" => Swim.Drv.C17.handle kind fs
      | "C03" => if kind == "hist" then Swim.Drv.Merge.handle "C06" kind fs else Swim.Drv.C03.handle kind fs
      | "C04" => if kind == "aliveport" then Swim.Drv.Msgpack.handleAlivePort fs else if kind == "cluster" then Swim.Drv.Cluster.handleCluster fs else Swim.Drv.Sim.handleC04 kind fs
      | "C05" => if kind == "cursor" then Swim.Drv.C03.handle kind fs else if kind == "cluster" then Swim.Drv.Cluster.handleCluster fs else Swim.Drv.Sim.handleC05 kind fs
      | "C20" => Swim.Drv.Sim.handleC20 kind fs
      | "C09" => Swim.Drv.C09.handle kind fs
      | "C10" => Swim.Drv.C10.handle kind fs
      | "C19" => Swim.Drv.C19.handle kind fs
      | "C11" => Swim.Drv.Codec.handleC11 kind fs
      | "C12" => if kind == "udp" then Swim.Drv.Sim.handleC04 kind fs else Swim.Drv.Codec.handleC12 kind fs
      | "C13" => Swim.Drv.Ingest.handleC13 kind fs
      | "C14" => Swim.Drv.Ingest.handleC14 kind fs
      | "C15" => Swim.Drv.Ingest.handleC15 kind fs
      | "C16" => Swim.Drv.Codec.handleC16 kind fs
      | "C01" | "C02" | "C07" | "C08" | "C18" => Swim.Drv.Merge.handle prop kind fs
      | "C06" => if kind == "race" then Swim.Drv.C06.handleRace fs else if kind == "probe" then Swim.Drv.C19.handle kind fs else if kind == "susp" then Swim.Drv.C06.handleSusp fs else Swim.Drv.Merge.handle prop kind fs
      | _ => "PARSE prop"
    s!"{prop} {id} {body}"
  | _ => "? ? PARSE line"

partial def loop (h : IO.FS.Stream) (out : IO.FS.Stream) : IO Unit := do
  let line ← h.getLine
  if line.isEmpty then return ()
  let l := line.trimAsciiEnd.toString
  if !l.isEmpty then out.putStrLn (dispatch l)
  loop h out

def main : IO Unit := do
  let stdin ← IO.getStdin
  let stdout ← IO.getStdout
  loop stdin stdout
  stdout.flush
