/-
Line-protocol helpers for the correspondence driver (core Lean only).
Tokens are space separated `key=value`; values use `,` `;` `:` `|` as inner separators,
byte strings are lower-case hex.
-/
namespace Swim.Parse

def hexVal (c : Char) : Option Nat :=
  if '0' ≤ c ∧ c ≤ '9' then some (c.toNat - '0'.toNat)
  else if 'a' ≤ c ∧ c ≤ 'f' then some (c.toNat - 'a'.toNat + 10)
  else none

def hexBytesAux : List Char → List UInt8 → Option (List UInt8)
  | [], acc => some acc.reverse
  | [_], _ => none
  | a :: b :: rest, acc =>
    match hexVal a, hexVal b with
    | some x, some y => hexBytesAux rest (UInt8.ofNat (x * 16 + y) :: acc)
    | _, _ => none

/-- `"-"` denotes the empty byte string. -/
def hexBytes (s : String) : Option (List UInt8) :=
  if s == "-" then some [] else hexBytesAux s.toList []

def hexDigit (n : Nat) : Char :=
  if n < 10 then Char.ofNat ('0'.toNat + n) else Char.ofNat ('a'.toNat + (n - 10))

def toHex (bs : List UInt8) : String :=
  if bs.isEmpty then "-" else
  String.ofList (bs.flatMap fun b => [hexDigit (b.toNat / 16), hexDigit (b.toNat % 16)])

/-- split `k=v` tokens of a line into an association list -/
def fields (line : String) : List (String × String) :=
  (line.splitOn " ").filterMap fun tok =>
    match tok.splitOn "=" with
    | [k, v] => some (k, v)
    | k :: v :: more => some (k, String.intercalate "=" (v :: more))
    | _ => none

def get (fs : List (String × String)) (k : String) : Option String :=
  (fs.find? (·.1 == k)).map (·.2)

def getD (fs : List (String × String)) (k : String) (d : String) : String :=
  (get fs k).getD d

def getNat (fs : List (String × String)) (k : String) : Option Nat :=
  (get fs k).bind String.toNat?

def getInt (fs : List (String × String)) (k : String) : Option Int :=
  (get fs k).bind String.toInt?

/-- split on a separator, dropping the single empty piece of an empty string -/
def splitNE (s : String) (sep : String) : List String :=
  if s.isEmpty then [] else s.splitOn sep

end Swim.Parse
