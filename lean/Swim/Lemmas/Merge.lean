import Swim.Model.Merge
/-! Helper lemmas about record lookup/update used by the C01 C02 C07 C08 C18 theorems. -/
namespace Swim.Merge

theorem lookup_setRec_ne (recs : List Rec) (r : Rec) (y : String) (h : y ≠ r.name) :
    lookup (setRec recs r) y = lookup recs y := by
  induction recs with
  | nil => rfl
  | cons x xs ih =>
    have ih' : List.find? (fun x => x.name == y) (setRec xs r) = List.find? (fun x => x.name == y) xs := ih
    show List.find? (fun x => x.name == y) ((if (x.name == r.name) = true then r else x) :: setRec xs r) =
      List.find? (fun x => x.name == y) (x :: xs)
    by_cases hx : x.name = r.name
    · have hxy : (x.name == y) = false := by
        rw [hx]; simpa using fun e => h e.symm
      have hry : (r.name == y) = false := by simpa using fun e => h e.symm
      have e1 : (x.name == r.name) = true := by simpa using hx
      simp only [e1, ↓reduceIte, List.find?_cons, hry, hxy]
      exact ih'
    · have e1 : (x.name == r.name) = false := by simpa using hx
      simp only [e1, Bool.false_eq_true, ↓reduceIte, List.find?_cons]
      cases hxy : (x.name == y)
      · exact ih'
      · rfl

theorem lookup_setRec_self (recs : List Rec) (r : Rec) (h : (lookup recs r.name).isSome) :
    lookup (setRec recs r) r.name = some r := by
  induction recs with
  | nil => simp [lookup] at h
  | cons x xs ih =>
    simp only [setRec, lookup, List.map_cons, List.find?_cons] at *
    by_cases hx : x.name = r.name
    · simp [hx]
    · have h1 : (x.name == r.name) = false := by simpa using hx
      simp only [h1, Bool.false_eq_true, ↓reduceIte] at h ⊢
      exact ih h

theorem lookup_name {recs : List Rec} {y : String} {r : Rec} (h : lookup recs y = some r) : r.name = y := by
  have := List.find?_some h
  simpa using this

theorem lookup_append_stub_ne (recs : List Rec) (s : Rec) (y : String) (h : y ≠ s.name) :
    lookup (recs ++ [s]) y = lookup recs y := by
  simp only [lookup, List.find?_append]
  cases hx : List.find? (fun x => x.name == y) recs with
  | some v => simp
  | none =>
    have : (s.name == y) = false := by simpa using fun e => h e.symm
    simp [this]

theorem lookup_append_stub_self (recs : List Rec) (s : Rec) (h : lookup recs s.name = none) :
    lookup (recs ++ [s]) s.name = some s := by
  simp only [lookup, List.find?_append] at *
  simp [h]

theorem setRec_same (recs : List Rec) (r : Rec) (h : lookup recs r.name = some r)
    (huniq : ∀ x ∈ recs, x.name = r.name → x = r) : setRec recs r = recs := by
  simp only [setRec]
  conv => rhs; rw [← List.map_id recs]
  apply List.map_congr_left
  intro x hx
  by_cases e : x.name = r.name
  · simp [e, huniq x hx e]
  · have : (x.name == r.name) = false := by simpa using e
    simp [this]

/-- the precedence key of a view of a member: (0,0) unknown, else (incarnation+1, rank) with
alive < suspect < dead = left -/
def rank : St → Nat
  | .alive => 0 | .suspect => 1 | .dead => 2 | .left => 2

def key : Option Rec → Nat × Nat
  | none => (0, 0)
  | some r => (r.inc + 1, rank r.st)

/-- lexicographic ≤ on keys -/
def kle (a b : Nat × Nat) : Prop := a.1 < b.1 ∨ (a.1 = b.1 ∧ a.2 ≤ b.2)

theorem kle_refl (a : Nat × Nat) : kle a a := Or.inr ⟨rfl, Nat.le_refl _⟩

theorem kle_trans {a b c : Nat × Nat} (h1 : kle a b) (h2 : kle b c) : kle a c := by
  unfold kle at *; omega

end Swim.Merge
