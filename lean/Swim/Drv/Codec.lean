import Swim.Util.Parse
import Swim.Model.Codec
import Swim.Drv.Msgpack
/-! Driver side of the codec correspondences (C11 C12 C16). -/
namespace Swim.Drv.Codec
open Swim.Parse Swim.Codec

def digest (b : Bytes) : Nat :=
  (b.foldl (fun (acc : Nat × Nat) x => (acc.1 + 1, (acc.2 + (acc.1 + 1) * x.toNat) % 1000000007)) (0, 0)).2

def parseSegs (s : String) : Option (List Bytes) :=
  if s == "-" then some [] else
  (s.splitOn ",").foldlM (fun (acc : List Bytes) seg =>
    match seg.splitOn "*" with
    | [lf, k] =>
      match lf.splitOn ":" with
      | [l, f] => do
        let l ← l.toNat?; let f ← f.toNat?; let k ← k.toNat?
        pure (acc ++ List.replicate k (List.replicate l (UInt8.ofNat f)))
      | _ => none
    | _ => none) []

def verdict (agree : Bool) (bad : Option String) (nt : Bool) (br : String) (note : String) : String :=
  s!"{if agree then "agree" else "DISAGREE"} {match bad with | none => "ok" | some b => "BAD:" ++ b} nt={if nt then 1 else 0} br={br} {note}"

def handleCmp (fs : List (String × String)) : String := Id.run do
  let some msgs := (get fs "msgs").bind parseSegs | return "PARSE msgs"
  let outs := splitNE (getD fs "outs" "-") ";" |>.filter (· != "-")
  let decs := splitNE (getD fs "dec" "-") ";" |>.filter (· != "-")
  let panicked := (get fs "panic").isSome
  let cs := makeCompounds msgs
  let mOuts := cs.map fun c => s!"{c.length}:{digest c}"
  let mDecs := cs.map fun c =>
    match decodeCompound c.tail with
    | .ok (t, ps) => s!"0:{t}:{ps.length}:{ps.flatten.length}:{digest ps.flatten}"
    | .error _ => "1:0:0:0:0"
  let agree := mOuts == outs && mDecs == decs && !panicked
  let small := msgs.all (·.length < 65536)
  -- property: unpacking what was packed gives back exactly the messages, chunk by chunk
  let chunksL := chunks Gen.c_maxCompoundParts (msgs.length + 1) msgs
  let want := chunksL.map fun ch => s!"0:0:{ch.length}:{ch.flatten.length}:{digest ch.flatten}"
  let bad : Option String :=
    if panicked then some "panic"
    else if small && decs != want then some s!"unpacked-differs-from-packed:count={msgs.length}"
    else none
  return verdict agree bad (msgs.length > 255) s!"cmp{min (msgs.length / 255) 3}" (if agree then "" else s!"model={mOuts}/{mDecs}")

def handleDec (fs : List (String × String)) : String := Id.run do
  let some buf := (get fs "buf").bind hexBytes | return "PARSE buf"
  let res := getD fs "res" "?"
  let m := match decodeCompound buf with
    | .error .missingLen => "err:missingLen"
    | .error .truncLens => "err:truncLens"
    | .ok (t, ps) => s!"ok:{t}:{if ps.isEmpty then "-" else String.intercalate "," (ps.map toHex)}"
  return verdict (m == res) (if res == "panic" then some "panic" else none) (m.startsWith "ok:") (if m.startsWith "ok" then "dec-ok" else "dec-err") (if m == res then "" else s!"model={m}")

def natList (s : String) : List Nat := if s == "-" then [] else (s.splitOn ",").filterMap String.toNat?

def handlePkt (fs : List (String × String)) : String := Id.run do
  if (get fs "err").isSome then return "PARSE create"
  let some udp := getNat fs "udp" | return "PARSE udp"
  let some labelLen := getNat fs "label" | return "PARSE label"
  let enc := getD fs "enc" "n"
  let comp := getD fs "comp" "0" == "1"
  let crc := getD fs "crc" "0" == "1"
  let op := getD fs "op" "g"
  let some prim := getNat fs "prim" | return "PARSE prim"
  let lens := natList (getD fs "lens" "-")
  let wire := natList (getD fs "wire" "-")
  let picked := getD fs "picked" "-"
  let got := getD fs "got" "-"
  let panicked := getD fs "panic" "0" == "1"
  let vout := getD fs "vout" "1" == "1"
  let c : PktCfg := { udpBufferSize := udp, label := List.replicate labelLen 76, encrypt := enc != "n" && vout, encEnabled := enc != "n",
                      vsn := if enc == "0" then 0 else 1, crc }
  -- expected wire length of the (single) packet when nothing is compressed and one compound suffices
  let payload : Option Nat :=
    if op == "g" then
      (if lens.isEmpty then none else if lens.length == 1 then some lens.head! else if lens.length ≤ 255 then some (compoundLen lens) else none)
    else (if lens.isEmpty then some prim else if lens.length + 1 ≤ 255 then some (compoundLen (prim :: lens)) else none)
  let mut agree := true
  let mut note := ""
  match payload with
  | some n =>
    if !comp then
      if wire != [wireLen c n] then agree := false; note := s!"model-wire={wireLen c n}"
    else if wire.length != 1 || wire.head! > wireLen c n then agree := false; note := s!"model-wire<={wireLen c n}"
  | none => if op == "g" && lens.isEmpty && !wire.isEmpty then agree := false; note := "packet-without-selection"
  -- the selection respects the budget the model computes for this configuration
  let avail : Int := if op == "g" then gossipAvail c else sendMsgAvail c prim
  let used : Int := ((lens.sum + 2 * lens.length : Nat) : Int)
  if !lens.isEmpty && used > avail then agree := false; note := note ++ s!" selection-over-model-budget:{used}>{avail}"
  let bad : Option String :=
    if panicked then some "panic"
    else match wire.find? (· > udp) with
      | some w => some s!"packet-larger-than-UDPBufferSize:{w}>{udp}:label={labelLen},enc={enc},crc={crc},comp={comp},op={op},parts={lens.length}"
      | none => if picked != got then some s!"receiver-unpacked-different-messages:parts={lens.length},op={op}" else none
  return verdict agree bad (lens.length ≥ 2) s!"pkt-{op}-{min (lens.length / 100) 4}" note

def handleC11 (kind : String) (fs : List (String × String)) : String :=
  match kind with
  | "cmp" => handleCmp fs
  | "dec" => handleDec fs
  | "pkt" => handlePkt fs
  | _ => "PARSE kind"


/-! ### C16 -/

def lblRes : Except LabelErr (Bytes × Bytes) → String
  | .ok (p, l) => s!"ok:{toHex p}:{toHex l}"
  | .error .truncated => "err:truncated"
  | .error .emptyLabel => "err:emptyLabel"

def handleLbl (fs : List (String × String)) : String := Id.run do
  let some ll := getNat fs "ll" | return "PARSE ll"
  let some lc := getNat fs "lc" | return "PARSE lc"
  let some buf := (get fs "buf").bind hexBytes | return "PARSE buf"
  let add := getD fs "add" "?"
  let rm := getD fs "rm" "?"
  let label : Bytes := match (get fs "lhex").bind hexBytes with
    | some l => if l.length == ll then l else List.replicate ll (UInt8.ofNat lc)
    | none => List.replicate ll (UInt8.ofNat lc)
  if ll > Gen.c_LabelMaxSize then
    return verdict (add == "err:tooLong") (if add == "panic" then some "panic" else none) false "lbl-toolong" ""
  let out := addLabel label buf
  let mAdd := s!"{out.length}.{digest out}"
  let mRm := match removeLabel out with
    | .ok (p, l) => s!"ok:{toHex p}:{l.length}.{digest l}"
    | .error .truncated => "err:truncated"
    | .error .emptyLabel => "err:emptyLabel"
  let wantRm := s!"ok:{toHex buf}:{label.length}.{digest label}"
  let applicable := ll ≥ 1 || buf.head? != some (UInt8.ofNat Gen.c_hasLabelMsg)
  let bad : Option String :=
    if add == "panic" || rm == "panic" then some "panic"
    else if applicable && rm != wantRm then some s!"label-roundtrip-lost-data:ll={ll}" else none
  return verdict (mAdd == add && mRm == rm) bad (ll ≥ 1) s!"lbl{min ll 2}" (if mAdd == add && mRm == rm then "" else s!"model={mAdd}/{mRm}")

def handleRm (fs : List (String × String)) : String := Id.run do
  let some buf := (get fs "buf").bind hexBytes | return "PARSE buf"
  let pk := getD fs "pk" "?"
  let st := getD fs "st" "?"
  let m := lblRes (removeLabel buf)
  let bad : Option String :=
    if pk == "panic" || st == "panic" then some "panic"
    else if pk != st then some "stream-and-packet-label-removal-differ" else none
  return verdict (m == pk && m == st) bad (m.startsWith "ok:") (if m.startsWith "ok" then "rm-ok" else "rm-err") (if m == pk then "" else s!"model={m}")

def handleGate (fs : List (String × String)) : String := Id.run do
  let some slen := getNat fs "slen" | return "PARSE slen"
  let some rlen := getNat fs "rlen" | return "PARSE rlen"
  let same := getD fs "same" "0" == "1"
  let skip := getD fs "skip" "0" == "1"
  let enc := getD fs "enc" "0" == "1"
  let path := getD fs "path" "pkt"
  let acted := getD fs "acted" "0" == "1"
  let replied := getD fs "replied" "0" == "1"
  let panicked := getD fs "panic" "0" == "1"
  -- abstract labels: receiver label = replicate rlen 1; sender label equal iff `same`
  let rl : Bytes := List.replicate rlen 1
  let sl : Bytes := if same then rl else List.replicate slen 2
  let gate := labelGate rl skip sl
  -- with encryption the sender sealed under its own label, the receiver opens under the gate's label
  let pass := match gate with
    | none => false
    | some l => !enc || l == sl
  let expActed := pass && path != "ping"
  let expReplied := pass && path == "ping"
  -- property: traffic that does not carry exactly the receiver's label (or any header at all when the
  -- check is delegated) has no effect on delegates or replies, except the generic stream error reply
  let mustDrop := gate.isNone
  let bad : Option String :=
    if panicked then some "panic"
    else if mustDrop && (acted || replied) then some s!"acted-on-foreign-label:path={path},skip={skip},slen={slen},rlen={rlen}"
    else if pass && !(acted || replied) then some s!"own-label-traffic-dropped:path={path},skip={skip},len={rlen}"
    else none
  let agree := acted == expActed && (replied == expReplied || (path == "str" && gate.isSome && !pass))
  return verdict agree bad (slen > 0 || rlen > 0) s!"gate-{path}" (if agree then "" else s!"model=acted:{expActed},replied:{expReplied}")

/-- C16 (alias leg): a packet handed to a transport that keeps the slice is never rewritten afterwards -/
def handleAlias (fs : List (String × String)) : String :=
  let rw := (getNat fs "rewritten").getD 0
  verdict (rw == 0) (if rw == 0 then none else some s!"packet-handed-to-the-transport-was-rewritten-by-a-later-send:{rw}-of-{getD fs "sends" "?"}:{getD fs "first" "?"}")
    true "alias" ""

def handleC16 (kind : String) (fs : List (String × String)) : String :=
  match kind with
  | "lbl" => handleLbl fs
  | "rm" => handleRm fs
  | "gate" => handleGate fs
  | "alias" => handleAlias fs
  | _ => "PARSE kind"

/-! ### C12 -/

def handleRt (fs : List (String × String)) : String := Id.run do
  if (get fs "err").isSome then return "PARSE create"
  let path := getD fs "path" "pkt"
  let some labelLen := getNat fs "label" | return "PARSE label"
  let enc := getD fs "enc" "n"
  let comp := getD fs "comp" "0" == "1"
  let crc := getD fs "crc" "0" == "1"
  let some len := getNat fs "len" | return "PARSE len"
  let payload := getD fs "payload" "-"
  let some wire := getNat fs "wire" | return "PARSE wire"
  let got := getD fs "got" "-"
  let panicked := getD fs "panic" "0" == "1"
  let c : PktCfg := { udpBufferSize := 1400, label := List.replicate labelLen 76, encrypt := enc != "n", encEnabled := enc != "n",
                      vsn := if enc == "0" then 0 else 1, crc }
  let mut agree := true
  let mut note := ""
  if path == "pkt" then
    let w := wireLen c (len + 1)
    if (!comp && wire != w) || (comp && wire > w) then agree := false; note := s!"model-wire={w}"
  let delivered :=
    if path == "pp" then got.startsWith "pp:1:" && ((got.splitOn "R+S").length > 1 || (got.splitOn "S+R").length > 1)
    else if len == 0 && path == "str" then got == "-"    -- an empty reliable message is not delivered by readUserMsg
    else if len == 0 && path == "pkt" then got == "-" && getD fs "ngot" "1" == "1"   -- delivered once, empty
    else got == payload
  let bad : Option String :=
    if panicked then some "panic"
    else if !delivered then some s!"payload-not-recovered:path={path},len={len},label={labelLen},enc={enc},comp={comp},crc={crc}"
    else none
  return verdict agree bad (len ≥ 16) s!"rt-{path}-{enc}" note

def handleC12 (kind : String) (fs : List (String × String)) : String :=
  match kind with
  | "rt" => handleRt fs
  | "mp" => Swim.Drv.Msgpack.handleMp fs
  | "pkt" => handlePkt fs
  | "aliveport" => Swim.Drv.Msgpack.handleAlivePort fs
  | _ => "PARSE kind"

end Swim.Drv.Codec
