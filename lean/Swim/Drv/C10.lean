import Swim.Util.Parse
import Swim.Model.Queue
/-! Driver side of the C10 correspondence. -/
namespace Swim.Drv.C10
open Swim.Parse Swim.Queue

structure Meta where   -- static description of a submitted broadcast, by uid
  kind : Kind
  name : String
  subj : Nat
  len : Nat

/-- `tx.len.id.uid` list → items (static fields from the submission table) -/
def parseTree (tbl : Array Meta) (s : String) : Option (List Item) :=
  if s == "-" then some [] else
  (s.splitOn ",").mapM fun t =>
    match (t.splitOn ".").map String.toNat? with
    | [some tx, some len, some id, some uid] =>
      tbl[uid]?.map fun m => { tx, len, id, kind := m.kind, name := if m.kind = .named then m.name else "", subj := m.subj, uid }
    | _ => none

def parseNats (s : String) : List Nat := if s == "-" then [] else (s.splitOn ",").filterMap String.toNat?

def sortNat (l : List Nat) : List Nat := (l.toArray.qsort (· < ·)).toList

def projTree (l : List Item) : List (Nat × Nat × Nat × Nat) :=
  ((l.map fun x => (x.id, x.tx, x.len, x.uid)).toArray.qsort (fun a b => a.1 < b.1)).toList

def projTreeU (l : List Item) : List (Nat × Nat × Nat) :=
  ((l.map fun x => (x.uid, x.tx, x.len)).toArray.qsort (fun a b => a.1 < b.1)).toList

def outTok (l : List Item) : List String := l.map fun x => if x.len == 0 then "z" else toString x.uid

/-- id-agnostic copy: ids replaced by uid+1 (newer = later submission) -/
def reId (l : List Item) : List Item := l.map fun x => { x with id := x.uid + 1 }

def handleSeq (fs : List (String × String)) : String := Id.run do
  let opsS := splitNE (getD fs "ops" "") ";"
  let mut tbl : Array Meta := #[]
  let mut q : Q := {}
  let mut implItems : List Item := []
  let mut implFinAll : List Nat := []
  let mut agree := true
  let mut bad : Option String := none
  let mut notes : List String := []
  let mut idx := 0
  let mut nontriv := 0
  let mut br := ""
  for os in opsS do
    let secs := os.splitOn "/"
    let [desc, finS, outS, treeS, idGenS, tmokS, pan] := secs | return s!"PARSE op{idx}"
    let d := desc.splitOn ":"
    -- the operation
    let some (op, isGet) := (match d with
      | ["q", k, nm, sj, ln] => do
        let kind ← match k with | "n" => some Kind.named | "u" => some Kind.unique | "p" => some Kind.plain | _ => none
        let subj ← sj.toNat?
        let len ← ln.toNat?
        some (Op.queue kind (if nm == "-" then "" else nm) subj len, false)
      | ["g", o, l, t] => do some (Op.get (← o.toInt?) (← l.toInt?) (← t.toInt?), true)
      | ["p", m] => do some (Op.prune (← m.toInt?), false)
      | ["r"] => some (Op.reset, false)
      | ["n"] => some (Op.num, false)
      | _ => none) | return s!"PARSE desc{idx}"
    if let .queue kind name subj len := op then
      tbl := tbl.push { kind, name, subj, len }
    if pan == "panic" then
      if bad.isNone then bad := some s!"panic@op{idx}:{desc}"
      agree := false
      notes := s!"op{idx}:impl-panic" :: notes
      break
    let some implPost := parseTree tbl treeS | return s!"PARSE tree{idx}"
    let implFin := sortNat (parseNats finS)
    let some implIdGen := idGenS.toNat? | return s!"PARSE idgen{idx}"
    -- (1) whole-trace agreement with the carried model state
    let finBefore := q.finished.length
    let (q', mout) := match op with
      | .get o l t => get q o l t
      | _ => (step q op, [])
    let mFin := sortNat (q'.finished.drop finBefore)
    let mutOut := if isGet then (if mout.isEmpty then "-" else String.intercalate "," (outTok mout))
                  else (match op with | .num => toString (numQueued q) | _ => "-")
    if projTree q'.items != projTree implPost || q'.idGen != implIdGen || mFin != implFin || mutOut != outS then
      agree := false
      notes := s!"op{idx}:{desc}:model(tree={(projTree q'.items).length},idgen={q'.idGen},fin={mFin},out={mutOut})" :: notes
    q := q'
    -- (2) property predicate: one model step from the implementation's own pre-state, id-agnostic
    if bad.isNone then
      let pre : Q := { items := reId implItems, idGen := tbl.size - (match op with | .queue .. => 1 | _ => 0),
                       nextUid := tbl.size - (match op with | .queue .. => 1 | _ => 0), finished := [] }
      let (p', pout) := match op with
        | .get o l t => get pre o l t
        | _ => (step pre op, [])
      let pFin := sortNat p'.finished
      let pOut := if isGet then (if pout.isEmpty then "-" else String.intercalate "," (outTok pout))
                  else (match op with | .num => toString (numQueued pre) | _ => "-")
      let uids := implPost.map (·.uid)
      if tmokS != "1" then bad := some s!"name-index-inconsistent@op{idx}"
      else if uids.eraseDups.length != uids.length then bad := some s!"duplicate-item@op{idx}"
      else if implFin.any (fun u => implFinAll.contains u) then bad := some s!"finished-twice@op{idx}"
      else if implFin.any (fun u => uids.contains u) then bad := some s!"finished-but-still-queued@op{idx}"
      else if (List.range tbl.size).any (fun u => !(uids.contains u) && !(implFinAll.contains u) && !(implFin.contains u)) then
        bad := some s!"silent-loss@op{idx}:{desc}"
      else if pFin != implFin then bad := some s!"completion-callbacks-differ@op{idx}:{desc}:expected={pFin},got={implFin}"
      else if projTreeU p'.items != projTreeU implPost then bad := some s!"queue-contents-differ@op{idx}:{desc}"
      else if pOut != outS then bad := some s!"retrieval-differs@op{idx}:{desc}:expected={pOut},got={outS}"
      else if isGet then
        match op with
        | .get o l _ =>
          let total : Int := (pout.map fun x => (x.len : Int) + o).foldl (· + ·) 0
          if !pout.isEmpty && total > l then bad := some s!"over-limit@op{idx}"
        | _ => pure ()
    if isGet && mout.length ≥ 2 then nontriv := nontriv + 1
    implFinAll := implFinAll ++ implFin
    implItems := implPost
    idx := idx + 1
  br := s!"seq{min nontriv 3}"
  return s!"{if agree then "agree" else "DISAGREE"} {match bad with | none => "ok" | some b => "BAD:" ++ b} nt={if nontriv ≥ 1 then 1 else 0} br={br} {String.intercalate ";" (notes.reverse.take 4)}"

def digits : Nat → Nat → Nat
  | 0, _ => 0
  | fuel + 1, n => if n == 0 then 0 else 1 + digits fuel (n / 10)

def handleRl (fs : List (String × String)) : String :=
  match getNat fs "mult", getNat fs "n", getInt fs "val" with
  | some m, some n, some v =>
    let expect : Int := (m * digits 64 n : Nat)
    if v == expect then s!"agree ok nt={if n ≥ 9 then 1 else 0} br=rl"
    else s!"DISAGREE BAD:retransmitLimit({m},{n})={v},expected={expect} nt=1 br=rl"
  | _, _, _ => "PARSE rl"

def handle (kind : String) (fs : List (String × String)) : String :=
  match kind with
  | "seq" => handleSeq fs
  | "rl" => handleRl fs
  | _ => "PARSE kind"

end Swim.Drv.C10
