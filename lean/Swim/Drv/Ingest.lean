import Swim.Util.Parse
import Swim.Drv.C17
import Swim.Model.Handoff
import Swim.Model.Ingest
/-! Driver side of the C13 / C14 correspondences. -/
namespace Swim.Drv.Ingest
open Swim.Parse Swim.Codec Swim.Ingest

/-- CRC-32 (IEEE 802.3, reflected, as hash/crc32.ChecksumIEEE) -/
def crc32 (b : Bytes) : UInt32 :=
  let step (c : UInt32) (x : UInt8) : UInt32 :=
    let c := c ^^^ x.toUInt32
    (List.range 8).foldl (fun c _ => if c &&& 1 == 1 then (c >>> 1) ^^^ 0xEDB88320 else c >>> 1) c
  (b.foldl step 0xFFFFFFFF) ^^^ 0xFFFFFFFF

def crcOk (want rest : Bytes) : Bool :=
  match want with
  | [a, b, c, d] => crc32 rest == (a.toUInt32 <<< 24 ||| b.toUInt32 <<< 16 ||| c.toUInt32 <<< 8 ||| d.toUInt32)
  | _ => false

def noAead : Aead := ⟨fun _ _ _ _ => none⟩

def sortStr (l : List String) : List String := (l.toArray.qsort (· < ·)).toList

def verdict (agree : Bool) (bad : Option String) (nt : Bool) (br : String) (note : String) : String :=
  s!"{if agree then "agree" else "DISAGREE"} {match bad with | none => "ok" | some b => "BAD:" ++ b} nt={if nt then 1 else 0} br={br} {note}"

def handlePkt (fs : List (String × String)) : String := Id.run do
  let some label := (get fs "label").bind hexBytes | return "PARSE label"
  let skip := getD fs "skip" "0" == "1"
  let some buf := (get fs "buf").bind hexBytes | return "PARSE buf"
  let got := getD fs "got" "-"
  let changed := getD fs "changed" "0" == "1"
  let replies := (getNat fs "replies").getD 0
  let panicked := getD fs "panic" "0" == "1"
  let c : RxCfg := { label, skipInbound := skip, keys := [], verifyIncoming := false }
  let res := ingestPacket noAead crcOk c buf
  let (users, dropped) := match res with
    | .ok ls => (ls.filterMap (fun (l : Leaf) => match l with | Leaf.user p => some (toHex p) | _ => none), false)
    | .error _ => ([], true)
  let mGot := if users.isEmpty then "-" else String.intercalate "," (sortStr users)
  let bad : Option String :=
    if panicked then some "panic"
    else if dropped && (got != "-" || changed || replies > 0) then some "dropped-packet-had-effect"
    else if changed && getD fs "decodable" "0" != "1" then some "undecodable-protocol-message-changed-membership"
    else none
  return verdict (mGot == got && !panicked) bad (users.length ≥ 2) (if dropped then "pkt-drop" else s!"pkt-{min users.length 3}") (if mGot == got then "" else s!"model={mGot}")

/-- oracle lines (mutation / stream / caps campaigns): the harness lists what went wrong -/
def handleOracle (fs : List (String × String)) (tag : String) : String :=
  let bad := getD fs "bad" "-"
  let n := (getNat fs "n").getD 0
  verdict (bad == "-") (if bad == "-" then none else some bad) (n ≥ 50) tag ""

def handleCaps (fs : List (String × String)) : String :=
  let res := splitNE (getD fs "res" "") ","
  let bads := res.filter fun r => !r.endsWith "=ok"
  verdict bads.isEmpty (if bads.isEmpty then none else some ("cap-not-enforced:" ++ String.intercalate "," bads)) true "caps" ""

/-- the handoff queues against `Swim.Handoff`: what took effect once the parked handler ran, in order -/
def handleHandoff (fs : List (String × String)) : String := Id.run do
  let some depth := getNat fs "depth" | return "PARSE depth"
  let some msgs := (splitNE (getD fs "msgs" "") ",").mapM (fun x => match x.splitOn ":" with
    | [k, tag, ok] => tag.toNat?.map fun t => ({ kind := if k == "a" then .alive else .other, tag := t, srcOk := ok == "1" } : Swim.Handoff.Msg)
    | _ => none) | return "PARSE msgs"
  let q := Swim.Handoff.pushes depth {} msgs
  let model := String.intercalate "." ((Swim.Handoff.effects q).map fun (k, t) => (if k == .alive then "a" else "o") ++ toString t)
  let model := if model == "" then "-" else model
  let got := getD fs "log" "-"
  let queued := (getNat fs "queued").getD 0
  let outsiderIn := msgs.any fun m => m.kind == .alive && !m.srcOk && (got.splitOn ".").contains s!"a{m.tag}"
  let bad : Option String :=
    if queued > 2 * depth then some s!"handoff-queues-hold-{queued}-messages-for-depth-{depth}"
    else if outsiderIn then some "alive-from-disallowed-source-took-effect-via-the-handoff-queue"
    else none
  return verdict (model == got) bad (msgs.length ≥ 8) s!"handoff-d{depth}" (if model == got then "" else s!"model={model}")

def handleC13 (kind : String) (fs : List (String × String)) : String :=
  match kind with
  | "pkt" => handlePkt fs
  | "mut" => handleOracle fs s!"mut-{getD fs "msg" "?"}-{getD fs "enc" "?"}"
  | "str" => handleOracle fs s!"str-{getD fs "kind" "?"}-{getD fs "enc" "?"}"
  | "caps" => handleCaps fs
  | "fld" => handleOracle fs "fields"
  | "stall" => handleOracle fs s!"stall-{getD fs "enc" "?"}"
  | "nacks" => handleOracle fs "nacks"
  | "handoff" => handleHandoff fs
  | _ => "PARSE kind"


/-! ### C14 -/

def handleC14Mut (fs : List (String × String)) : String := Id.run do
  let path := getD fs "path" "pkt"
  let some v := getNat fs "v" | return "PARSE v"
  let src := getD fs "src" "?"
  let some plain := (get fs "plain").bind hexBytes | return "PARSE plain"
  let base := getD fs "base" "000"
  let n := (getNat fs "n").getD 0
  let acts := splitNE (getD fs "acted" "-") "," |>.filter (· != "-")
  let genuine := src == "genuine1" || src == "genuine2" || src == "skipown" || src == "keptlast"
  let mut agree := true
  let mut bad : Option String := none
  let mut notes : List String := []
  -- baseline
  let expBase := if genuine then "110" else "000"
  if base != expBase then
    agree := false; notes := s!"base:model={expBase},impl={base}" :: notes
  if base.drop 2 == "1" then bad := some "panic:baseline"
  else if !genuine && base.take 1 == "1" then bad := some s!"acted-on-unauthenticated-traffic:{src}:{path}"
  -- the symbolic model: with AEAD integrity every modification of nonce/body/tag/prefix/label is rejected;
  -- only the (unauthenticated) version byte can be changed, and only between 0 and 1.
  let flipAccepted : Bool :=
    if !genuine then false
    else if v == 1 then pkcs7valid plain 16 && path == "pkt"   -- stream: the stripped message is short of its declared length
    else true
  let expActs : List String :=
    (if flipAccepted then [s!"ver:0:{if path == "str" then 1 else 0}"] else []) ++
    (if genuine && path == "str" then ["extend:1:1", "extend:6:1", "extend:11:1", "extend:16:1"] else [])
  let normal (a : String) : String := match a.splitOn ":" with
    | [k, _, bit, eq] => s!"{k}:{bit}:{eq}"
    | _ => a
  let gotActs := acts.map normal
  if gotActs != expActs then
    agree := false; notes := s!"acted:model={expActs},impl={gotActs}" :: notes
  if bad.isNone then
    for a in acts do
      match a.splitOn ":" with
      | [k, off, bit, eq] =>
        if eq == "panic" then bad := some s!"panic:{k}:{off}:{bit}"; break
        if eq != "1" then
          bad := some s!"different-plaintext-accepted:{k}:bit{bit}:v{v}:{path}:{if genuine then "genuine" else src}"; break
      | _ => pure ()
  return verdict agree bad (n ≥ 100) s!"c14-{path}-v{v}-{src}" (String.intercalate ";" notes)

def handleC15 (kind : String) (fs : List (String × String)) : String :=
  match kind with
  | "race" =>
      let bad := getD fs "bad" "-"
      verdict (bad == "-") (if bad == "-" then none else some bad) ((getNat fs "packets").getD 0 ≥ 8) "race" ""
  | "tap" => if (get fs "err").isSome then "PARSE create" else
      let bad := getD fs "bad" "-"
      let n := (getNat fs "packets").getD 0 + (getNat fs "streams").getD 0
      verdict (bad == "-") (if bad == "-" then none else some bad) (n ≥ 8)
        s!"tap-l{getD fs "late" "0"}r{getD fs "rotate" "0"}s{getD fs "skip" "0"}p{getD fs "proto" "2"}" ""
  | _ => "PARSE kind"

/-- the reply on the stream fallback of a probe: acknowledged iff the reply is sealed under an installed key
with the node's own label as associated data (no header is carried on a reply) and bears the probe's number -/
def handleFbPing (fs : List (String × String)) : String := Id.run do
  let some own := (get fs "own").bind hexBytes | return "PARSE own"
  let some aad := (get fs "aad").bind hexBytes | return "PARSE aad"
  let sameKey := getD fs "samekey" "0" == "1"
  let plain := getD fs "plain" "0" == "1"
  let seqOk := getD fs "seqoff" "0" == "0"
  let res := getD fs "res" "?"
  let admitted := !plain && Swim.Codec.sealedStreamAdmitted own true [] aad sameKey
  let want := if admitted && seqOk then "acked" else "refused"
  let bad : Option String :=
    if res == "panic" || res == "blocked" then some s!"fallback-ping-{res}"
    else if res == "acked" && plain then some "unsealed-reply-counted-as-acknowledgement"
    else if res == "acked" && !admitted then some s!"reply-sealed-for-another-label-or-key-counted-as-acknowledgement:skip={getD fs "skip" "?"}:samekey={sameKey}"
    else if res == "acked" && !seqOk then some "acknowledgement-with-a-foreign-number-accepted"
    else if res == "refused" && admitted && seqOk then some s!"genuine-reply-refused:skip={getD fs "skip" "?"}"
    else none
  return s!"{if res == want then "agree" else "DISAGREE"} {match bad with | none => "ok" | some b => "BAD:" ++ b} nt={if !own.isEmpty then 1 else 0} br=fbping-{want}-skip{getD fs "skip" "?"} "

def handleC14 (kind : String) (fs : List (String × String)) : String :=
  match kind with
  | "mut" => handleC14Mut fs
  | "fbping" => handleFbPing fs
  | "conc" => Swim.Drv.C17.handleConc fs
  | _ => "PARSE kind"

end Swim.Drv.Ingest
