import Swim.Drv.Merge
import Swim.Model.Cluster
/-!
Driver side of the multi-node step harness: replays a cluster history on `Swim.Cluster.World`,
checks that every delivered claim is in the model's pool, compares the acting node's state, effects
and claim contents with the real node after every step, and evaluates the conclusions of the
cluster-level theorems on the real nodes' states.
-/
namespace Swim.Drv.Cluster
open Swim.Parse Swim.Merge Swim.Cluster Swim.Drv.Merge

def parseMsg (s : String) : Option Msg :=
  match s.splitOn "~" with
  | ["a", node, inc, addr, port, md, vsn] => do
    pure (.alive { inc := ← inc.toNat?, node, addr := ← addr.toNat?, port := ← port.toNat?, md := ← md.toNat?, vsn := parseVsn vsn })
  | ["s", node, inc, frm] => do pure (.suspect { inc := ← inc.toNat?, node, frm })
  | ["d", node, inc, frm] => do pure (.dead { inc := ← inc.toNat?, node, frm })
  | ["e", name, addr, port, md, inc, st, vsn] => do
    pure (.state { name, addr := ← addr.toNat?, port := ← port.toNat?, md := ← md.toNat?, inc := ← inc.toNat?, st := ← parseSt st,
                   vsn := parseVsn vsn, ipAllowed := true, delegateOk := true, offset := 0 })
  | _ => none

/-- conclusions of the cluster theorems, on the real nodes' latest observations -/
def implInv (healthy : Bool) (names : List String) (obs : Array Obs) : Option String := Id.run do
  let mut i := 0
  for o in obs do
    let self := names.getD i "?"
    if healthy then
      if o.score != 0 then return some s!"healthy:score-{o.score}@{self}"
      if !o.timers.isEmpty then return some s!"healthy:suspicion-timer@{self}"
    for r in o.recs do
      if healthy && (r.st == .suspect || r.st == .dead) then return some s!"healthy:{stStr r.st}-record:{r.name}@{self}"
      if r.name == self then
        if !o.hasLeft && r.st != .alive then return some s!"own-record-not-alive@{self}"
        continue
      match names.idxOf? r.name with
      | none => return some s!"record-about-unknown-member:{r.name}@{self}"
      | some j =>
        match obs[j]? with
        | none => pure ()
        | some oo =>
          match findRec oo r.name with
          | none => pure ()      -- the subject has left and reaped its own record
          | some me =>
            if r.inc > me.inc then return some s!"claim-above-subject:{r.name}:{r.inc}>{me.inc}@{self}"
            if r.addr != me.addr || r.port != me.port then return some s!"foreign-address-recorded:{r.name}@{self}"
            if r.st == .left && !oo.hasLeft then return some s!"left-recorded-for-member-that-did-not-leave:{r.name}@{self}"
            if r.st == .alive && r.inc == me.inc && r.md != me.md then return some s!"alive-record-with-foreign-content:{r.name}@{self}"
    if healthy then
      for ev in o.outs do
        match ev.splitOn "/" with
        | ["l", nm] =>
          match names.idxOf? nm with
          | some j => if !(obs[j]?.map (·.hasLeft)).getD true then return some s!"healthy:leave-event-for-member-that-did-not-leave:{nm}@{self}"
          | none => pure ()
        | _ => pure ()
    i := i + 1
  return none

def handleCluster (fs : List (String × String)) : String := Id.run do
  if (get fs "err").isSome then return "PARSE create-error"
  let healthy := getD fs "healthy" "0" == "1"
  let names := (getD fs "names" "").splitOn ","
  let cfgSs := (getD fs "cfgs" "").splitOn ","
  let initSs := (getD fs "init" "").splitOn "~~"
  if names.length != cfgSs.length || names.length != initSs.length then return "PARSE arity"
  let mut nodes : List Node := []
  let mut obsArr : Array Obs := #[]
  for (nm, (cs, is)) in names.zip (cfgSs.zip initSs) do
    let [_, rc, ad, am, sm] := (cs.splitOn ".").map (·.toNat?.getD 0) | return "PARSE cfg"
    let cfg : Cfg := { self := nm, reclaim := rc == 1, hasAliveDelegate := ad == 1, hasConflictDelegate := true,
                       awarenessMax := am, suspicionK := sm - 2 }
    let some o := parseObs is | return "PARSE init"
    nodes := nodes ++ [initNode cfg o]
    obsArr := obsArr.push o
  let pool0 := nodes.filterMap fun n => (lookup n.recs n.cfg.self).map fun me => Msg.alive (aliveOfRec me)
  let mut w : World := { nodes, pool := pool0 }
  let mut ghosts : Array (Array (String × Nat)) := Array.replicate names.length #[]
  let mut agree := true
  let mut bad : Option String := none
  let mut notes : List String := []
  let mut idx := 0
  let mut changes := 0
  let opsS := splitNE (getD fs "ops" "") ";"
  for os in opsS do
    let [tok0, obsS] := os.splitOn ">" | return s!"PARSE op{idx}"
    let blocked := tok0.endsWith "!blocked"
    let tok := if blocked then (tok0.dropEnd 8).toString else tok0
    if blocked && bad.isNone then bad := some s!"call-blocked-or-panicked@op{idx}:{tok}"
    let some post := parseObs obsS | return s!"PARSE obs{idx}"
    let parts := tok.splitOn ":"
    let x := parts.getD 1 "?"
    let some xi := names.idxOf? x | return s!"PARSE node{idx}:{tok}"
    let now := idx + 1
    let env : Env := { now, ipAllowed := true, delegateOk := true, offset := 0 }
    let ghost := ghosts[xi]?.getD #[]
    -- the cluster steps this harness operation stands for (a batch merge is one delivery per entry)
    let mut cops : List COp := []
    match parts with
    | ["V", _, ms] =>
      let some m := parseMsg ms | return s!"PARSE msg{idx}:{ms}"
      match w.pool.findIdx? (· == m) with
      | some k => cops := [.deliver x k env]
      | none =>
        if agree then notes := s!"op{idx}:{tok}:claim-not-in-model-pool" :: notes
        agree := false
        -- continue with the claim injected, so that later steps stay comparable
        w := { w with pool := w.pool ++ [m] }
        cops := [.deliver x (w.pool.length - 1) env]
    | ["W", _, mss] =>
      for ms in mss.splitOn "+" do
        let some m := parseMsg ms | return s!"PARSE msg{idx}:{ms}"
        match w.pool.findIdx? (· == m) with
        | some k => cops := cops ++ [.deliver x k env]
        | none =>
          if agree then notes := s!"op{idx}:{tok}:claim-not-in-model-pool" :: notes
          agree := false
          w := { w with pool := w.pool ++ [m] }
          cops := cops ++ [.deliver x (w.pool.length - 1) env]
    | ["N", _] => cops := [.snapshot x]
    | ["U", _, md] => cops := [.announce x 0 0 (md.toNat?.getD 0) [] env]
    | ["L", _] => cops := [.leave x env]
    | ["F", _, ti] =>
      match ghost[ti.toNat?.getD 0]? with
      | some (node, ca) => cops := [.fire x node ca env]
      | none => cops := [.age x ""]
    | ["R", _] => cops := [.reap x]
    | ["G", _, nm] => cops := [.age x nm]
    | ["P", _, t] => cops := [.probeFail x t env]
    | _ => return s!"PARSE tok{idx}:{tok}"
    let some pre := nodeAt w x | return s!"PARSE nonode{idx}"
    let mut w' := w
    let mut emitted : List (Out × List Msg) := []
    for cop in cops do
      match nodeOp w' cop, nodeAt w' x with
      | some (_, o), some cur => emitted := emitted ++ stepEmit cur o
      | _, _ => pure ()
      w' := w'.step cop
    let mOuts := canonOuts emitted
    let some n' := nodeAt w' x | return s!"PARSE nonode'{idx}"
    let fresh := n'.timers.filter fun t => !(ghost.any fun g => g.1 == t.node && g.2 == t.changedAt)
    let mut ghost' := ghost
    for nd in sortStr (fresh.map (·.node)) do
      match fresh.find? (·.node == nd) with
      | some t => ghost' := ghost'.push (t.node, t.changedAt)
      | none => pure ()
    ghosts := ghosts.set! xi ghost'
    if canonRecs n' != post.recs || canonTimers n' != post.timers || n'.selfInc != post.selfInc ||
       n'.score != post.score || n'.numNodes != post.numNodes || n'.hasLeft != post.hasLeft || mOuts != post.outs then
      if agree then
        notes := s!"op{idx}:{tok}:model(recs={canonRecs n' == post.recs},tm={canonTimers n' == post.timers},inc={n'.selfInc},score={n'.score},nn={n'.numNodes},outs={mOuts})" :: notes
      agree := false
    if canonRecs pre != canonRecs n' then changes := changes + 1
    obsArr := obsArr.set! xi post
    if bad.isNone then
      match implInv healthy names obsArr with
      | some b => bad := some s!"cluster-invariant:{b}@op{idx}:{tok}"
      | none => pure ()
    w := w'
    idx := idx + 1
  return s!"{if agree then "agree" else "DISAGREE"} {match bad with | none => "ok" | some b => "BAD:" ++ b} nt={if changes ≥ 4 then 1 else 0} br=cluster-n{names.length}-ch{min (changes / 4) 5} {String.intercalate ";" (notes.reverse.take 2)}"

end Swim.Drv.Cluster
