import Swim.Util.Parse
import Swim.Model.Probe
/-! Driver side of the C03 correspondences (probe cursor; crash-detection bound). -/
namespace Swim.Drv.C03
open Swim.Parse Swim.Probe

def verdict (agree : Bool) (bad : Option String) (nt : Bool) (br : String) (note : String) : String :=
  s!"{if agree then "agree" else "DISAGREE"} {match bad with | none => "ok" | some b => "BAD:" ++ b} nt={if nt then 1 else 0} br={br} {note}"

def parseSnap (s : String) : Option Cursor :=
  match s.splitOn "@" with
  | [ns, idx] => do
    let i ← idx.toNat?
    let nodes ← (splitNE ns ",").mapM fun t => match t.splitOn "/" with
      | [name, g, r] => some ({ name, gone := g == "1", reapable := r == "1" } : PNode)
      | _ => none
    pure { nodes, idx := i }
  | _ => none

def sortStr (l : List String) : List String := (l.toArray.qsort (· < ·)).toList

def handleCursor (fs : List (String × String)) : String := Id.run do
  let some init := (get fs "init").bind parseSnap | return "PARSE init"
  let mut c := init
  let mut agree := true
  let mut bad : Option String := none
  let mut notes : List String := []
  let mut idx := 0
  let mut probes := 0
  for os in splitNE (getD fs "ops" "") ";" do
    let [opS, snapS] := os.splitOn ">" | return s!"PARSE op{idx}"
    let some post := parseSnap snapS | return s!"PARSE snap{idx}"
    match opS.splitOn ":" with
    | ["P", tgt] =>
      -- the shuffle at a wrap-around is observed: survivors in the implementation's new order
      let reorder (l : List PNode) : List PNode :=
        if sortStr (l.map (·.name)) == sortStr (post.nodes.map (·.name)) then post.nodes else l
      let (c', t) := probe "S" reorder c
      let mT := match t with | some n => n.name | none => "-"
      if mT != tgt || c'.idx != post.idx || c'.nodes != post.nodes then
        agree := false
        notes := s!"op{idx}:model(target={mT},idx={c'.idx}),impl(target={tgt},idx={post.idx})" :: notes
        if bad.isNone && mT != tgt then bad := some s!"probe-schedule-differs:expected-{mT}-got-{tgt}@op{idx}"
      if bad.isNone && tgt != "-" then
        match c.nodes.find? (·.name == tgt) with
        | some n => if tgt == "S" || n.gone then bad := some s!"probed-self-or-dead-member:{tgt}@op{idx}"
        | none => pure ()
      probes := probes + 1
      c := post
    | [opk, name] =>
      if !(c.nodes.any (·.name == name)) && (opk == "A" || opk == "V") then
        -- append and swap with a random offset: the new entry sits at o, the former o-th entry at the end
        let k := c.nodes.length
        let okShape := post.nodes.length == k + 1 && post.idx == c.idx &&
          (match post.nodes.findIdx? (·.name == name) with
           | some o => (List.range (k + 1)).all fun j =>
               if j == o then true
               else if j == k then post.nodes[k]? == c.nodes[o]?
               else post.nodes[j]? == c.nodes[j]?
           | none => false)
        if !okShape then agree := false; notes := s!"op{idx}:insert-shape" :: notes
      else if post.idx != c.idx || post.nodes.map (·.name) != c.nodes.map (·.name) then
        agree := false; notes := s!"op{idx}:{opS}:cursor-or-order-changed" :: notes
      c := post
    | _ =>
      if post.idx != c.idx || post.nodes.map (·.name) != c.nodes.map (·.name) then
        agree := false; notes := s!"op{idx}:{opS}:cursor-or-order-changed" :: notes
        if bad.isNone && (opS.startsWith "G" || opS.startsWith "X") then
          bad := some s!"member-list-reordered-outside-the-wrap-around:{opS}@op{idx}"
      c := post
    idx := idx + 1
  return verdict agree bad (probes ≥ 5) s!"cursor{min (probes / 5) 4}" (String.intercalate ";" (notes.reverse.take 2))

def handleSim (fs : List (String × String)) : String := Id.run do
  if (get fs "err").isSome then return "PARSE create"
  let some n := getNat fs "n" | return "PARSE n"
  let some probeMs := getNat fs "probems" | return "PARSE probems"
  let some suspMaxMs := getNat fs "suspmaxms" | return "PARSE suspmax"
  let res := (splitNE (getD fs "res" "-") ",").filter (· != "-")
  let inv := getD fs "inv" "ok"
  let mut bad : Option String := if inv == "ok" || inv == "enc" then none else some s!"cluster-invariant:{inv}"
  let mut worstRatio := 0
  for r in res do
    let [s, cn, latS, leaveS, scoreS] := r.splitOn ":" | return s!"PARSE res:{r}"
    let some lat := latS.toInt? | return "PARSE lat"
    let score := scoreS.toNat?.getD 0
    -- bound evaluated with the slowest pace this survivor showed: (score+1) x ProbeInterval
    let bound := detectBound n ((score + 1) * probeMs) suspMaxMs
    if bad.isNone then
      if lat < 0 then bad := some s!"crashed-member-still-listed:{cn}@{s}:n={n}"
      else if lat.toNat > bound then bad := some s!"removed-after-the-bound:{cn}@{s}:{lat}ms>{bound}ms:n={n}"
      else if leaveS != "1" then bad := some s!"no-leave-event:{cn}@{s}"
    if lat ≥ 0 && bound > 0 then worstRatio := max worstRatio (lat.toNat * 100 / bound)
  return verdict true bad (res.length ≥ 2) s!"sim-own{getD fs "own" "0"}-loss{getD fs "loss" "0"}" s!"worst%={worstRatio}"

def handle (kind : String) (fs : List (String × String)) : String :=
  match kind with
  | "cursor" => handleCursor fs
  | "sim" => handleSim fs
  | "leak" => s!"DISAGREE BAD:goroutines-still-blocked-after-shutdown:{getD fs "msg" "?"} nt=0 br=leak "
  | "stuck" => s!"DISAGREE BAD:scenario-made-no-progress-for-{getD fs "after" "?"}-of-real-time(virtual-time-cannot-advance:a-goroutine-waits-for-a-lock) nt=0 br=stuck "
  | _ => "PARSE kind"

end Swim.Drv.C03
