import Swim.Util.Parse
import Swim.Model.Susp
/-! Driver side of the C06 timed-script correspondence. -/
namespace Swim.Drv.C06
open Swim.Parse Swim.Susp

def handleSusp (fs : List (String × String)) : String := Id.run do
  let some kI := getInt fs "k" | return "PARSE k"
  let k := kI.toNat   -- a negative k (SuspicionMult 1) behaves like 0: minimum timeout, no confirmation counts
  let some minT := getNat fs "min" | return "PARSE min"
  let some maxT := getNat fs "max" | return "PARSE max"
  let tableI := (splitNE (getD fs "table" "") ",").filterMap String.toInt?
  let script := (splitNE (getD fs "script" "-") ";").filter (· != "-")
  let firedS := (getD fs "fired" "-1:-1").splitOn ":"
  let some firedAt := (firedS.getD 0 "-1").toInt? | return "PARSE fired"
  let some firedN := (firedS.getD 1 "-1").toInt? | return "PARSE firedN"
  -- the schedule as the real remainingSuspicionTime returned it for n = 0..k
  let table : List Nat := tableI.map Int.toNat
  let tmo (j : Nat) : Nat := table.getD j minT
  let mut bad : Option String := none
  if tableI.any (· < 0) then bad := some "timeout-schedule-negative"
  -- hypotheses `Sched`: bounded, reaches the minimum at k, never increases
  if bad.isNone then
    for j in List.range (k + 1) do
      if tmo j < minT then bad := some s!"timeout-below-minimum:n={j}:k={k}:{tmo j}<{minT}"; break
      if tmo j > maxT then bad := some s!"timeout-above-maximum:n={j}:k={k}"; break
      if j > 0 && tmo j > tmo (j - 1) then bad := some s!"confirmation-lengthens-timeout:n={j}:k={k}"; break
    if bad.isNone && k ≥ 1 && tmo k != minT then bad := some s!"k-confirmations-do-not-reach-minimum:k={k}"
  -- replay on the model
  let mut s : T := new "a" k minT maxT 0
  let mut agree := true
  let mut notes : List String := []
  let mut seen : List String := ["a"]
  let mut count := 0
  let mut idx := 0
  for st in script do
    let [tS, frm, resS] := st.splitOn ":" | return s!"PARSE step{idx}"
    let some t := tS.toNat? | return s!"PARSE t{idx}"
    let (s', ok) := confirm tmo s frm t
    if (if ok then "1" else "0") != resS then
      agree := false; notes := s!"step{idx}:model={ok},impl={resS}" :: notes
    -- property: each distinct confirmer counts once, the accuser never, at most k in total
    let shouldCount := !seen.contains frm && count < k
    if bad.isNone && (resS == "1") != shouldCount then
      bad := some s!"confirmation-counting:{frm}@step{idx}:counted={resS},k={k},distinct-so-far={count}"
    if resS == "1" then
      seen := seen ++ [frm]; count := count + 1
    s := s'
    idx := idx + 1
  let fin := run tmo s []
  let mFired : Int := match fin.firedAt with | some f => f | none => -1
  if mFired != firedAt then
    agree := false; notes := s!"fired:model={mFired},impl={firedAt}" :: notes
  if bad.isNone then
    if firedN ≤ -100 then bad := some "timeout-callback-ran-twice"
    else if firedAt < 0 then bad := some "timer-never-fired"
    else if firedAt < minT then bad := some s!"declared-dead-before-minimum:{firedAt}<{minT}:k={k}"
    else if firedAt > maxT then bad := some s!"still-suspect-after-maximum:{firedAt}>{maxT}:k={k}"
    else if k == 0 && firedAt != minT then bad := some s!"k0-not-minimum-from-start"
  return s!"{if agree then "agree" else "DISAGREE"} {match bad with | none => "ok" | some b => "BAD:" ++ b} nt={if count ≥ 1 then 1 else 0} br=susp-k{min k 4}-c{min count 3} {String.intercalate ";" notes.reverse}"

/-- a refutation accepted while the expiry of the suspicion is being carried out: the member stays (at the refuting
incarnation); with nothing in the window the expiry goes through -/
def handleRace (fs : List (String × String)) : String :=
  let inc := (getNat fs "inc").getD 0
  let how := (getNat fs "how").getD 2
  let st := (getInt fs "state").getD (-1)
  let ginc := (getNat fs "ginc").getD 0
  let listed := getD fs "listed" "0" == "1"
  let hooked := getD fs "hooked" "0" == "1"
  let refuted := how < 2 && hooked
  let agree := if refuted then st == 0 && ginc == inc + 1 && listed else st == 2 && !listed
  let bad : Option String :=
    if !hooked then some "expiry-did-not-reach-its-log-statement(schedule-point-lost)"
    else if refuted && (st != 0 || !listed) then
      some s!"member-declared-dead-although-its-refutation-was-accepted-first:state={st}:incarnation={ginc}"
    else if !refuted && listed then some "expired-suspicion-left-the-member-listed"
    else none
  s!"{if agree then "agree" else "DISAGREE"} {match bad with | none => "ok" | some b => "BAD:" ++ b} nt={if refuted then 1 else 0} br=race-how{how} "

end Swim.Drv.C06
