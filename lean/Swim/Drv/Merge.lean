import Swim.Util.Parse
import Swim.Drv.Msgpack
import Swim.Model.Merge
import Swim.Model.Cluster
/-!
Driver side of the merge-rule step harness (C01 C02 C07 C08 C18): replays a history on the
model, compares every post-state and effect list, and evaluates the property predicate of
the requesting property on the *implementation's* trace.
-/
namespace Swim.Drv.Merge
open Swim.Parse Swim.Merge

def parseSt : String → Option St
  | "a" => some .alive | "s" => some .suspect | "d" => some .dead | "l" => some .left | _ => none

def stStr : St → String
  | .alive => "a" | .suspect => "s" | .dead => "d" | .left => "l"

def parseVsn (s : String) : List Nat := if s == "-" then [] else (s.splitOn ".").filterMap String.toNat?

/-- canonical record: name, inc, st, addr, port, md, vsn, old? -/
structure CRec where
  name : String
  inc : Nat
  st : St
  addr : Nat
  port : Nat
  md : Nat
  vsn : List Nat
  old : Bool
  deriving DecidableEq, Repr

structure CTimer where
  node : String
  k : Nat
  n : Nat
  conf : List String
  deriving DecidableEq, Repr

structure Obs where
  recs : List CRec          -- sorted by name
  order : List String       -- names in implementation order
  timers : List CTimer      -- sorted by node
  selfInc : Nat
  score : Nat
  numNodes : Nat
  hasLeft : Bool
  outs : List String        -- events in order, then broadcasts sorted
  deriving Repr

def sortStr (l : List String) : List String := (l.toArray.qsort (· < ·)).toList

def parseRec (s : String) : Option CRec :=
  match s.splitOn "/" with
  | [name, inc, st, addr, port, md, vsn, age] => do
    pure { name, inc := ← inc.toNat?, st := ← parseSt st, addr := ← addr.toNat?, port := ← port.toNat?,
           md := ← md.toNat?, vsn := parseVsn vsn, old := age == "o" }
  | _ => none

def parseTimer (s : String) : Option CTimer :=
  match s.splitOn "/" with
  | [node, k, n, conf] => do
    pure { node, k := ← k.toNat?, n := ← n.toNat?, conf := sortStr (splitNE conf "+") }
  | _ => none

def parseObs (s : String) : Option Obs :=
  match s.splitOn "|" with
  | [recs, timers, si, sc, nn, hl, outs] => do
    let rs ← (if recs == "-" then some [] else (recs.splitOn ",").mapM parseRec)
    let ts ← (if timers == "-" then some [] else (timers.splitOn ",").mapM parseTimer)
    pure { recs := (rs.toArray.qsort (fun a b => a.name < b.name)).toList, order := rs.map (·.name),
           timers := (ts.toArray.qsort (fun a b => a.node < b.node)).toList,
           selfInc := ← si.toNat?, score := ← sc.toNat?, numNodes := ← nn.toNat?, hasLeft := hl == "1",
           outs := if outs == "-" then [] else outs.splitOn "," }
  | _ => none

/-- model node → canonical observation pieces -/
def canonRecs (n : Node) : List CRec :=
  ((n.recs.map fun r => ({ name := r.name, inc := r.inc, st := r.st, addr := r.addr, port := r.port, md := r.md,
                           vsn := r.vsn, old := r.changed.isNone } : CRec)).toArray.qsort (fun a b => a.name < b.name)).toList

def canonTimers (n : Node) : List CTimer :=
  ((n.timers.map fun t => ({ node := t.node, k := t.k, n := t.n, conf := sortStr t.confirmers } : CTimer)).toArray.qsort
    (fun a b => a.node < b.node)).toList

def kindStr : Kind → String
  | .alive => "a" | .suspect => "s" | .dead => "d"

def vsnStr (v : List Nat) : String := if v.isEmpty then "-" else String.intercalate "." (v.map toString)

/-- events in order; broadcasts net of same-name replacement, sorted. An alive broadcast is rendered
with the content of the claim handed to the network (`Swim.Cluster.emit`): address, port, metadata,
versions - compared with the decoded entry of the implementation's broadcast queue. -/
def canonOuts (outs : List (Out × List Swim.Cluster.Msg)) : List String :=
  let evs := outs.filterMap fun o => match o.1 with
    | .join n a p m => some s!"j/{n}/{a}/{p}/{m}"
    | .update n m => some s!"u/{n}/{m}"
    | .leave n => some s!"l/{n}"
    | .conflict n a p => some s!"c/{n}/{a}/{p}"
    | _ => none
  let bs := outs.filterMap fun o => match o.1 with
    | .bcast q k nd i f nt =>
      let base := s!"b/{q}/{kindStr k}/{nd}/{i}/{if f == "" then "-" else f}/{if nt then 1 else 0}"
      let content := match k, o.2 with
        | .alive, [.alive a] => s!"/{a.addr}/{a.port}/{a.md}/{vsnStr a.vsn}"
        | .alive, _ => "/?"
        | _, _ => ""
      some (q, base ++ content)
    | _ => none
  -- keep the last broadcast per queue name
  let net := bs.foldl (fun (acc : List (String × String)) b => (acc.filter (·.1 != b.1)) ++ [b]) []
  evs ++ sortStr (net.map (·.2))

/-- initial model state adopted from the implementation's initial observation -/
def initNode (cfg : Cfg) (o : Obs) : Node :=
  { cfg, recs := o.recs.map (fun r => { name := r.name, inc := r.inc, st := r.st, addr := r.addr, port := r.port, md := r.md,
                                        vsn := r.vsn, changed := if r.old then none else some 0 }),
    timers := o.timers.map (fun t => { node := t.node, k := t.k, n := t.n, confirmers := t.conf, changedAt := 0 }),
    selfInc := o.selfInc, hasLeft := o.hasLeft, score := o.score, numNodes := o.numNodes }

structure ParsedOp where
  op : Op
  blocked : Bool
  /-- single claims carried by the op: (kind letter, node, inc, from, addr, port, md, vsn, allowed, delegateOk) -/
  claims : List (String × String × Nat × String × Nat × Nat × Nat × List Nat × Bool × Bool)

def parseOp (tok : String) (now : Nat) (self : String) (selfRec : Option CRec) (ghost : Array (String × Nat)) (_implOrder : List String) :
    Option ParsedOp :=
  let blocked := tok.endsWith "!blocked"
  let tok := if blocked then (tok.dropEnd 8).toString else tok
  match tok.splitOn ":" with
  | ["A", node, inc, addr, port, md, vsn, boot, al, dok] => do
    let a : AliveMsg := { inc := ← inc.toNat?, node, addr := ← addr.toNat?, port := ← port.toNat?, md := ← md.toNat?, vsn := parseVsn vsn }
    let env : Env := { now, ipAllowed := al == "1", delegateOk := dok == "1", offset := 0 }
    pure { op := .alive a (boot == "1") env, blocked,
           claims := [("A", node, a.inc, "", a.addr, a.port, a.md, a.vsn, al == "1", dok == "1")] }
  | ["S", node, inc, frm] => do
    let i ← inc.toNat?
    pure { op := .suspect { inc := i, node, frm } { now, ipAllowed := true, delegateOk := true, offset := 0 }, blocked,
           claims := [("S", node, i, frm, 0, 0, 0, [], true, true)] }
  | ["D", node, inc, frm] => do
    let i ← inc.toNat?
    pure { op := .dead { inc := i, node, frm } { now, ipAllowed := true, delegateOk := true, offset := 0 }, blocked,
           claims := [("D", node, i, frm, 0, 0, 0, [], true, true)] }
  | ["M", es] => do
    let ents ← (if es == "-" then some [] else (es.splitOn ",").mapM fun e =>
      match e.splitOn "~" with
      | [name, addr, port, md, inc, st, vsn, al, dok] => do
        pure ({ name, addr := ← addr.toNat?, port := ← port.toNat?, md := ← md.toNat?, inc := ← inc.toNat?, st := ← parseSt st,
                vsn := parseVsn vsn, ipAllowed := al == "1", delegateOk := dok == "1", offset := 0 } : PushState)
      | _ => none)
    let claims := ents.map fun e =>
      match e.st with
      | .alive => ("A", e.name, e.inc, "", e.addr, e.port, e.md, e.vsn, e.ipAllowed, e.delegateOk)
      | .left => ("D", e.name, e.inc, e.name, 0, 0, 0, [], true, true)
      | _ => ("S", e.name, e.inc, self, 0, 0, 0, [], true, true)
    pure { op := .merge ents now, blocked, claims }
  | ["F", idx] => do
    let i ← idx.toNat?
    match ghost[i]? with
    | some (node, ca) => pure { op := .fire node ca { now, ipAllowed := true, delegateOk := true, offset := 0 }, blocked, claims := [] }
    | none => pure { op := .age "", blocked, claims := [] }
  | ["R"] => pure { op := .reap, blocked, claims := [] }
  | ["U", md] => do
    let m ← md.toNat?
    let (a, p) := match selfRec with | some r => (r.addr, r.port) | none => (0, 0)
    pure { op := .update a p m [1, 5, 2, 0, 0, 0] { now, ipAllowed := true, delegateOk := true, offset := 0 }, blocked, claims := [] }
  | ["L"] => pure { op := .leave { now, ipAllowed := true, delegateOk := true, offset := 0 }, blocked, claims := [] }
  | ["G", name] => pure { op := .age name, blocked, claims := [] }
  | _ => none

def findRec (o : Obs) (name : String) : Option CRec := o.recs.find? (·.name == name)

def membersOf (o : Obs) : List String := (o.recs.filter (fun r => !r.st.deadOrLeft)).map (·.name)

def rank : St → Nat
  | .alive => 0 | .suspect => 1 | .dead => 2 | .left => 2

def keyOf : Option CRec → Nat × Nat
  | none => (0, 0)
  | some r => (r.inc + 1, rank r.st)

def keyLe (a b : Nat × Nat) : Bool := a.1 < b.1 || (a.1 == b.1 && a.2 ≤ b.2)
def keyLt (a b : Nat × Nat) : Bool := a.1 < b.1 || (a.1 == b.1 && a.2 < b.2)

def outsAbout (outs : List String) (name : String) (kinds : List String) : List String :=
  outs.filter fun o => match o.splitOn "/" with
    | k :: rest => kinds.contains k && (if k == "b" then rest.getD 2 "" == name else rest.headD "" == name)
    | _ => false

structure Ctx where
  self : String
  reclaim : Bool
  allowlist : Bool
  allowedSet : List Nat
  awareMax : Nat
  aliveDel : Bool
  suspMult : Nat := 4

/-- does an alive claim pass the node's admission filters (version sanity, alive delegate)? -/
def admissible (cx : Ctx) (vsn : List Nat) (dok : Bool) : Bool :=
  !(vsnBad vsn) && (!cx.aliveDel || (vsn.length ≥ 6 && dok))

/-- may a different address take over this record? (left, or dead past the reclaim time) -/
def reclaimable (cx : Ctx) (r : CRec) : Bool := r.st == .left || (r.st == .dead && cx.reclaim && r.old)

/-- C01 on one implementation step -/
def c01Step (cx : Ctx) (pre post : Obs) (po : ParsedOp) : Option String := Id.run do
  if po.claims.isEmpty then return none
  let names := po.claims.map (·.2.1)
  -- frame: members not named by any claim keep their records
  for r in pre.recs do
    if !names.contains r.name && findRec post r.name != some r then return some s!"frame:{r.name}-changed"
  for (kind, node, inc, _frm, addr, port, _md, _vsn, allowed, _dok) in po.claims do
    if node == cx.self then continue
    if (names.filter (· == node)).length != 1 then continue   -- several entries about one member: judged by agreement only
    let pr := findRec pre node
    let qr := findRec post node
    let ck : Nat × Nat := (inc + 1, if kind == "A" then 0 else if kind == "S" then 1 else 2)
    let takeover := match pr with
      | some r => kind == "A" && (r.addr != addr || r.port != port) && allowed && reclaimable cx r
      | none => false
    if !takeover then
      if !keyLe (keyOf pr) (keyOf qr) then return some s!"regression:{node}:{kind}{inc}"
      -- stale or equal claim (other than a suspicion confirmation) must change nothing and stay silent
      let confirmation := kind == "S" && (match pr with | some r => r.st == .suspect && r.inc ≤ inc | none => false)
      if keyLe ck (keyOf pr) && pr.isSome && !confirmation then
        if qr != pr then return some s!"stale-claim-changed-record:{node}:{kind}{inc}"
        if !(outsAbout post.outs node ["j", "u", "l", "b"]).isEmpty then return some s!"stale-claim-had-effect:{node}:{kind}{inc}"
        if (pre.timers.find? (·.node == node)) != (post.timers.find? (·.node == node)) && kind != "D" then
          return some s!"stale-claim-touched-timer:{node}:{kind}{inc}"
  return none

/-- C02 on one implementation step -/
def c02Step (cx : Ctx) (pre post : Obs) (po : ParsedOp) : Option String := Id.run do
  let some me := findRec post cx.self | return some "self-record-missing"
  if !post.hasLeft then
    if me.st != .alive then return some s!"self-not-alive:{stStr me.st}"
  let some pme := findRec pre cx.self | return none
  if pre.hasLeft || post.hasLeft then return none
  if po.claims.length != 1 then return none
  for (kind, node, inc, _frm, addr, port, md, vsn, allowed, dok) in po.claims do
    if node != cx.self then continue
    if inc ≥ u32 - 1 then continue
    let accusation :=
      if kind == "A" then
        addr == pme.addr && port == pme.port && admissible cx vsn dok && allowed &&
          (inc > pme.inc || (inc == pme.inc && (md != pme.md || vsn != pme.vsn)))
      else inc ≥ pme.inc
    if accusation then
      if !(post.selfInc > inc) then return some s!"refutation-not-above-accusation:{kind}{inc}:selfInc={post.selfInc}"
      if me.inc != post.selfInc then return some s!"record-incarnation-differs-from-refutation"
      let want := s!"/a/{cx.self}/{post.selfInc}/"
      if !(post.outs.any fun o => o.startsWith "b/" && (o.splitOn want).length > 1) then
        return some s!"no-alive-broadcast-for-refutation:{kind}{inc}"
      let expScore := min (pre.score + 1) (cx.awareMax - 1)
      if post.score != expScore then return some s!"score:{post.score}:expected:{expScore}"
  return none

/-- C07 on one implementation step: replaying the events of the step on the view built from
Members() before the step gives exactly Members() after it, metadata and address included. -/
def c07Step (_cx : Ctx) (pre post : Obs) (_po : ParsedOp) : Option String := Id.run do
  -- view: name ↦ (addr, port, md) as a subscriber would hold it
  let mut view : List (String × String × String × String) :=
    (pre.recs.filter (fun r => !r.st.deadOrLeft)).map fun r => (r.name, toString r.addr, toString r.port, toString r.md)
  for o in post.outs do
    match o.splitOn "/" with
    | ["j", n, a, p, m] =>
      if view.any (·.1 == n) then return some s!"join-twice:{n}"
      view := view ++ [(n, a, p, m)]
    | ["l", n] =>
      if !view.any (·.1 == n) then return some s!"leave-without-join:{n}"
      view := view.filter (·.1 != n)
    | ["u", n, m] =>
      if !view.any (·.1 == n) then return some s!"update-for-non-member:{n}"
      view := view.map fun v => if v.1 == n then (v.1, v.2.1, v.2.2.1, m) else v
    | _ => pure ()
  let want := (post.recs.filter (fun r => !r.st.deadOrLeft)).map fun r => (r.name, toString r.addr, toString r.port, toString r.md)
  let srt (l : List (String × String × String × String)) := (l.toArray.qsort (fun a b => a.1 < b.1)).toList
  if (srt view).map (·.1) != (srt want).map (·.1) then
    return some s!"events-do-not-replay-to-members:{(srt view).map (·.1)}:{(srt want).map (·.1)}"
  if srt view != srt want then
    let diff := (srt view).zip (srt want) |>.filter (fun (a, b) => a != b) |>.map (·.1.1)
    return some s!"replayed-view-differs-from-members(metadata/address):{diff}"
  return none

/-- C08 on one implementation step -/
def c08Step (cx : Ctx) (pre post : Obs) (po : ParsedOp) : Option String := Id.run do
  -- the leaver itself: once left, never alive / a member again
  if pre.hasLeft then
    match findRec post cx.self with
    | some me => if !me.st.deadOrLeft then return some "leaver-came-back"
    | none => pure ()
  match po.op with
  | .leave _ =>
    if !pre.hasLeft then
      match findRec pre cx.self, findRec post cx.self with
      | some _, some me =>
        if me.st != .left then return some s!"leave-did-not-mark-left:{stStr me.st}"
        if !(post.outs.any fun o => o.startsWith s!"b/{cx.self}/d/{cx.self}/") then return some "leave-not-broadcast"
      | _, _ => pure ()
  | _ => pure ()
  if po.claims.length != 1 then
    -- merges: only the graceful-leave entries are judged entry-wise when names are distinct
    pure ()
  let names := po.claims.map (·.2.1)
  for (kind, node, inc, frm, addr, port, _md, vsn, allowed, dok) in po.claims do
    if node == cx.self then continue
    if (names.filter (· == node)).length != 1 then continue
    let some pr := findRec pre node | continue
    let qr := findRec post node
    if kind == "A" && (pr.addr != addr || pr.port != port) then
      if !reclaimable cx pr then
        if qr != some pr then return some s!"address-hijack:{node}:{stStr pr.st}"
        if allowed && admissible cx vsn dok && !(post.outs.any fun o => o.startsWith s!"c/{node}/") then
          return some s!"conflict-not-reported:{node}"
      else if allowed && admissible cx vsn dok then
        match qr with
        | some q => if !(q.st == .alive && q.addr == addr && q.port == port) then return some s!"name-not-reusable:{node}:{stStr pr.st}"
        | none => return some "record-vanished"
    if kind == "D" && frm == node && inc ≥ pr.inc && !pr.st.deadOrLeft then
      match qr with
      | some q => if q.st != .left then return some s!"departure-recorded-as:{stStr q.st}"
      | none => return some "record-vanished"
    -- a departed member is not brought back by alive claims no newer than the departure (same address)
    if kind == "A" && pr.st == .left && pr.addr == addr && pr.port == port && inc ≤ pr.inc then
      if qr != some pr then return some s!"left-member-resurrected:{node}"
  return none

/-- C18 on one implementation step -/
def c18Step (cx : Ctx) (_pre post : Obs) (_po : ParsedOp) : Option String := Id.run do
  if !cx.allowlist then return none
  for r in post.recs do
    if !cx.allowedSet.contains r.addr then return some s!"disallowed-address-recorded:{r.name}:{r.addr}"
  for o in post.outs do
    match o.splitOn "/" with
    | ["j", n, a, _, _] => if !(cx.allowedSet.map toString).contains a then return some s!"disallowed-address-announced:{n}:{a}"
    | _ => pure ()
  return none

def propStep (prop : String) : Ctx → Obs → Obs → ParsedOp → Option String :=
  match prop with
  | "C01" => c01Step
  | "C02" => c02Step
  | "C07" => c07Step
  | "C08" => c08Step
  | "C18" => c18Step
  | _ => fun _ _ _ _ => none

def handleHist (prop : String) (fs : List (String × String)) : String := Id.run do
  if (get fs "err").isSome then return "PARSE create-error"
  if let some k := get fs "nummembers" then
    return s!"DISAGREE BAD:NumMembers()-differs-from-len(Members())-after-{k}-steps nt=1 br=count "
  let cfgS := (getD fs "cfg" "").splitOn "."
  let [al, rc, ad, am, sm] := cfgS.map (·.toNat?.getD 0) | return "PARSE cfg"
  let cfg : Cfg := { self := "S", reclaim := rc == 1, hasAliveDelegate := ad == 1, hasConflictDelegate := true,
                     awarenessMax := am, suspicionK := sm - 2 }
  let allowedSet := match get fs "allowed" with
    | some a => if a == "-" then [] else (a.splitOn ".").filterMap String.toNat?
    | none => [0, 1, 2, 4, 7]
  let cx : Ctx := { self := "S", reclaim := rc == 1, allowlist := al == 1, allowedSet, awareMax := am, aliveDel := ad == 1, suspMult := sm }
  let some init := (get fs "init").bind parseObs | return "PARSE init"
  let mut node := initNode cfg init
  let mut pre := init
  let mut ghost : Array (String × Nat) := #[]
  let mut agree := true
  let mut bad : Option String := none
  let mut notes : List String := []
  let mut idx := 0
  let mut effects := 0
  let opsS := splitNE (getD fs "ops" "") ";"
  for os in opsS do
    let [tok, obsS] := os.splitOn ">" | return s!"PARSE op{idx}"
    if obsS == "panic" then
      if bad.isNone then bad := some s!"panic@op{idx}:{tok}"
      agree := false
      break
    let some post := parseObs obsS | return s!"PARSE obs{idx}"
    let now := idx + 1
    let some po := parseOp tok now "S" (findRec pre "S") ghost post.order | return s!"PARSE tok{idx}:{tok}"
    if po.blocked && bad.isNone then bad := some s!"call-blocked-or-panicked@op{idx}:{tok}"
    let (node', outs) := step node po.op
    -- timers first seen alive after this op, ordered by node name like the harness does
    let fresh := node'.timers.filter fun t => !(ghost.any fun g => g.1 == t.node && g.2 == t.changedAt)
    for nd in sortStr (fresh.map (·.node)) do
      match fresh.find? (·.node == nd) with
      | some t => ghost := ghost.push (t.node, t.changedAt)
      | none => pure ()
    let mOuts := canonOuts (Swim.Cluster.stepEmit node po.op)
    if canonRecs node' != post.recs || canonTimers node' != post.timers || node'.selfInc != post.selfInc ||
       node'.score != post.score || node'.numNodes != post.numNodes || node'.hasLeft != post.hasLeft || mOuts != post.outs then
      if agree then
        notes := s!"op{idx}:{tok}:model(recs={canonRecs node' == post.recs},tm={canonTimers node' == post.timers},inc={node'.selfInc},score={node'.score},nn={node'.numNodes},outs={mOuts})" :: notes
      agree := false
    if bad.isNone then
      match propStep prop cx pre post po with
      | some b => bad := some s!"{b}@op{idx}:{tok}"
      | none => pure ()
    if bad.isNone && prop == "C06" then
      match po.op with
      | .fire nd ca _ =>
        -- a timer may act only on the very suspicion it was armed for
        let live := match lookup node.recs nd with
          | some r => r.st == .suspect && r.changed == some ca
          | none => false
        let acted := post.recs != pre.recs || !post.outs.isEmpty
        if acted && !live then bad := some s!"stale-suspicion-timer-killed-member:{nd}@op{idx}"
        if !acted && live then bad := some s!"suspicion-timeout-did-not-remove-member:{nd}@op{idx}"
      | .suspect c _ =>
        -- a fresh suspicion on own or foreign evidence keeps the member listed and arms a timer with the right k
        match findRec pre c.node, findRec post c.node with
        | some p, some q =>
          if p.st == .alive && q.st == .suspect then
            let expK := if pre.numNodes < (cx.suspMult - 2) + 2 then 0 else cx.suspMult - 2
            match post.timers.find? (·.node == c.node) with
            | some t => if t.k != expK then bad := some s!"expected-confirmations:{t.k}:expected:{expK}@op{idx}"
                        else if t.conf != [c.frm] then bad := some s!"accuser-not-recorded@op{idx}"
            | none => bad := some s!"suspicion-without-timer@op{idx}"
        | _, _ => pure ()
      | _ => pure ()
    if !post.outs.isEmpty then effects := effects + 1
    node := node'
    pre := post
    idx := idx + 1
  return s!"{if agree then "agree" else "DISAGREE"} {match bad with | none => "ok" | some b => "BAD:" ++ b} nt={if effects ≥ 3 then 1 else 0} br=eff{min effects 6} {String.intercalate ";" (notes.reverse.take 2)}"

/-- C18: alive gossip over the packet path; model = source gate ∧ inner-address gate -/
def handleSrc (fs : List (String × String)) : String := Id.run do
  if (get fs "err").isSome then return "PARSE create"
  let srcOK := getD fs "src" "0" == "1"
  let some inner := getNat fs "inner" | return "PARSE inner"
  let listed := getD fs "listed" "0" == "1"
  let recorded := getD fs "recorded" "0" == "1"
  let events := (getNat fs "events").getD 0
  let panicked := getD fs "panic" "0" == "1"
  let innerOK := match get fs "innerok" with
    | some v => v == "1"
    | none => [0, 1, 2, 4, 7].contains inner
  let expect := srcOK && innerOK
  let bad : Option String :=
    if panicked then some "panic"
    else if !srcOK && (listed || recorded || events > 0) then some s!"alive-from-disallowed-source-had-effect:inner={inner}"
    else if !innerOK && (listed || recorded || events > 0) then some s!"disallowed-address-admitted:inner={inner},carrier={getD fs "carrier" "?"}"
    else none
  return s!"{if listed == expect then "agree" else "DISAGREE"} {match bad with | none => "ok" | some b => "BAD:" ++ b} nt={if srcOK then 1 else 0} br=src-{getD fs "carrier" "?"} "

/-- C18 (parse leg): `ParseCIDRs` returns the well-formed networks in order, and an error iff an entry was malformed -/
def handleParse (fs : List (String × String)) : String :=
  let want := getD fs "want" ""
  let got := getD fs "got" ""
  let malformed := getD fs "malformed" "0" == "1"
  let err := getD fs "err" "0" == "1"
  let bad : Option String :=
    if got != want then some s!"allow-list-parser-lost-well-formed-networks:want={want},got={got}"
    else if malformed != err then some s!"allow-list-parser-error-flag:malformed={malformed},err={err}"
    else none
  s!"{if bad.isNone then "agree" else "DISAGREE"} {match bad with | none => "ok" | some b => "BAD:" ++ b} nt={if malformed then 1 else 0} br=parse "

/-- C01 (probe leg): the verdict of an unanswered probe is a claim about the pinged incarnation; a newer
alive accepted meanwhile stays (the stale suspect is ignored, `C01` forward theorem on the suspect rule) -/
def handleProbe (fs : List (String × String)) : String :=
  let bump := getD fs "bump" "0" == "1"
  let inc := (getNat fs "inc").getD 0
  let st := getD fs "state" "?"
  let got := (getNat fs "got").getD 0
  let (wantSt, wantInc) := if bump then ("a", inc + 1) else ("s", inc)
  let ok := st == wantSt && got == wantInc
  let bad : Option String :=
    if bump && st != "a" then some s!"stale-probe-verdict-overrode-newer-alive:pinged={inc},held={got},state={st}" else none
  s!"{if ok then "agree" else "DISAGREE"} {match bad with | none => "ok" | some b => "BAD:" ++ b} nt={if bump then 1 else 0} br=probe-{if bump then "bump" else "plain"} "

/-- C02 (gossip leg): after a refutation the alive message carrying the node's final incarnation is handed out -/
def handleGossip (fs : List (String × String)) : String :=
  let final := (getNat fs "final").getD 1
  let handed := getD fs "handed" "0" == "1"
  let refuted := final > 1
  let bad : Option String :=
    if refuted && !handed then some s!"refutation-at-incarnation-{final}-was-never-handed-out-for-gossip@{getD fs "ops" "?"}" else none
  s!"{if bad.isNone then "agree" else "DISAGREE"} {match bad with | none => "ok" | some b => "BAD:" ++ b} nt={if refuted then 1 else 0} br=gossip "

/-- C02 (stir leg): concurrent target selection leaves the member list intact -/
def handleStir (fs : List (String × String)) : String :=
  let missing := (getNat fs "missing").getD 0
  let dup := (getNat fs "dup").getD 0
  let self := (getNat fs "self").getD 0
  let bad : Option String :=
    if self != 1 then some s!"running-node-lists-itself-{self}-times-after-concurrent-ticks"
    else if missing != 0 || dup != 0 then some s!"member-list-damaged-by-concurrent-ticks@missing={missing},duplicated={dup}"
    else none
  s!"{if bad.isNone then "agree" else "DISAGREE"} {match bad with | none => "ok" | some b => "BAD:" ++ b} nt=1 br=stir "

/-- C07 (channel leg): events read late from the package's channel delegate still carry the data of their own moment -/
def handleChan (fs : List (String × String)) : String :=
  let want := getD fs "want" ""
  let got := getD fs "got" ""
  let ok := want == got
  s!"{if ok then "agree" else "DISAGREE"} {if ok then "ok" else s!"BAD:event-read-from-the-channel-does-not-carry-the-data-of-its-moment@want={want},got={got}"} nt={if (want.splitOn ",").length ≥ 3 then 1 else 0} br=chan "

/-- C18 (full-queue leg): alive gossip from a disallowed source is ignored also when the handoff queue is full -/
def handleFull (fs : List (String × String)) : String :=
  let adm := (getNat fs "admitted").getD 0
  s!"{if adm == 0 then "agree" else "DISAGREE"} {if adm == 0 then "ok" else s!"BAD:alive-from-disallowed-source-admitted-while-the-handoff-queue-was-full@{adm}-of-{getD fs "outsiders" "?"}"} nt=1 br=full "

def handleConc (fs : List (String × String)) : String :=
  let overlap := (getNat fs "overlap").getD 0
  let calls := (getNat fs "callbacks").getD 0
  s!"{if overlap == 0 then "agree" else "DISAGREE"} {if overlap == 0 then "ok" else s!"BAD:concurrent-event-callbacks:{overlap}-of-{calls}"} nt={if calls > 50 then 1 else 0} br=conc "

/-- C07 (polling leg): every `Members()` result equals the replay of the event stream at some moment of the call -/
def handlePoll (fs : List (String × String)) : String :=
  let pan := (getNat fs "panic").getD 0
  let bad := getD fs "bad" "-"
  let polls := (getNat fs "polls").getD 0
  let verdict := if pan != 0 then "BAD:Members()-panicked-while-claims-arrived" else if bad != "-" then s!"BAD:{bad}" else "ok"
  s!"{if verdict == "ok" then "agree" else "DISAGREE"} {verdict} nt={if polls > 5 then 1 else 0} br=poll-deaths{getD fs "deaths" "?"} "

/-- C08 (simulator leg): Leave returned nil ⇒ a peer had been sent the departure; peers record "left" -/
def handleLeave (fs : List (String × String)) : String := Id.run do
  if (get fs "err").isSome then return "PARSE create"
  let scenario := getD fs "scenario" "?"
  let res1 := getD fs "res1" "-"
  let res2 := getD fs "res2" "-"
  let sent := (getInt fs "sentatreturn").getD (-1)
  let left := (getNat fs "left").getD 0
  let failed := (getNat fs "failed").getD 0
  let listed := (getNat fs "listed").getD 0
  let okReturned := (scenario != "timeout-then-again" && res1 == "nil") || (scenario == "timeout-then-again" && res2 == "nil")
  let lossFree := scenario == "plain" || scenario == "plain-zero" || scenario == "many-departed"
  let inv := getD fs "inv" "ok"
  let bad : Option String :=
    if inv != "ok" then some s!"cluster-invariant:{inv}"
    else if okReturned && sent == 0 then
      some s!"leave-returned-nil-before-any-peer-was-sent-the-departure:{scenario}"
    -- what the peers record is judged only without injected loss: in the timeout scenario the departure
    -- packets are dropped by the network on purpose, and the property does not quantify over loss
    else if okReturned && lossFree && failed > 0 then some s!"departure-recorded-as-failure-by-{failed}-peers"
    else if okReturned && lossFree && listed > 0 then some s!"departed-node-still-listed-by-{listed}-peers-after-20s"
    else none
  return s!"agree {match bad with | none => "ok" | some b => "BAD:" ++ b} nt={if left ≥ 2 then 1 else 0} br=leave-{scenario}-{res1}-{res2} "

def handle (prop kind : String) (fs : List (String × String)) : String :=
  match kind with
  | "leave" => handleLeave fs
  | "leak" => s!"DISAGREE BAD:goroutines-still-blocked-after-shutdown:{getD fs "msg" "?"} nt=0 br=leak "
  | "stuck" => s!"DISAGREE BAD:scenario-made-no-progress-for-{getD fs "after" "?"}-of-real-time(virtual-time-cannot-advance:a-goroutine-waits-for-a-lock) nt=0 br=stuck "
  | "src" => handleSrc fs
  | "conc" => handleConc fs
  | "parse" => handleParse fs
  | "full" => handleFull fs
  | "chan" => handleChan fs
  | "gossip" => handleGossip fs
  | "stir" => handleStir fs
  | "probe" => handleProbe fs
  | "rrs" => Swim.Drv.Msgpack.handleRrs fs
  | "poll" => handlePoll fs
  | "hist" => handleHist prop fs
  | _ => "PARSE kind"

end Swim.Drv.Merge
