import Swim.Util.Parse
import Swim.Model.Verify
import Swim.Drv.Merge
import Swim.Drv.Msgpack
import Swim.Gen.Facts
import Swim.Model.Codec
/-! Driver side of the C09 correspondences. -/
namespace Swim.Drv.C09
open Swim.Parse Swim.Verify

def verdict (agree : Bool) (bad : Option String) (nt : Bool) (br : String) (note : String) : String :=
  s!"{if agree then "agree" else "DISAGREE"} {match bad with | none => "ok" | some b => "BAD:" ++ b} nt={if nt then 1 else 0} br={br} {note}"

def parseVsn (s : String) : List Nat := if s == "-" then [] else (s.splitOn ".").filterMap String.toNat?

def handleVp (fs : List (String × String)) : String := Id.run do
  let locS := splitNE (getD fs "local" "-") "," |>.filter (· != "-")
  let remS := splitNE (getD fs "remote" "-") "," |>.filter (· != "-")
  let res := getD fs "res" "?"
  let loc : List Local := locS.filterMap fun t => match t.splitOn "/" with
    | [st, v] => match parseVsn v with
      | [a, b, c, d, e, f] => some { alive := st == "a", v := ⟨a, b, c, d, e, f⟩ }
      | _ => none
    | _ => none
  let rem : List Remote := remS.filterMap fun t => match t.splitOn "/" with
    | [st, v] => some { alive := st == "a", vsn := parseVsn v }
    | _ => none
  if loc.length != locS.length || rem.length != remS.length then return "PARSE tables"
  let m := verify rem loc
  let mRes := if m then "ok" else "err"
  let bad : Option String :=
    if res == "panic" then some "panic"
    else if res == "ok" && !m then some "version-incompatible-state-accepted"
    else none
  return verdict (mRes == res) bad (rem.length ≥ 2 && loc.length ≥ 2) s!"vp-{mRes}" (if mRes == res then "" else s!"model={mRes}")

def handleAdm (fs : List (String × String)) : String :=
  let join := getD fs "join" "0" == "1"
  let veto := getD fs "veto" "0" == "1"
  let badv := getD fs "badvsn" "0" == "1"
  let res := getD fs "res" "?"
  let changed := getD fs "changed" "0" == "1"
  let calls := (getNat fs "delegatecalls").getD 0
  let userMerges := (getNat fs "usermerges").getD 0
  -- the harness tables: the remote list is version-compatible iff !badvsn
  let exp : Admit := if badv then .versionError else if join && veto then .vetoed else .merged
  let mRes := if exp == .merged then "ok" else "err"
  let bad : Option String :=
    if res == "panic" then some "panic"
    else if exp != .merged && changed then some s!"rejected-exchange-changed-state:{if badv then "versions" else "veto"}"
    else if exp != .merged && userMerges > 0 then some s!"rejected-exchange-reached-the-user-delegate:{if badv then "versions" else "veto"}"
    else if exp == .merged && userMerges != 1 then some s!"admitted-exchange-user-state-merged-{userMerges}-times"
    else if exp == .versionError && calls > 0 then some "merge-delegate-consulted-after-version-error"
    else if exp == .merged && !changed then some "admitted-exchange-not-merged"
    else none
  verdict (mRes == res && (changed == (exp == .merged))) bad true s!"adm-{mRes}" ""

open Swim.Merge Swim.Drv.Merge in
def handleJoin (fs : List (String × String)) : String := Id.run do
  let some hpre := (get fs "hpre").bind parseObs | return "PARSE hpre"
  let some jpre := (get fs "jpre").bind parseObs | return "PARSE jpre"
  let some hpost := (get fs "hpost").bind parseObs | return "PARSE hpost"
  let some jpost := (get fs "jpost").bind parseObs | return "PARSE jpost"
  let reclaim := getD fs "reclaim" "0" == "1"
  let res := getD fs "res" "?"
  let mkCfg (self : String) : Cfg := { self, reclaim, hasAliveDelegate := false, hasConflictDelegate := true, awarenessMax := 8, suspicionK := 2 }
  let pushOf (o : Obs) : List PushState := o.order.filterMap fun nm =>
    (findRec o nm).map fun r => { name := r.name, addr := r.addr, port := r.port, md := r.md, inc := r.inc, st := r.st, vsn := r.vsn,
                                  ipAllowed := true, delegateOk := true, offset := 0 }
  let toVer (o : Obs) : List Local := o.recs.filterMap fun r => match r.vsn with
    | [a, b, c, d, e, f] => some { alive := r.st == .alive, v := ⟨a, b, c, d, e, f⟩ }
    | _ => none
  let toRem (o : Obs) : List Remote := (pushOf o).map fun p => { alive := p.st == .alive, vsn := p.vsn }
  let okJ := verify (toRem hpre) (toVer jpre)
  let okH := verify (toRem jpre) (toVer hpre)
  let jn := initNode (mkCfg "J") jpre
  let hn := initNode (mkCfg "H") hpre
  let (jn', jouts) := if okJ then Swim.Cluster.mergeEmit jn (pushOf hpre) 1 else (jn, [])
  let (hn', houts) := if okH then Swim.Cluster.mergeEmit hn (pushOf jpre) 1 else (hn, [])
  let same (n : Node) (outs : List (Out × List Swim.Cluster.Msg)) (o : Obs) : Bool :=
    canonRecs n == o.recs && canonTimers n == o.timers && n.selfInc == o.selfInc && n.score == o.score &&
      n.numNodes == o.numNodes && canonOuts outs == o.outs
  let agree := same jn' jouts jpost && same hn' houts hpost && ((res == "ok") == okJ)
  let bad : Option String :=
    if res == "ok" then
      if !(membersOf jpost).contains "H" then some "join-reported-success-but-joiner-does-not-list-host"
      else if !(membersOf hpost).contains "J" then some "join-reported-success-but-host-does-not-list-joiner"
      else
        -- every member the host reported alive and newer than what the joiner held is listed by the joiner
        match (pushOf hpre).find? (fun p => p.st == .alive && p.name != "J" && !(vsnBad p.vsn) &&
            (match findRec jpre p.name with
              | none => p.inc > 0
              | some old => old.addr == p.addr && old.port == p.port && old.inc < p.inc) &&
            !(membersOf jpost).contains p.name) with
        | some p => some s!"reported-alive-member-not-listed:{p.name}"
        | none => none
    else if hpost.recs != hpre.recs || jpost.recs != jpre.recs then some "failed-join-changed-state"
    else none
  return verdict agree bad (res == "ok" && hpre.recs.length ≥ 3) s!"join-{res}" (if agree then "" else s!"model(j={same jn' jouts jpost},h={same hn' houts hpost},okJ={okJ},okH={okH})")

def handleOracle (fs : List (String × String)) (tag : String) : String :=
  let bad := getD fs "bad" "-"
  verdict (bad == "-") (if bad == "-" then none else some bad) true tag ""

def handleCap (fs : List (String × String)) : String :=
  let parts := splitNE (getD fs "res" "") ","
  let bads := parts.filter fun p => match p.splitOn ":" with
    | [name, _, merged] => (name == "in-cap-control" && merged != "1") || (name == "envelope-over-cap" && merged != "0")
    | _ => true
  verdict bads.isEmpty (if bads.isEmpty then none else some ("size-cap-not-enforced:" ++ String.intercalate "," bads)) true "cap" ""

/-- the state exchange a real node wrote (`stream` = type byte + framing) against the msgpack model:
the model parser must read it completely, its re-encoding must be the same bytes, and the parsed
node states and user state must be the sender's own (nil and empty byte strings are not told apart
by the sender's snapshot) -/
def handlePpf (fs : List (String × String)) : String := Id.run do
  if (get fs "err").isSome then return "PARSE create"
  let some stream := (get fs "stream").bind hexBytes | return "PARSE stream"
  let statesS := (getD fs "states" "-")
  let userS := getD fs "user" "E"
  let loose (v : Swim.Msgpack.Val) : String := match v with
    | .bytes none => "E" | v => Swim.Drv.Msgpack.showVal v
  match stream with
  | [] => return "PARSE empty-stream"
  | t :: body =>
    match Swim.Msgpack.decPushPull body with
    | none => return verdict false (some "state-exchange-not-parsed-by-the-model") true "ppf" ""
    | some (join, sts, user, rest) =>
      let re := Swim.Msgpack.encPushPull join sts user
      let got := String.intercalate "|" (sts.map fun st => String.intercalate ";" (st.map loose))
      let gotS := if sts.isEmpty then "-" else got
      let userGot := Swim.Drv.Msgpack.hexs user
      let agree := re == body && rest.isEmpty && t.toNat == Swim.Gen.c_pushPullMsg && join
      let bad : Option String :=
        if gotS != statesS then some s!"exchange-carries-other-node-states-than-the-sender-holds:{gotS}"
        else if userGot != userS then some "exchange-carries-another-user-state-than-the-delegate-gave"
        else none
      return verdict agree bad (sts.length ≥ 3) s!"ppf-{min sts.length 4}" (if agree then "" else s!"reencoded={re == body},rest={rest.length},type={t.toNat}")

/-- a join against a host at (or just below) its limit of concurrent state exchanges: mutual or nothing -/
def handleBusy (fs : List (String × String)) : String :=
  let limit := (getNat fs "limit").getD 0
  let inflight := (getNat fs "inflight").getD 0
  let ok := getD fs "join" "?" == "ok"
  let host := getD fs "hostlists" "0" == "1"
  let joiner := getD fs "joinerlists" "0" == "1"
  let expectOk : Bool := decide (inflight + 1 < limit)   -- the request itself counts: refused when it is the 128th
  let bad : Option String :=
    if ok && !(host && joiner) then some s!"join-reported-success-but-not-mutual:host-lists-joiner={host},joiner-lists-host={joiner},in-flight={inflight}"
    else if !ok && (host || joiner) then some s!"join-failed-but-somebody-changed:host={host},joiner={joiner}"
    else none
  verdict (ok == expectOk) bad true s!"busy-{if expectOk then "below" else "at"}-limit" (if ok == expectOk then "" else s!"model-join-ok={expectOk}")

/-- one Join naming several hosts: per host `veto,hostListsJoiner,joinerListsHost`. Every exchange is a join,
so every merge delegate is asked: the side whose delegate vetoes changes nothing (a vetoing host does not
list the joiner; a vetoing joiner lists no host and counts no success), the other side merges what it
received; without a veto the pair ends up mutual. (A later host may learn of an earlier one through the
joiner's state: only the pair joiner / host is judged.) -/
def handleMulti (fs : List (String × String)) : String := Id.run do
  let parts := splitNE (getD fs "hosts" "") ","
  let joined := (getNat fs "joined").getD 0
  let jveto := getD fs "jveto" "0" == "1"
  let mut bad : Option String := none
  let mut idx := 0
  for p in parts do
    match p.toList with
    | [v, h, j] =>
      if v == '1' && h == '1' && bad.isNone then
        bad := some s!"host-{idx}-merged-the-joiner-although-its-merge-delegate-vetoed"
      if jveto && j == '1' && bad.isNone then
        bad := some s!"joiner-merged-host-{idx}-although-its-merge-delegate-vetoed"
      if v != '1' && h != '1' && bad.isNone then
        bad := some s!"host-{idx}-does-not-list-the-joiner-after-an-exchange-it-accepted"
      if !jveto && j != '1' && bad.isNone then
        bad := some s!"joiner-does-not-list-host-{idx}-after-an-exchange-it-accepted"
    | _ => return "PARSE hosts"
    idx := idx + 1
  let want := if jveto then 0 else parts.length
  return verdict (joined == want && bad.isNone) bad (parts.length ≥ 2) s!"multi-{parts.length}-jveto{if jveto then 1 else 0}" (if joined == want then "" else s!"model-joined={want}")

/-- a join between a keyed host and a joiner with the same / another key and label: admitted iff the model's
`sealedStreamAdmitted`; a refused exchange leaves both member lists as they were, an admitted one is mutual -/
def handleAuth (fs : List (String × String)) : String := Id.run do
  let some hl := (get fs "hl").bind hexBytes | return "PARSE hl"
  let some jl := (get fs "jl").bind hexBytes | return "PARSE jl"
  let skip := getD fs "skip" "0" == "1"
  let sameKey := getD fs "samekey" "0" == "1"
  let res := getD fs "res" "?"
  let admitted := Swim.Codec.sealedStreamAdmitted hl skip jl jl sameKey
  let has (l : String) (n : String) := (l.splitOn "+").contains n
  let hostPost := getD fs "hostpost" ""
  let joinPost := getD fs "joinpost" ""
  let changed := hostPost != getD fs "hostpre" "" || joinPost != getD fs "joinpre" ""
  let agree := (res == "ok") == admitted
  let bad : Option String :=
    if res != "ok" && res != "err" then some s!"host-handler-never-returned:{res}"
    else if res == "ok" && !admitted then
      some s!"exchange-sealed-for-another-label-or-key-was-admitted:skip={skip}:samekey={sameKey}"
    else if !admitted && changed then some "refused-exchange-changed-a-member-list"
    else if admitted && res == "ok" && !(has hostPost "J" && has joinPost "H") then some "admitted-join-is-not-mutual"
    else none
  return s!"{if agree then "agree" else "DISAGREE"} {match bad with | none => "ok" | some b => "BAD:" ++ b} nt={if !hl.isEmpty || !jl.isEmpty then 1 else 0} br=auth-{if admitted then "admitted" else "refused"}-skip{if skip then 1 else 0} "

def handle (kind : String) (fs : List (String × String)) : String :=
  match kind with
  | "auth" => handleAuth fs
  | "hist" => Swim.Drv.Merge.handle "C06" kind fs
  | "vp" => handleVp fs
  | "adm" => handleAdm fs
  | "join" => handleJoin fs
  | "cut" => handleOracle fs "cut"
  | "cap" => handleCap fs
  | "ppf" => handlePpf fs
  | "busy" => handleBusy fs
  | "multi" => handleMulti fs
  | "rrs" => Swim.Drv.Msgpack.handleRrs fs
  | _ => "PARSE kind"

end Swim.Drv.C09
