import Swim.Util.Parse
import Swim.Model.Keyring
/-! Driver side of the C17 correspondence: replays keyring call sequences and rotation runs. -/
namespace Swim.Drv.C17
open Swim.Parse Swim.Keyring

def errName : Option Err → String
  | none => "ok"
  | some .keySize => "keySize"
  | some .emptyPrimary => "emptyPrimary"
  | some .notInRing => "notInRing"
  | some .removePrimary => "removePrimary"

/-- pool index list `0.3.5` (or `-`) → ring; `x<hex>` entries are keys outside the pool -/
def parseRing (pool : Array Key) (s : String) : Option (List Key) :=
  if s == "-" then some [] else
  (s.splitOn ".").mapM fun t =>
    if t.startsWith "x" then hexBytes (t.drop 1).toString
    else t.toNat?.bind fun i => pool[i]?

def parseKey (pool : Array Key) (s : String) : Option Key :=
  if s.startsWith "x" then hexBytes (s.drop 1).toString else s.toNat?.bind fun i => pool[i]?

structure OpRec where
  op : Op
  res : String
  after : List Key
  alias : Bool
  extra : Option Key   -- returned primary for getPrimary

def parseOp (pool : Array Key) (s : String) : Option OpRec :=
  match s.splitOn ":" with
  | ["getPrimary", k, res, after, al] => do
    let aft ← parseRing pool after
    let key ← if k == "nil" then some [] else parseKey pool k
    pure { op := .getPrimary, res, after := aft, alias := al == "1", extra := some key }
  | ["getKeys", res, after, al] => do
    let aft ← parseRing pool after
    pure { op := .getKeys, res, after := aft, alias := al == "1", extra := none }
  | [kind, k, res, after, al] => do
    let key ← parseKey pool k
    let aft ← parseRing pool after
    let op ← match kind with
      | "add" => some (Op.add key) | "use" => some (Op.use key) | "remove" => some (Op.remove key)
      | _ => none
    pure { op, res, after := aft, alias := al == "1", extra := none }
  | _ => none

/-- property predicate on one implementation step (before ring, op record) -/
def stepOk (before : List Key) (r : OpRec) : Option String :=
  if r.res == "panic" then some "panic"
  else if r.alias then some "returned-list-altered"
  else if !invB r.after then some "ring-invariant(dup-or-invalid-length)"
  else if !before.isEmpty && r.after.isEmpty then some "ring-emptied"
  else
    let primOk : Bool := match before.head?, r.after.head? with
      | some p, some q =>
        p == q || (match r.op with | .use k => r.res == "ok" && k == q && before.contains k | _ => false)
      | some _, none => false
      | none, _ => true
    if !primOk then some "primary-changed-or-removed"
    else match r.op, r.extra with
      | .getPrimary, some k => if r.after.head?.getD [] == k then none else some "getPrimary-not-first"
      | _, _ => none

def handleSeq (fs : List (String × String)) : String := Id.run do
  let some poolS := get fs "pool" | return "PARSE pool"
  let some pool := (splitNE poolS ",").mapM hexBytes | return "PARSE poolhex"
  let pool := pool.toArray
  let some newS := get fs "new" | return "PARSE new"
  let (keysS, primS) := match newS.splitOn ";" with | [a, b] => (a, b) | _ => ("-", "-")
  let some keys := parseRing pool keysS | return "PARSE newkeys"
  let some prim := (if primS == "-" then some [] else parseKey pool primS) | return "PARSE newprim"
  let newres := getD fs "newres" "?"
  let some ring0I := parseRing pool (getD fs "ring0" "-") | return "PARSE ring0"
  let mres := newKeyring keys prim
  let mut notes : List String := []
  let mut agree := true
  let mut bad : Option String := none
  let mut ring : List Key := []
  match mres with
  | .error e =>
    if newres != errName (some e) then agree := false; notes := s!"new:model={errName (some e)},impl={newres}" :: notes
    if newres == "panic" then bad := some "panic"
    if newres == "ok" then
      -- implementation accepted what the model refuses: judge its ring directly
      if !invB ring0I then bad := some "ring-invariant(dup-or-invalid-length)"
    return s!"{if agree then "agree" else "DISAGREE"} {match bad with | none => "ok" | some b => "BAD:" ++ b} nt=0 br=new-err {String.intercalate ";" notes}"
  | .ok r =>
    ring := r
    if newres != "ok" then agree := false; notes := s!"new:model=ok,impl={newres}" :: notes
    if newres == "panic" then bad := some "panic"
    if newres == "ok" then
      if ring0I != r then agree := false; notes := "new:ring-differs" :: notes
      if !invB ring0I then bad := some "ring-invariant(dup-or-invalid-length)"
      if !prim.isEmpty && ring0I.head? != some prim then bad := some "primary-not-first"
  if newres != "ok" then
    return s!"{if agree then "agree" else "DISAGREE"} {match bad with | none => "ok" | some b => "BAD:" ++ b} nt=0 br=new {String.intercalate ";" notes}"
  let opsS := splitNE (getD fs "ops" "") ";"
  let mut implRing := ring0I
  let mut idx := 0
  let mut changed := 0
  for os in opsS do
    let some r := parseOp pool os | return s!"PARSE op{idx}"
    let (mr, me) := step ring r.op
    if errName me != r.res || mr != r.after then
      agree := false
      notes := s!"op{idx}:model={errName me}/{mr.length},impl={r.res}/{r.after.length}" :: notes
    if bad.isNone then
      match stepOk implRing r with
      | some b => bad := some s!"{b}@op{idx}"
      | none => pure ()
    if mr != ring then changed := changed + 1
    ring := mr
    implRing := r.after
    idx := idx + 1
  return s!"{if agree then "agree" else "DISAGREE"} {match bad with | none => "ok" | some b => "BAD:" ++ b} nt={if changed ≥ 2 then 1 else 0} br=seq{changed} {String.intercalate ";" notes.reverse}"

/-- ring shape `o`, `on`, `no`, `n` … as letters over {o,n} -/
def shapeToRing (old new : Key) (s : String) : List Key :=
  s.toList.filterMap fun c => if c == 'o' then some old else if c == 'n' then some new else none

def handleRot (fs : List (String × String)) : String := Id.run do
  let some old := (get fs "old").bind hexBytes | return "PARSE old"
  let some new := (get fs "new").bind hexBytes | return "PARSE new"
  let some n := getNat fs "n" | return "PARSE n"
  let steps := splitNE (getD fs "steps" "") ","
  let states := splitNE (getD fs "states" "") ";"
  let talks := splitNE (getD fs "talk" "") ","
  let mut c : Cluster := List.replicate n [old]
  let mut agree := true
  let mut bad : Option String := none
  let mut notes : List String := []
  let mut idx := 0
  for st in steps do
    let kind := st.take 1 |>.toString
    let some i := (st.drop 1).toString.toNat? | return "PARSE step"
    let rs := match kind with
      | "i" => RotStep.install i | "u" => RotStep.use i | _ => RotStep.remove i
    c := rotStep old new c rs
    let implC : Cluster := (splitNE (states.getD idx "") ",").map (shapeToRing old new)
    if implC != c then agree := false; notes := s!"step{idx}:state-differs" :: notes
    if bad.isNone then
      if !canTalkB implC then bad := some s!"ring-says-cannot-talk@step{idx}"
      else if talks.getD idx "1" != "1" then bad := some s!"decrypt-failed@step{idx}"
    idx := idx + 1
  return s!"{if agree then "agree" else "DISAGREE"} {match bad with | none => "ok" | some b => "BAD:" ++ b} nt={if steps.length ≥ 3*n then 1 else 0} br=rot{n} {String.intercalate ";" notes.reverse}"

/-- two keyring calls issued at the same time: results and final ring must be those of one of the two
sequential orders of the model (linearizability of a two-call history) -/
def handleConc (fs : List (String × String)) : String := Id.run do
  let some poolS := get fs "pool" | return "PARSE pool"
  let some pool := (splitNE poolS ",").mapM hexBytes | return "PARSE poolhex"
  let pool := pool.toArray
  let some ring0 := parseRing pool (getD fs "ring0" "-") | return "PARSE ring0"
  let some final := parseRing pool (getD fs "final" "-") | return "PARSE final"
  let parseCall (x : String) : Option (Op × String) := match x.splitOn ":" with
    | [kind, k, res] => do
      let key ← parseKey pool k
      let op ← match kind with
        | "add" => some (Op.add key) | "use" => some (Op.use key) | "remove" => some (Op.remove key) | _ => none
      pure (op, res)
    | _ => none
  let some (opA, resA) := parseCall (getD fs "a" "") | return "PARSE a"
  let some (opB, resB) := parseCall (getD fs "b" "") | return "PARSE b"
  let seqRun (first second : Op) : (String × String × List Key) :=
    let (r1, e1) := step ring0 first
    let (r2, e2) := step r1 second
    (errName e1, errName e2, r2)
  let (a1, b1, f1) := seqRun opA opB
  let (b2, a2, f2) := seqRun opB opA
  let okAB := a1 == resA && b1 == resB && f1 == final
  let okBA := a2 == resA && b2 == resB && f2 == final
  let ok := okAB || okBA
  let bad : Option String :=
    if resA == "panic" || resB == "panic" then some "panic"
    else if !ok then some s!"concurrent-calls-match-no-sequential-order:a={getD fs "a" ""},b={getD fs "b" ""},final={getD fs "final" ""}"
    else none
  return s!"{if ok then "agree" else "DISAGREE"} {match bad with | none => "ok" | some b => "BAD:" ++ b} nt=1 br=conc-{if okAB && okBA then "both" else if okAB then "ab" else "ba"} "

def handle (kind : String) (fs : List (String × String)) : String :=
  match kind with
  | "seq" => handleSeq fs
  | "rot" => handleRot fs
  | "conc" => handleConc fs
  | _ => "PARSE kind"

end Swim.Drv.C17
