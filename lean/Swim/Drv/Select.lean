import Swim.Util.Parse
import Swim.Model.Select
/-! Driver side of the member-selection correspondences (moveDeadNodes, kRandomNodes and the exclusion
rules of gossip / pushPull / probeNode). -/
namespace Swim.Drv.Select
open Swim.Parse Swim.Select

def verdict (agree : Bool) (bad : Option String) (nt : Bool) (br : String) (note : String) : String :=
  s!"{if agree then "agree" else "DISAGREE"} {match bad with | none => "ok" | some b => "BAD:" ++ b} nt={if nt then 1 else 0} br={br} {note}"

def parseNodes (s : String) : Option (List SNode) :=
  if s == "-" then some [] else
  (splitNE s ",").mapM fun t => match t.splitOn "/" with
    | [name, st, o, e] => do
      let st ← st.toNat?
      some ({ name, state := st, old := o == "1", excl := e == "1" } : SNode)
    | _ => none

def parseNames (s : String) : List String := if s == "-" then [] else splitNE s ","

def byName (nodes : List SNode) (n : String) : Option SNode := nodes.find? (·.name == n)

/-- `moveDeadNodes`: exact order and index; property: nothing lost, live members in front, the index splits -/
def handleMoveDead (fs : List (String × String)) : String := Id.run do
  let some nodes := (get fs "nodes").bind parseNodes | return "PARSE nodes"
  let some ret := getNat fs "ret" | return "PARSE ret"
  let out := parseNames (getD fs "out" "-")
  let (mo, mr) := moveDead nodes.toArray
  let agree := mo.toList.map (·.name) == out && mr == ret
  let outN := out.filterMap (byName nodes)
  let mut bad : Option String := none
  let sorted (l : List String) := (l.toArray.qsort (· < ·)).toList
  if sorted out != sorted (nodes.map (·.name)) then bad := some "reaping-lost-or-duplicated-a-record"
  else if ret > out.length then bad := some "returned-index-beyond-the-list"
  else if (outN.take ret).any (·.reap) then bad := some "long-departed-record-kept-in-front-of-the-index"
  else if (outN.drop ret).any (fun n => !n.reap) then
    bad := some s!"live-or-recently-departed-member-behind-the-index:{((outN.drop ret).find? (fun n => !n.reap)).map (·.name) |>.getD "?"}"
  let moved := nodes.countP (·.reap)
  return verdict agree bad (moved > 0 && moved < nodes.length) s!"movedead{min moved 3}"
    (if agree then "" else s!"model(ret={mr},order={String.intercalate "," (mo.toList.map (·.name))})")

/-- the conclusions of the selection theorems evaluated on what the implementation returned -/
def judge (k : Nat) (nodes : List SNode) (out : List String) : Option String := Id.run do
  let adm := nodes.filter (fun s => !s.excl)
  if out.length > k then return some s!"more-than-k-members-chosen:{out.length}>{k}"
  for o in out do
    match byName nodes o with
    | none => return some s!"chosen-member-not-in-the-list:{o}"
    | some s => if s.excl then return some s!"excluded-member-chosen:{o}:state={s.state}"
  if out.eraseDups.length != out.length then return some "member-chosen-twice"
  if nodes.length < k * 3 && out.length != min k adm.length then
    return some s!"short-list-walk-not-exhaustive:chose={out.length}:admissible={adm.length}:k={k}"
  return none

def handleKRand (fs : List (String × String)) : String := Id.run do
  let some nodes := (get fs "nodes").bind parseNodes | return "PARSE nodes"
  let some k := getNat fs "k" | return "PARSE k"
  let out := parseNames (getD fs "out" "-")
  let shuf := (parseNames (getD fs "shuf" "-")).filterMap (byName nodes)
  let offs := (parseNames (getD fs "offs" "-")).filterMap String.toNat?
  let mo := kRandom k nodes.toArray shuf offs
  let agree := mo.map (·.name) == out
  let mut bad := judge k nodes out
  if bad.isNone && getD fs "inputkept" "1" != "1" then bad := some "member-list-reordered-by-the-selection"
  let sorted (l : List String) := (l.toArray.qsort (· < ·)).toList
  if bad.isNone && sorted (shuf.map (·.name)) != sorted (nodes.map (·.name)) then bad := some "shuffle-is-not-a-permutation"
  return verdict agree bad (out.length ≥ 1 && nodes.any (·.excl)) (if nodes.length < k * 3 then "krand-walk" else "krand-draws")
    (if agree then "" else s!"model({String.intercalate "," (mo.map (·.name))})")

/-- the callers: the rule of the model applied to the node's real records, judged on the members the node
really addressed -/
def handleCaller (kind : String) (fs : List (String × String)) : String := Id.run do
  let some nodes0 := (get fs "nodes").bind parseNodes | return "PARSE nodes"
  let some k := getNat fs "k" | return "PARSE k"
  let target := getD fs "target" ""
  let out := parseNames (getD fs "out" "-")
  let rule (s : SNode) : Bool :=
    match kind with
    | "gossipsel" => gossipExcl (s.name == "S") s.state s.old
    | "ppsel" => pushPullExcl (s.name == "S") s.state
    | _ => relayExcl (s.name == "S") (s.name == target) s.state
  let nodes := nodes0.map fun s => { s with excl := rule s }
  let bad := judge k nodes out
  -- agreement: the model's characterisation (admissible, distinct, exhaustive on short lists) holds of the result
  return verdict bad.isNone bad (out.length ≥ 1) s!"{kind}{min out.length 3}" ""

/-- a reaping pass on a real node: the kept set is the model's `resetKeep` (as a set: the pass ends with a shuffle) -/
def handleReset (fs : List (String × String)) : String := Id.run do
  let some nodes := (get fs "nodes").bind parseNodes | return "PARSE nodes"
  let out := parseNames (getD fs "out" "-")
  let sorted (l : List String) := (l.toArray.qsort (· < ·)).toList
  let want := (resetKeep "S" nodes.toArray).map (·.name)
  let agree := sorted want == sorted out
  let bad : Option String := Id.run do
    if nodes.any (·.name == "S") && !out.contains "S" then return some "own-record-reaped"
    for n in nodes do
      if !n.reap && !out.contains n.name then return some s!"live-or-recently-departed-member-forgotten:{n.name}:state={n.state}"
      if n.reap && n.name != "S" && out.contains n.name then return some s!"long-departed-record-kept:{n.name}"
    if out.eraseDups.length != out.length then return some "record-listed-twice-after-reaping"
    for o in out do
      if !(nodes.any (·.name == o)) then return some s!"record-invented-by-reaping:{o}"
    return none
  return verdict agree bad (nodes.any (·.reap)) s!"resetsel{min (nodes.countP (·.reap)) 3}" ""

/-- the start-up window: replaying the event log must give the listed set, no member joins twice without a leave -/
def handleBoot (fs : List (String × String)) : String := Id.run do
  let evs := (splitNE (getD fs "events" "-") ",").filter (· != "-")
  let members := (splitNE (getD fs "members" "") "+")
  let about := getD fs "about" "?"
  let sorted (l : List String) := (l.toArray.qsort (· < ·)).toList
  let mut listed : List String := []
  let mut bad : Option String := none
  for e in evs do
    match e.splitOn "/" with
    | ["j", n] =>
      if listed.contains n then
        if bad.isNone then
          bad := some (if n == "S" && about == "S" && evs == ["j/S", "j/S"]
            then "own-join-delivered-twice-in-the-start-up-window" else s!"joined-twice-without-a-leave:{n}")
      else listed := n :: listed
    | ["l", n] =>
      if !listed.contains n then
        if bad.isNone then
          bad := some s!"left-without-having-joined:{n}"
      else listed := listed.filter (· != n)
    | _ => pure ()
  if bad.isNone && sorted listed != sorted members then bad := some s!"event-replay-differs-from-Members:replay={String.intercalate "+" (sorted listed)}"
  if bad.isNone && !members.contains "S" then bad := some "running-node-does-not-list-itself"
  -- the double own join in this window is what the code (and its model: a record created dead, refuted, announced;
  -- then announced again by setAlive) does: recorded finding, the model agrees with the implementation there
  let agree := bad.isNone || bad == some "own-join-delivered-twice-in-the-start-up-window"
  return verdict agree bad (about == "S") s!"boot-{about}" ""

def handle (kind : String) (fs : List (String × String)) : String :=
  match kind with
  | "boot" => handleBoot fs
  | "resetsel" => handleReset fs
  | "movedead" => handleMoveDead fs
  | "krand" => handleKRand fs
  | "gossipsel" | "ppsel" | "relaysel" => handleCaller kind fs
  | _ => "PARSE kind"

end Swim.Drv.Select
