import Swim.Util.Parse
import Swim.Model.Scale
/-! Driver side of the scale-function correspondence (`<prop> scale` lines): the integer models against
the float computations of util.go, over whole ranges (digest) and at listed points. -/
namespace Swim.Drv.Scale
open Swim.Parse Swim.Scale

def fnVal (fn : String) (mult interval n : Nat) : Nat :=
  if fn == "retransmit" then retransmitLimit mult n
  else if fn == "pushpull" then pushPullScale interval n
  else suspicionTimeout mult n interval

def digestRange (fn : String) (mult interval a b : Nat) : Nat := Id.run do
  let mut d := 0
  for n in [a:b+1] do
    d := (d * 31 + fnVal fn mult interval n + 1) % 1000000007
  return d

def handle (fs : List (String × String)) : String := Id.run do
  let fn := getD fs "fn" "?"
  let mult := (getNat fs "mult").getD 1
  let interval := (getNat fs "interval").getD 1
  match get fs "digest" with
  | some dS =>
    let some a := getNat fs "from" | return "PARSE from"
    let some b := getNat fs "to" | return "PARSE to"
    let some d := dS.toNat? | return "PARSE digest"
    let m := digestRange fn mult interval a b
    let ok := m == d
    return s!"{if ok then "agree" else "DISAGREE"} ok nt=1 br=scale-{fn}-range {if ok then "" else s!"model-digest={m}"}"
  | none =>
    let ns := (splitNE (getD fs "ns" "") ",").filterMap String.toNat?
    let vs := (splitNE (getD fs "vals" "") ",").filterMap String.toNat?
    if ns.length != vs.length then return "PARSE ns/vals"
    let diffs := (ns.zip vs).filter fun (n, v) => fnVal fn mult interval n != v
    let ok := diffs.isEmpty
    return s!"{if ok then "agree" else "DISAGREE"} ok nt=1 br=scale-{fn}-points {match diffs.head? with | some (n, v) => s!"n={n}:impl={v},model={fnVal fn mult interval n}" | none => ""}"

/-- lock-order stress (`<prop> lockstir` lines): every goroutine came back -/
def handleLockStir (fs : List (String × String)) : String :=
  let stalled := (getNat fs "stalled").getD 0
  if stalled == 0 then s!"agree ok nt=1 br=lockstir "
  else s!"DISAGREE BAD:deadlock-between-membership-updates-and-broadcast-retrieval:{stalled}-goroutines-never-came-back nt=1 br=lockstir "

end Swim.Drv.Scale
