import Swim.Util.Parse
import Swim.Drv.C19
import Swim.Model.Lifecycle
/-! Driver side of the simulator verdict lines (C04 C05 C20): the harness reports what it observed;
the classification rules live here. -/
namespace Swim.Drv.Sim
open Swim.Parse

def verdict (agree : Bool) (bad : Option String) (nt : Bool) (br : String) (note : String) : String :=
  s!"{if agree then "agree" else "DISAGREE"} {match bad with | none => "ok" | some b => "BAD:" ++ b} nt={if nt then 1 else 0} br={br} {note}"

def leak (fs : List (String × String)) : String :=
  s!"DISAGREE BAD:goroutines-still-blocked-after-shutdown:{getD fs "msg" "?"} nt=0 br=leak "

/-- the cluster-invariant monitor of the simulator (conclusions of C02_cluster_bounded,
C08_cluster_left_is_left, address ownership, observed on the wire of the real cluster) -/
def invBad (fs : List (String × String)) : Option String :=
  let inv := getD fs "inv" "ok"
  if inv == "ok" || inv == "enc" then none else some s!"cluster-invariant:{inv}"

/-- a scenario in which virtual time could not advance: some goroutine waits for a lock that is never
released (a deadlock inside the library) -/
def stuck (fs : List (String × String)) : String :=
  s!"DISAGREE BAD:scenario-made-no-progress-for-{getD fs "after" "?"}-of-real-time(virtual-time-cannot-advance:a-goroutine-waits-for-a-lock) nt=0 br=stuck "

def handleC04 (kind : String) (fs : List (String × String)) : String :=
  match kind with
  | "leak" => leak fs
  | "stuck" => stuck fs
  | "udp" =>
      let missing := (getNat fs "missing").getD 0
      let wrong := (getNat fs "wrong").getD 0
      let extra := (getNat fs "extra").getD 0
      -- (the harness repeats a run whose only symptom is missing members: a lost datagram does not repeat)
      let ok := missing == 0 && wrong == 0 && extra == 0
      verdict ok (if ok then none else some s!"burst-over-the-udp-transport-not-applied-as-sent:missing={missing},rewritten={wrong},unknown={extra}:of-{getD fs "sent" "?"}")
        true s!"udp-attempt{getD fs "attempt" "1"}" ""
  | "sim" => if (get fs "err").isSome then "PARSE create" else
      let bad := getD fs "bad" "-"
      let conv := getD fs "converged" "0" == "1"
      let ops := (getNat fs "ops").getD 0
      let bad := match invBad fs with | some b => if bad == "-" then b else bad | none => bad
      -- `converged` is informational: an operation issued just before the horizon may not have spread yet
      verdict (bad == "-") (if bad == "-" then none else some bad) (ops ≥ 3)
        s!"healthy-n{min ((getNat fs "n").getD 0 / 4) 3}-leavers{min ((getNat fs "leavers").getD 0) 2}"
        (if conv then "" else "views-not-equal-at-end")
  | _ => "PARSE kind"

def handleC05 (kind : String) (fs : List (String × String)) : String :=
  match kind with
  | "leak" => leak fs
  | "stuck" => stuck fs
  | "sim" => if (get fs "err").isSome then "PARSE create" else
      let connected := getD fs "connected" "0" == "1"
      let cls := getD fs "class" "?"
      let detail := getD fs "detail" "-"
      let bad : Option String :=
        if (invBad fs).isSome then invBad fs
        else if !connected then none   -- the property is conditioned on connectivity when faults stop
        else if cls == "converged" then none
        else if cls == "stable-split" then some s!"final-state-stable-split:{detail}"
        else some s!"final-state-not-converged:{detail}"
      verdict ((cls != "not-converged" || !connected) && (invBad fs).isNone) bad (connected && (getNat fs "departed").getD 0 + (getNat fs "restarts").getD 0 ≥ 1)
        s!"heal-{if connected then cls else "disconnected"}" s!"settled={getD fs "settledms" "-1"}ms"
  | _ => "PARSE kind"

open Swim.Lifecycle in
def parseStage : String → Option Stage
  | "joined" => some .joined | "left" => some .left | "leftReaped" => some .leftReaped
  | "shutdown" => some .shutdown | "leftShutdown" => some .leftShutdown
  | "denied" => some .denied | "deniedShutdown" => some .deniedShutdown | _ => none

open Swim.Lifecycle in
def parseCall : String → Option Call
  | "Members" => some .members | "NumMembers" => some .numMembers | "LocalNode" => some .localNode
  | "UpdateNode" => some .updateNode | "SendBestEffort" => some .sendBestEffort | "SendReliable" => some .sendReliable
  | "Ping" => some .ping | "GetHealthScore" => some .healthScore | "Join" => some .join | "Leave" => some .leave
  | "Shutdown" => some .shutdownC | "ProtocolVersion" => some .protocolVersion | _ => none

/-- the stage probes of the simulator against the stage table of the model: `stage:Call=result` -/
def tableMismatch (tb : String) : Option String := Id.run do
  if tb == "-" then return none
  for e in tb.splitOn "," do
    match e.splitOn ":" with
    | st :: crs@(_ :: _) =>
      let cr := String.intercalate ":" crs   -- a panic text carries colons of its own
      match cr.splitOn "=" with
      | c :: ress@(_ :: _) =>
        let res := String.intercalate "=" ress
        match parseStage st, parseCall c with
        | some s, some cl =>
          let isErr := res == "err"
          let bad := res.startsWith "PANIC" || res == "BLOCKED"
          match Swim.Lifecycle.outcome s cl with
          | .ok => if isErr || bad then return some s!"{st}:{c}={res}:model=ok"
          | .error => if !isErr then return some s!"{st}:{c}={res}:model=error"
          | .okOrError => if bad then return some s!"{st}:{c}={res}:model=ok-or-error"
          | .PANIC => if !res.startsWith "PANIC" then return some s!"{st}:{c}={res}:model=panics(known-finding)"
          | _ => pure ()
        | _, _ => return some s!"unparsed:{e}"
      | _ => return some s!"unparsed:{e}"
    | _ => return some s!"unparsed:{e}"
  return none

def handleC20 (kind : String) (fs : List (String × String)) : String :=
  match kind with
  | "probe" => Swim.Drv.C19.handle kind fs
  | "leak" => leak fs
  | "stuck" => stuck fs
  | "alone" =>
      let peers := getD fs "peers" ""
      let res := getD fs "res" "?"
      let took := (getNat fs "tookms").getD 0
      let someoneThere := peers.toList.any fun c => c == 'a' || c == 's'
      -- nothing is transmitted in this scenario (no gossip ticks): with a listener present Leave runs into its timeout
      let want := if someoneThere then "err" else "nil"
      let bad : Option String :=
        if res == "panic" || res == "blocked" then some s!"Leave:{res}:peers={peers}"
        else if !someoneThere && res != "nil" then some s!"Leave-waited-although-every-peer-has-gone:peers={peers},res={res},took={took}ms"
        else none
      verdict (res == want) bad (peers.length ≥ 2) s!"alone-{if someoneThere then "listener" else "empty"}" (if res == want then "" else s!"model={want}")
  | "api" => if (get fs "err").isSome then "PARSE create" else
      let bad := getD fs "bad" "-"
      let mm := tableMismatch (getD fs "table" "-")
      -- a panic the stage table predicts (`self<stage>:<Call>:PANIC…`, outcome = PANIC) is agreement with
      -- the model; it is still reported as BAD (and answered by the known-findings list)
      let predicted (e : String) : Bool := match e.splitOn ":" with
        | st :: c :: r :: _ => r == "PANIC" && (match parseStage (st.drop 4).toString, parseCall c with
            | some s, some cl => Swim.Lifecycle.outcome s cl == .PANIC
            | _, _ => false)
        | _ => false
      verdict ((bad == "-" || (bad.splitOn ",").all predicted) && mm.isNone) (if bad == "-" then none else some bad) ((getNat fs "calls").getD 0 ≥ 10)
        s!"api-{getD fs "stages" "?"}" (match mm with | some m => s!"stage-table:{m}" | none => "")
  | _ => "PARSE kind"

end Swim.Drv.Sim
