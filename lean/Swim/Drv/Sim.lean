import Swim.Util.Parse
/-! Driver side of the simulator verdict lines (C04 C05 C20): the harness reports what it observed;
the classification rules live here. -/
namespace Swim.Drv.Sim
open Swim.Parse

def verdict (agree : Bool) (bad : Option String) (nt : Bool) (br : String) (note : String) : String :=
  s!"{if agree then "agree" else "DISAGREE"} {match bad with | none => "ok" | some b => "BAD:" ++ b} nt={if nt then 1 else 0} br={br} {note}"

def leak (fs : List (String × String)) : String :=
  s!"DISAGREE BAD:goroutines-still-blocked-after-shutdown:{getD fs "msg" "?"} nt=0 br=leak "

/-- the cluster-invariant monitor of the simulator (conclusions of C02_cluster_bounded,
C08_cluster_left_is_left, address ownership, observed on the wire of the real cluster) -/
def invBad (fs : List (String × String)) : Option String :=
  let inv := getD fs "inv" "ok"
  if inv == "ok" || inv == "enc" then none else some s!"cluster-invariant:{inv}"

def handleC04 (kind : String) (fs : List (String × String)) : String :=
  match kind with
  | "leak" => leak fs
  | "sim" => if (get fs "err").isSome then "PARSE create" else
      let bad := getD fs "bad" "-"
      let conv := getD fs "converged" "0" == "1"
      let ops := (getNat fs "ops").getD 0
      let bad := match invBad fs with | some b => if bad == "-" then b else bad | none => bad
      -- `converged` is informational: an operation issued just before the horizon may not have spread yet
      verdict (bad == "-") (if bad == "-" then none else some bad) (ops ≥ 3)
        s!"healthy-n{min ((getNat fs "n").getD 0 / 4) 3}-leavers{min ((getNat fs "leavers").getD 0) 2}"
        (if conv then "" else "views-not-equal-at-end")
  | _ => "PARSE kind"

def handleC05 (kind : String) (fs : List (String × String)) : String :=
  match kind with
  | "leak" => leak fs
  | "sim" => if (get fs "err").isSome then "PARSE create" else
      let connected := getD fs "connected" "0" == "1"
      let cls := getD fs "class" "?"
      let detail := getD fs "detail" "-"
      let bad : Option String :=
        if (invBad fs).isSome then invBad fs
        else if !connected then none   -- the property is conditioned on connectivity when faults stop
        else if cls == "converged" then none
        else if cls == "stable-split" then some s!"final-state-stable-split:{detail}"
        else some s!"final-state-not-converged:{detail}"
      verdict ((cls != "not-converged" || !connected) && (invBad fs).isNone) bad (connected && (getNat fs "departed").getD 0 + (getNat fs "restarts").getD 0 ≥ 1)
        s!"heal-{if connected then cls else "disconnected"}" s!"settled={getD fs "settledms" "-1"}ms"
  | _ => "PARSE kind"

def handleC20 (kind : String) (fs : List (String × String)) : String :=
  match kind with
  | "leak" => leak fs
  | "api" => if (get fs "err").isSome then "PARSE create" else
      let bad := getD fs "bad" "-"
      verdict (bad == "-") (if bad == "-" then none else some bad) ((getNat fs "calls").getD 0 ≥ 10) s!"api-{getD fs "stages" "?"}" ""
  | _ => "PARSE kind"

end Swim.Drv.Sim
