import Swim.Util.Parse
import Swim.Model.Msgpack
/-! Driver side of the msgpack correspondence (C12 `mp` lines): the model's encoder is compared
byte for byte with the real one, the model's strict decoder with the real decoder wherever it accepts. -/
namespace Swim.Drv.Msgpack
open Swim.Parse Swim.Msgpack

def parseKind : String → Option Kind
  | "ping" => some .ping | "indirectPing" => some .indirectPing | "ack" => some .ack | "nack" => some .nack
  | "err" => some .err | "suspect" => some .suspect | "alive" => some .alive | "dead" => some .dead
  | "pushPullHeader" => some .pushPullHeader | "userMsgHeader" => some .userMsgHeader
  | "pushNodeState" => some .pushNodeState | "compress" => some .compress | _ => none

/-- value syntax: decimal for uint / int, 0|1 for bool, hex for str and bytes with `E` = empty and
(bytes only) `N` = nil -/
def parseVal (t : Ty) (x : String) : Option Val :=
  match t with
  | .uint => x.toNat?.map .uint
  | .int => x.toNat?.map .int
  | .bool => if x == "1" then some (.bool true) else if x == "0" then some (.bool false) else none
  | .str => if x == "E" then some (.str []) else (hexBytesAux x.toList []).map .str
  | .bytes => if x == "N" then some (.bytes none) else if x == "E" then some (.bytes (some []))
      else (hexBytesAux x.toList []).map fun b => .bytes (some b)

def parseVals (fs : List Field) (x : String) : Option (List Val) :=
  let toks := x.splitOn ";"
  if toks.length != fs.length then none else (fs.zip toks).mapM fun (f, tok) => parseVal f.ty tok

def hexs (bs : Bytes) : String := if bs.isEmpty then "E" else toHex bs

def showVal : Val → String
  | .uint n => toString n | .int n => toString n | .bool v => if v then "1" else "0"
  | .str b => hexs b | .bytes none => "N" | .bytes (some b) => hexs b

def showVals (vs : List Val) : String := String.intercalate ";" (vs.map showVal)

/-- what a receiver can recover: an `omitempty` field that was empty comes back as the zero value -/
def canon (fs : List Field) (vs : List Val) : List Val :=
  (fs.zip vs).map fun (f, v) => if f.omitE && v.isEmpty then zero f.ty else v

def verdict (agree : Bool) (bad : Option String) (nt : Bool) (br : String) (note : String) : String :=
  s!"{if agree then "agree" else "DISAGREE"} {match bad with | none => "ok" | some b => "BAD:" ++ b} nt={if nt then 1 else 0} br={br} {note}"

def handleMp (fs : List (String × String)) : String := Id.run do
  let kindS := getD fs "kind" "?"
  let some k := parseKind kindS | return "PARSE kind"
  let sch := schema k
  let some vals := parseVals sch (getD fs "vals" "") | return "PARSE vals"
  let some real := hexBytesAux (getD fs "bytes" "").toList [] | return "PARSE bytes"
  let rdec := getD fs "rdec" "?"
  let mutable_ := getD fs "mut" "-"
  let rmut := getD fs "rmut" "-"
  let mine := encStruct sch vals
  let want := showVals (canon sch vals)
  let mdec := match decStruct sch real with
    | some (vs, []) => showVals vs
    | some (vs, _) => showVals vs ++ "+trailing"
    | none => "ERR"
  let mut notes : List String := []
  let mut agree := true
  let mut mutTag := "nomut"
  if mine != real then
    agree := false; notes := s!"encoder:model={toHex mine}" :: notes
  if mdec != rdec then
    agree := false; notes := s!"decoder:model={mdec},impl={rdec}" :: notes
  -- a mutated copy: wherever the strict model decoder accepts, the real one must read the same fields
  if mutable_ != "-" then
    match (if mutable_ == "E" then some [] else hexBytesAux mutable_.toList []) with
    | some mb =>
      match decStruct sch mb with
      | some (ws, _) =>
        mutTag := "mutaccepted"
        if showVals ws != rmut then
          agree := false; notes := s!"mutated:model={showVals ws},impl={rmut}" :: notes
      | none => mutTag := "mutrejected"
    | none => return "PARSE mut"
  let bad : Option String :=
    if rdec == "PANIC" || rmut == "PANIC" then some "panic"
    else if getD fs "mk" "none" == "trunc" && rmut != "ERR" then some s!"truncated-message-decoded:{kindS}:{rmut}"
    else if rdec != want then some s!"wire-struct-does-not-round-trip:{kindS}:sent={want},received={rdec}"
    else none
  return verdict agree bad (real.length ≥ 24) s!"mp-{kindS}-{mutTag}" (String.intercalate ";" notes)

/-- `readRemoteState` on a plaintext state exchange: the model's parse + port normalisation against the
entries the real function hands to the merge (`got`, in the wire order of the fields; nil and empty
byte strings are not told apart) -/
def handleRrs (fs : List (String × String)) : String := Id.run do
  let some body := (if getD fs "stream" "" == "E" then some [] else hexBytesAux (getD fs "stream" "").toList []) | return "PARSE stream"
  let bind := (getNat fs "bind").getD 7946
  let all := getD fs "proto" "2" == "1"
  let got := getD fs "got" "?"
  let userGot := getD fs "user" "E"
  let loose (v : Val) : String := match v with | .bytes none => "E" | v => showVal v
  let model := match readRemoteState bind all body with
    | none => "ERR"
    | some (_, sts, _, _) => if sts.isEmpty then "-" else String.intercalate "|" (sts.map fun st => String.intercalate ";" (st.map loose))
  let mUser := match readRemoteState bind all body with | some (_, _, u, _) => hexs u | none => "E"
  let portless := got != "ERR" && (got.splitOn "|").any fun st => match st.splitOn ";" with
    | [_, _, _, _, p, _, _] => p == "0" | _ => false
  let agree := model == got && (got == "ERR" || mUser == userGot)
  let bad : Option String :=
    if got == "PANIC" then some "panic"
    else if portless then some "push/pull-entry-reaches-the-merge-without-a-port"
    else none
  return verdict agree bad (body.length ≥ 40) s!"rrs-p{getD fs "proto" "2"}" (if agree then "" else s!"model={model}")

/-- the port recorded for a member learned from an alive message on the packet path -/
def handleAlivePort (fs : List (String × String)) : String := Id.run do
  let some proto := getNat fs "proto" | return "PARSE proto"
  let some bind := getNat fs "bind" | return "PARSE bind"
  let some port := getNat fs "port" | return "PARSE port"
  let some got := getInt fs "got" | return "PARSE got"
  let want := alivePort bind proto port
  let agree := got == (want : Int)
  let bad : Option String :=
    if getD fs "panic" "0" == "1" then some "alive-message-panicked"
    else if got < 0 then some "alive-message-for-a-new-member-not-recorded"
    else if proto ≥ 2 && port != 0 && got != (port : Int) then some s!"port-of-an-alive-message-not-recovered:sent={port}:recorded={got}:proto={proto}"
    else if (proto < 2 || port == 0) && got != (bind : Int) then some s!"portless-alive-message-not-given-the-configured-port:recorded={got}"
    else none
  return s!"{if agree then "agree" else "DISAGREE"} {match bad with | none => "ok" | some b => "BAD:" ++ b} nt={if port != 0 && port != bind then 1 else 0} br=aliveport-{if proto < 2 then "old" else "new"} "

end Swim.Drv.Msgpack
