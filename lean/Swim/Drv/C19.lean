import Swim.Util.Parse
import Swim.Model.Acks
import Swim.Model.Handlers
/-! Driver side of the C19 correspondences (virtual-time probe / relay scripts, score sequences). -/
namespace Swim.Drv.C19
open Swim.Parse Swim.Acks

def verdict (agree : Bool) (bad : Option String) (nt : Bool) (br : String) (note : String) : String :=
  s!"{if agree then "agree" else "DISAGREE"} {match bad with | none => "ok" | some b => "BAD:" ++ b} nt={if nt then 1 else 0} br={br} {note}"

def handleProbe (fs : List (String × String)) : String := Id.run do
  let some indirect := getNat fs "indirect" | return "PARSE indirect"
  let tcp := getD fs "tcp" "off"
  let some amax := getNat fs "amax" | return "PARSE amax"
  let some s0 := getNat fs "s0" | return "PARSE s0"
  let evsS := (splitNE (getD fs "evs" "-") ";").filter (· != "-")
  let suspected := getD fs "suspected" "0" == "1"
  let some score := getNat fs "score" | return "PARSE score"
  let some handlers := getNat fs "handlers" | return "PARSE handlers"
  let some expn := getNat fs "expnacks" | return "PARSE expnacks"
  let some evs := evsS.mapM (fun s => match s.splitOn ":" with
    | [t, k, m] => t.toNat?.map fun t => ({ t, kind := if k == "ack" then .ack else .nack, mine := m == "1" } : Ev)
    | _ => none) | return "PARSE evs"
  let c : Cfg := { probeInterval := 1000000000, probeTimeout := 500000000, awarenessMax := amax, indirectChecks := indirect }
  let (mSusp, mDelta) := probeOutcome c s0 evs expn (tcp == "ok")
  let mScore := applyDelta amax s0 mDelta
  let agree := mSusp == suspected && mScore == score
  -- the property, stated on the implementation's own observations
  let ownAck := evs.any fun e => e.kind == .ack && e.mine && e.t < deadline c s0
  let bad : Option String :=
    if handlers != 0 then some s!"pending-probe-record-not-discarded:{handlers}"
    else if suspected && (ownAck || tcp == "ok") then some "answered-probe-suspected-the-member"
    else if !suspected && !(ownAck || tcp == "ok") then some "unanswered-probe-counted-as-answered"
    else if score > amax - 1 then some s!"health-score-out-of-range:{score}"
    else if !suspected && score > s0 then some "health-score-rose-on-successful-probe"
    else if suspected && score < s0 then some "health-score-fell-on-failed-probe"
    else if suspected && getD fs "accuser" "S" != "S" && getD fs "accuser" "-" != "-" then
      some s!"own-evidence-suspicion-signed-with-another-name:{getD fs "accuser" "?"}(the-prober-would-later-count-as-its-own-confirmer)"
    else none
  return verdict agree bad (evs.length ≥ 2) s!"probe-{tcp}-{if mSusp then "fail" else "ok"}" (if agree then "" else s!"model=susp:{mSusp},score:{mScore}")

/-- a probe whose direct ping the transport refused (`err=local|remote`), nothing injected -/
def handleSendErr (fs : List (String × String)) : String := Id.run do
  let some indirect := getNat fs "indirect" | return "PARSE indirect"
  let some amax := getNat fs "amax" | return "PARSE amax"
  let some s0 := getNat fs "s0" | return "PARSE s0"
  let some score := getNat fs "score" | return "PARSE score"
  let some handlers := getNat fs "handlers" | return "PARSE handlers"
  let some expn := getNat fs "expnacks" | return "PARSE expnacks"
  let pre := getD fs "pre" "0" == "1"   -- suspected before the probe: its state says nothing about the probe
  let errK := getD fs "err" "?"
  let sent : Sent := if errK == "local" then .localError else if errK == "remote" then .remoteError else .ok
  let c : Cfg := { probeInterval := 1000000000, probeTimeout := 500000000, awarenessMax := amax, indirectChecks := indirect }
  let (mSusp, mDelta) := probeWithSend sent c s0 [] expn false
  let mScore := applyDelta amax s0 mDelta
  let suspected := if pre then mSusp else getD fs "suspected" "0" == "1"
  let agree := mSusp == suspected && mScore == score
  let bad : Option String :=
    if handlers != 0 then some s!"pending-probe-record-not-discarded:{handlers}"
    else if score < s0 then some s!"health-score-fell-without-an-acknowledged-probe:{s0}->{score}:ping-refused-{errK}"
    else if score > amax - 1 then some s!"health-score-out-of-range:{score}"
    else if errK == "local" && suspected then some "member-suspected-although-the-ping-never-left"
    else if errK == "remote" && !suspected then some "unanswered-probe-counted-as-answered:the-ping-was-refused-with-a-remote-error-and-nothing-was-acknowledged"
    else none
  return verdict agree bad true s!"senderr-{errK}" (if agree then "" else s!"model=susp:{mSusp},score:{mScore}")

/-- the Ping API against `pingAnswered` -/
def handlePing (fs : List (String × String)) : String := Id.run do
  let some interval := getNat fs "interval" | return "PARSE interval"
  let some timeout := getNat fs "timeout" | return "PARSE timeout"
  let evsS := (splitNE (getD fs "evs" "-") ";").filter (· != "-")
  let some evs := evsS.mapM (fun s => match s.splitOn ":" with
    | [t, _, m] => t.toNat?.map fun t => ({ t, kind := .ack, mine := m == "1" } : Ev)
    | _ => none) | return "PARSE evs"
  let res := getD fs "res" "?"
  let handlers := (getNat fs "handlers").getD 0
  let m := pingAnswered interval timeout evs
  let agree := (res == "ok") == m
  let ownAck := evs.any fun e => e.mine && e.t < timeout
  let bad : Option String :=
    if handlers != 0 then some s!"pending-probe-record-not-discarded:{handlers}"
    else if res == "ok" && !ownAck then some "ping-reported-answered-although-no-acknowledgement-with-its-number-arrived"
    else none
  return verdict agree bad (evs.length ≥ 1) s!"ping-{if interval < timeout then "short-interval" else "usual"}-{res}" (if agree then "" else s!"model-answered={m}")

def handleRelay (fs : List (String × String)) : String := Id.run do
  let nack := getD fs "nack" "0" == "1"
  let mode := getD fs "mode" "?"
  let ackAtI := (getInt fs "ackat").getD (-1)
  let some acks := getNat fs "acks" | return "PARSE acks"
  let some nacks := getNat fs "nacks" | return "PARSE nacks"
  let other := (getNat fs "other").getD 0
  let fresh := getD fs "fresh" "0" == "1"
  let handlers := (getNat fs "handlers").getD 0
  let ackAt : Option Nat := if mode == "intime" || mode == "dup" || mode == "late" then some ackAtI.toNat else none
  let (mA, mN) := relayOutcome 500000000 nack ackAt
  let bad : Option String :=
    if !fresh then some "relay-did-not-use-a-fresh-sequence-number"
    else if handlers != 0 then some "relay-handler-not-discarded"
    else if acks + nacks > 1 then some s!"relay-answered-more-than-once:acks={acks},nacks={nacks}"
    else if acks != mA then some s!"relayed-acks:{acks}:expected:{mA}:mode={mode}"
    else if nacks != mN then some s!"nacks:{nacks}:expected:{mN}:mode={mode},requested={nack}"
    else if other != 0 then some "relay-sent-unexpected-packet-to-requester"
    else none
  return verdict (acks == mA && nacks == mN) bad true s!"relay-{mode}" ""

def handleScore (fs : List (String × String)) : String := Id.run do
  let some amax := getNat fs "amax" | return "PARSE amax"
  let ds := (splitNE (getD fs "deltas" "") ",").filterMap String.toInt?
  let ss := (splitNE (getD fs "scores" "") ",").filterMap String.toNat?
  let (_, ms) := ds.foldl (fun (acc : Nat × List Nat) d => let s := applyDelta amax acc.1 d; (s, acc.2 ++ [s])) (0, [])
  let bad : Option String := match ss.find? (fun s => s > amax - 1) with
    | some s => some s!"health-score-out-of-range:{s}"
    | none => none
  return verdict (ms == ss) bad true "score" (if ms == ss then "" else s!"model={ms}")

/-- the pending-acknowledgement table: `op>pending|events;...` replayed on `Swim.Handlers.step`.
ops: `set:seq:timeoutMs:p|r`, `ack:seq`, `nack:seq`, `tick:ms`; pending = sequence numbers sorted, joined
by `.`; events = `a<seq>` / `n<seq>` / `t<seq>` sorted, joined by `.` (`-` when empty) -/
def handleTbl (fs : List (String × String)) : String := Id.run do
  let opsS := splitNE (getD fs "ops" "") ";"
  let mut t : Swim.Handlers.T := {}
  let mut agree := true
  let mut bad : Option String := none
  let mut note := ""
  let mut idx := 0
  let mut evCount := 0
  let sortNat (l : List Nat) : List Nat := (l.toArray.qsort (· < ·)).toList
  let sortS (l : List String) : List String := (l.toArray.qsort (· < ·)).toList
  for os in opsS do
    let [tok0, obs] := os.splitOn ">" | return s!"PARSE op{idx}"
    let [pend, evs] := obs.splitOn "|" | return s!"PARSE obs{idx}"
    let panicked := tok0.endsWith "!panic"
    let tok := if panicked then (tok0.dropEnd 6).toString else tok0
    if panicked && bad.isNone then bad := some s!"acknowledgement-handling-panicked@op{idx}:{tok}"
    let some op := (match tok.splitOn ":" with
      | ["set", sq, tm, k] => do pure (Swim.Handlers.Op.set (← sq.toNat?) (← tm.toNat?) (if k == "p" then .probe else .relay))
      | ["ack", sq] => do pure (Swim.Handlers.Op.ack (← sq.toNat?))
      | ["nack", sq] => do pure (Swim.Handlers.Op.nack (← sq.toNat?))
      | ["tick", d] => do pure (Swim.Handlers.Op.tick (← d.toNat?))
      | _ => none) | return s!"PARSE tok{idx}:{tok}"
    let implPend := sortNat ((splitNE pend ".").filterMap String.toNat?)
    let implEvs := sortS ((splitNE evs ".").filter (· != "-"))
    -- property, on the implementation's own observations: an ack / nack for a number that was not pending has no effect
    let prePend := sortNat (t.hs.map (·.seq))
    match op with
    | .ack sq => if !prePend.contains sq && (!implEvs.isEmpty || implPend != prePend) && bad.isNone then
        bad := some s!"ack-for-a-number-that-is-not-pending-had-an-effect:{sq}@op{idx}"
    | .nack sq => if !prePend.contains sq && (!implEvs.isEmpty || implPend != prePend) && bad.isNone then
        bad := some s!"nack-for-a-number-that-is-not-pending-had-an-effect:{sq}@op{idx}"
    | _ => pure ()
    let (t', mevs) := Swim.Handlers.step t op
    let mPend := sortNat (t'.hs.map (·.seq))
    let mEvs := sortS (mevs.map fun e => match e with
      | .ack s => s!"a{s}" | .nack s => s!"n{s}" | .timeout s => s!"t{s}")
    -- every record is gone by its deadline
    if bad.isNone then
      match t'.hs.find? (fun h => !(implPend.contains h.seq)) with
      | _ => pure ()
      if implPend.any (fun sq => !(mPend.contains sq)) then
        bad := some s!"pending-record-outlived-its-deadline-or-its-ack@op{idx}:{tok}"
    if mPend != implPend || mEvs != implEvs then
      if agree then note := s!"op{idx}:{tok}:model(pending={mPend},events={mEvs})"
      agree := false
    evCount := evCount + implEvs.length
    t := t'
    idx := idx + 1
  return verdict agree bad (evCount ≥ 2) s!"tbl-{min (idx / 5) 4}" note

/-- duplicates of an acknowledgement while the first one's handler runs: exactly one invocation, record gone -/
def handleDupAck (fs : List (String × String)) : String :=
  let calls := (getInt fs "calls").getD (-1)
  let pending := (getInt fs "pending").getD (-1)
  let bad : Option String :=
    if calls != 1 then some s!"acknowledgement-for-an-answered-number-had-an-effect:handler-ran-{calls}-times"
    else if pending != 0 then some s!"answered-record-not-discarded:pending={pending}"
    else none
  s!"{if bad.isNone then "agree" else "DISAGREE"} {match bad with | none => "ok" | some b => "BAD:" ++ b} nt=1 br=dupack "

def handle (kind : String) (fs : List (String × String)) : String :=
  match kind with
  | "dupack" => handleDupAck fs
  | "tbl" => handleTbl fs
  | "probe" => handleProbe fs
  | "senderr" => handleSendErr fs
  | "ping" => handlePing fs
  | "fresh" =>
      let dups := (getNat fs "dups").getD 0
      let total := (getNat fs "workers").getD 0 * (getNat fs "per").getD 0
      let distinct := (getNat fs "distinct").getD 0
      verdict (dups == 0 && distinct == total)
        (if dups == 0 && distinct == total then none else some s!"{dups}-sequence-numbers-handed-to-two-concurrent-probes@first:{getD fs "first" "?"}")
        true "fresh" ""
  | "relay" => handleRelay fs
  | "score" => handleScore fs
  | _ => "PARSE kind"

end Swim.Drv.C19
