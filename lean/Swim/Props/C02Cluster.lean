import Swim.Props.ClusterG
/-!
# C02 at cluster level: nobody outruns the owner, so a running node always wins

For every history of the cluster model (`Swim.Cluster.World`: any number of nodes, a network that
reorders, duplicates, delays and loses claims; probes may fail, suspicions start, time out and
spread; nodes join, update, leave; no node restarts with a reset counter):
every claim about a member `x` - held as a record by anyone or in flight - carries an incarnation
that `x` itself has reached. Hence the side conditions of the single-node theorems
(`C02_suspect_refuted`, `C02_dead_refuted`: counter below 2^32, accusation below 2^32-1, no
suspicion timer about oneself) hold in every reachable state, and a running node refutes every
accusation that can ever reach it.
-/
namespace Swim.Cluster
open Swim.Merge

/-- **C02_cluster_bounded.** In every reachable cluster state, every record about another member and
every claim in flight is bounded by the incarnation its subject itself has reached. -/
theorem C02_cluster_bounded (w0 : World) (ops : List COp) (hfresh : Fresh w0) (hlen : ops.length < u32) :
    (∀ y ∈ (w0.run ops).nodes, ∀ r ∈ y.recs, r.name ≠ y.cfg.self → Known (w0.run ops) r.name r.inc) ∧
    (∀ m ∈ (w0.run ops).pool, match m with
      | .alive a => Known (w0.run ops) a.node a.inc
      | .suspect c => Known (w0.run ops) c.node c.inc
      | .dead c => Known (w0.run ops) c.node c.inc
      | .state s => Known (w0.run ops) s.name s.inc) := by
  have h := grun_inv ops w0 0 (gfresh_inv w0 hfresh) (by omega)
  obtain ⟨_, hn, hp⟩ := h
  refine ⟨?_, ?_⟩
  · intro y hy r hr hne
    exact ((hn y hy).2.2.2.2 r hr hne).2.1.known
  · intro m hm
    have := hp m hm
    cases m with
    | alive a => exact this.2.known
    | suspect c => exact this
    | dead c => exact this.1
    | state s => exact this.1.known

/-- **C02_cluster_defends.** In every reachable cluster state, a running node (own record alive, Leave
not called) that is handed *any* accusation in flight about itself at an incarnation at least its
own - a suspect claim, a dead claim, or a suspect/dead entry of somebody's state list - refutes it:
its incarnation ends strictly above the accusation, its own record carries it and stays alive, and
exactly one alive broadcast announces it. No assumption about counters: the bounds are invariants. -/
theorem C02_cluster_defends (w0 : World) (ops : List COp) (hfresh : Fresh w0) (hlen : ops.length + 1 < u32)
    (X : Node) (hX : X ∈ (w0.run ops).nodes) (me : Rec) (hme : selfRec X = some me)
    (halive : me.st = .alive) (hrun : X.hasLeft = false) (m : Msg) (hm : m ∈ (w0.run ops).pool) (env : Env) :
    match m with
    | .alive _ => True
    | .suspect c => c.node = X.cfg.self → me.inc ≤ c.inc → Refuted X c.inc (receive m env X)
    | .dead c => c.node = X.cfg.self → me.inc ≤ c.inc → Refuted X c.inc (receive m env X)
    | .state s => (s.st = .suspect ∨ s.st = .dead) → s.name = X.cfg.self → me.inc ≤ s.inc →
        Refuted X s.inc (receive m env X) := by
  have h := grun_inv ops w0 0 (gfresh_inv w0 hfresh) (by omega)
  have hb := h.2.2 m hm
  obtain ⟨_, hsi, hsf, hst, _⟩ := h.2.1 X hX
  simp only [Nat.zero_add] at hsi
  have hnt : ∀ nm, nm = X.cfg.self → X.timers.find? (·.node == nm) = none := by
    intro nm e
    apply List.find?_eq_none.mpr
    intro t ht
    simp only [beq_iff_eq, e]
    exact hst t ht
  have bound : ∀ i, Known (w0.run ops) X.cfg.self i → i ≤ me.inc := by
    intro i hk
    obtain ⟨me2, hme2, hle⟩ := known_self h hX hk
    rw [hme] at hme2; cases hme2; exact hle
  have f1 := (hsf me hme).1
  cases m with
  | alive a => trivial
  | suspect c =>
    intro hc hle
    have := bound c.inc (by rw [← hc]; exact hb)
    exact C02_suspect_refuted X c env me hc hme halive (hnt c.node hc) hle (by omega) (by omega)
  | dead c =>
    intro hc hle
    have := bound c.inc (by rw [← hc]; exact hb.1)
    exact C02_dead_refuted X c env me hc hme halive hrun hle (by omega) (by omega)
  | state s =>
    intro hs hc hle
    have := bound s.inc (by rw [← hc]; exact hb.1.known)
    rw [receive_state_susp s env X hs]
    exact C02_suspect_refuted X { inc := s.inc, node := s.name, frm := X.cfg.self } env me hc hme halive
      (hnt s.name hc) hle (by omega) (by show s.inc < u32 - 1; omega)

end Swim.Cluster
