import Swim.Props.C05Recover
import Swim.Props.C09
/-!
# C09 at cluster level: a state exchange makes the receiver list the sender

In every reachable state of the cluster model: when a running node `H` sends its state list and the
entry about `H` itself reaches a node `J` whose filters let it through, `J` lists `H` right away -
whether `J` had never heard of `H`, held an older record in any state, or already listed it. The
only exception is a record that already says `H` is dead *at H's current incarnation*: an alive
claim at the same incarnation does not override it (H first has to refute, `C05_cluster_recoverable`).
That the entry carries the address `J` has on record is an invariant, not an assumption.
-/
namespace Swim.Cluster
open Swim.Merge

theorem C09_cluster_join_lists (w0 : World) (ops : List COp) (hfresh : Fresh w0) (hlen : ops.length < u32)
    (H J : Node) (hH : H ∈ (w0.run ops).nodes) (hJ : J ∈ (w0.run ops).nodes) (hne : H.cfg.self ≠ J.cfg.self)
    (me : Rec) (hme : selfRec H = some me) (hal : me.st = .alive)
    (hv : vsnBad me.vsn = false) (hdel : J.cfg.hasAliveDelegate = false) (env : Env) (hip : env.ipAllowed = true)
    (hprior : ∀ r ∈ J.recs, r.name = H.cfg.self → r.inc = me.inc → r.st.deadOrLeft = false) :
    ∃ j, ∃ J', nodeAt ((w0.run ops).run [.snapshot H.cfg.self, .deliver J.cfg.self ((w0.run ops).pool.length + j) env])
        J.cfg.self = some J' ∧ listedAt J' H.cfg.self = true := by
  have hinv := grun_inv ops w0 0 (gfresh_inv w0 hfresh) (by omega)
  generalize w0.run ops = w at *
  have hnH := nodeAt_of_mem hinv.1 hH
  have hnJ := nodeAt_of_mem hinv.1 hJ
  have hmn : me.name = H.cfg.self := lookup_name hme
  obtain ⟨f1, f2, f3, _, _⟩ := (hinv.2.1 H hH).2.2.1 me hme
  obtain ⟨j, hj⟩ := mem_index (List.mem_of_find?_eq_some hme)
  obtain ⟨sn, sp⟩ := snapshot_step w H.cfg.self H hnH
  refine ⟨j, ?_⟩
  simp only [World.run, List.foldl_cons, List.foldl_nil]
  have hpi : (w.step (.snapshot H.cfg.self)).pool[w.pool.length + j]? = some (.state (stateOfRec me)) := by
    rw [sp]; exact pool_index _ _ _ _ hj
  have hnJ1 : nodeAt (w.step (.snapshot H.cfg.self)) J.cfg.self = some J := by
    unfold nodeAt; rw [sn]; exact hnJ
  rw [deliver_step _ _ _ _ _ hpi]
  obtain ⟨_, an⟩ := act_eq (w.step (.snapshot H.cfg.self)) J.cfg.self (receive (.state (stateOfRec me)) env)
    (srcOf (.state (stateOfRec me))) J hnJ1 (receive_cfg _ _ _) J.cfg.self
  rw [an]
  simp only [↓reduceIte]
  refine ⟨_, rfl, ?_⟩
  -- what J does with the entry
  show listedAt (mergeOne J (withEnv (stateOfRec me) env) env.now).1 H.cfg.self = true
  have hname : (withEnv (stateOfRec me) env).name = H.cfg.self := hmn
  have hst : (withEnv (stateOfRec me) env).st = .alive := hal
  rw [← hname]
  cases hl : lookup J.recs H.cfg.self with
  | none =>
    exact C09_join_lists J _ env.now hst (by rw [hname]; exact hne) hv (by simp [hdel]) hip
      (by rw [hname, hl]; exact f2)
  | some r =>
    have hr : r ∈ J.recs := List.mem_of_find?_eq_some hl
    have hrn : r.name = H.cfg.self := lookup_name hl
    obtain ⟨hle, ha, hp, _⟩ := accusation_facts hinv hH hJ hme hr hrn hne
    by_cases hlt : r.inc < me.inc
    · exact C09_join_lists J _ env.now hst (by rw [hname]; exact hne) hv (by simp [hdel]) hip
        (by rw [hname, hl]; exact ⟨ha, hp, hlt⟩)
    · have heq : r.inc = me.inc := by omega
      have hno : ¬ takeover J (aliveOfState (stateOfRec me)) env := by
        intro ht
        obtain ⟨r2, hr2, hdiff, _⟩ := ht
        have : lookup J.recs (aliveOfState (stateOfRec me)).node = some r := by
          show lookup J.recs me.name = some r
          rw [hmn]; exact hl
        rw [this] at hr2; cases hr2
        rcases hdiff with h | h
        · exact h ha
        · exact h hp
      have hnoop := C01_alive_stale_noop J (aliveOfState (stateOfRec me)) false false env r
        (by show me.name ≠ J.cfg.self; rw [hmn]; exact hne)
        (by show lookup J.recs me.name = some r; rw [hmn]; exact hl)
        (by show me.inc ≤ r.inc; omega) hno
      have e : mergeOne J (withEnv (stateOfRec me) env) env.now = aliveNode J (aliveOfState (stateOfRec me)) false false env := by
        have := congrFun (receive_state_alive (stateOfRec me) env hal) J
        exact this
      rw [e, hnoop.1, hname]
      simp only [listedAt, hl]
      simp [hprior r hr hrn heq]

end Swim.Cluster
