import Swim.Props.C06History
import Swim.Props.Projection
/-!
# C06 at cluster level: confirmation bookkeeping in every node of every cluster history
-/
namespace Swim.Cluster
open Swim.Merge

/-- **C06_cluster_confirmations.** For every node of every cluster history started before any node has a
timer (in particular from a fresh cluster): each live suspicion timer belongs to a member the node
holds as suspect, there is one timer per member at most, its confirmers are pairwise distinct with
the accuser first, and the confirmations counted are the confirmers beyond the accuser, at most `k`. -/
theorem C06_cluster_confirmations (w : World) (ops : List COp) (y : String) (n0 : Node) (h0 : nodeAt w y = some n0)
    (ht : TimerOk n0) : ∃ n1, nodeAt (w.run ops) y = some n1 ∧ TimerOk n1 := by
  obtain ⟨p1, _⟩ := projection ops w y n0 h0
  refine ⟨_, p1, ?_⟩
  rw [nodeRun_fst]
  exact C06_history_confirmations n0 _ ht

end Swim.Cluster
