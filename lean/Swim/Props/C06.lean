import Swim.Model.Susp
import Swim.Props.C01
/-!
# C06  Suspicion timeout respects the Lifeguard bounds and confirmation rules
-/
namespace Swim.Susp

/-- invariant of a timer whose script is processed in time order -/
structure Inv (tmo : Nat → Nat) (s : T) : Prop where
  dl : ∀ d, s.deadline = some d → s.start + s.minT ≤ d ∧ d ≤ s.start + s.maxT
  fa : ∀ f, s.firedAt = some f → s.start + s.minT ≤ f
  famax : ∀ f, s.firedAt = some f → f ≤ s.start + s.maxT
  nk : s.n ≤ s.k
  once : s.deadline.isSome → s.firedAt = none

theorem new_inv (tmo : Nat → Nat) (frm : String) (k minT maxT now : Nat) (h : minT ≤ maxT) :
    Inv tmo (new frm k minT maxT now) := by
  refine ⟨?_, ?_, ?_, ?_, ?_⟩
  · intro d hd
    simp only [new, Option.some.injEq] at hd
    subst hd
    simp only [new]
    split <;> omega
  · intro f hf; simp [new] at hf
  · intro f hf; simp [new] at hf
  · simp [new]
  · intro _; rfl

theorem fire_inv (tmo : Nat → Nat) (s : T) (now : Nat) (h : Inv tmo s) : Inv tmo (fire s now) := by
  unfold fire
  cases hd : s.deadline with
  | none => simpa [hd] using h
  | some d =>
    simp only
    by_cases hc : d ≤ now ∧ s.firedAt.isNone
    · simp only [hc, and_self, ↓reduceIte]
      have hb := h.dl d hd
      refine ⟨?_, ?_, ?_, h.nk, ?_⟩
      · intro d' hd'; simp at hd'
      · intro f hf; simp at hf; subst hf; exact hb.1
      · intro f hf; simp at hf; subst hf; exact hb.2
      · intro hs; simp at hs
    · simp only [hc, ↓reduceIte]; exact h

/-- a timer still pending after due firings have been delivered has its deadline in the future -/
theorem fire_pending (tmo : Nat → Nat) (s : T) (now d : Nat) (h : Inv tmo s)
    (hd : (fire s now).deadline = some d) : now < d := by
  unfold fire at hd
  cases hs : s.deadline with
  | none => simp [hs] at hd
  | some d0 =>
    simp only [hs] at hd
    have hnone := h.once (by simp [hs])
    by_cases hc : d0 ≤ now ∧ s.firedAt.isNone
    · simp [hc] at hd
    · simp only [hc, ↓reduceIte, hs, Option.some.injEq] at hd
      subst hd
      simp only [hnone, Option.isNone_none, and_true] at hc
      omega

/-- **one confirmation step keeps the invariant.** -/
theorem confirm_inv (tmo : Nat → Nat) (s : T) (frm : String) (now : Nat)
    (hs : Sched tmo s.k s.minT s.maxT) (h : Inv tmo s) (hnow : ∀ f, s.firedAt = some f → True) :
    Inv tmo (confirm tmo s frm now).1 := by
  have h1 := fire_inv tmo s now h
  have hk : (fire s now).k = s.k ∧ (fire s now).minT = s.minT ∧ (fire s now).maxT = s.maxT ∧ (fire s now).start = s.start := by
    unfold fire; split <;> (try split) <;> simp
  unfold confirm
  simp only
  generalize hf : fire s now = s1 at h1 hk
  by_cases c1 : s1.n ≥ s1.k
  · simp only [c1, ↓reduceIte]; exact h1
  · simp only [c1, ↓reduceIte]
    by_cases c2 : s1.confirmers.contains frm = true
    · simp only [c2, ↓reduceIte]; exact h1
    · simp only [c2, Bool.false_eq_true, ↓reduceIte]
      have hb := hs.bounded (s1.n + 1)
      cases hd : s1.deadline with
      | none =>
        simp only
        refine ⟨?_, h1.fa, h1.famax, by simp; omega, ?_⟩
        · intro d hd'; simp at hd'
        · intro hs'; simp at hs'
      | some d =>
        simp only
        by_cases c3 : s1.start + tmo (s1.n + 1) > now
        · simp only [c3, ↓reduceIte]
          refine ⟨?_, ?_, ?_, by simp; omega, ?_⟩
          · intro d' hd'
            simp only [Option.some.injEq] at hd'
            subst hd'
            simp only
            rw [hk.2.1, hk.2.2.1] ; omega
          · intro f hf'
            have := h1.once (by simp [hd])
            simp only at hf'; rw [this] at hf'; cases hf'
          · intro f hf'
            have := h1.once (by simp [hd])
            simp only at hf'; rw [this] at hf'; cases hf'
          · intro _; exact h1.once (by simp [hd])
        · simp only [c3, ↓reduceIte]
          refine ⟨?_, ?_, ?_, by simp; omega, ?_⟩
          · intro d' hd'; simp at hd'
          · intro f hf'
            simp only [Option.some.injEq] at hf'
            subst hf'
            simp only
            rw [hk.2.1]; omega
          · intro f hf'
            simp only [Option.some.injEq] at hf'
            subst hf'
            have hp := fire_pending tmo s now d h (by rw [hf]; exact hd)
            have hdb := (h1.dl d hd).2
            simp only
            omega
          · intro hs'; simp at hs'

/-- **fire_ge_min / fire_le_max.** Whatever confirmations arrive (any senders, duplicates, the
accuser itself, any times), the timer fires no earlier than `start + min` and, when left to run,
no later than `start + max`. -/
theorem C06_fire_bounds (tmo : Nat → Nat) (s : T) (script : List (Nat × String))
    (hs : Sched tmo s.k s.minT s.maxT) (h : Inv tmo s) :
    let r := run tmo s script
    (∀ f, r.firedAt = some f → s.start + s.minT ≤ f ∧ f ≤ s.start + s.maxT) ∧ (r.deadline = none) := by
  induction script generalizing s with
  | nil =>
    simp only [run]
    cases hd : s.deadline with
    | none => exact ⟨fun f hf => ⟨h.fa f hf, h.famax f hf⟩, hd⟩
    | some d =>
      simp only
      have hi := fire_inv tmo s d h
      have hkf : (fire s d).minT = s.minT ∧ (fire s d).start = s.start ∧ (fire s d).maxT = s.maxT := by
        unfold fire; split <;> (try split) <;> simp
      refine ⟨fun f hf => by
        have h1 := hi.fa f hf; have h2 := hi.famax f hf
        rw [hkf.1, hkf.2.1] at h1; rw [hkf.2.1, hkf.2.2] at h2; exact ⟨h1, h2⟩, ?_⟩
      unfold fire
      simp only [hd]
      have := h.once (by simp [hd])
      simp [this]
  | cons x rest ih =>
    obtain ⟨t, frm⟩ := x
    simp only [run]
    have hi := confirm_inv tmo s frm t hs h (fun _ _ => trivial)
    have hk : (confirm tmo s frm t).1.k = s.k ∧ (confirm tmo s frm t).1.minT = s.minT ∧
        (confirm tmo s frm t).1.maxT = s.maxT ∧ (confirm tmo s frm t).1.start = s.start := by
      have hkf : (fire s t).k = s.k ∧ (fire s t).minT = s.minT ∧ (fire s t).maxT = s.maxT ∧ (fire s t).start = s.start := by
        unfold fire; split <;> (try split) <;> simp
      unfold confirm
      simp only
      split
      · exact hkf
      · split
        · exact hkf
        · split
          · split <;> simpa using hkf
          · simpa using hkf
    have := ih (confirm tmo s frm t).1 (by rw [hk.1, hk.2.1, hk.2.2.1]; exact hs) hi
    simp only at this
    rw [hk.2.2.2, hk.2.1, hk.2.2.1] at this
    exact this

/-- **confirm_once / the accuser never counts.** A confirmation from a name already recorded
(the original accuser included) changes nothing and is not re-gossiped. -/
theorem C06_confirm_once (tmo : Nat → Nat) (s : T) (frm : String) (now : Nat)
    (h : (fire s now).confirmers.contains frm = true) :
    (confirm tmo s frm now) = (fire s now, false) := by
  unfold confirm
  simp only
  split
  · rfl
  · simp [h]

theorem C06_accuser_recorded (frm : String) (k minT maxT now : Nat) :
    (new frm k minT maxT now).confirmers.contains frm = true := by simp [new]

/-- **stops_at_k.** Once `k` confirmations are counted further ones are ignored. -/
theorem C06_stops_at_k (tmo : Nat → Nat) (s : T) (frm : String) (now : Nat) (h : (fire s now).n ≥ (fire s now).k) :
    (confirm tmo s frm now) = (fire s now, false) := by
  unfold confirm; simp [h]

/-- **k0_exact_min.** With too few peers to confirm (`k = 0`) the timer is armed with the minimum
timeout from the start and no confirmation is ever accepted. -/
theorem C06_k0_exact_min (frm : String) (minT maxT now : Nat) :
    (new frm 0 minT maxT now).deadline = some (now + minT) := by simp [new]

/-- **deadline_formula.** An accepted confirmation re-arms the pending timer to exactly
`start + tmo n`, or fires at once if that instant has passed. -/
theorem C06_deadline_formula (tmo : Nat → Nat) (s : T) (frm : String) (now : Nat) (d : Nat)
    (hd : (fire s now).deadline = some d) (hn : (fire s now).n < (fire s now).k)
    (hf : (fire s now).confirmers.contains frm = false) :
    let r := (confirm tmo s frm now).1
    (r.n = (fire s now).n + 1) ∧
    ((r.deadline = some (r.start + tmo r.n) ∧ now < r.start + tmo r.n) ∨
     (r.firedAt = some now ∧ r.start + tmo r.n ≤ now)) := by
  unfold confirm
  simp only
  have c1 : ¬ (fire s now).n ≥ (fire s now).k := by omega
  simp only [c1, ↓reduceIte, hf, Bool.false_eq_true, hd]
  by_cases c3 : (fire s now).start + tmo ((fire s now).n + 1) > now
  · simp only [c3, ↓reduceIte]; exact ⟨trivial, Or.inl ⟨trivial, by simpa using c3⟩⟩
  · simp only [c3, ↓reduceIte]; exact ⟨trivial, Or.inr ⟨trivial, by omega⟩⟩

/-- non-vacuity: k = 2, min 2 s, max 6 s (ms units), schedule 6000/3476/2000: a duplicate and the
accuser do not count; two distinct confirmers drive the timeout to the minimum. -/
example :
    let tmo : Nat → Nat := fun j => if j = 0 then 6000 else if j = 1 then 3476 else 2000
    (run tmo (new "a" 2 2000 6000 100) [(200, "a"), (300, "b"), (400, "b"), (500, "c")]).firedAt = some 2100 := by
  decide

end Swim.Susp

namespace Swim.Merge

/-- **stale_timer_harmless.** The callback of a suspicion that has since been refuted, replaced
or completed (the record's change stamp differs from the one the timer captured, or the record is
no longer suspect) does nothing at all. -/
theorem C06_stale_timer_harmless (n : Node) (node : String) (ca : Nat) (env : Env) (r : Rec)
    (hr : lookup n.recs node = some r) (hstale : r.st ≠ .suspect ∨ r.changed ≠ some ca) :
    timerFire n node ca env = (n, []) := by
  unfold timerFire
  simp only [hr]
  rcases hstale with h | h
  · have : (r.st == St.suspect) = false := by simpa using h
    simp [this]
  · have : (r.changed == some ca) = false := by simpa using h
    simp [this]

/-- **no_early_death via the callback.** When the callback does act, it issues a dead claim signed
by the local node at the suspected incarnation, for a record that is still the suspicion it was
armed for. -/
theorem C06_timer_kills_only_its_suspicion (n : Node) (node : String) (ca : Nat) (env : Env)
    (h : timerFire n node ca env ≠ (n, [])) :
    ∃ r, lookup n.recs node = some r ∧ r.st = .suspect ∧ r.changed = some ca := by
  unfold timerFire at h
  cases hr : lookup n.recs node with
  | none => simp [hr] at h
  | some r =>
    simp only [hr] at h
    by_cases c : (r.st == St.suspect && r.changed == some ca) = true
    · simp at c; exact ⟨r, rfl, c.1, c.2⟩
    · simp [c] at h

/-- the number of confirmations a node expects: `SuspicionMult - 2`, or none when the cluster
is too small to provide them -/
theorem C06_k_rule (n : Node) (s : Claim) (env : Env) (r : Rec)
    (hr : lookup n.recs s.node = some r) (hal : r.st = .alive) (hinc : r.inc ≤ s.inc)
    (hnt : n.timers.find? (·.node == s.node) = none) (hself : r.name ≠ n.cfg.self) :
    Out.newTimer s.node (if n.numNodes < n.cfg.suspicionK + 2 then 0 else n.cfg.suspicionK) s.frm ∈ (suspectNode n s env).2 := by
  unfold suspectNode
  have h1 : ¬ s.inc < r.inc := by omega
  have h3 : (r.name == n.cfg.self) = false := by simpa using hself
  simp [hr, h1, hnt, hal, h3]

end Swim.Merge
