import Swim.Props.C19
import Swim.Props.C18
/-!
# C04  No false suspicion in a healthy cluster
Logic part: (1) a probe whose acknowledgement returns within the probe timeout is answered;
(2) the claims that circulate in a healthy cluster (alive claims, self-signed departures) never
create a suspicion, a suspicion timer or a failure record, and never touch the health score.
The runtime hypotheses ("responsive", "delivered within half the probe timeout") are stated as
hypotheses; the simulator observes them in virtual time.
-/
namespace Swim.Acks

/-- **ack_in_time_no_suspect.** If each packet is delivered within half the probe timeout, the ack of
a responsive target arrives before the probe timeout, hence before the deadline: the probe is
answered, nobody is suspected and the health score moves down (towards zero), never up. -/
theorem C04_ack_in_time_no_suspect (c : Cfg) (score : Nat) (evs : List Ev) (exp : Nat) (tcp : Bool)
    (lat1 lat2 : Nat) (h1 : 2 * lat1 < c.probeTimeout) (h2 : 2 * lat2 < c.probeTimeout)
    (hpt : c.probeTimeout ≤ c.probeInterval)
    (hack : ⟨lat1 + lat2, .ack, true⟩ ∈ evs) :
    probeOutcome c score evs exp tcp = (false, -1) := by
  apply C19_answered_ok
  rw [C19_answered_iff]
  refine ⟨_, hack, rfl, rfl, ?_⟩
  unfold deadline
  have : c.probeInterval ≤ c.probeInterval * (score + 1) := Nat.le_mul_of_pos_right _ (by omega)
  simp only
  omega

/-- a score of zero stays zero under successful probes -/
theorem C04_score_stays_zero (max : Nat) : applyDelta max 0 (-1) = 0 := by
  simp [applyDelta]

end Swim.Acks

namespace Swim.Merge

/-- the node holds no suspicion: every record is alive or left, and no timer exists -/
def Healthy (n : Node) : Prop := (∀ r ∈ n.recs, r.st = .alive ∨ r.st = .left) ∧ n.timers = []

theorem delTimer_nil (name : String) : delTimer [] name = [] := rfl

/-- **healthy claims keep a node healthy (alive).** An alive claim about another member never
creates a suspect or dead record - except the incarnation-0 stub of a never-seen member, which is
not listed - and never a timer; the health score is untouched. Stated for claims with a positive
incarnation (every real node announces itself with incarnation >= 1). -/
theorem C04_alive_keeps_healthy (n : Node) (a : AliveMsg) (nt b : Bool) (env : Env)
    (h : Healthy n) (hself : a.node ≠ n.cfg.self) (hinc : 0 < a.inc) :
    Healthy (aliveNode n a nt b env).1 ∧ (aliveNode n a nt b env).1.score = n.score ∧
    (∀ o ∈ (aliveNode n a nt b env).2, ∀ nm, o ≠ Out.leave nm) := by
  have spec := aliveDecide_nonlocal n a b env hself
  unfold aliveNode
  generalize aliveDecide n a b env = dec at spec
  obtain ⟨hr, ht⟩ := h
  cases dec with
  | ignore => exact ⟨⟨hr, ht⟩, rfl, by simp [aliveApply]⟩
  | conflict =>
    refine ⟨⟨hr, ht⟩, rfl, ?_⟩
    intro o ho nm
    simp only [aliveApply] at ho
    split at ho <;> simp at ho
    subst ho; simp
  | stubOnly => simp only at spec; omega
  | delTimerOnly isNew => exact absurd spec (by simp)
  | refuteSelf isNew => exact absurd spec (by simp)
  | accept isNew =>
    refine ⟨⟨?_, ?_⟩, ?_, ?_⟩
    · intro r hrm
      cases isNew
      · simp only [aliveApply, Bool.false_eq_true, ↓reduceIte] at hrm
        rcases mem_setRec hrm with h1 | rfl
        · exact hr r h1
        · left; rfl
      · simp only [aliveApply, ↓reduceIte] at hrm
        rcases mem_setRec hrm with h1 | rfl
        · simp only [withStub, List.mem_append, List.mem_singleton] at h1
          rcases h1 with h1 | rfl
          · exact hr r h1
          · -- the stub itself is replaced by the accepted record: it cannot survive `setRec`
            simp only at spec
            exfalso
            have hst : lookup (withStub n a).recs a.node = some (stub a) := by
              simp only [withStub]
              exact lookup_append_stub_self _ (stub a) spec.1
            -- the surviving element has the stub's name, so it was replaced
            have hname : (stub a).name = (acceptRec ((lookup (withStub n a).recs a.node).getD (stub a)) a env).name := by
              simp [hst, acceptRec, stub]
            have : stub a ∈ setRec (withStub n a).recs (acceptRec ((lookup (withStub n a).recs a.node).getD (stub a)) a env) := hrm
            simp only [setRec, List.mem_map] at this
            obtain ⟨y, _, hy⟩ := this
            by_cases e : (y.name == (acceptRec ((lookup (withStub n a).recs a.node).getD (stub a)) a env).name) = true
            · simp only [e, ↓reduceIte] at hy
              have : (stub a).st = St.alive := by rw [← hy]; rfl
              simp [stub] at this
            · simp only [e, Bool.false_eq_true, ↓reduceIte] at hy
              rw [hy] at e
              simp [hname] at e
        · left; rfl
    · cases isNew <;> simp [aliveApply, ht, delTimer_nil, withStub]
    · cases isNew <;> simp [aliveApply, withStub]
    · intro o ho nm
      simp only [aliveApply] at ho
      generalize ((lookup (if isNew = true then withStub n a else n).recs a.node).getD (stub a)) = st at ho
      by_cases c1 : st.st.deadOrLeft = true
      · simp [c1] at ho
        rcases ho with rfl | rfl <;> simp
      · by_cases c2 : (st.md != a.md) = true
        · simp [c1, c2] at ho
          rcases ho with rfl | rfl <;> simp
        · simp [c1, c2] at ho
          subst ho; simp

/-- **healthy claims keep a node healthy (departure).** A self-signed dead claim (graceful leave)
about another member turns an alive record into a left one - never into a failure - creates no
timer and does not touch the health score; the only leave event is for the member that left. -/
theorem C04_departure_keeps_healthy (n : Node) (d : Claim) (env : Env)
    (h : Healthy n) (hself : d.node ≠ n.cfg.self) (hfrom : d.frm = d.node) :
    Healthy (deadNode n d env).1 ∧ (deadNode n d env).1.score = n.score ∧
    (∀ o ∈ (deadNode n d env).2, ∀ nm, o = Out.leave nm → nm = d.node) := by
  obtain ⟨hr, ht⟩ := h
  unfold deadNode
  cases hl : lookup n.recs d.node with
  | none => exact ⟨⟨hr, ht⟩, rfl, by simp⟩
  | some state =>
    have hn := lookup_name hl
    simp only
    by_cases h1 : d.inc < state.inc
    · simp only [h1, ↓reduceIte]; exact ⟨⟨hr, ht⟩, trivial, by simp⟩
    · simp only [h1, ↓reduceIte]
      by_cases h2 : state.st.deadOrLeft = true
      · simp only [h2, ↓reduceIte]
        exact ⟨⟨hr, by simp [ht, delTimer_nil]⟩, trivial, by simp⟩
      · simp only [h2, Bool.false_eq_true, ↓reduceIte]
        have hne : (state.name == n.cfg.self) = false := by simpa [hn] using hself
        simp only [hne, Bool.false_and, Bool.false_eq_true, ↓reduceIte, hfrom, beq_self_eq_true]
        refine ⟨⟨?_, by simp [ht, delTimer_nil]⟩, trivial, ?_⟩
        · intro r hrm
          rcases mem_setRec hrm with h3 | rfl
          · exact hr r h3
          · right; rfl
        · intro o ho nm hnm
          simp at ho
          rcases ho with rfl | rfl
          · cases hnm
          · cases hnm; rfl

/-- in a healthy cluster no suspect claim exists; had one been received it would be the only way
to create a timer: alive and departure claims never do (corollary, spelled out) -/
theorem C04_no_timer_from_healthy_claims (n : Node) (a : AliveMsg) (nt b : Bool) (env : Env) (d : Claim)
    (h : Healthy n) (hs1 : a.node ≠ n.cfg.self) (hinc : 0 < a.inc) (hs2 : d.node ≠ n.cfg.self) (hf : d.frm = d.node) :
    (aliveNode n a nt b env).1.timers = [] ∧ (deadNode n d env).1.timers = [] :=
  ⟨(C04_alive_keeps_healthy n a nt b env h hs1 hinc).1.2, (C04_departure_keeps_healthy n d env h hs2 hf).1.2⟩

end Swim.Merge
