import Swim.Props.C01
/-!
# C18  The CIDR allow-list is enforced on every admission path

`allowed` is an arbitrary predicate on address codes; the environment verdict `env.ipAllowed`
of a call is `allowed a.addr` (that is what `Config.IPAllowed` computes).
-/
namespace Swim.Merge

def AllAllowed (allowed : Nat → Bool) (n : Node) : Prop := ∀ r ∈ n.recs, allowed r.addr = true

theorem mem_setRec {recs : List Rec} {r x : Rec} (h : x ∈ setRec recs r) : x ∈ recs ∨ x = r := by
  simp only [setRec, List.mem_map] at h
  obtain ⟨y, hy, rfl⟩ := h
  split
  · right; rfl
  · left; exact hy

theorem lookup_mem {recs : List Rec} {y : String} {r : Rec} (h : lookup recs y = some r) : r ∈ recs :=
  List.mem_of_find?_eq_some h

/-- **allowed_inv (alive).** With every held address allowed, and the verdict of the call being
the allow-list's verdict on the claimed address, every address held afterwards is allowed:
new members, address changes and name reclaims are all gated. -/
theorem C18_alive_allowed (allowed : Nat → Bool) (n : Node) (a : AliveMsg) (nt b : Bool) (env : Env)
    (hinv : AllAllowed allowed n) (henv : env.ipAllowed = allowed a.addr) :
    AllAllowed allowed (aliveNode n a nt b env).1 := by
  -- an admitted record's address is allowed
  have hdecAddr : ∀ isNew, (aliveDecide n a b env = .accept isNew ∨ aliveDecide n a b env = .stubOnly ∨
      aliveDecide n a b env = .refuteSelf isNew ∨ aliveDecide n a b env = .delTimerOnly isNew) →
      allowed a.addr = true := by
    intro isNew hd
    unfold aliveDecide at hd
    by_cases h1 : (n.hasLeft && a.node == n.cfg.self) = true
    · simp [h1] at hd
    · by_cases h2 : vsnBad a.vsn = true
      · simp [h1, h2] at hd
      · by_cases h3 : (n.cfg.hasAliveDelegate && (a.vsn.length < 6 || !env.delegateOk)) = true
        · simp [h1, h2, h3] at hd
        · simp only [h1, h2, h3, Bool.false_eq_true, ↓reduceIte] at hd
          cases hlk : lookup n.recs a.node with
          | none =>
            rw [hlk] at hd
            by_cases h4 : env.ipAllowed = true
            · rw [← henv]; exact h4
            · simp [h4] at hd
          | some r =>
            rw [hlk] at hd
            simp only at hd
            by_cases h5 : (r.addr != a.addr || r.port != a.port) = true
            · simp only [h5, ↓reduceIte] at hd
              by_cases h4 : env.ipAllowed = true
              · rw [← henv]; exact h4
              · simp [h4] at hd
            · have : r.addr = a.addr := by
                have := h5; simp at this; exact this.1
              rw [← this]; exact hinv r (lookup_mem hlk)
  unfold aliveNode
  cases hd : aliveDecide n a b env with
  | ignore => exact hinv
  | conflict => exact hinv
  | stubOnly =>
    have ha := hdecAddr false (Or.inr (Or.inl hd))
    intro r hr
    simp only [aliveApply, withStub, List.mem_append, List.mem_singleton] at hr
    rcases hr with hr | rfl
    · exact hinv r hr
    · exact ha
  | delTimerOnly isNew =>
    have ha := hdecAddr isNew (Or.inr (Or.inr (Or.inr hd)))
    intro r hr
    cases isNew
    · exact hinv r (by simpa [aliveApply] using hr)
    · simp only [aliveApply, ↓reduceIte, withStub, List.mem_append, List.mem_singleton] at hr
      rcases hr with hr | rfl
      · exact hinv r hr
      · exact ha
  | refuteSelf isNew =>
    have ha := hdecAddr isNew (Or.inr (Or.inr (Or.inl hd)))
    intro r hr
    cases isNew
    · simp only [aliveApply, Bool.false_eq_true, ↓reduceIte, refute] at hr
      rcases mem_setRec hr with h | rfl
      · exact hinv r h
      · cases hlk : lookup n.recs a.node with
        | none => simpa [stub] using ha
        | some s => simpa using hinv s (lookup_mem hlk)
    · simp only [aliveApply, ↓reduceIte, refute] at hr
      rcases mem_setRec hr with h | rfl
      · simp only [withStub, List.mem_append, List.mem_singleton] at h
        rcases h with h | rfl
        · exact hinv r h
        · exact ha
      · cases hlk : lookup (withStub n a).recs a.node with
        | none => simpa [stub] using ha
        | some s =>
          have := lookup_mem hlk
          simp only [withStub, List.mem_append, List.mem_singleton] at this
          rcases this with h | rfl
          · simpa using hinv s h
          · simpa [stub] using ha
  | accept isNew =>
    have ha := hdecAddr isNew (Or.inl hd)
    intro r hr
    cases isNew
    · simp only [aliveApply, Bool.false_eq_true, ↓reduceIte] at hr
      rcases mem_setRec hr with h | rfl
      · exact hinv r h
      · simpa [acceptRec] using ha
    · simp only [aliveApply, ↓reduceIte] at hr
      rcases mem_setRec hr with h | rfl
      · simp only [withStub, List.mem_append, List.mem_singleton] at h
        rcases h with h | rfl
        · exact hinv r h
        · exact ha
      · simpa [acceptRec] using ha

/-- suspect and dead claims never change an address -/
theorem C18_suspect_allowed (allowed : Nat → Bool) (n : Node) (s : Claim) (env : Env)
    (hinv : AllAllowed allowed n) : AllAllowed allowed (suspectNode n s env).1 := by
  unfold suspectNode
  cases hl : lookup n.recs s.node with
  | none => exact hinv
  | some state =>
    have hst := hinv state (lookup_mem hl)
    simp only
    by_cases h1 : s.inc < state.inc
    · simpa [h1] using hinv
    · simp only [h1, ↓reduceIte]
      cases ht : n.timers.find? (·.node == s.node) with
      | some t =>
        simp only
        cases hc : (t.confirm s.frm).2 <;> simp only [hc, ↓reduceIte, Bool.false_eq_true] <;> exact hinv
      | none =>
        simp only
        by_cases h2 : (state.st != St.alive) = true
        · simpa [h2] using hinv
        · simp only [h2, Bool.false_eq_true, ↓reduceIte]
          by_cases h3 : (state.name == n.cfg.self) = true
          · simp only [h3, ↓reduceIte, refute]
            intro r hr
            rcases mem_setRec hr with h | rfl
            · exact hinv r h
            · exact hst
          · simp only [h3, Bool.false_eq_true, ↓reduceIte]
            intro r hr
            rcases mem_setRec hr with h | rfl
            · exact hinv r h
            · exact hst

theorem C18_dead_allowed (allowed : Nat → Bool) (n : Node) (d : Claim) (env : Env)
    (hinv : AllAllowed allowed n) : AllAllowed allowed (deadNode n d env).1 := by
  unfold deadNode
  cases hl : lookup n.recs d.node with
  | none => exact hinv
  | some state =>
    have hst := hinv state (lookup_mem hl)
    simp only
    by_cases h1 : d.inc < state.inc
    · simpa [h1] using hinv
    · simp only [h1, ↓reduceIte]
      by_cases h2 : state.st.deadOrLeft = true
      · simp only [h2, ↓reduceIte]; exact hinv
      · simp only [h2, Bool.false_eq_true, ↓reduceIte]
        by_cases h3 : (state.name == n.cfg.self && !n.hasLeft) = true
        · simp only [h3, ↓reduceIte, refute]
          intro r hr
          rcases mem_setRec hr with h | rfl
          · exact hinv r h
          · exact hst
        · simp only [h3, Bool.false_eq_true, ↓reduceIte]
          intro r hr
          rcases mem_setRec hr with h | rfl
          · exact hinv r h
          · exact hst

/-- **allowed_inv (push/pull).** Every entry of a state exchange is gated like a direct claim. -/
theorem C18_merge_allowed (allowed : Nat → Bool) (n : Node) (rs : List PushState) (now : Nat)
    (hinv : AllAllowed allowed n) (henv : ∀ r ∈ rs, r.ipAllowed = allowed r.addr) :
    AllAllowed allowed (mergeState n rs now).1 := by
  unfold mergeState
  suffices h : ∀ (acc : Node × List Out), AllAllowed allowed acc.1 →
      AllAllowed allowed (rs.foldl (fun (acc : Node × List Out) r => ((mergeOne acc.1 r now).1, acc.2 ++ (mergeOne acc.1 r now).2)) acc).1 by
    exact h (n, []) hinv
  induction rs with
  | nil => intro acc h; exact h
  | cons r rs ih =>
    intro acc h
    simp only [List.foldl_cons]
    apply ih (fun x hx => henv x (List.mem_cons_of_mem _ hx))
    simp only [mergeOne]
    cases r.st
    · exact C18_alive_allowed allowed acc.1 _ false false _ h (henv r (by simp))
    · exact C18_suspect_allowed allowed acc.1 _ _ h
    · exact C18_suspect_allowed allowed acc.1 _ _ h
    · exact C18_dead_allowed allowed acc.1 _ _ h

/-- every environment verdict inside an operation is the allow-list's verdict on the claimed address -/
def opHonest (allowed : Nat → Bool) : Op → Prop
  | .alive a _ env => env.ipAllowed = allowed a.addr
  | .merge rs _ => ∀ r ∈ rs, r.ipAllowed = allowed r.addr
  | .update a _ _ _ env => env.ipAllowed = allowed a
  | _ => True

/-- **allowed_inv (one step of any kind).** -/
theorem C18_step_allowed (allowed : Nat → Bool) (n : Node) (op : Op) (hinv : AllAllowed allowed n)
    (hop : opHonest allowed op) : AllAllowed allowed (step n op).1 := by
  cases op with
  | alive a b env => exact C18_alive_allowed allowed n a false b env hinv hop
  | suspect c env => exact C18_suspect_allowed allowed n c env hinv
  | dead c env => exact C18_dead_allowed allowed n c env hinv
  | merge rs now => exact C18_merge_allowed allowed n rs now hinv hop
  | fire node ca env =>
    simp only [step, timerFire]
    cases lookup n.recs node with
    | none => exact hinv
    | some state =>
      simp only
      split
      · exact C18_dead_allowed allowed n _ env hinv
      · exact hinv
  | reap =>
    intro r hr
    simp only [step, reap] at hr
    exact hinv r (List.mem_filter.mp hr).1
  | update a p m v env =>
    simp only [step, updateNode]
    exact C18_alive_allowed allowed { n with selfInc := (n.selfInc + 1) % u32 } _ true true env hinv hop
  | leave env =>
    simp only [step, leave]
    split
    · exact hinv
    · cases lookup n.recs n.cfg.self with
      | none => exact hinv
      | some state => simp only; exact C18_dead_allowed allowed { n with hasLeft := true } _ env hinv
  | age name =>
    intro r hr
    simp only [step, ageRec, List.mem_map] at hr
    obtain ⟨x, hx, rfl⟩ := hr
    split <;> exact hinv x hx

/-- **allowed_inv (all histories).** With an allow-list configured, after any sequence of
operations by any carrier (direct alive claims, push/pull entries, address changes, name reclaims,
suspicion / death / departure traffic, reaping, local API calls) every record the node holds - and
therefore every member `Members()` lists - has an allowed address. -/
theorem C18_history (allowed : Nat → Bool) (n : Node) (ops : List Op) (hinv : AllAllowed allowed n)
    (hops : ∀ op ∈ ops, opHonest allowed op) :
    AllAllowed allowed (ops.foldl (fun n op => (step n op).1) n) := by
  induction ops generalizing n with
  | nil => exact hinv
  | cons op ops ih =>
    exact ih _ (C18_step_allowed allowed n op hinv (hops op (by simp))) (fun o ho => hops o (by simp [ho]))

/-- a join event only ever announces the (allowed) address of the claim that caused it -/
theorem C18_alive_join_allowed (n : Node) (a : AliveMsg) (nt b : Bool) (env : Env)
    (nm : String) (ad p m : Nat) (hself : a.node ≠ n.cfg.self)
    (h : Out.join nm ad p m ∈ (aliveNode n a nt b env).2) : nm = a.node ∧ ad = a.addr ∧ p = a.port := by
  have spec := aliveDecide_nonlocal n a b env hself
  unfold aliveNode at h
  generalize aliveDecide n a b env = dec at spec h
  cases dec with
  | ignore => simp [aliveApply] at h
  | conflict => simp only [aliveApply] at h; split at h <;> simp at h
  | stubOnly => simp [aliveApply] at h
  | delTimerOnly isNew => exact absurd spec (by simp)
  | refuteSelf isNew => exact absurd spec (by simp)
  | accept isNew =>
    simp only [aliveApply] at h
    generalize ((lookup (if isNew = true then withStub n a else n).recs a.node).getD (stub a)) = st at h
    by_cases c1 : st.st.deadOrLeft = true
    · simp [c1] at h; exact ⟨h.1, h.2.1, h.2.2.1⟩
    · by_cases c2 : (st.md != a.md) = true
      · simp [c1, c2] at h
      · simp [c1, c2] at h

end Swim.Merge
