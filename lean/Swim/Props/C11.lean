import Swim.Model.Codec
/-!
# C11  Piggyback packing is lossless and stays within the packet budget
(also the byte-level round-trip lemmas shared with C12 and C16)
-/
namespace Swim.Codec

theorem rd16_be16 (n : Nat) (h : n < 65536) :
    rd16 (UInt8.ofNat (n / 256 % 256)) (UInt8.ofNat (n % 256)) = n := by
  simp [rd16, UInt8.toNat_ofNat']
  omega

theorem readLens_lens (msgs : List Bytes) (body : Bytes) (h : ∀ m ∈ msgs, m.length < 65536) :
    readLens msgs.length (msgs.flatMap (fun m => be16 (m.length % 65536)) ++ body) =
      some (msgs.map (·.length), body) := by
  induction msgs with
  | nil => simp [readLens]
  | cons m ms ih =>
    have hm : m.length < 65536 := h m (by simp)
    have ih' := ih (fun x hx => h x (by simp [hx]))
    have e : (m :: ms).flatMap (fun m => be16 (m.length % 65536)) ++ body =
        UInt8.ofNat (m.length / 256 % 256) :: UInt8.ofNat (m.length % 256) ::
          (ms.flatMap (fun m => be16 (m.length % 65536)) ++ body) := by
      simp [List.flatMap_cons, be16, Nat.mod_eq_of_lt hm]
    rw [e]
    simp only [List.length_cons, readLens, ih', Option.map_some, List.map_cons, rd16_be16 _ hm]

theorem splitParts_flatten (msgs : List Bytes) :
    splitParts (msgs.map (·.length)) msgs.flatten = (msgs, 0) := by
  induction msgs with
  | nil => simp [splitParts]
  | cons m ms ih =>
    simp only [List.map_cons, List.flatten_cons, splitParts, List.length_append]
    have : ¬ (m.length + ms.flatten.length < m.length) := by omega
    simp [this, ih]

/-- **compound_roundtrip.** A compound message of at most 255 parts, each shorter than 64 KiB,
decodes to exactly those parts, none truncated. -/
theorem C11_compound_roundtrip (msgs : List Bytes) (hn : msgs.length ≤ 255)
    (hl : ∀ m ∈ msgs, m.length < 65536) :
    decodeCompound (makeCompound msgs).tail = .ok (0, msgs) := by
  have hmod : msgs.length % 256 = msgs.length := Nat.mod_eq_of_lt (by omega)
  simp only [makeCompound, List.cons_append, List.nil_append, List.tail_cons, decodeCompound, List.append_assoc]
  have : (UInt8.ofNat (msgs.length % 256)).toNat = msgs.length := by
    simp [UInt8.toNat_ofNat']; omega
  rw [this, readLens_lens msgs _ hl]
  simp [splitParts_flatten]

/-- the first byte of a compound message is the compound type -/
theorem makeCompound_head (msgs : List Bytes) : (makeCompound msgs).head? = some (UInt8.ofNat Gen.c_compoundMsg) := by
  simp [makeCompound]

/-- what the receiver extracts from one compound message (parts; nothing on error) -/
def partsOf (c : Bytes) : List Bytes :=
  match decodeCompound c.tail with
  | .ok (_, ps) => ps
  | .error _ => []

theorem chunks_spec (k : Nat) (hk : 0 < k) : ∀ fuel (msgs : List Bytes), msgs.length < fuel →
    (chunks k fuel msgs).flatten = msgs ∧ ∀ c ∈ chunks k fuel msgs, c.length ≤ k ∧ ∀ m ∈ c, m ∈ msgs := by
  intro fuel
  induction fuel with
  | zero => intro msgs h; omega
  | succ n ih =>
    intro msgs h
    simp only [chunks]
    by_cases h1 : msgs.length ≤ k
    · simp only [h1, ↓reduceIte]
      by_cases h2 : msgs.isEmpty = true
      · have : msgs = [] := by simpa using h2
        subst this; simp
      · simp only [h2, Bool.false_eq_true, ↓reduceIte, List.flatten_cons, List.flatten_nil, List.append_nil,
          List.mem_singleton, forall_eq, true_and]
        exact ⟨h1, fun m hm => hm⟩
    · simp only [h1, ↓reduceIte, List.flatten_cons, List.mem_cons, forall_eq_or_imp]
      have hlt : (msgs.drop k).length < n := by simp only [List.length_drop]; omega
      obtain ⟨i1, i2⟩ := ih (msgs.drop k) hlt
      refine ⟨by rw [i1, List.take_append_drop], ⟨by simp [List.length_take]; omega, fun m hm => List.mem_of_mem_take hm⟩, ?_⟩
      intro c hc
      exact ⟨(i2 c hc).1, fun m hm => List.mem_of_mem_drop ((i2 c hc).2 m hm)⟩

theorem flatMap_id_on {α : Type} (l : List (List α)) (f : List α → List α) (h : ∀ c ∈ l, f c = c) :
    l.flatMap f = l.flatten := by
  induction l with
  | nil => rfl
  | cons c cs ih =>
    simp only [List.flatMap_cons, List.flatten_cons, h c (by simp), ih (fun x hx => h x (by simp [hx]))]

/-- **compounds_roundtrip / packed_is_lossless.** However many messages are packed (each below
64 KiB), unpacking every compound message the sender emits yields exactly those messages, in
order. -/
theorem C11_compounds_roundtrip (msgs : List Bytes) (hl : ∀ m ∈ msgs, m.length < 65536) :
    (makeCompounds msgs).flatMap partsOf = msgs := by
  have hspec := chunks_spec Gen.c_maxCompoundParts (by decide) (msgs.length + 1) msgs (by omega)
  simp only [makeCompounds, List.flatMap_map]
  have : ∀ c ∈ chunks Gen.c_maxCompoundParts (msgs.length + 1) msgs, partsOf (makeCompound c) = c := by
    intro c hc
    have h1 := (hspec.2 c hc).1
    have h2 : ∀ m ∈ c, m.length < 65536 := fun m hm => hl m ((hspec.2 c hc).2 m hm)
    simp only [partsOf, C11_compound_roundtrip c (by simpa [Gen.c_maxCompoundParts] using h1) h2]
  rw [flatMap_id_on _ _ this]
  exact hspec.1

/-- the count byte of a compound message is the number of parts modulo 256 -/
theorem makeCompound_count (msgs : List Bytes) :
    (makeCompound msgs).tail.head? = some (UInt8.ofNat (msgs.length % 256)) := by
  simp [makeCompound]

/-- the pinned-tree defect (fixed by ecb4af0): one compound message with 300 parts announces 44 -/
theorem C11_single_compound_wraps : (300 : Nat) % 256 = 44 := by decide

/-! ### budget arithmetic -/

theorem makeCompound_length (msgs : List Bytes) :
    (makeCompound msgs).length = compoundLen (msgs.map (·.length)) := by
  simp only [makeCompound, compoundLen, List.length_append, List.length_cons, List.length_nil, List.length_map]
  have h1 : (msgs.flatMap (fun m => be16 (m.length % 65536))).length = 2 * msgs.length := by
    induction msgs with
    | nil => rfl
    | cons m ms ih =>
      rw [List.flatMap_cons, List.length_append, ih]
      simp only [be16, List.length_cons, List.length_nil]; omega
  have h2 : msgs.flatten.length = (msgs.map (·.length)).sum := by
    induction msgs with
    | nil => rfl
    | cons m ms ih => simp [ih]
  omega

theorem encryptedLength_le (vsn n : Nat) (hv : vsn ≤ 1) : encryptedLength vsn n ≤ n + encryptOverhead vsn := by
  unfold encryptedLength encryptOverhead
  simp only [Gen.c_versionSize, Gen.c_nonceSize, Gen.c_tagSize, Gen.c_blockSize, Gen.c_encryptOverhead0, Gen.c_encryptOverhead1]
  by_cases h : vsn = 0
  · subst h; simp; omega
  · have : vsn = 1 := by omega
    subst this; simp; omega

/-- the regenerated `encryptedLength` samples agree with the model (ties the formula to the code) -/
theorem encryptedLength_samples :
    ∀ s ∈ Gen.encryptedLengthSamples, encryptedLength s.1 s.2.1 = s.2.2 := by decide

/-- what `GetBroadcasts(overhead = compoundOverhead, limit)` guarantees about a selection
(C10 `get_fits` with overhead 2): message sizes plus two bytes each fit the budget -/
def fitsBudget (lens : List Nat) (avail : Int) : Prop :=
  ((lens.sum + Gen.c_compoundOverhead * lens.length : Nat) : Int) ≤ avail

/-- **packet_fits (gossip).** Whatever selection the queue returns within `gossip()`'s budget, the
compound packet built from it is no larger on the wire than `UDPBufferSize`, for every label,
encryption version, checksum and (size-reducing) compression setting. -/
theorem C11_gossip_packet_fits (c : PktCfg) (lens : List Nat) (hv : c.vsn ≤ 1)
    (henc : c.encrypt = true → c.encEnabled = true)
    (hfit : fitsBudget lens (gossipAvail c)) :
    wireLen c (compoundLen lens) ≤ c.udpBufferSize := by
  unfold fitsBudget gossipAvail at hfit
  unfold wireLen compoundLen
  have hle := encryptedLength_le c.vsn
  simp only [Gen.c_compoundHeaderOverhead, Gen.c_crcHeaderOverhead, Gen.c_compoundOverhead] at *
  by_cases he : c.encrypt = true
  · have hee := henc he
    simp only [he, hee, ↓reduceIte] at *
    by_cases hc : c.crc = true
    · simp only [hc, ↓reduceIte]
      have := hle (2 + 2 * lens.length + lens.sum + 5) hv
      omega
    · simp only [hc, Bool.false_eq_true, ↓reduceIte]
      have := hle (2 + 2 * lens.length + lens.sum) hv
      omega
  · simp only [he, Bool.false_eq_true, ↓reduceIte] at *
    by_cases hc : c.crc = true
    · simp only [hc, ↓reduceIte]
      split at hfit <;> omega
    · simp only [hc, Bool.false_eq_true, ↓reduceIte]
      split at hfit <;> omega

theorem encryptedLength_mono (v a b : Nat) (h : a ≤ b) : encryptedLength v a ≤ encryptedLength v b := by
  unfold encryptedLength
  simp only [Gen.c_versionSize, Gen.c_nonceSize, Gen.c_tagSize, Gen.c_blockSize]
  split <;> omega

theorem wireLen_mono (c : PktCfg) (a b : Nat) (h : a ≤ b) : wireLen c a ≤ wireLen c b := by
  unfold wireLen
  simp only [Gen.c_crcHeaderOverhead]
  by_cases hc : c.crc = true <;> by_cases he : c.encrypt = true <;> simp only [hc, he, ↓reduceIte, Bool.false_eq_true]
  · have := encryptedLength_mono c.vsn (a + 5) (b + 5) (by omega); omega
  · omega
  · have := encryptedLength_mono c.vsn a b h; omega
  · omega

/-- a single selected message sent as is (the `len(msgs) == 1` branch of `gossip()`) fits too -/
theorem C11_gossip_single_fits (c : PktCfg) (l : Nat) (hv : c.vsn ≤ 1)
    (henc : c.encrypt = true → c.encEnabled = true)
    (hfit : fitsBudget [l] (gossipAvail c)) :
    wireLen c l ≤ c.udpBufferSize := by
  have h1 := C11_gossip_packet_fits c [l] hv henc hfit
  have h2 := wireLen_mono c l (compoundLen [l]) (by simp [compoundLen])
  omega

/-- **packet_fits (piggyback).** The compound packet `sendMsg()` builds from its own message of
`m` bytes plus the piggybacked selection fits `UDPBufferSize`. -/
theorem C11_sendMsg_packet_fits (c : PktCfg) (m : Nat) (lens : List Nat) (hv : c.vsn ≤ 1)
    (hfit : fitsBudget lens (sendMsgAvail c m)) :
    wireLen c (compoundLen (m :: lens)) ≤ c.udpBufferSize := by
  unfold fitsBudget sendMsgAvail at hfit
  unfold wireLen compoundLen
  have hle := encryptedLength_le c.vsn
  simp only [Gen.c_compoundHeaderOverhead, Gen.c_crcHeaderOverhead, Gen.c_compoundOverhead, List.length_cons,
    List.sum_cons] at *
  by_cases he : c.encrypt = true
  · simp only [he, ↓reduceIte] at *
    by_cases hc : c.crc = true
    · simp only [hc, ↓reduceIte]
      have := hle (2 + 2 * (lens.length + 1) + (m + lens.sum) + 5) hv
      omega
    · simp only [hc, Bool.false_eq_true, ↓reduceIte]
      have := hle (2 + 2 * (lens.length + 1) + (m + lens.sum)) hv
      omega
  · simp only [he, Bool.false_eq_true, ↓reduceIte] at *
    by_cases hc : c.crc = true
    · simp only [hc, ↓reduceIte]; omega
    · simp only [hc, Bool.false_eq_true, ↓reduceIte]; omega

/-- pinned-tree witness (fixed by a5eb621): with the old budget (no CRC reserve) a full gossip
packet to a protocol-5 peer is 1405 bytes for UDPBufferSize 1400 -/
theorem C11_old_budget_overflows :
    wireLen { udpBufferSize := 1400, label := [], encrypt := false, encEnabled := false, vsn := 1, crc := true }
      (compoundLen [1396]) = 1405 := by decide

end Swim.Codec
