import Swim.Props.C02
import Swim.Props.C09
/-!
# C05  Views re-converge to the live set once faults stop
Logic part: an accusation is always overridden by the accused member's newer alive claim wherever
it is delivered; a refutation always outranks the accusation (C02); a state exchange teaches each
side every newer alive record of the other (C09). Convergence itself depends on random target
selection and is observed by the simulator (known finding: stable split).
-/
namespace Swim.Merge

/-- **accusation_overridden.** Wherever it is delivered, an alive claim from the member's own address
with an incarnation above the one at which the member is held suspect or dead replaces the
accusation: the member is alive again at the new incarnation, its suspicion timer is gone. -/
theorem C05_accusation_overridden (n : Node) (a : AliveMsg) (nt b : Bool) (env : Env) (r : Rec)
    (hself : a.node ≠ n.cfg.self) (hr : lookup n.recs a.node = some r)
    (hv : vsnBad a.vsn = false)
    (hdel : (n.cfg.hasAliveDelegate && (a.vsn.length < 6 || !env.delegateOk)) = false)
    (hsame : r.addr = a.addr ∧ r.port = a.port) (hnewer : r.inc < a.inc) :
    (∃ r', lookup (aliveNode n a nt b env).1.recs a.node = some r' ∧ r'.st = .alive ∧ r'.inc = a.inc) ∧
    (aliveNode n a nt b env).1.timers = delTimer n.timers a.node := by
  have hl : (a.node == n.cfg.self) = false := by simpa using hself
  have hdec : aliveDecide n a b env = .accept false := by
    unfold aliveDecide
    have : ¬ a.inc ≤ r.inc := by omega
    simp [hl, hv, hdel, hr, hsame.1, hsame.2, decideKnown, this]
  unfold aliveNode
  rw [hdec]
  simp only [aliveApply, Bool.false_eq_true, ↓reduceIte, hr, Option.getD_some, and_true]
  have hn : (acceptRec r a env).name = a.node := by simp [acceptRec, lookup_name hr]
  refine ⟨acceptRec r a env, ?_, rfl, rfl⟩
  have := lookup_setRec_self n.recs (acceptRec r a env) (by rw [hn, hr]; rfl)
  rw [hn] at this
  exact this

/-- **none_sticks (accused side).** After the accused (running) node has processed an accusation at
incarnation `i ≥` its own, its incarnation is above `i` and an alive claim carrying it is queued -
so by `C05_accusation_overridden` every holder of the accusation that receives it drops it. -/
theorem C05_none_sticks (n : Node) (s : Claim) (env : Env) (me : Rec)
    (hnode : s.node = n.cfg.self) (hme : lookup n.recs n.cfg.self = some me)
    (halive : me.st = .alive) (hnt : n.timers.find? (·.node == s.node) = none)
    (hinc : me.inc ≤ s.inc) (hc : n.selfInc < u32) (ha : s.inc < u32 - 1) :
    s.inc < (suspectNode n s env).1.selfInc ∧
    Out.bcast ("@" ++ n.cfg.self) .alive n.cfg.self (suspectNode n s env).1.selfInc "" false ∈ (suspectNode n s env).2 := by
  have hn := lookup_name hme
  have h1 : ¬ s.inc < me.inc := by omega
  rw [hnode] at hnt
  have hs : suspectNode n s env = refute n me s.inc := by
    unfold suspectNode
    simp only [hnode, hme, h1, ↓reduceIte, hnt, halive, bne_self_eq_false, Bool.false_eq_true, hn, beq_self_eq_true]
  rw [hs]
  refine ⟨(C02_refute_gt n.selfInc s.inc hc ha).1, ?_⟩
  simp [refute, hn]

/-- **pushpull_learns.** After merging one entry of the other side's state, the receiver's view of that
member is at least the (alive-normalised) view the entry expressed: an alive entry newer than the
held record is adopted (C09_join_lists), older or equal ones change nothing (C01), and remote
dead/suspect entries only start a suspicion (C09_hearsay_never_kills). This theorem packages the
first part for the key order. -/
theorem C05_pushpull_learns (n : Node) (r : PushState) (now : Nat) (hself : r.name ≠ n.cfg.self)
    (hno : ¬ takeover n { inc := r.inc, node := r.name, addr := r.addr, port := r.port, md := r.md, vsn := r.vsn }
      { now, ipAllowed := r.ipAllowed, delegateOk := r.delegateOk, offset := r.offset }) :
    kle (key (lookup n.recs r.name)) (key (lookup (mergeOne n r now).1.recs r.name)) :=
  C01_merge_forward n r now hself hno

end Swim.Merge
