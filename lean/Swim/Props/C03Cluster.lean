import Swim.Props.Projection
import Swim.Props.ClusterG
/-!
# C03: a node removes a silent member on its own evidence

Logic part of "every remaining live node ... stops listing it and delivers a leave event, on its own
evidence": one unanswered probe of a member held alive starts a suspicion with the prober as the
only accuser; when that suspicion's timer expires with nothing heard in between, the member is
recorded dead, is no longer listed, and a leave event is delivered - whatever the rest of the
cluster does or does not do. Which probe goes unanswered and when the timer expires is the timing
part (probe schedule: `C03_probe_target_ok`, `C03_pass_step`; timer: C06; bound: simulator).
-/
namespace Swim.Cluster
open Swim.Merge

def ownTimer (n : Node) (x : String) (now : Nat) : Timer :=
  { node := x, k := if n.numNodes < n.cfg.suspicionK + 2 then 0 else n.cfg.suspicionK, n := 0, confirmers := [n.cfg.self], changedAt := now }

def suspected (n : Node) (x : String) (r : Rec) (now : Nat) : Node :=
  { n with recs := setRec n.recs (suspRec r r.inc now), timers := n.timers ++ [ownTimer n x now] }

def deadOf (r : Rec) (now : Nat) : Rec := { r with st := .dead, changed := some now }

def declared (n : Node) (x : String) (r : Rec) (now now' : Nat) : Node :=
  { suspected n x r now with recs := setRec (suspected n x r now).recs (deadOf (suspRec r r.inc now) now'), timers := delTimer (suspected n x r now).timers x }

/-- **C03_own_evidence (one node).** -/
theorem C03_own_evidence (n : Node) (x : String) (r : Rec) (env env' : Env)
    (hx : x ≠ n.cfg.self) (hr : lookup n.recs x = some r) (hal : r.st = .alive)
    (hnt : n.timers.find? (·.node == x) = none) :
    (∃ t ∈ (probeFail x env n).1.timers, t.node = x ∧ t.confirmers = [n.cfg.self]) ∧
    (∃ r', lookup (timerFire (probeFail x env n).1 x env.now env').1.recs x = some r' ∧ r'.st = .dead ∧ r'.inc = r.inc) ∧
    x ∉ members (timerFire (probeFail x env n).1 x env.now env').1 ∧
    Out.leave x ∈ (timerFire (probeFail x env n).1 x env.now env').2 ∧
    Out.bcast x .dead x r.inc n.cfg.self false ∈ (timerFire (probeFail x env n).1 x env.now env').2 := by
  have hrn := lookup_name hr
  have hxs : (x == n.cfg.self) = false := by simpa using hx
  have hns : (r.name == n.cfg.self) = false := by rw [hrn]; exact hxs
  have h1 : (probeFail x env n).1 = suspected n x r env.now := by
    simp [probeFail, hxs, hr, suspectNode, hnt, hal, hns, suspRec, suspected, ownTimer]
  rw [h1]
  have hl1 : lookup (suspected n x r env.now).recs x = some (suspRec r r.inc env.now) := by
    have := lookup_setRec_self n.recs (suspRec r r.inc env.now) (by simp only [suspRec, hrn, hr]; rfl)
    simpa [suspRec, hrn, suspected] using this
  have h2 : timerFire (suspected n x r env.now) x env.now env' =
      (declared n x r env.now env'.now, [Out.bcast x .dead x r.inc n.cfg.self false, Out.leave x]) := by
    have c1 : ((suspRec r r.inc env.now).st == St.suspect && (suspRec r r.inc env.now).changed == some env.now) = true := by
      simp [suspRec]
    have c2 : (suspRec r r.inc env.now).name = x := by simp [suspRec, hrn]
    have c3 : (suspected n x r env.now).cfg.self = n.cfg.self := rfl
    simp only [timerFire, hl1, c1, ↓reduceIte, deadNode, c2, c3]
    have c4 : ¬ (suspRec r r.inc env.now).inc < (suspRec r r.inc env.now).inc := Nat.lt_irrefl _
    have c5 : (suspRec r r.inc env.now).st.deadOrLeft = false := by simp [suspRec, St.deadOrLeft]
    simp only [c4, c5, ↓reduceIte, hxs, Bool.false_and, Bool.false_eq_true, c2]
    simp [declared, deadOf, suspRec, hrn]
  rw [h2]
  refine ⟨⟨ownTimer n x env.now, by simp [suspected], rfl, rfl⟩, ?_, ?_, by simp, by simp⟩
  · refine ⟨deadOf (suspRec r r.inc env.now) env'.now, ?_, rfl, rfl⟩
    have := lookup_setRec_self (suspected n x r env.now).recs (deadOf (suspRec r r.inc env.now) env'.now)
      (by simp only [deadOf, suspRec, hrn]; rw [hl1]; rfl)
    simpa [deadOf, suspRec, hrn, declared] using this
  · simp only [members, List.mem_map, List.mem_filter, not_exists, not_and, declared]
    intro y ⟨hy, hlist⟩ hyn
    simp only [setRec, List.mem_map] at hy
    obtain ⟨y1, hy1, rfl⟩ := hy
    have hdn : (deadOf (suspRec r r.inc env.now) env'.now).name = x := by simp [deadOf, suspRec, hrn]
    by_cases e0 : y1.name = x
    · have e1 : (y1.name == (deadOf (suspRec r r.inc env.now) env'.now).name) = true := by rw [hdn]; simpa using e0
      simp only [e1, ↓reduceIte] at hlist
      simp [deadOf, St.deadOrLeft] at hlist
    · have e1 : (y1.name == (deadOf (suspRec r r.inc env.now) env'.now).name) = false := by rw [hdn]; simpa using e0
      simp only [e1, Bool.false_eq_true, ↓reduceIte] at hyn
      exact e0 hyn

theorem nodeAt_name {w : World} {y : String} {n : Node} (h : nodeAt w y = some n) : n.cfg.self = y :=
  (find_actor h).2

/-- **C03_cluster_own_evidence.** In any cluster state, whatever the other nodes hold or do: if node `y`
holds `x` alive with no suspicion pending, then an unanswered probe of `x` followed by the expiry of
the suspicion it started leaves `y` not listing `x`, with a leave event for `x` in `y`'s log. -/
theorem C03_cluster_own_evidence (w : World) (y x : String) (n : Node) (r : Rec) (env env' : Env)
    (hn : nodeAt w y = some n) (hx : x ≠ y) (hr : lookup n.recs x = some r) (hal : r.st = .alive)
    (hnt : n.timers.find? (·.node == x) = none) :
    ∃ n', nodeAt (w.run [.probeFail y x env, .fire y x env.now env']) y = some n' ∧ x ∉ members n' ∧
      Out.leave x ∈ logOf (w.run [.probeFail y x env, .fire y x env.now env']) y := by
  have hname := nodeAt_name hn
  have hx' : x ≠ n.cfg.self := by rw [hname]; exact hx
  have hxs : (x == n.cfg.self) = false := by simpa using hx'
  obtain ⟨_, _, e3, e4, _⟩ := C03_own_evidence n x r env env' hx' hr hal hnt
  -- first step
  obtain ⟨s1, _⟩ := step_projection w (.probeFail y x env) y
  have ho1 : nodeOp w (.probeFail y x env) = some (y, .suspect { inc := r.inc, node := x, frm := n.cfg.self } env) := by
    simp [nodeOp, hn, hxs, hr]
  have hp : probeFail x env n = suspectNode n { inc := r.inc, node := x, frm := n.cfg.self } env := by
    simp [probeFail, hxs, hr]
  rw [hn, ho1] at s1
  simp only [Option.map_some, applyOp, ↓reduceIte, step] at s1
  rw [← hp] at s1
  -- second step
  obtain ⟨t1, t2⟩ := step_projection (w.step (.probeFail y x env)) (.fire y x env.now env') y
  rw [s1] at t1 t2
  simp only [Option.map_some, nodeOp, applyOp, ↓reduceIte, step] at t1 t2
  refine ⟨_, t1, e3, ?_⟩
  show Out.leave x ∈ logOf ((w.step (.probeFail y x env)).step (.fire y x env.now env')) y
  rw [t2]
  exact List.mem_append_right _ e4

end Swim.Cluster
