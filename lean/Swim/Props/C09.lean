import Swim.Model.Verify
import Swim.Props.C07
import Swim.Props.C13
/-!
# C09  Join and push/pull are mutual, all-or-nothing, vetoable; hearsay never kills
-/
namespace Swim.Verify

theorem foldRemote_mono (r : Range) (x : Remote) :
    r.maxpmin ≤ (foldRemote r x).maxpmin ∧ (foldRemote r x).minpmax ≤ r.minpmax ∧
    r.maxdmin ≤ (foldRemote r x).maxdmin ∧ (foldRemote r x).mindmax ≤ r.mindmax := by
  unfold foldRemote
  split
  · simp
  · split
    · simp
    · simp only; omega

theorem foldLocal_mono (r : Range) (x : Local) :
    r.maxpmin ≤ (foldLocal r x).maxpmin ∧ (foldLocal r x).minpmax ≤ r.minpmax ∧
    r.maxdmin ≤ (foldLocal r x).maxdmin ∧ (foldLocal r x).mindmax ≤ r.mindmax := by
  unfold foldLocal
  split
  · simp
  · simp only; omega

/-- a range is at least as tight as another -/
def Tighter (a b : Range) : Prop :=
  b.maxpmin ≤ a.maxpmin ∧ a.minpmax ≤ b.minpmax ∧ b.maxdmin ≤ a.maxdmin ∧ a.mindmax ≤ b.mindmax

theorem Tighter.refl (a : Range) : Tighter a a := ⟨Nat.le_refl _, Nat.le_refl _, Nat.le_refl _, Nat.le_refl _⟩

theorem Tighter.trans {a b c : Range} (h1 : Tighter a b) (h2 : Tighter b c) : Tighter a c := by
  unfold Tighter at *; omega

theorem foldl_remote_tighter (l : List Remote) (r : Range) : Tighter (l.foldl foldRemote r) r := by
  induction l generalizing r with
  | nil => exact Tighter.refl r
  | cons x xs ih =>
    have h := foldRemote_mono r x
    exact (ih (foldRemote r x)).trans ⟨h.1, h.2.1, h.2.2.1, h.2.2.2⟩

theorem foldl_local_tighter (l : List Local) (r : Range) : Tighter (l.foldl foldLocal r) r := by
  induction l generalizing r with
  | nil => exact Tighter.refl r
  | cons x xs ih =>
    have h := foldLocal_mono r x
    exact (ih (foldLocal r x)).trans ⟨h.1, h.2.1, h.2.2.1, h.2.2.2⟩

/-- the final range covers an alive remote entry with a full version vector -/
theorem range_covers_remote (remote : List Remote) (loc : List Local) (x : Remote) (hx : x ∈ remote)
    (hal : x.alive = true) (hlen : 5 ≤ x.vsn.length) :
    x.vsn.getD 0 0 ≤ (range remote loc).maxpmin ∧ (range remote loc).minpmax ≤ x.vsn.getD 1 0 ∧
    x.vsn.getD 3 0 ≤ (range remote loc).maxdmin ∧ (range remote loc).mindmax ≤ x.vsn.getD 4 0 := by
  unfold range
  have key : ∀ (l : List Remote) (r : Range), x ∈ l →
      x.vsn.getD 0 0 ≤ (l.foldl foldRemote r).maxpmin ∧ (l.foldl foldRemote r).minpmax ≤ x.vsn.getD 1 0 ∧
      x.vsn.getD 3 0 ≤ (l.foldl foldRemote r).maxdmin ∧ (l.foldl foldRemote r).mindmax ≤ x.vsn.getD 4 0 := by
    intro l
    induction l with
    | nil => intro r h; cases h
    | cons y ys ih =>
      intro r h
      simp only [List.foldl_cons]
      rcases List.mem_cons.mp h with rfl | h'
      · have ht := foldl_remote_tighter ys (foldRemote r x)
        have hlt : ¬ x.vsn.length < 5 := by omega
        have f1 : (foldRemote r x).maxpmin = max r.maxpmin (x.vsn.getD 0 0) := by simp [foldRemote, hal, hlt]
        have f2 : (foldRemote r x).minpmax = min r.minpmax (x.vsn.getD 1 0) := by simp [foldRemote, hal, hlt]
        have f3 : (foldRemote r x).maxdmin = max r.maxdmin (x.vsn.getD 3 0) := by simp [foldRemote, hal, hlt]
        have f4 : (foldRemote r x).mindmax = min r.mindmax (x.vsn.getD 4 0) := by simp [foldRemote, hal, hlt]
        unfold Tighter at ht
        omega
      · exact ih (foldRemote r y) h'
  have h1 := key remote {} hx
  have h2 := foldl_local_tighter loc (remote.foldl foldRemote {})
  unfold Tighter at h2
  omega

theorem range_covers_local (remote : List Remote) (loc : List Local) (x : Local) (hx : x ∈ loc) (hal : x.alive = true) :
    x.v.pmin ≤ (range remote loc).maxpmin ∧ (range remote loc).minpmax ≤ x.v.pmax ∧
    x.v.dmin ≤ (range remote loc).maxdmin ∧ (range remote loc).mindmax ≤ x.v.dmax := by
  unfold range
  have key : ∀ (l : List Local) (r : Range), x ∈ l →
      x.v.pmin ≤ (l.foldl foldLocal r).maxpmin ∧ (l.foldl foldLocal r).minpmax ≤ x.v.pmax ∧
      x.v.dmin ≤ (l.foldl foldLocal r).maxdmin ∧ (l.foldl foldLocal r).mindmax ≤ x.v.dmax := by
    intro l
    induction l with
    | nil => intro r h; cases h
    | cons y ys ih =>
      intro r h
      simp only [List.foldl_cons]
      rcases List.mem_cons.mp h with rfl | h'
      · have ht := foldl_local_tighter ys (foldLocal r x)
        have f1 : (foldLocal r x).maxpmin = max r.maxpmin x.v.pmin := by simp [foldLocal, hal]
        have f2 : (foldLocal r x).minpmax = min r.minpmax x.v.pmax := by simp [foldLocal, hal]
        have f3 : (foldLocal r x).maxdmin = max r.maxdmin x.v.dmin := by simp [foldLocal, hal]
        have f4 : (foldLocal r x).mindmax = min r.mindmax x.v.dmax := by simp [foldLocal, hal]
        unfold Tighter at ht
        omega
      · exact ih (foldLocal r y) h'
  exact key loc _ hx

/-- **verify_sound.** If `verifyProtocol` accepts, then the protocol and delegate versions spoken by
*every* listed node - every remote entry whatever its state, every local record - lie within the
range understood by *every* alive node of both sides (with a full version vector): nobody is mixed
with a node it cannot understand. -/
theorem C09_verify_sound (remote : List Remote) (loc : List Local) (h : verify remote loc = true) :
    (∀ a ∈ remote, a.alive = true → 5 ≤ a.vsn.length →
      (∀ x ∈ remote, a.vsn.getD 0 0 ≤ (curOf x).1 ∧ (curOf x).1 ≤ a.vsn.getD 1 0 ∧
                     a.vsn.getD 3 0 ≤ (curOf x).2 ∧ (curOf x).2 ≤ a.vsn.getD 4 0) ∧
      (∀ y ∈ loc, a.vsn.getD 0 0 ≤ y.v.pcur ∧ y.v.pcur ≤ a.vsn.getD 1 0 ∧
                  a.vsn.getD 3 0 ≤ y.v.dcur ∧ y.v.dcur ≤ a.vsn.getD 4 0)) ∧
    (∀ b ∈ loc, b.alive = true →
      (∀ x ∈ remote, b.v.pmin ≤ (curOf x).1 ∧ (curOf x).1 ≤ b.v.pmax ∧ b.v.dmin ≤ (curOf x).2 ∧ (curOf x).2 ≤ b.v.dmax) ∧
      (∀ y ∈ loc, b.v.pmin ≤ y.v.pcur ∧ y.v.pcur ≤ b.v.pmax ∧ b.v.dmin ≤ y.v.dcur ∧ y.v.dcur ≤ b.v.dmax)) := by
  unfold verify at h
  simp only [Bool.and_eq_true, List.all_eq_true] at h
  obtain ⟨hr, hl⟩ := h
  have unp : ∀ p d, inRange (range remote loc) p d = true →
      (range remote loc).maxpmin ≤ p ∧ p ≤ (range remote loc).minpmax ∧ (range remote loc).maxdmin ≤ d ∧ d ≤ (range remote loc).mindmax := by
    intro p d hh
    simp only [inRange, Bool.and_eq_true, decide_eq_true_eq] at hh
    omega
  refine ⟨fun a ha hal hlen => ?_, fun b hb hal => ?_⟩
  · have c := range_covers_remote remote loc a ha hal hlen
    refine ⟨fun x hx => ?_, fun y hy => ?_⟩
    · have := unp _ _ (hr x hx); omega
    · have := unp _ _ (hl y hy); omega
  · have c := range_covers_local remote loc b hb hal
    refine ⟨fun x hx => ?_, fun y hy => ?_⟩
    · have := unp _ _ (hr x hx); omega
    · have := unp _ _ (hl y hy); omega

/-- **merge_all_or_nothing (admission).** A version error or a merge-delegate veto is decided
before anything is merged: `admission` returns `merged` only if the versions verify and the delegate
(consulted on joins only) did not veto. -/
theorem C09_admission (remote : List Remote) (loc : List Local) (join hasDel ok : Bool) :
    admission remote loc join hasDel ok = .merged ↔ (verify remote loc = true ∧ ¬ (join = true ∧ hasDel = true ∧ ok = false)) := by
  unfold admission
  cases verify remote loc <;> cases join <;> cases hasDel <;> cases ok <;> simp

end Swim.Verify

namespace Swim.Merge

/-- **hearsay_never_kills.** A push/pull entry that says a third member is dead or suspect never
removes that member from `Members()` in the step that merges it: it only starts (or confirms) a
local suspicion; removal needs a later timer expiry or the member's own departure. -/
theorem C09_hearsay_never_kills (n : Node) (r : PushState) (now : Nat) (h : r.st = .dead ∨ r.st = .suspect) :
    (∀ y, listedAt (mergeOne n r now).1 y = listedAt n y) ∧
    (∀ o ∈ (mergeOne n r now).2, isEvent o = false) := by
  unfold mergeOne
  rcases h with h | h <;> rw [h] <;> simp only
  · exact ⟨(C07_suspect_sync n _ _).2, (C07_suspect_sync n _ _).1⟩
  · exact ⟨(C07_suspect_sync n _ _).2, (C07_suspect_sync n _ _).1⟩

/-- an accepted alive claim leaves the named member listed -/
theorem accept_listed (n : Node) (a : AliveMsg) (nt : Bool) (env : Env) (isNew : Bool)
    (h : if isNew then lookup n.recs a.node = none else (lookup n.recs a.node).isSome) :
    listedAt (aliveApply n a nt env (.accept isNew)).1 a.node = true := by
  cases isNew
  · simp only [Bool.false_eq_true, ↓reduceIte] at h
    obtain ⟨old, hlk⟩ := Option.isSome_iff_exists.mp h
    have hn : (acceptRec old a env).name = a.node := by simp [acceptRec, lookup_name hlk]
    simp only [aliveApply, Bool.false_eq_true, ↓reduceIte, listedAt, hlk, Option.getD_some]
    have := lookup_setRec_self n.recs (acceptRec old a env) (by rw [hn, hlk]; rfl)
    rw [hn] at this
    rw [this]; rfl
  · simp only [↓reduceIte] at h
    have hst : lookup (withStub n a).recs a.node = some (stub a) := by
      simp only [withStub]
      exact lookup_append_stub_self _ (stub a) h
    have hn : (acceptRec (stub a) a env).name = a.node := rfl
    simp only [aliveApply, ↓reduceIte, listedAt, hst, Option.getD_some]
    have := lookup_setRec_self (withStub n a).recs (acceptRec (stub a) a env) (by rw [hn, hst]; rfl)
    rw [hn] at this
    rw [this]; rfl

/-- **join_lists.** An alive entry of the exchanged state that passes the receiver's filters and
is newer than what the receiver holds (or concerns a member it has never heard of) is a listed
member right after the merge. -/
theorem C09_join_lists (n : Node) (r : PushState) (now : Nat) (hst : r.st = .alive)
    (hself : r.name ≠ n.cfg.self) (hv : vsnBad r.vsn = false)
    (hdel : (n.cfg.hasAliveDelegate && (r.vsn.length < 6 || !r.delegateOk)) = false)
    (hip : r.ipAllowed = true)
    (hnew : match lookup n.recs r.name with
      | none => 0 < r.inc
      | some old => old.addr = r.addr ∧ old.port = r.port ∧ old.inc < r.inc) :
    listedAt (mergeOne n r now).1 r.name = true := by
  have hl : (r.name == n.cfg.self) = false := by simpa using hself
  unfold mergeOne
  rw [hst]
  simp only
  generalize ha : ({ inc := r.inc, node := r.name, addr := r.addr, port := r.port, md := r.md, vsn := r.vsn } : AliveMsg) = a
  generalize he : ({ now, ipAllowed := r.ipAllowed, delegateOk := r.delegateOk, offset := r.offset } : Env) = env
  have han : a.node = r.name := by rw [← ha]
  have hai : a.inc = r.inc := by rw [← ha]
  have hav : a.vsn = r.vsn := by rw [← ha]
  have haa : a.addr = r.addr ∧ a.port = r.port := by rw [← ha]; exact ⟨rfl, rfl⟩
  have hei : env.ipAllowed = r.ipAllowed ∧ env.delegateOk = r.delegateOk := by rw [← he]; exact ⟨rfl, rfl⟩
  have hnl : (n.hasLeft && a.node == n.cfg.self) = false := by rw [han]; simp [hl]
  rw [← han]
  unfold aliveNode
  cases hlk : lookup n.recs r.name with
  | none =>
    rw [hlk] at hnew
    have hdec : aliveDecide n a false env = .accept true := by
      unfold aliveDecide
      have : ¬ a.inc = 0 := by omega
      simp [hnl, hav, hv, hei.1, hei.2, hdel, han, hlk, hip, decideKnown, hl, stub, this]
    rw [hdec]
    exact accept_listed n a false env true (by simpa [han] using hlk)
  | some old =>
    rw [hlk] at hnew
    obtain ⟨h1, h2, hi⟩ := hnew
    have hdec : aliveDecide n a false env = .accept false := by
      unfold aliveDecide
      have : ¬ a.inc ≤ old.inc := by omega
      simp [hnl, hav, hv, hei.2, hdel, han, hlk, haa.1, haa.2, h1, h2, decideKnown, hl, this]
    rw [hdec]
    exact accept_listed n a false env false (by simp [han, hlk])

end Swim.Merge
