import Swim.Lemmas.Merge
/-!
# C02  A running node always defends itself: refutation outranks every accusation
-/
namespace Swim.Merge

/-- **refute_gt.** The refuted incarnation is strictly above the accusation (and still a
uint32) for every current incarnation and every accusation below the largest representable one. -/
theorem C02_refute_gt (cur acc : Nat) (hc : cur < u32) (ha : acc < u32 - 1) :
    acc < refuteInc cur acc ∧ refuteInc cur acc < u32 := by
  unfold refuteInc u32 at *
  simp only
  split <;> omega

/-- the excluded point: an accusation at 2^32-1 cannot be outranked; the counter wraps to 0 -/
theorem C02_refute_wrap_witness : refuteInc 5 (u32 - 1) = 0 := by decide

/-- the refuted incarnation is also strictly above the node's own previous one (no wrap) -/
theorem C02_refute_gt_own (cur acc : Nat) (hc : cur + 1 < u32) (ha : acc < u32 - 1) :
    cur < refuteInc cur acc := by
  unfold refuteInc u32 at *
  simp only
  split <;> omega

/-- effect of `refute` on the local record and counters -/
theorem refute_spec (n : Node) (me : Rec) (acc : Nat) (hme : lookup n.recs me.name = some me) :
    (refute n me acc).1.selfInc = refuteInc n.selfInc acc ∧
    lookup (refute n me acc).1.recs me.name = some { me with inc := refuteInc n.selfInc acc } ∧
    (refute n me acc).2 = [.bcast ("@" ++ me.name) .alive me.name (refuteInc n.selfInc acc) "" false] ∧
    (refute n me acc).1.score = bumpScore n 1 ∧ (refute n me acc).1.hasLeft = n.hasLeft ∧
    (refute n me acc).1.cfg = n.cfg := by
  refine ⟨rfl, ?_, rfl, rfl, rfl, rfl⟩
  simp only [refute]
  have : ({ me with inc := refuteInc n.selfInc acc } : Rec).name = me.name := rfl
  rw [← this, lookup_setRec_self _ _ (by rw [this, hme]; rfl)]

/-- what a refutation guarantees, packaged: incarnation strictly above the accusation, the local
record carries it and keeps its state, exactly one alive broadcast with it, score +1 (clamped) -/
def Refuted (n : Node) (acc : Nat) (r : Node × List Out) : Prop :=
  acc < r.1.selfInc ∧
  (∃ me', lookup r.1.recs n.cfg.self = some me' ∧ me'.inc = r.1.selfInc ∧ me'.st = .alive) ∧
  r.2.filter (fun o => match o with | .bcast .. => true | _ => false) =
    [.bcast ("@" ++ n.cfg.self) .alive n.cfg.self r.1.selfInc "" false] ∧
  r.1.score = bumpScore n 1

theorem refuted_of_refute (n base : Node) (me : Rec) (acc : Nat) (hme : lookup base.recs n.cfg.self = some me)
    (halive : me.st = .alive) (hc : base.selfInc < u32) (ha : acc < u32 - 1)
    (hcfg : base.cfg = n.cfg) (hscore : base.score = n.score) :
    Refuted n acc (refute base me acc) := by
  have hn := lookup_name hme
  obtain ⟨h2, h3, h4, h5, _, _⟩ := refute_spec base me acc (by rw [hn]; exact hme)
  refine ⟨?_, ?_, ?_, ?_⟩
  · rw [h2]; exact (C02_refute_gt base.selfInc acc hc ha).1
  · rw [hn] at h3; exact ⟨_, h3, by rw [h2], halive⟩
  · rw [h4, h2, hn]; rfl
  · rw [h5]; simp [bumpScore, hcfg, hscore]

/-- **accusation_refuted (suspect).** A suspect claim about the running local node at an
incarnation at least its own is refuted. -/
theorem C02_suspect_refuted (n : Node) (s : Claim) (env : Env) (me : Rec)
    (hnode : s.node = n.cfg.self) (hme : lookup n.recs n.cfg.self = some me)
    (halive : me.st = .alive) (hnt : n.timers.find? (·.node == s.node) = none)
    (hinc : me.inc ≤ s.inc) (hc : n.selfInc < u32) (ha : s.inc < u32 - 1) :
    Refuted n s.inc (suspectNode n s env) := by
  have hn := lookup_name hme
  have h1 : ¬ s.inc < me.inc := by omega
  rw [hnode] at hnt
  have : suspectNode n s env = refute n me s.inc := by
    unfold suspectNode
    simp only [hnode, hme, h1, ↓reduceIte, hnt, halive, bne_self_eq_false, Bool.false_eq_true, hn, beq_self_eq_true]
  rw [this]
  exact refuted_of_refute n n me s.inc hme halive hc ha rfl rfl

/-- **accusation_refuted (dead).** Same for a dead claim, while the node has not called Leave. -/
theorem C02_dead_refuted (n : Node) (d : Claim) (env : Env) (me : Rec)
    (hnode : d.node = n.cfg.self) (hme : lookup n.recs n.cfg.self = some me)
    (halive : me.st = .alive) (hnl : n.hasLeft = false)
    (hinc : me.inc ≤ d.inc) (hc : n.selfInc < u32) (ha : d.inc < u32 - 1) :
    Refuted n d.inc (deadNode n d env) := by
  have hn := lookup_name hme
  have h1 : ¬ d.inc < me.inc := by omega
  have h2 : me.st.deadOrLeft = false := by rw [halive]; rfl
  have : deadNode n d env = refute { n with timers := delTimer n.timers d.node } me d.inc := by
    unfold deadNode
    simp only [hnode, hme, h1, ↓reduceIte, h2, Bool.false_eq_true, hn, beq_self_eq_true, hnl, Bool.not_false,
      Bool.and_self]
  rw [this]
  exact refuted_of_refute n _ me d.inc hme halive hc ha rfl rfl

/-- **accusation_refuted (alive).** An alive claim about the running local node from its own
address that is newer, or equally new but with different metadata or versions, is refuted. -/
theorem C02_alive_refuted (n : Node) (a : AliveMsg) (nt : Bool) (env : Env) (me : Rec)
    (hnode : a.node = n.cfg.self) (hme : lookup n.recs n.cfg.self = some me)
    (halive : me.st = .alive)
    (hnl : n.hasLeft = false) (hv : vsnBad a.vsn = false)
    (hdel : (n.cfg.hasAliveDelegate && (a.vsn.length < 6 || !env.delegateOk)) = false)
    (haddr : me.addr = a.addr ∧ me.port = a.port)
    (hnew : me.inc < a.inc ∨ (me.inc = a.inc ∧ (a.md ≠ me.md ∨ a.vsn ≠ me.vsn)))
    (hc : n.selfInc < u32) (ha : a.inc < u32 - 1) :
    Refuted n a.inc (aliveNode n a nt false env) := by
  have hn := lookup_name hme
  have hdec : aliveDecide n a false env = .refuteSelf false := by
    unfold aliveDecide
    simp only [hnl, Bool.false_and, Bool.false_eq_true, ↓reduceIte, hv, hdel, hnode, hme, haddr.1, haddr.2,
      bne_self_eq_false, Bool.or_self, decideKnown, beq_self_eq_true, Bool.not_true, Bool.and_false,
      Bool.not_false, Bool.true_and]
    rcases hnew with h | ⟨h1, h2⟩
    · have h3 : ¬ a.inc < me.inc := by omega
      have h4 : ¬ (a.inc = me.inc) := by omega
      simp [h3, h4]
    · have h3 : ¬ a.inc < me.inc := by omega
      simp only [h3, decide_false, Bool.false_eq_true, ↓reduceIte, h1, beq_self_eq_true, Bool.true_and]
      rcases h2 with h2 | h2 <;> simp [h2]
  have h2 : me.st.deadOrLeft = false := by rw [halive]; rfl
  have : aliveNode n a nt false env = refute { n with timers := delTimer n.timers a.node } me a.inc := by
    unfold aliveNode
    rw [hdec]
    simp only [aliveApply, Bool.false_eq_true, ↓reduceIte, hnode, hme, Option.getD_some, h2, List.append_nil]
  rw [this]
  exact refuted_of_refute n _ me a.inc hme halive hc ha rfl rfl

/-! ### the local node never records itself as suspect, dead or left while running -/

/-- self invariant: the local record exists and is alive, unless Leave was called -/
def SelfOk (n : Node) : Prop :=
  ∃ me, lookup n.recs n.cfg.self = some me ∧ (n.hasLeft = false → me.st = .alive)

end Swim.Merge
