import Swim.Props.C01
/-!
# C02  A running node always defends itself: refutation outranks every accusation
-/
namespace Swim.Merge

/-- **refute_gt.** The refuted incarnation is strictly above the accusation (and still a
uint32) for every current incarnation and every accusation below the largest representable one. -/
theorem C02_refute_gt (cur acc : Nat) (hc : cur < u32) (ha : acc < u32 - 1) :
    acc < refuteInc cur acc ∧ refuteInc cur acc < u32 := by
  unfold refuteInc u32 at *
  simp only
  split <;> omega

/-- the excluded point: an accusation at 2^32-1 cannot be outranked; the counter wraps to 0 -/
theorem C02_refute_wrap_witness : refuteInc 5 (u32 - 1) = 0 := by decide

/-- the refuted incarnation is also strictly above the node's own previous one (no wrap) -/
theorem C02_refute_gt_own (cur acc : Nat) (hc : cur + 1 < u32) (ha : acc < u32 - 1) :
    cur < refuteInc cur acc := by
  unfold refuteInc u32 at *
  simp only
  split <;> omega

/-- effect of `refute` on the local record and counters -/
theorem refute_spec (n : Node) (me : Rec) (acc : Nat) (hme : lookup n.recs me.name = some me) :
    (refute n me acc).1.selfInc = refuteInc n.selfInc acc ∧
    lookup (refute n me acc).1.recs me.name = some { me with inc := refuteInc n.selfInc acc } ∧
    (refute n me acc).2 = [.bcast ("@" ++ me.name) .alive me.name (refuteInc n.selfInc acc) "" false] ∧
    (refute n me acc).1.score = bumpScore n 1 ∧ (refute n me acc).1.hasLeft = n.hasLeft ∧
    (refute n me acc).1.cfg = n.cfg := by
  refine ⟨rfl, ?_, rfl, rfl, rfl, rfl⟩
  simp only [refute]
  have : ({ me with inc := refuteInc n.selfInc acc } : Rec).name = me.name := rfl
  rw [← this, lookup_setRec_self _ _ (by rw [this, hme]; rfl)]

/-- what a refutation guarantees, packaged: incarnation strictly above the accusation, the local
record carries it and keeps its state, exactly one alive broadcast with it, score +1 (clamped) -/
def Refuted (n : Node) (acc : Nat) (r : Node × List Out) : Prop :=
  acc < r.1.selfInc ∧
  (∃ me', lookup r.1.recs n.cfg.self = some me' ∧ me'.inc = r.1.selfInc ∧ me'.st = .alive) ∧
  r.2.filter (fun o => match o with | .bcast .. => true | _ => false) =
    [.bcast ("@" ++ n.cfg.self) .alive n.cfg.self r.1.selfInc "" false] ∧
  r.1.score = bumpScore n 1

theorem refuted_of_refute (n base : Node) (me : Rec) (acc : Nat) (hme : lookup base.recs n.cfg.self = some me)
    (halive : me.st = .alive) (hc : base.selfInc < u32) (ha : acc < u32 - 1)
    (hcfg : base.cfg = n.cfg) (hscore : base.score = n.score) :
    Refuted n acc (refute base me acc) := by
  have hn := lookup_name hme
  obtain ⟨h2, h3, h4, h5, _, _⟩ := refute_spec base me acc (by rw [hn]; exact hme)
  refine ⟨?_, ?_, ?_, ?_⟩
  · rw [h2]; exact (C02_refute_gt base.selfInc acc hc ha).1
  · rw [hn] at h3; exact ⟨_, h3, by rw [h2], halive⟩
  · rw [h4, h2, hn]; rfl
  · rw [h5]; simp [bumpScore, hcfg, hscore]

/-- **accusation_refuted (suspect).** A suspect claim about the running local node at an
incarnation at least its own is refuted. -/
theorem C02_suspect_refuted (n : Node) (s : Claim) (env : Env) (me : Rec)
    (hnode : s.node = n.cfg.self) (hme : lookup n.recs n.cfg.self = some me)
    (halive : me.st = .alive) (hnt : n.timers.find? (·.node == s.node) = none)
    (hinc : me.inc ≤ s.inc) (hc : n.selfInc < u32) (ha : s.inc < u32 - 1) :
    Refuted n s.inc (suspectNode n s env) := by
  have hn := lookup_name hme
  have h1 : ¬ s.inc < me.inc := by omega
  rw [hnode] at hnt
  have : suspectNode n s env = refute n me s.inc := by
    unfold suspectNode
    simp only [hnode, hme, h1, ↓reduceIte, hnt, halive, bne_self_eq_false, Bool.false_eq_true, hn, beq_self_eq_true]
  rw [this]
  exact refuted_of_refute n n me s.inc hme halive hc ha rfl rfl

/-- **accusation_refuted (dead).** Same for a dead claim, while the node has not called Leave. -/
theorem C02_dead_refuted (n : Node) (d : Claim) (env : Env) (me : Rec)
    (hnode : d.node = n.cfg.self) (hme : lookup n.recs n.cfg.self = some me)
    (halive : me.st = .alive) (hnl : n.hasLeft = false)
    (hinc : me.inc ≤ d.inc) (hc : n.selfInc < u32) (ha : d.inc < u32 - 1) :
    Refuted n d.inc (deadNode n d env) := by
  have hn := lookup_name hme
  have h1 : ¬ d.inc < me.inc := by omega
  have h2 : me.st.deadOrLeft = false := by rw [halive]; rfl
  have : deadNode n d env = refute { n with timers := delTimer n.timers d.node } me d.inc := by
    unfold deadNode
    simp only [hnode, hme, h1, ↓reduceIte, h2, Bool.false_eq_true, hn, beq_self_eq_true, hnl, Bool.not_false,
      Bool.and_self]
  rw [this]
  exact refuted_of_refute n _ me d.inc hme halive hc ha rfl rfl

/-- **accusation_refuted (alive).** An alive claim about the running local node from its own
address that is newer, or equally new but with different metadata or versions, is refuted. -/
theorem C02_alive_refuted (n : Node) (a : AliveMsg) (nt : Bool) (env : Env) (me : Rec)
    (hnode : a.node = n.cfg.self) (hme : lookup n.recs n.cfg.self = some me)
    (halive : me.st = .alive)
    (hnl : n.hasLeft = false) (hv : vsnBad a.vsn = false)
    (hdel : (n.cfg.hasAliveDelegate && (a.vsn.length < 6 || !env.delegateOk)) = false)
    (haddr : me.addr = a.addr ∧ me.port = a.port)
    (hnew : me.inc < a.inc ∨ (me.inc = a.inc ∧ (a.md ≠ me.md ∨ a.vsn ≠ me.vsn)))
    (hc : n.selfInc < u32) (ha : a.inc < u32 - 1) :
    Refuted n a.inc (aliveNode n a nt false env) := by
  have hn := lookup_name hme
  have hdec : aliveDecide n a false env = .refuteSelf false := by
    unfold aliveDecide
    simp only [hnl, Bool.false_and, Bool.false_eq_true, ↓reduceIte, hv, hdel, hnode, hme, haddr.1, haddr.2,
      bne_self_eq_false, Bool.or_self, decideKnown, beq_self_eq_true, Bool.not_true, Bool.and_false,
      Bool.not_false, Bool.true_and]
    rcases hnew with h | ⟨h1, h2⟩
    · have h3 : ¬ a.inc < me.inc := by omega
      have h4 : ¬ (a.inc = me.inc) := by omega
      simp [h3, h4]
    · have h3 : ¬ a.inc < me.inc := by omega
      simp only [h3, decide_false, Bool.false_eq_true, ↓reduceIte, h1, beq_self_eq_true, Bool.true_and]
      rcases h2 with h2 | h2 <;> simp [h2]
  have h2 : me.st.deadOrLeft = false := by rw [halive]; rfl
  have : aliveNode n a nt false env = refute { n with timers := delTimer n.timers a.node } me a.inc := by
    unfold aliveNode
    rw [hdec]
    simp only [aliveApply, Bool.false_eq_true, ↓reduceIte, hnode, hme, Option.getD_some, h2, List.append_nil]
  rw [this]
  exact refuted_of_refute n _ me a.inc hme halive hc ha rfl rfl

/-! ### the local node never records itself as suspect, dead or left while running -/

/-- self invariant: the local record exists and is alive, unless Leave was called -/
def SelfOk (n : Node) : Prop :=
  ∃ me, lookup n.recs n.cfg.self = some me ∧ (n.hasLeft = false → me.st = .alive)

theorem refute_selfOk (n : Node) (me : Rec) (acc : Nat) (hme : lookup n.recs n.cfg.self = some me)
    (hal : n.hasLeft = false → me.st = .alive) : SelfOk (refute n me acc).1 := by
  have hn := lookup_name hme
  refine ⟨{ me with inc := refuteInc n.selfInc acc }, ?_, hal⟩
  simp only [refute]
  have : ({ me with inc := refuteInc n.selfInc acc } : Rec).name = n.cfg.self := hn
  rw [← this]; exact lookup_setRec_self _ _ (by rw [this, hme]; rfl)

/-- **self_inv (suspect).** -/
theorem C02_suspect_selfOk (n : Node) (s : Claim) (env : Env) (h : SelfOk n) : SelfOk (suspectNode n s env).1 := by
  obtain ⟨me, hme, hal⟩ := h
  by_cases hs : s.node = n.cfg.self
  · unfold suspectNode
    simp only [hs, hme]
    by_cases h1 : s.inc < me.inc
    · simp only [h1, ↓reduceIte]; exact ⟨me, hme, hal⟩
    · simp only [h1, ↓reduceIte]
      cases ht : n.timers.find? (·.node == n.cfg.self) with
      | some t =>
        simp only
        cases hc : (t.confirm s.frm).2 <;> simp only [↓reduceIte, Bool.false_eq_true] <;> exact ⟨me, hme, hal⟩
      | none =>
        simp only
        by_cases h2 : (me.st != St.alive) = true
        · simp only [h2, ↓reduceIte]; exact ⟨me, hme, hal⟩
        · have hn := lookup_name hme
          simp only [h2, Bool.false_eq_true, ↓reduceIte, hn, beq_self_eq_true]
          exact refute_selfOk n me s.inc hme hal
  · have hfr := C01_suspect_frame n s env n.cfg.self (fun e => hs e.symm)
    have hcfg : (suspectNode n s env).1.cfg = n.cfg ∧ (suspectNode n s env).1.hasLeft = n.hasLeft := by
      unfold suspectNode
      cases lookup n.recs s.node with
      | none => exact ⟨rfl, rfl⟩
      | some state =>
        simp only
        split
        · exact ⟨rfl, rfl⟩
        · cases n.timers.find? (·.node == s.node) with
          | some t => simp only; split <;> exact ⟨rfl, rfl⟩
          | none =>
            simp only
            split
            · exact ⟨rfl, rfl⟩
            · split <;> exact ⟨rfl, rfl⟩
    refine ⟨me, ?_, ?_⟩
    · rw [hcfg.1, hfr]; exact hme
    · rw [hcfg.2]; exact hal

/-- **self_inv (dead).** A dead claim about the running local node is refuted; the record can only
become left (never dead, never suspect) and only after Leave was called. -/
theorem C02_dead_selfOk (n : Node) (d : Claim) (env : Env) (h : SelfOk n) : SelfOk (deadNode n d env).1 := by
  obtain ⟨me, hme, hal⟩ := h
  by_cases hs : d.node = n.cfg.self
  · unfold deadNode
    simp only [hs, hme]
    by_cases h1 : d.inc < me.inc
    · simp only [h1, ↓reduceIte]; exact ⟨me, hme, hal⟩
    · simp only [h1, ↓reduceIte]
      by_cases h2 : me.st.deadOrLeft = true
      · simp only [h2, ↓reduceIte]; exact ⟨me, hme, hal⟩
      · have hn := lookup_name hme
        simp only [h2, Bool.false_eq_true, ↓reduceIte, hn, beq_self_eq_true, Bool.true_and]
        cases h3 : n.hasLeft
        · simp only [Bool.not_false, ↓reduceIte]
          have := refute_selfOk { n with timers := delTimer n.timers n.cfg.self } me d.inc hme (by simpa using hal)
          rw [h3] at this
          exact this
        · simp only [Bool.not_true, Bool.false_eq_true, ↓reduceIte]
          generalize hst' : (if (n.cfg.self == d.frm) = true then St.left else St.dead) = st'
          have hnm : ({ me with inc := d.inc, st := st', changed := some env.now } : Rec).name = n.cfg.self := hn
          refine ⟨{ me with inc := d.inc, st := st', changed := some env.now }, ?_, ?_⟩
          · show lookup (setRec n.recs _) n.cfg.self = _
            rw [← hnm]; exact lookup_setRec_self _ _ (by rw [hnm, hme]; rfl)
          · intro hf; cases hf
  · have hfr := C01_dead_frame n d env n.cfg.self (fun e => hs e.symm)
    have hcfg : (deadNode n d env).1.cfg = n.cfg ∧ (deadNode n d env).1.hasLeft = n.hasLeft := by
      unfold deadNode
      cases lookup n.recs d.node with
      | none => exact ⟨rfl, rfl⟩
      | some state =>
        simp only
        split
        · exact ⟨rfl, rfl⟩
        · split
          · exact ⟨rfl, rfl⟩
          · split <;> exact ⟨rfl, rfl⟩
    refine ⟨me, ?_, ?_⟩
    · rw [hcfg.1, hfr]; exact hme
    · rw [hcfg.2]; exact hal

def AliveDec.isNew : AliveDec → Bool
  | .stubOnly => true
  | .delTimerOnly b => b
  | .refuteSelf b => b
  | .accept b => b
  | _ => false

/-- a claim about a member the node already holds never goes through the "new member" paths -/
theorem aliveDecide_known (n : Node) (a : AliveMsg) (b : Bool) (env : Env) (r : Rec)
    (hr : lookup n.recs a.node = some r) : (aliveDecide n a b env).isNew = false := by
  unfold aliveDecide
  by_cases h1 : (n.hasLeft && a.node == n.cfg.self) = true
  · simp [h1, AliveDec.isNew]
  · by_cases h2 : vsnBad a.vsn = true
    · simp [h1, h2, AliveDec.isNew]
    · by_cases h3 : (n.cfg.hasAliveDelegate && (a.vsn.length < 6 || !env.delegateOk)) = true
      · simp [h1, h2, h3, AliveDec.isNew]
      · simp only [h1, h2, h3, Bool.false_eq_true, ↓reduceIte, hr]
        have hk : ∀ upd, (decideKnown n a b r upd false).isNew = false := by
          intro upd
          unfold decideKnown
          simp only
          split
          · rfl
          · split
            · rfl
            · split
              · split <;> rfl
              · rfl
        by_cases h5 : (r.addr != a.addr || r.port != a.port) = true
        · simp only [h5, ↓reduceIte]
          by_cases h4 : env.ipAllowed = true
          · simp only [h4, Bool.not_true, Bool.false_eq_true, ↓reduceIte]
            split
            · exact hk true
            · rfl
          · simp [h4, AliveDec.isNew]
        · simp only [h5, Bool.false_eq_true, ↓reduceIte]
          exact hk false

theorem aliveApply_cfg (n : Node) (a : AliveMsg) (nt : Bool) (env : Env) (dec : AliveDec) :
    (aliveApply n a nt env dec).1.cfg = n.cfg ∧ (aliveApply n a nt env dec).1.hasLeft = n.hasLeft := by
  cases dec with
  | ignore => exact ⟨rfl, rfl⟩
  | conflict => exact ⟨rfl, rfl⟩
  | stubOnly => exact ⟨rfl, rfl⟩
  | delTimerOnly isNew => cases isNew <;> exact ⟨rfl, rfl⟩
  | refuteSelf isNew => cases isNew <;> exact ⟨rfl, rfl⟩
  | accept isNew => cases isNew <;> exact ⟨rfl, rfl⟩

/-- **self_inv (alive).** No alive claim - about the node itself or anyone else, by any path - makes the
local record anything but alive. -/
theorem C02_alive_selfOk (n : Node) (a : AliveMsg) (nt b : Bool) (env : Env) (h : SelfOk n) :
    SelfOk (aliveNode n a nt b env).1 := by
  obtain ⟨me, hme, hal⟩ := h
  have hcfg := aliveApply_cfg n a nt env (aliveDecide n a b env)
  by_cases hs : a.node = n.cfg.self
  · -- a claim about ourselves: the record is known, so no stub is involved
    have hn := lookup_name hme
    unfold aliveNode at hcfg ⊢
    cases hd : aliveDecide n a b env with
    | ignore => exact ⟨me, hme, hal⟩
    | conflict => exact ⟨me, hme, hal⟩
    | stubOnly =>
      have := aliveDecide_known n a b env me (by rw [hs]; exact hme)
      rw [hd] at this; cases this
    | delTimerOnly isNew =>
      have hisNew : isNew = false := by
        have := aliveDecide_known n a b env me (by rw [hs]; exact hme)
        rw [hd] at this; exact this
      subst hisNew
      rw [hd] at hcfg
      refine ⟨me, ?_, ?_⟩
      · rw [hcfg.1]; simpa [aliveApply] using hme
      · rw [hcfg.2]; exact hal
    | refuteSelf isNew =>
      have hisNew : isNew = false := by
        have := aliveDecide_known n a b env me (by rw [hs]; exact hme)
        rw [hd] at this; exact this
      subst hisNew
      simp only [aliveApply, Bool.false_eq_true, ↓reduceIte, hs, hme, Option.getD_some]
      have := refute_selfOk { n with timers := delTimer n.timers n.cfg.self } me a.inc hme hal
      -- the join event that may follow a refutation does not touch the state
      exact this
    | accept isNew =>
      have hisNew : isNew = false := by
        have := aliveDecide_known n a b env me (by rw [hs]; exact hme)
        rw [hd] at this; exact this
      subst hisNew
      simp only [aliveApply, Bool.false_eq_true, ↓reduceIte, hs, hme, Option.getD_some]
      have hnm : (acceptRec me a env).name = n.cfg.self := by simp [acceptRec, hn]
      refine ⟨acceptRec me a env, ?_, fun _ => rfl⟩
      show lookup (setRec n.recs _) n.cfg.self = _
      rw [← hnm]; exact lookup_setRec_self _ _ (by rw [hnm, hme]; rfl)
  · have hfr := C01_alive_frame n a nt b env n.cfg.self (fun e => hs e.symm)
    unfold aliveNode at hfr hcfg ⊢
    refine ⟨me, ?_, ?_⟩
    · rw [hcfg.1, hfr]; exact hme
    · rw [hcfg.2]; exact hal

theorem C02_mergeOne_selfOk (n : Node) (r : PushState) (now : Nat) (h : SelfOk n) : SelfOk (mergeOne n r now).1 := by
  unfold mergeOne
  cases r.st
  · exact C02_alive_selfOk n _ false false _ h
  · exact C02_suspect_selfOk n _ _ h
  · exact C02_suspect_selfOk n _ _ h
  · exact C02_dead_selfOk n _ _ h

theorem C02_merge_selfOk (n : Node) (rs : List PushState) (now : Nat) (h : SelfOk n) :
    SelfOk (mergeState n rs now).1 := by
  unfold mergeState
  suffices hh : ∀ (acc : Node × List Out), SelfOk acc.1 →
      SelfOk (rs.foldl (fun (acc : Node × List Out) r => ((mergeOne acc.1 r now).1, acc.2 ++ (mergeOne acc.1 r now).2)) acc).1 by
    exact hh (n, []) h
  induction rs with
  | nil => intro acc ha; exact ha
  | cons r rs ih => intro acc ha; exact ih _ (C02_mergeOne_selfOk acc.1 r now ha)

theorem lookup_filter_keep (recs : List Rec) (p : Rec → Bool) (y : String) (r : Rec)
    (hr : lookup recs y = some r) (hp : p r = true) : lookup (recs.filter p) y = some r := by
  induction recs with
  | nil => simp [lookup] at hr
  | cons x xs ih =>
    simp only [lookup, List.find?_cons] at hr
    by_cases hx : (x.name == y) = true
    · simp only [hx] at hr
      have : x = r := Option.some.inj hr
      subst this
      simp [lookup, List.filter_cons, hp, hx]
    · simp only [hx] at hr
      have ih' := ih hr
      by_cases hpx : p x = true
      · simp only [lookup, List.filter_cons, hpx, ↓reduceIte, List.find?_cons, hx] at ih' ⊢
        exact ih'
      · simp only [lookup, List.filter_cons, hpx, Bool.false_eq_true, ↓reduceIte] at ih' ⊢
        exact ih'

theorem C02_reap_selfOk (n : Node) (h : SelfOk n) : SelfOk (reap n) := by
  obtain ⟨me, hme, hal⟩ := h
  have hn := lookup_name hme
  refine ⟨me, ?_, hal⟩
  simp only [reap]
  exact lookup_filter_keep n.recs _ n.cfg.self me hme (by simp [hn])

theorem C02_fire_selfOk (n : Node) (node : String) (ca : Nat) (env : Env) (h : SelfOk n) :
    SelfOk (timerFire n node ca env).1 := by
  unfold timerFire
  cases lookup n.recs node with
  | none => exact h
  | some state =>
    simp only
    split
    · exact C02_dead_selfOk n _ env h
    · exact h

theorem C02_update_selfOk (n : Node) (ad p md : Nat) (vsn : List Nat) (nt : Bool) (env : Env) (h : SelfOk n) :
    SelfOk (updateNode n ad p md vsn nt env).1 := by
  unfold updateNode
  exact C02_alive_selfOk _ _ nt true env h

theorem C02_leave_selfOk (n : Node) (env : Env) (h : SelfOk n) : SelfOk (leave n env).1 := by
  unfold leave
  split
  · exact h
  · obtain ⟨me, hme, _⟩ := h
    simp only [hme]
    exact C02_dead_selfOk { n with hasLeft := true } _ env ⟨me, hme, fun hf => by cases hf⟩

theorem lookup_map_namePreserving (recs : List Rec) (f : Rec → Rec) (hf : ∀ r, (f r).name = r.name) (y : String) :
    lookup (recs.map f) y = (lookup recs y).map f := by
  induction recs with
  | nil => rfl
  | cons x xs ih =>
    simp only [lookup, List.map_cons, List.find?_cons, hf] at ih ⊢
    cases hx : (x.name == y)
    · simpa using ih
    · rfl

theorem C02_age_selfOk (n : Node) (name : String) (h : SelfOk n) : SelfOk (ageRec n name) := by
  obtain ⟨me, hme, hal⟩ := h
  simp only [SelfOk, ageRec]
  rw [lookup_map_namePreserving n.recs _ (by intro r; split <;> rfl) n.cfg.self, hme]
  refine ⟨_, rfl, ?_⟩
  intro hl
  have := hal hl
  simp only
  by_cases e : (me.name == name) = true <;> simp [e, this]

/-- **self_inv (one step).** Every operation of the model - claims by any path, push/pull merges,
timer callbacks (current or stale), reaping, UpdateNode, Leave, ageing - keeps the invariant "the
local record exists and, unless Leave has been called, is alive". -/
theorem C02_step_selfOk (n : Node) (op : Op) (h : SelfOk n) : SelfOk (step n op).1 := by
  cases op with
  | alive a b env => exact C02_alive_selfOk n a false b env h
  | suspect c env => exact C02_suspect_selfOk n c env h
  | dead c env => exact C02_dead_selfOk n c env h
  | merge rs now => exact C02_merge_selfOk n rs now h
  | fire node ca env => exact C02_fire_selfOk n node ca env h
  | reap => exact C02_reap_selfOk n h
  | update a p m v env => exact C02_update_selfOk n a p m v true env h
  | leave env => exact C02_leave_selfOk n env h
  | age name => exact C02_age_selfOk n name h

/-- **C02_history.** After any sequence of operations, in any order, a running node that has not
called Leave lists itself as alive: it never records itself as suspect, dead or left. -/
theorem C02_history (n : Node) (ops : List Op) (h : SelfOk n) :
    SelfOk (ops.foldl (fun n op => (step n op).1) n) := by
  induction ops generalizing n with
  | nil => exact h
  | cons op ops ih => exact ih _ (C02_step_selfOk n op h)

end Swim.Merge
