import Swim.Model.Handlers
/-!
# C19: the pending-acknowledgement table

Every pending-probe record is discarded by its deadline; acknowledgements and nacks for unknown,
expired or foreign sequence numbers have no effect; a handler completes at most once (by its ack or
by its timeout, never both, never twice).
-/
namespace Swim.Handlers

def Inv (t : T) : Prop := (t.hs.map (·.seq)).Nodup ∧ ∀ h ∈ t.hs, t.now < h.deadline

def opOk (t : T) : Op → Prop
  | .set seq timeout _ => 0 < timeout ∧ ∀ h ∈ t.hs, h.seq ≠ seq     -- nextSeqNo hands out fresh numbers
  | _ => True

theorem filter_seq_nodup {l : List H} (p : H → Bool) (h : (l.map (·.seq)).Nodup) : ((l.filter p).map (·.seq)).Nodup :=
  List.Nodup.sublist (List.Sublist.map _ List.filter_sublist) h

theorem step_inv (t : T) (op : Op) (h : Inv t) (hok : opOk t op) : Inv (step t op).1 := by
  obtain ⟨hn, hd⟩ := h
  cases op with
  | set seq timeout kind =>
    obtain ⟨ht, hf⟩ := hok
    simp only [step, set]
    refine ⟨?_, ?_⟩
    · simp only [List.map_append, List.map_cons, List.map_nil]
      rw [List.nodup_append]
      refine ⟨filter_seq_nodup _ hn, by simp, ?_⟩
      intro a ha b hb
      simp only [List.mem_singleton] at hb
      obtain ⟨x, hx, rfl⟩ := List.mem_map.mp ha
      rw [hb]
      exact hf x (List.mem_filter.mp hx).1
    · intro x hx
      simp only [List.mem_append, List.mem_singleton] at hx
      rcases hx with hx | rfl
      · exact hd x (List.mem_filter.mp hx).1
      · simp only; omega
  | ack seq =>
    simp only [step]
    cases t.hs.find? (·.seq == seq) with
    | none => exact ⟨hn, hd⟩
    | some x => exact ⟨filter_seq_nodup _ hn, fun y hy => hd y (List.mem_filter.mp hy).1⟩
  | nack seq =>
    simp only [step]
    cases t.hs.find? (·.seq == seq) with
    | none => exact ⟨hn, hd⟩
    | some x => exact ⟨hn, hd⟩
  | tick d =>
    simp only [step]
    refine ⟨filter_seq_nodup _ hn, ?_⟩
    intro x hx
    have := (List.mem_filter.mp hx).2
    simpa using this

theorem seq_unique {l : List H} (hn : (l.map (·.seq)).Nodup) {x y : H} (hx : x ∈ l) (hy : y ∈ l) (e : y.seq = x.seq) :
    y = x := by
  induction l with
  | nil => cases hx
  | cons a l ih =>
    simp only [List.map_cons, List.nodup_cons] at hn
    rcases List.mem_cons.mp hx with rfl | hx' <;> rcases List.mem_cons.mp hy with rfl | hy'
    · rfl
    · exact absurd (List.mem_map.mpr ⟨y, hy', e⟩) hn.1
    · exact absurd (List.mem_map.mpr ⟨x, hx', e.symm⟩) hn.1
    · exact ih hn.2 hx' hy'

/-- operations admissible along a run: positive timeouts, fresh sequence numbers -/
def runOk : T → List Op → Prop
  | _, [] => True
  | t, op :: rest => opOk t op ∧ runOk (step t op).1 rest

theorem run_cons (t : T) (op : Op) (ops : List Op) :
    run t (op :: ops) = ((run (step t op).1 ops).1, (step t op).2 ++ (run (step t op).1 ops).2) := by
  unfold run
  simp only [List.foldl_cons, List.nil_append]
  suffices h : ∀ (m : T) (acc : List Ev),
      ops.foldl (fun (acc : T × List Ev) op => ((step acc.1 op).1, acc.2 ++ (step acc.1 op).2)) (m, acc) =
      ((ops.foldl (fun (acc : T × List Ev) op => ((step acc.1 op).1, acc.2 ++ (step acc.1 op).2)) (m, [])).1,
        acc ++ (ops.foldl (fun (acc : T × List Ev) op => ((step acc.1 op).1, acc.2 ++ (step acc.1 op).2)) (m, [])).2) from h _ _
  induction ops with
  | nil => intro m acc; simp
  | cons o os ih =>
    intro m acc
    simp only [List.foldl_cons, List.nil_append]
    rw [ih (step m o).1 (acc ++ (step m o).2), ih (step m o).1 (step m o).2]
    simp [List.append_assoc]

/-- **C19_table_discarded_by_deadline.** After any admissible sequence of registrations, acks, nacks and
clock advances, every record still pending has its deadline in the future: none outlives it. -/
theorem C19_table_discarded_by_deadline (ops : List Op) : ∀ (t : T), Inv t → runOk t ops → Inv (run t ops).1 := by
  induction ops with
  | nil => intro t h _; exact h
  | cons op ops ih =>
    intro t h hok
    rw [run_cons]
    exact ih _ (step_inv t op h hok.1) hok.2

/-- **C19_table_foreign_noop.** An ack or a nack for a sequence number that is not pending (never
registered, already consumed, or expired) changes nothing and notifies nobody. -/
theorem C19_table_foreign_noop (t : T) (seq : Nat) (h : ∀ x ∈ t.hs, x.seq ≠ seq) :
    step t (.ack seq) = (t, []) ∧ step t (.nack seq) = (t, []) := by
  have : t.hs.find? (·.seq == seq) = none := by
    apply List.find?_eq_none.mpr
    intro x hx
    simpa using h x hx
  simp [step, this]

/-- **C19_table_completes_once.** A completion (the ack function or the timeout report) happens only for
a pending handler and removes it: the same handler cannot complete again. -/
theorem C19_table_completes_once (t : T) (op : Op) (hinv : Inv t) (s : Nat)
    (hev : Ev.ack s ∈ (step t op).2 ∨ Ev.timeout s ∈ (step t op).2) :
    (∃ x ∈ t.hs, x.seq = s) ∧ ∀ x ∈ (step t op).1.hs, x.seq ≠ s := by
  cases op with
  | set seq timeout kind => simp [step] at hev
  | ack seq =>
    simp only [step] at hev ⊢
    cases hf : t.hs.find? (·.seq == seq) with
    | none => simp [hf] at hev
    | some x =>
      simp only [hf, List.mem_singleton, Ev.ack.injEq, reduceCtorEq, or_false] at hev
      subst hev
      refine ⟨⟨x, List.mem_of_find?_eq_some hf, by simpa using List.find?_some hf⟩, ?_⟩
      intro y hy
      have := (List.mem_filter.mp hy).2
      simpa using this
  | nack seq =>
    simp only [step] at hev
    cases hf : t.hs.find? (·.seq == seq) with
    | none => simp [hf] at hev
    | some x =>
      simp only [hf] at hev
      split at hev <;> simp at hev
  | tick d =>
    simp only [step, List.mem_map, List.mem_filter, reduceCtorEq, and_false, exists_false, false_or,
      Ev.timeout.injEq] at hev ⊢
    obtain ⟨x, ⟨hx, hcond⟩, rfl⟩ := hev
    refine ⟨⟨x, hx, rfl⟩, ?_⟩
    intro y hy
    obtain ⟨hy1, hy2⟩ := hy
    intro e
    have hxy : y = x := seq_unique hinv.1 hx hy1 e
    subst hxy
    simp only [Bool.and_eq_true, decide_eq_true_eq] at hcond
    simp only [decide_eq_true_eq] at hy2
    omega

/-- non-vacuity: register 7 and 8, ack 7 twice, a foreign nack, let 8 expire -/
example : run {} [.set 7 500 .probe, .set 8 1000 .relay, .ack 7, .ack 7, .nack 9, .nack 8, .tick 400, .set 9 500 .probe, .tick 700] =
    ({ hs := [], now := 1100 }, [.ack 7, .timeout 9]) := by decide

end Swim.Handlers
