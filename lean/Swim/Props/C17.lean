import Swim.Model.Keyring
/-!
# C17  Keyring integrity and zero-downtime key rotation

Theorems over the keyring model (`Swim.Model.Keyring`), quantified over every key,
every ring and every operation sequence / every interleaving of rotation steps.
-/
namespace Swim.Keyring

theorem mem_install {keys : List Key} {p k : Key} :
    k ∈ install keys p ↔ k = p ∨ (k ∈ keys ∧ k ≠ p) := by
  simp [install, List.mem_filter]

theorem install_nodup {keys : List Key} {p : Key} (h : keys.Nodup) : (install keys p).Nodup := by
  simp only [install, List.nodup_cons, List.mem_filter]
  refine ⟨?_, h.filter _⟩
  simp

theorem install_inv {keys : List Key} {p : Key} (h : Inv keys) (hp : validLen p = true) :
    Inv (install keys p) := by
  refine ⟨install_nodup h.1, ?_⟩
  intro k hk
  rcases mem_install.mp hk with rfl | ⟨hk, _⟩
  · exact hp
  · exact h.2 k hk

/-- installing the current head of a duplicate-free ring changes nothing -/
theorem install_head {p : Key} {rest : List Key} (h : (p :: rest).Nodup) :
    install (p :: rest) p = p :: rest := by
  have hne : ∀ a ∈ rest, a ≠ p := by
    intro a ha e; subst e; exact (List.nodup_cons.mp h).1 ha
  simp only [install, List.filter_cons]
  simp only [ne_eq, not_true_eq_false, decide_false, Bool.false_eq_true, ↓reduceIte,
    List.cons.injEq, true_and]
  apply List.filter_eq_self.mpr
  intro a ha
  simpa using hne a ha

theorem addKey_inv {ring r' : List Key} {k : Key} (h : Inv ring) (hs : addKey ring k = .ok r') :
    Inv r' := by
  unfold addKey at hs
  by_cases hv : validLen k = false
  · simp [hv] at hs
  · by_cases hk : k ∈ ring
    · simp [hv, hk] at hs; subst hs; exact h
    · simp only [hv, hk, ↓reduceIte, Bool.false_eq_true] at hs
      cases hs
      have hv' : validLen k = true := by simpa using hv
      have hinv : Inv (ring ++ [k]) := by
        refine ⟨?_, ?_⟩
        · rw [List.nodup_append]
          refine ⟨h.1, by simp, ?_⟩
          intro a ha b hb
          simp at hb; subst hb
          intro e; subst e; exact hk ha
        · intro x hx
          simp at hx
          rcases hx with hx | rfl
          · exact h.2 x hx
          · exact hv'
      apply install_inv hinv
      cases ring with
      | nil => simpa [primary] using hv'
      | cons p rest => simpa [primary] using h.2 p (by simp)

theorem useKey_inv {ring r' : List Key} {k : Key} (h : Inv ring) (hs : useKey ring k = .ok r') :
    Inv r' := by
  unfold useKey at hs
  by_cases hk : k ∈ ring
  · simp [hk] at hs; subst hs; exact install_inv h (h.2 k hk)
  · simp [hk] at hs

theorem removeKey_inv {ring r' : List Key} {k : Key} (h : Inv ring)
    (hs : removeKey ring k = .ok r') : Inv r' := by
  cases ring with
  | nil => simp [removeKey] at hs; subst hs; exact h
  | cons p rest =>
    simp only [removeKey] at hs
    by_cases hkp : k = p
    · simp [hkp] at hs
    · by_cases hk : k ∈ rest
      · simp only [hkp, hk, ↓reduceIte] at hs
        cases hs
        have hn : (p :: rest.erase k).Nodup := by
          have := h.1
          rw [List.nodup_cons] at this ⊢
          exact ⟨fun hm => this.1 (List.mem_of_mem_erase hm), this.2.erase k⟩
        refine install_inv ⟨hn, ?_⟩ (h.2 p (by simp))
        intro x hx
        simp at hx
        rcases hx with rfl | hx
        · exact h.2 _ (by simp)
        · exact h.2 x (by simp [List.mem_of_mem_erase hx])
      · simp [hkp, hk] at hs; subst hs; exact h

/-- **ring_inv (one step).** Every API call preserves the ring invariant. -/
theorem step_inv (ring : List Key) (op : Op) (h : Inv ring) : Inv (step ring op).1 := by
  cases op with
  | add k =>
    simp only [step]; split
    · rename_i r hs; exact addKey_inv h hs
    · exact h
  | use k =>
    simp only [step]; split
    · rename_i r hs; exact useKey_inv h hs
    · exact h
  | remove k =>
    simp only [step]; split
    · rename_i r hs; exact removeKey_inv h hs
    · exact h
  | getKeys => exact h
  | getPrimary => exact h

/-- **ring_inv (all histories).** No duplicates and only valid-length keys after any
sequence of calls on a ring that satisfied the invariant. -/
theorem C17_ring_inv (ring : List Key) (ops : List Op) (h : Inv ring) : Inv (run ring ops) := by
  induction ops generalizing ring with
  | nil => exact h
  | cons op ops ih => exact ih _ (step_inv ring op h)

theorem addAll_inv {ring r' : List Key} {ks : List Key} (h : Inv ring)
    (hs : addAll ring ks = .ok r') : Inv r' := by
  induction ks generalizing ring with
  | nil => simp [addAll] at hs; subst hs; exact h
  | cons k ks ih =>
    simp only [addAll] at hs
    split at hs
    · cases hs
    · rename_i r hr; exact ih (addKey_inv h hr) hs

/-- `NewKeyring` yields an invariant ring whenever it succeeds. -/
theorem C17_new_inv (keys : List Key) (p : Key) (r : List Key)
    (hs : newKeyring keys p = .ok r) : Inv r := by
  unfold newKeyring at hs
  split at hs
  · cases hs; exact ⟨List.nodup_nil, by simp⟩
  · split at hs
    · cases hs
    · exact addAll_inv ⟨List.nodup_nil, by simp⟩ hs

/-- head of the ring after `AddKey` / `RemoveKey` -/
theorem addKey_head (p : Key) (rest : List Key) (k : Key) :
    ((step (p :: rest) (.add k)).1).head? = some p := by
  simp only [step, addKey]
  by_cases hv : validLen k = false
  · simp [hv]
  · by_cases hc : k ∈ p :: rest
    · simp [hv, hc]
    · simp [hv, hc, install, primary]

theorem removeKey_head (p : Key) (rest : List Key) (k : Key) :
    ((step (p :: rest) (.remove k)).1).head? = some p := by
  simp only [step, removeKey]
  by_cases hk : k = p
  · simp [hk]
  · by_cases hc : k ∈ rest
    · simp [hk, hc, install]
    · simp [hk, hc]

theorem addAll_head {p : Key} {rest ks r' : List Key}
    (hs : addAll (p :: rest) ks = .ok r') : r'.head? = some p := by
  induction ks generalizing rest with
  | nil => simp [addAll] at hs; subst hs; rfl
  | cons k ks ih =>
    simp only [addAll] at hs
    split at hs
    · cases hs
    · rename_i r hr
      have hh := addKey_head p rest k
      simp only [step, hr] at hh
      cases r with
      | nil => simp at hh
      | cons q r2 =>
        have : q = p := by simpa using hh
        subst this; exact ih hs

/-- `NewKeyring` with a non-empty primary puts exactly that key first. -/
theorem C17_new_primary_first (keys : List Key) (p : Key) (r : List Key) (hp : p ≠ [])
    (hs : newKeyring keys p = .ok r) : primary r = some p := by
  unfold newKeyring at hs
  have hpe : p.isEmpty = false := by cases p <;> simp_all
  simp only [hpe, Bool.and_false, Bool.false_eq_true, ↓reduceIte] at hs
  simp only [addAll] at hs
  split at hs
  · cases hs
  · rename_i r0 hr0
    have : r0 = [p] := by
      unfold addKey at hr0
      by_cases hv : validLen p = false
      · simp [hv] at hr0
      · simp [hv, install, primary] at hr0; exact hr0.symm
    subst this
    exact addAll_head hs

/-- **primary stays installed and first.** The primary changes only through a successful
`UseKey`, and then becomes exactly the requested (installed) key. -/
theorem C17_primary_stable (ring : List Key) (op : Op) (p : Key)
    (hp : primary ring = some p) :
    primary (step ring op).1 = some p ∨
      (∃ k, op = .use k ∧ k ∈ ring ∧ primary (step ring op).1 = some k) := by
  cases ring with
  | nil => simp [primary] at hp
  | cons q rest =>
    have hq : q = p := by simpa [primary] using hp
    subst hq
    cases op with
    | add k => left; exact addKey_head q rest k
    | use k =>
      simp only [step, useKey]
      by_cases hc : k ∈ q :: rest
      · right; exact ⟨k, rfl, hc, by simp [hc, install, primary]⟩
      · left; simp [hc, primary]
    | remove k => left; exact removeKey_head q rest k
    | getKeys => left; simpa [step] using hp
    | getPrimary => left; simpa [step] using hp

/-- **never removes the primary**: `RemoveKey primary` is refused and changes nothing. -/
theorem C17_remove_primary_refused (p : Key) (rest : List Key) :
    removeKey (p :: rest) p = .error .removePrimary ∧ (step (p :: rest) (.remove p)).1 = p :: rest := by
  simp [removeKey, step]

/-- **a key becomes primary only if installed.** -/
theorem C17_use_requires_installed (ring : List Key) (k : Key) (hk : k ∉ ring) :
    useKey ring k = .error .notInRing ∧ (step ring (.use k)).1 = ring := by
  simp [useKey, step, hk]

/-- **invalid-length keys are never installed.** -/
theorem C17_add_invalid_refused (ring : List Key) (k : Key) (hk : validLen k = false) :
    addKey ring k = .error .keySize := by
  simp [addKey, hk]

/-- **a non-empty ring never becomes empty** (so the primary is always installed). -/
theorem C17_nonempty_stays (ring : List Key) (op : Op) (h : ring ≠ []) : (step ring op).1 ≠ [] := by
  cases ring with
  | nil => exact absurd rfl h
  | cons p rest =>
    cases op with
    | add k => have := addKey_head p rest k; intro e; rw [e] at this; simp at this
    | use k =>
      simp only [step, useKey]
      by_cases hc : k ∈ p :: rest <;> simp [hc, install]
    | remove k => have := removeKey_head p rest k; intro e; rw [e] at this; simp at this
    | getKeys => simp [step]
    | getPrimary => simp [step]

/-- `RemoveKey` on an empty ring is a no-op without error (fixed code; the pinned code
indexed `keys[0]` and panicked — known_findings.json `fixed:` C17-empty-remove). -/
theorem C17_remove_empty_total (k : Key) : removeKey [] k = .ok [] := rfl

/-! ### Rotation -/

/-- Invariant of a rotation from `old` to `new`: every primary is `old` or `new`;
if somebody still uses `old`, everybody still has `old`; if somebody already uses `new`,
everybody has `new`. -/
def RotInv (old new : Key) (c : Cluster) : Prop :=
  (∀ r ∈ c, Inv r) ∧
  (∀ r ∈ c, primary r = some old ∨ primary r = some new) ∧
  ((∃ r ∈ c, primary r = some old) → ∀ r ∈ c, old ∈ r) ∧
  ((∃ r ∈ c, primary r = some new) → ∀ r ∈ c, new ∈ r)

theorem RotInv.canTalk {old new : Key} {c : Cluster} (h : RotInv old new c) : canTalk c := by
  intro s hs r hr k hk
  rcases h.2.1 s hs with ho | hn
  · have : k = old := by rw [ho] at hk; exact (Option.some.inj hk).symm
    subst this; exact h.2.2.1 ⟨s, hs, ho⟩ r hr
  · have : k = new := by rw [hn] at hk; exact (Option.some.inj hk).symm
    subst this; exact h.2.2.2 ⟨s, hs, hn⟩ r hr

theorem mem_modifyAt {c : Cluster} {i : Nat} {f : List Key → List Key} {r : List Key}
    (h : r ∈ modifyAt c i f) : r ∈ c ∨ ∃ r0 ∈ c, r = f r0 := by
  simp only [modifyAt, List.mem_mapIdx] at h
  obtain ⟨j, hj, rfl⟩ := h
  split
  · right; exact ⟨c[j], List.getElem_mem hj, rfl⟩
  · left; exact List.getElem_mem hj


theorem addKey_mono {ring r' : List Key} {k x : Key} (hs : addKey ring k = .ok r') (hx : x ∈ ring) :
    x ∈ r' := by
  unfold addKey at hs
  by_cases hv : validLen k = false
  · simp [hv] at hs
  · by_cases hk : k ∈ ring
    · simp [hv, hk] at hs; subst hs; exact hx
    · simp only [hv, hk, ↓reduceIte, Bool.false_eq_true] at hs
      cases hs
      rw [mem_install]
      by_cases e : x = (primary ring).getD k
      · left; exact e
      · right; exact ⟨by simp [hx], e⟩

theorem forall_modifyAt {c : Cluster} {i : Nat} {f : List Key → List Key} {Q : List Key → Prop}
    (h1 : ∀ r ∈ c, Q r) (h2 : ∀ r ∈ c, Q (f r)) : ∀ r ∈ modifyAt c i f, Q r := by
  intro r hr
  rcases mem_modifyAt hr with h | ⟨r0, h0, rfl⟩
  · exact h1 r h
  · exact h2 r0 h0

theorem primary_mem {r : List Key} {k : Key} (h : primary r = some k) : k ∈ r := by
  cases r with
  | nil => simp [primary] at h
  | cons p rest => simp [primary] at h; subst h; simp

theorem allHave_iff {c : Cluster} {k : Key} : allHave c k = true ↔ ∀ r ∈ c, k ∈ r := by
  simp [allHave]

theorem allPrimary_iff {c : Cluster} {k : Key} :
    allPrimary c k = true ↔ ∀ r ∈ c, primary r = some k := by
  simp [allPrimary]

/-- **rotation, one step.** Each guarded rotation step preserves the rotation invariant. -/
theorem rotStep_inv (old new : Key) (c : Cluster) (st : RotStep) (h : RotInv old new c) :
    RotInv old new (rotStep old new c st) := by
  obtain ⟨hinv, hprim, hold, hnew⟩ := h
  have hne : ∀ r ∈ c, ∃ p rest, r = p :: rest := by
    intro r hr
    cases r with
    | nil => rcases hprim [] hr with h | h <;> simp [primary] at h
    | cons p rest => exact ⟨p, rest, rfl⟩
  cases st with
  | install i =>
    simp only [rotStep]
    have fprim : ∀ r ∈ c, primary (okOr r (addKey r new)) = primary r := by
      intro r hr
      obtain ⟨p, rest, rfl⟩ := hne r hr
      have := addKey_head p rest new
      simp only [step] at this
      simp only [okOr, primary]
      split <;> simp_all
    have fmono : ∀ r ∈ c, ∀ x ∈ r, x ∈ okOr r (addKey r new) := by
      intro r _ x hx
      simp only [okOr]
      split
      · rename_i r' hs; exact addKey_mono hs hx
      · exact hx
    have finv : ∀ r ∈ c, Inv (okOr r (addKey r new)) := by
      intro r hr
      simp only [okOr]
      split
      · rename_i r' hs; exact addKey_inv (hinv r hr) hs
      · exact hinv r hr
    refine ⟨forall_modifyAt hinv finv, ?_, ?_, ?_⟩
    · exact forall_modifyAt hprim (fun r hr => by rw [fprim r hr]; exact hprim r hr)
    · rintro ⟨r', hr', hp'⟩
      have hex : ∃ r ∈ c, primary r = some old := by
        rcases mem_modifyAt hr' with h | ⟨r0, h0, rfl⟩
        · exact ⟨r', h, hp'⟩
        · exact ⟨r0, h0, by rw [← fprim r0 h0]; exact hp'⟩
      exact forall_modifyAt (hold hex) (fun r hr => fmono r hr old (hold hex r hr))
    · rintro ⟨r', hr', hp'⟩
      have hex : ∃ r ∈ c, primary r = some new := by
        rcases mem_modifyAt hr' with h | ⟨r0, h0, rfl⟩
        · exact ⟨r', h, hp'⟩
        · exact ⟨r0, h0, by rw [← fprim r0 h0]; exact hp'⟩
      exact forall_modifyAt (hnew hex) (fun r hr => fmono r hr new (hnew hex r hr))
  | use i =>
    simp only [rotStep]
    by_cases hg : allHave c new = true
    · simp only [hg, ↓reduceIte]
      have hall := allHave_iff.mp hg
      have feq : ∀ r ∈ c, okOr r (useKey r new) = install r new := by
        intro r hr; simp [okOr, useKey, hall r hr]
      have fmem : ∀ r ∈ c, ∀ x, x ∈ install r new ↔ x ∈ r := by
        intro r hr x
        rw [mem_install]
        constructor
        · rintro (rfl | ⟨hx, _⟩)
          · exact hall r hr
          · exact hx
        · intro hx
          by_cases e : x = new
          · left; exact e
          · right; exact ⟨hx, e⟩
      have hvalid : ∀ r ∈ c, validLen new = true := fun r hr => (hinv r hr).2 new (hall r hr)
      refine ⟨forall_modifyAt hinv (fun r hr => by rw [feq r hr]; exact install_inv (hinv r hr) (hvalid r hr)),
        forall_modifyAt hprim (fun r hr => by rw [feq r hr]; right; simp [install, primary]), ?_, ?_⟩
      · rintro ⟨r', hr', hp'⟩
        have hallold : ∀ r ∈ c, old ∈ r := by
          rcases mem_modifyAt hr' with h | ⟨r0, h0, rfl⟩
          · exact hold ⟨r', h, hp'⟩
          · rw [feq r0 h0] at hp'
            have : new = old := by simpa [install, primary] using hp'
            subst this; exact hall
        exact forall_modifyAt hallold
          (fun r hr => by rw [feq r hr]; exact (fmem r hr old).mpr (hallold r hr))
      · intro _
        exact forall_modifyAt hall (fun r hr => by rw [feq r hr]; exact (fmem r hr new).mpr (hall r hr))
    · simp only [hg, Bool.false_eq_true, ↓reduceIte]
      exact ⟨hinv, hprim, hold, hnew⟩
  | remove i =>
    simp only [rotStep]
    by_cases hg : allPrimary c new = true
    · simp only [hg, ↓reduceIte]
      have hall := allPrimary_iff.mp hg
      have fprim : ∀ r ∈ c, primary (okOr r (removeKey r old)) = some new := by
        intro r hr
        obtain ⟨p, rest, rfl⟩ := hne r hr
        have hp : p = new := by simpa [primary] using hall _ hr
        subst hp
        have := removeKey_head p rest old
        simp only [step] at this
        simp only [okOr, primary]
        split <;> simp_all
      have finv : ∀ r ∈ c, Inv (okOr r (removeKey r old)) := by
        intro r hr
        simp only [okOr]
        split
        · rename_i r' hs; exact removeKey_inv (hinv r hr) hs
        · exact hinv r hr
      refine ⟨forall_modifyAt hinv finv, forall_modifyAt hprim (fun r hr => Or.inr (fprim r hr)), ?_, ?_⟩
      · rintro ⟨r', hr', hp'⟩
        have heq : old = new := by
          rcases mem_modifyAt hr' with h | ⟨r0, h0, rfl⟩
          · have := hall r' h; rw [hp'] at this; exact Option.some.inj this
          · have := fprim r0 h0; rw [hp'] at this; exact Option.some.inj this
        subst heq
        exact forall_modifyAt (fun r hr => primary_mem (hall r hr))
          (fun r hr => primary_mem (fprim r hr))
      · intro _
        exact forall_modifyAt (fun r hr => primary_mem (hall r hr))
          (fun r hr => primary_mem (fprim r hr))
    · simp only [hg, Bool.false_eq_true, ↓reduceIte]
      exact ⟨hinv, hprim, hold, hnew⟩

/-- **rotation_safe.** For every cluster size, every starting cluster in which all nodes
use `old`, and every interleaving of install/use/remove steps that respects the phase
barriers, every sender's primary key is installed at every receiver after every step. -/
theorem C17_rotation_safe (old new : Key) (c : Cluster) (steps : List RotStep)
    (h : RotInv old new c) :
    canTalk (steps.foldl (rotStep old new) c) ∧ RotInv old new (steps.foldl (rotStep old new) c) := by
  induction steps generalizing c with
  | nil => exact ⟨h.canTalk, h⟩
  | cons st steps ih => exact ih _ (rotStep_inv old new c st h)

/-- every intermediate cluster of a rotation run (prefix closure): all prefixes can talk -/
theorem C17_rotation_safe_prefix (old new : Key) (c : Cluster) (steps : List RotStep)
    (h : RotInv old new c) (n : Nat) :
    canTalk ((steps.take n).foldl (rotStep old new) c) :=
  (C17_rotation_safe old new c (steps.take n) h).1

/-- a cluster whose nodes all hold exactly `[old]` satisfies the rotation invariant -/
theorem rotInv_init (old new : Key) (n : Nat) (hv : validLen old = true) :
    RotInv old new (List.replicate n [old]) := by
  refine ⟨?_, ?_, ?_, ?_⟩
  · intro r hr; rw [List.eq_of_mem_replicate hr]; exact ⟨by simp, by simpa using hv⟩
  · intro r hr; rw [List.eq_of_mem_replicate hr]; left; rfl
  · intro _ r hr; rw [List.eq_of_mem_replicate hr]; simp
  · rintro ⟨r, hr, hp⟩ r' hr'
    rw [List.eq_of_mem_replicate hr] at hp
    rw [List.eq_of_mem_replicate hr']
    have : old = new := by simpa [primary] using hp
    simp [this]

/-- non-vacuity: a concrete 3-node rotation run ends with every ring `[new]`. -/
example :
    let old : Key := List.replicate 16 1
    let new : Key := List.replicate 16 2
    let c : Cluster := List.replicate 3 [old]
    (List.foldl (rotStep old new) c
      [.install 2, .install 0, .install 1, .use 1, .use 0, .use 2, .remove 0, .remove 2, .remove 1])
      = List.replicate 3 [new] := by decide

end Swim.Keyring
