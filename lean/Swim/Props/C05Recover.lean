import Swim.Props.C05Cluster
import Swim.Props.Projection
import Swim.Props.C04Cluster
/-!
# C05: from every reachable state an accusation against a running member can be cleared

`C05_cluster_recoverable`: in every reachable state of the cluster model, for every node `y` that
holds a running member `x` as suspect or dead, there is a continuation of at most three protocol
steps - a state exchange, `x`'s refutation, its delivery - after which `y` lists `x` alive again.
Nothing else in the cluster has to cooperate and no assumption is made about incarnation counters
or addresses (they are invariants). Whether the protocol's random choices take such a path in
bounded time is the timing part, observed by the simulator (known finding: stable split).
-/
namespace Swim.Cluster
open Swim.Merge

theorem nodeAt_of_mem {w : World} (hnd : (w.nodes.map (·.cfg.self)).Nodup) {n : Node} (hn : n ∈ w.nodes) :
    nodeAt w n.cfg.self = some n := by
  unfold nodeAt
  cases hf : w.nodes.find? (·.cfg.self == n.cfg.self) with
  | none =>
    have := List.find?_eq_none.mp hf n hn
    simp at this
  | some m =>
    obtain ⟨hm, hname⟩ := find_actor hf
    rw [name_unique hnd hm hn hname]

theorem snapshot_step (w : World) (x : String) (n : Node) (h : nodeAt w x = some n) :
    (w.step (.snapshot x)).nodes = w.nodes ∧
    (w.step (.snapshot x)).pool = w.pool ++ n.recs.map (fun r => Msg.state (stateOfRec r)) := by
  have h' : w.nodes.find? (·.cfg.self == x) = some n := h
  simp [World.step, h']

theorem deliver_step (w : World) (x : String) (i : Nat) (env : Env) (m : Msg) (h : w.pool[i]? = some m) :
    w.step (.deliver x i env) = act w x (receive m env) (srcOf m) := by
  simp [World.step, h]

theorem act_pool (w : World) (x : String) (f : Node → Node × List Out) (src : Option AliveMsg) (n : Node)
    (h : nodeAt w x = some n) : (act w x f src).pool = w.pool ++ (f n).2.flatMap (emit (f n).1 src) := by
  have h' : w.nodes.find? (·.cfg.self == x) = some n := h
  simp [act, h']

theorem receive_cfg (m : Msg) (env : Env) (n : Node) : (receive m env n).1.cfg = n.cfg := by
  cases m with
  | alive a => exact alive_cfg _ _ _ _ _
  | suspect c => exact suspect_cfg _ _ _
  | dead c => exact dead_cfg _ _ _
  | state s => exact mergeOne_cfg _ _ _

theorem mem_index {α : Type} {l : List α} {a : α} (h : a ∈ l) : ∃ j : Nat, l[j]? = some a := by
  obtain ⟨j, hj, e⟩ := List.mem_iff_getElem.mp h
  exact ⟨j, by rw [List.getElem?_eq_getElem hj, e]⟩

theorem pool_index (pool : List Msg) (recs : List Rec) (j : Nat) (r : Rec) (h : recs[j]? = some r) :
    (pool ++ recs.map (fun r => Msg.state (stateOfRec r)))[pool.length + j]? = some (.state (stateOfRec r)) := by
  rw [List.getElem?_append_right (by omega)]
  simp [h]

/-- a newer alive claim of `x`, delivered to a node holding `x` as suspect or dead at `x`'s own address, is accepted -/
theorem override_at (y : Node) (a : AliveMsg) (env : Env) (r : Rec)
    (hne : a.node ≠ y.cfg.self) (hl : lookup y.recs a.node = some r) (hv : vsnBad a.vsn = false)
    (hdel : y.cfg.hasAliveDelegate = false) (hsame : r.addr = a.addr ∧ r.port = a.port) (hnewer : r.inc < a.inc) :
    ∃ r', lookup (aliveNode y a false false env).1.recs a.node = some r' ∧ r'.st = .alive :=
  let ⟨⟨r', h1, h2, _⟩, _⟩ := C05_accusation_overridden y a false false env r hne hl hv (by simp [hdel]) hsame hnewer
  ⟨r', h1, h2⟩

/-- what the invariant gives about an accusation `r` that `y` holds against `X` -/
theorem accusation_facts {w : World} {k : Nat} (hinv : GInv w k) {X y : Node} (hX : X ∈ w.nodes) (hy : y ∈ w.nodes)
    {me r : Rec} (hme : selfRec X = some me) (hr : r ∈ y.recs) (hrn : r.name = X.cfg.self)
    (hne : X.cfg.self ≠ y.cfg.self) :
    r.inc ≤ me.inc ∧ r.addr = me.addr ∧ r.port = me.port ∧ lookup y.recs X.cfg.self = some r := by
  obtain ⟨hu, _, _, _, hrg⟩ := hinv.2.1 y hy
  obtain ⟨X2, hX2, hn2, me2, hme2, hle, ha, hp⟩ := (hrg r hr (by rw [hrn]; exact hne)).2.1
  have : X2 = X := name_unique hinv.1 hX2 hX (by rw [hn2, hrn])
  subst this
  rw [hme] at hme2; cases hme2
  exact ⟨hle, ha.symm, hp.symm, by rw [← hrn]; exact lookup_of_mem hu hr⟩

/-- **the member's standing claim already beats the accusation:** a state exchange from `X` clears it. -/
theorem recover_standing (w : World) (k : Nat) (hinv : GInv w k) (X y : Node) (hX : X ∈ w.nodes) (hy : y ∈ w.nodes)
    (me r : Rec) (hme : selfRec X = some me) (hal : me.st = .alive) (hr : r ∈ y.recs) (hrn : r.name = X.cfg.self)
    (hne : X.cfg.self ≠ y.cfg.self) (hlt : r.inc < me.inc) (hv : vsnBad me.vsn = false)
    (hdel : y.cfg.hasAliveDelegate = false) (env : Env) :
    ∃ j, ∃ y', nodeAt (w.run [.snapshot X.cfg.self, .deliver y.cfg.self (w.pool.length + j) env]) y.cfg.self = some y' ∧
      ∃ r', lookup y'.recs X.cfg.self = some r' ∧ r'.st = .alive := by
  obtain ⟨_, ha, hp, hl⟩ := accusation_facts hinv hX hy hme hr hrn hne
  have hnX := nodeAt_of_mem hinv.1 hX
  have hny := nodeAt_of_mem hinv.1 hy
  have hmn : me.name = X.cfg.self := lookup_name hme
  obtain ⟨j, hj⟩ := mem_index (List.mem_of_find?_eq_some hme)
  obtain ⟨sn, sp⟩ := snapshot_step w X.cfg.self X hnX
  refine ⟨j, ?_⟩
  simp only [World.run, List.foldl_cons, List.foldl_nil]
  have hpi : (w.step (.snapshot X.cfg.self)).pool[w.pool.length + j]? = some (.state (stateOfRec me)) := by
    rw [sp]; exact pool_index _ _ _ _ hj
  have hny1 : nodeAt (w.step (.snapshot X.cfg.self)) y.cfg.self = some y := by
    unfold nodeAt; rw [sn]; exact hny
  rw [deliver_step _ _ _ _ _ hpi]
  have hst : (stateOfRec me).st = .alive := hal
  rw [receive_state_alive _ env hst]
  obtain ⟨an, _⟩ := act_nodeAt (w.step (.snapshot X.cfg.self)) y.cfg.self y.cfg.self
    (fun n => aliveNode n (aliveOfState (stateOfRec me)) false false env) (srcOf (.state (stateOfRec me)))
    (fun n => alive_cfg n _ false false env)
  rw [an, hny1]
  simp only [↓reduceIte, Option.map_some]
  refine ⟨_, rfl, ?_⟩
  have hnode : (aliveOfState (stateOfRec me)).node = X.cfg.self := hmn
  have := override_at y (aliveOfState (stateOfRec me)) env r (by rw [hnode]; exact hne) (by rw [hnode]; exact hl) hv hdel
    ⟨ha, hp⟩ hlt
  rw [hnode] at this
  exact this

theorem act_eq (w : World) (x : String) (f : Node → Node × List Out) (src : Option AliveMsg) (n : Node)
    (h : nodeAt w x = some n) (hcfg : (f n).1.cfg = n.cfg) (y : String) :
    (act w x f src).pool = w.pool ++ (f n).2.flatMap (emit (f n).1 src) ∧
    nodeAt (act w x f src) y = if x = y then some (f n).1 else nodeAt w y := by
  refine ⟨act_pool w x f src n h, ?_⟩
  have h' : w.nodes.find? (·.cfg.self == x) = some n := h
  have hname : n.cfg.self = x := (find_actor h').2
  unfold act nodeAt
  rw [h']
  simp only
  rw [find_map_replace w.nodes x y (f n).1 (by rw [hcfg, hname])]
  by_cases hxy : x = y
  · subst hxy; simp [h']
  · simp [hxy]

/-- **the accusation is at the member's current incarnation:** the holder's state exchange makes the
member refute, and the refutation clears the accusation at the holder. -/
theorem recover_refute (w : World) (k : Nat) (hinv : GInv w k) (hk : k + 1 < u32) (X y : Node)
    (hX : X ∈ w.nodes) (hy : y ∈ w.nodes)
    (me r : Rec) (hme : selfRec X = some me) (hal : me.st = .alive) (hrun : X.hasLeft = false)
    (hr : r ∈ y.recs) (hrn : r.name = X.cfg.self) (hne : X.cfg.self ≠ y.cfg.self) (heq : r.inc = me.inc)
    (hacc : r.st = .suspect ∨ r.st = .dead) (hv : vsnBad me.vsn = false)
    (hdel : y.cfg.hasAliveDelegate = false) (envX envy : Env) :
    ∃ j, ∃ y', nodeAt (w.run [.snapshot y.cfg.self, .deliver X.cfg.self (w.pool.length + j) envX,
        .deliver y.cfg.self (w.pool.length + y.recs.length) envy]) y.cfg.self = some y' ∧
      ∃ r', lookup y'.recs X.cfg.self = some r' ∧ r'.st = .alive := by
  obtain ⟨_, ha, hp, hl⟩ := accusation_facts hinv hX hy hme hr hrn hne
  obtain ⟨_, hsi, hsf, hst, _⟩ := hinv.2.1 X hX
  obtain ⟨f1, f2, f3, f4, f5, _⟩ := hsf me hme
  have hnX := nodeAt_of_mem hinv.1 hX
  have hny := nodeAt_of_mem hinv.1 hy
  have hmn : me.name = X.cfg.self := lookup_name hme
  obtain ⟨j, hj⟩ := mem_index hr
  obtain ⟨sn, sp⟩ := snapshot_step w y.cfg.self y hny
  refine ⟨j, ?_⟩
  simp only [World.run, List.foldl_cons, List.foldl_nil]
  generalize hw1 : w.step (.snapshot y.cfg.self) = w1 at sn sp
  have hpi : w1.pool[w.pool.length + j]? = some (.state (stateOfRec r)) := by
    rw [sp]; exact pool_index _ _ _ _ hj
  have hnX1 : nodeAt w1 X.cfg.self = some X := by unfold nodeAt; rw [sn]; exact hnX
  have hny1 : nodeAt w1 y.cfg.self = some y := by unfold nodeAt; rw [sn]; exact hny
  rw [deliver_step _ _ _ _ _ hpi]
  -- X refutes
  have hrs : (stateOfRec r).st = .suspect ∨ (stateOfRec r).st = .dead := hacc
  have hnt : X.timers.find? (·.node == X.cfg.self) = none := by
    apply List.find?_eq_none.mpr
    intro t ht
    simp only [beq_iff_eq]
    exact hst t ht
  have hme' : lookup X.recs X.cfg.self = some me := hme
  have hrec : receive (.state (stateOfRec r)) envX X = refute X me r.inc := by
    rw [receive_state_susp _ envX X hrs]
    have h1 : ¬ r.inc < me.inc := by omega
    unfold suspectNode
    simp only [stateOfRec, hrn, hme', h1, ↓reduceIte, hnt, hal, bne_self_eq_false, Bool.false_eq_true, hmn,
      beq_self_eq_true]
  obtain ⟨r1, r2, r3, r4, r5, r6⟩ := refute_sum X me r.inc (by omega) (by omega)
  obtain ⟨ap, an⟩ := act_eq w1 X.cfg.self (receive (.state (stateOfRec r)) envX) (srcOf (.state (stateOfRec r))) X hnX1
    (receive_cfg _ _ _) y.cfg.self
  generalize hw2 : act w1 X.cfg.self (receive (.state (stateOfRec r)) envX) (srcOf (.state (stateOfRec r))) = w2 at ap an
  simp only [hne, ↓reduceIte] at an
  rw [hny1] at an
  -- the refutation is the last claim in the pool
  have hR : lookup (refute X me r.inc).1.recs me.name = some { me with inc := X.selfInc + 1 } := by
    rw [r5]
    have := lookup_setRec_self X.recs { me with inc := X.selfInc + 1 } (by simp only [hmn, hme']; rfl)
    simpa using this
  have hpool2 : w2.pool = w1.pool ++ [.alive (aliveOfRec { me with inc := X.selfInc + 1 })] := by
    rw [ap, hrec, r6]
    simp only [List.flatMap_cons, List.flatMap_nil, List.append_nil]
    rw [emit_refute _ _ me.name _ _ hR]
  have hlen : w1.pool.length = w.pool.length + y.recs.length := by rw [sp]; simp
  have hpi2 : w2.pool[w.pool.length + y.recs.length]? = some (.alive (aliveOfRec { me with inc := X.selfInc + 1 })) := by
    rw [hpool2, ← hlen, List.getElem?_append_right (Nat.le_refl _)]
    simp
  rw [deliver_step _ _ _ _ _ hpi2]
  obtain ⟨_, an3⟩ := act_eq w2 y.cfg.self (receive (.alive (aliveOfRec { me with inc := X.selfInc + 1 })) envy)
    (srcOf (.alive (aliveOfRec { me with inc := X.selfInc + 1 }))) y an (receive_cfg _ _ _) y.cfg.self
  rw [an3]
  simp only [↓reduceIte]
  refine ⟨_, rfl, ?_⟩
  have hnode : (aliveOfRec { me with inc := X.selfInc + 1 }).node = X.cfg.self := hmn
  have := override_at y (aliveOfRec { me with inc := X.selfInc + 1 }) envy r (by rw [hnode]; exact hne)
    (by rw [hnode]; exact hl) hv hdel ⟨ha, hp⟩ (by show r.inc < X.selfInc + 1; omega)
  rw [hnode] at this
  exact this

/-- **C05_cluster_recoverable.** In every reachable state of the cluster model (any history from a fresh
cluster: failed probes, timeouts, gossip in any order with loss and duplication, joins, updates,
leaves): if a node `y` holds a running member `X` (own record alive, Leave not called) as suspect or
dead, there is a continuation of at most three steps - a state exchange, `X`'s refutation where one
is needed, and its delivery to `y` - after which `y` holds `X` alive again. Conditions on `y`'s
admission filters only: `X` announces sane protocol versions and `y` has no alive delegate. -/
theorem C05_cluster_recoverable (w0 : World) (ops : List COp) (hfresh : Fresh w0) (hlen : ops.length + 1 < u32)
    (X y : Node) (hX : X ∈ (w0.run ops).nodes) (hy : y ∈ (w0.run ops).nodes)
    (me r : Rec) (hme : selfRec X = some me) (hal : me.st = .alive) (hrun : X.hasLeft = false)
    (hr : r ∈ y.recs) (hrn : r.name = X.cfg.self) (hne : X.cfg.self ≠ y.cfg.self)
    (hacc : r.st = .suspect ∨ r.st = .dead) (hv : vsnBad me.vsn = false) (hdel : y.cfg.hasAliveDelegate = false) :
    ∃ cont : List COp, cont.length ≤ 3 ∧ ∃ y', nodeAt ((w0.run ops).run cont) y.cfg.self = some y' ∧
      ∃ r', lookup y'.recs X.cfg.self = some r' ∧ r'.st = .alive := by
  have hinv := grun_inv ops w0 0 (gfresh_inv w0 hfresh) (by omega)
  simp only [Nat.zero_add] at hinv
  have env : Env := { now := 0, ipAllowed := true, delegateOk := true, offset := 0 }
  obtain ⟨hle, _, _, _⟩ := accusation_facts hinv hX hy hme hr hrn hne
  by_cases hlt : r.inc < me.inc
  · obtain ⟨j, y', h1, h2⟩ := recover_standing _ _ hinv X y hX hy me r hme hal hr hrn hne hlt hv hdel env
    exact ⟨_, by simp, y', h1, h2⟩
  · obtain ⟨j, y', h1, h2⟩ := recover_refute _ _ hinv (by omega) X y hX hy me r hme hal hrun hr hrn hne (by omega) hacc hv hdel env env
    exact ⟨_, by simp, y', h1, h2⟩

/-! ### Non-vacuity: a reachable state in which `b` holds the running `a` as suspect -/

def accusedWorld : World :=
  demoWorld.run [ .announce "a" 1 7946 10 [1, 5, 2, 0, 0, 0] (demoEnv 1), .announce "b" 2 7946 20 [1, 5, 2, 0, 0, 0] (demoEnv 2),
    .deliver "b" 0 (demoEnv 3), .deliver "a" 1 (demoEnv 4), .probeFail "b" "a" (demoEnv 5) ]

/-- in `accusedWorld`, `a` is running with its own record alive at incarnation 1 and `b` holds `a` as
suspect at incarnation 1: the hypotheses of `C05_cluster_recoverable` are met with X = a, y = b -/
example : accusedWorld.nodes.map (fun n => (n.cfg.self, n.recs.map (fun r => (r.name, r.inc, r.st)))) =
      [("a", [("a", 1, .alive), ("b", 1, .alive)]), ("b", [("b", 1, .alive), ("a", 1, .suspect)]), ("c", [])] ∧
    accusedWorld.nodes.all (fun n => !n.hasLeft && !n.cfg.hasAliveDelegate && n.recs.all (fun r => !vsnBad r.vsn)) = true := by
  decide

end Swim.Cluster
