import Swim.Props.C02Cluster
import Swim.Props.C05
/-!
# C05 at cluster level: no accusation can stick against a running member

Logic part of "false accusations are all refuted; none sticks", for every history of the cluster
model: every accusation anybody holds is bounded by the accused member's own incarnation
(`C02_cluster_bounded`), the accused refutes it when it hears of it (`C02_cluster_defends`), and
the refutation - or any newer alive claim of the member - clears the accusation wherever it is
delivered (`C05_cluster_override`, below; the address condition of the single-node theorem is an
invariant of the cluster). Whether and when those deliveries happen depends on random target
selection and timing; that part is observed by the simulator.
-/
namespace Swim.Cluster
open Swim.Merge

/-- **C05_cluster_override.** In every reachable cluster state: a node `y` that holds member `x` as
suspect or dead and is handed any alive claim about `x` in flight with a newer incarnation - `x`'s
refutation, a later metadata update, somebody's re-gossip of either - lists `x` alive again at that
incarnation and drops the suspicion timer, provided `y`'s admission filters let the claim through
(sane protocol versions, alive delegate not vetoing). That the claim carries the address `y` has on
record is not an assumption: it is an invariant. -/
theorem C05_cluster_override (w0 : World) (ops : List COp) (hfresh : Fresh w0) (hlen : ops.length < u32)
    (y : Node) (hy : y ∈ (w0.run ops).nodes) (r : Rec) (hr : r ∈ y.recs) (hne : r.name ≠ y.cfg.self)
    (a : AliveMsg) (ha : Msg.alive a ∈ (w0.run ops).pool) (hnode : a.node = r.name) (hnewer : r.inc < a.inc)
    (env : Env) (hv : vsnBad a.vsn = false)
    (hdel : (y.cfg.hasAliveDelegate && (a.vsn.length < 6 || !env.delegateOk)) = false) :
    (∃ r', lookup (receive (.alive a) env y).1.recs r.name = some r' ∧ r'.st = .alive ∧ r'.inc = a.inc) ∧
    (receive (.alive a) env y).1.timers = delTimer y.timers r.name := by
  have h := grun_inv ops w0 0 (gfresh_inv w0 hfresh) (by omega)
  obtain ⟨hu, _, _, _, hrg⟩ := h.2.1 y hy
  have hga : GoodAliveG (w0.run ops) a := h.2.2 _ ha
  have hk1 := (hrg r hr hne).2.1
  have hk2 := hga.2
  -- both addresses are the subject's own
  obtain ⟨X, hX, hn, me, hme, _, a1, p1⟩ := hk1
  obtain ⟨X2, hX2, hn2, me2, hme2, _, a2, p2⟩ := hk2
  have : X2 = X := name_unique h.1 hX2 hX (by rw [hn, hn2, hnode])
  subst this
  rw [hme] at hme2; cases hme2
  have hl : lookup y.recs a.node = some r := by rw [hnode]; exact lookup_of_mem hu hr
  have := C05_accusation_overridden y a false false env r (by rw [hnode]; exact hne) hl hv hdel
    ⟨by rw [← a1, ← a2], by rw [← p1, ← p2]⟩ hnewer
  rw [hnode] at this
  exact this

/-- **C05_cluster_state_override.** The same when the newer alive claim arrives as an entry of a state
list (push/pull) instead of a gossip message. -/
theorem C05_cluster_state_override (w0 : World) (ops : List COp) (hfresh : Fresh w0) (hlen : ops.length < u32)
    (y : Node) (hy : y ∈ (w0.run ops).nodes) (r : Rec) (hr : r ∈ y.recs) (hne : r.name ≠ y.cfg.self)
    (s : PushState) (hs : Msg.state s ∈ (w0.run ops).pool) (hst : s.st = .alive) (hnode : s.name = r.name)
    (hnewer : r.inc < s.inc) (env : Env) (hv : vsnBad s.vsn = false)
    (hdel : (y.cfg.hasAliveDelegate && (s.vsn.length < 6 || !env.delegateOk)) = false) :
    (∃ r', lookup (receive (.state s) env y).1.recs r.name = some r' ∧ r'.st = .alive ∧ r'.inc = s.inc) ∧
    (receive (.state s) env y).1.timers = delTimer y.timers r.name := by
  have h := grun_inv ops w0 0 (gfresh_inv w0 hfresh) (by omega)
  obtain ⟨hu, _, _, _, hrg⟩ := h.2.1 y hy
  have hb := h.2.2 _ hs
  have hk1 := (hrg r hr hne).2.1
  have hk2 := hb.1
  obtain ⟨X, hX, hn, me, hme, _, a1, p1⟩ := hk1
  obtain ⟨X2, hX2, hn2, me2, hme2, _, a2, p2⟩ := hk2
  have : X2 = X := name_unique h.1 hX2 hX (by rw [hn, hn2, hnode])
  subst this
  rw [hme] at hme2; cases hme2
  have hl : lookup y.recs (aliveOfState s).node = some r := by
    show lookup y.recs s.name = some r
    rw [hnode]; exact lookup_of_mem hu hr
  have := C05_accusation_overridden y (aliveOfState s) false false env r
    (by show s.name ≠ y.cfg.self; rw [hnode]; exact hne) hl hv hdel
    ⟨by show r.addr = s.addr; rw [← a1, ← a2], by show r.port = s.port; rw [← p1, ← p2]⟩ hnewer
  rw [receive_state_alive s env hst]
  have e : (aliveOfState s).node = r.name := hnode
  rw [e] at this
  exact this

end Swim.Cluster
