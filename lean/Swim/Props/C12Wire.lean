import Swim.Props.C12
import Swim.Props.Msgpack
/-!
# C12, end to end: a wire struct through the whole packet pipeline

`C12_packet_roundtrip` treats the message body as opaque bytes and `C12_msgpack_roundtrip` the
body alone; composed, the receiver recovers the *fields* the sender put into the struct.
-/
namespace Swim.Codec
open Swim.Msgpack

/-- what the receiver does with an unwrapped packet payload: split the type byte off, decode the struct -/
def readStruct (k : Kind) (m : Bytes) : Option (UInt8 × List Val) :=
  match m with
  | t :: body => (decStruct (schema k) body).map fun x => (t, x.1)
  | [] => none

/-- **struct_over_packet.** For every wire struct, every well-formed field list, every message type byte
a node emits, label, key, nonce, compression decision, checksum setting and encryption version: the
receiver reads back the type byte and exactly the fields that were sent. -/
theorem C12_struct_over_packet (P : Prims) (c : SendCfg) (useComp : Bool) (t : UInt8) (k : Kind) (vs : List Val)
    (ht : t.toNat ≠ Gen.c_hasCrcMsg ∧ t.toNat ≠ Gen.c_compressMsg ∧ t.toNat ≠ Gen.c_hasLabelMsg)
    (hlabel : c.label.length ≤ 255) (hnonce : c.nonce.length = 12) (hwf : WF (schema k) vs) :
    (recvPacket P c.label c.key (sendPacket P c useComp (t :: encStruct (schema k) vs))).bind (readStruct k)
      = some (t, vs) := by
  rw [C12_packet_roundtrip P c useComp t _ ht hlabel hnonce]
  have h := C12_msgpack_roundtrip k vs [] hwf
  simp only [List.append_nil] at h
  simp [readStruct, h]

/-- **C12 (alive messages, packet path).** The port of an alive message is recovered unchanged by every
receiver that speaks protocol version 2 or later - the only rewriting is the documented one: a message
without a port, or any message at a receiver below version 2, gets the receiver's configured port. -/
theorem C12_alive_port_recovered (bindPort proto port : Nat) (hp : 2 ≤ proto) (h0 : port ≠ 0) :
    alivePort bindPort proto port = port := by
  unfold alivePort
  have : ¬ proto < 2 := by omega
  simp [this, h0]

theorem C12_alive_port_masked (bindPort proto port : Nat) (h : proto < 2 ∨ port = 0) :
    alivePort bindPort proto port = bindPort := by
  unfold alivePort
  rcases h with h | h <;> simp [h]

/-- the packet path and the stream path (`readRemoteState`, `normState`) apply the same rule -/
theorem C12_alive_port_same_rule_as_stream (bindPort proto p : Nat) (a i m n st v : Val) :
    normState bindPort (decide (proto < 2)) [a, i, m, n, .uint p, st, v] =
      [a, i, m, n, .uint (alivePort bindPort proto p), st, v] := by
  simp [normState, alivePort]

end Swim.Codec
