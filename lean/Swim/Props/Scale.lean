import Swim.Model.Scale
/-!
# The logarithmic scale functions (retransmit limit, push/pull interval, suspicion timeout)
-/
namespace Swim.Scale

theorem digits_zero : digits 0 = 0 := by simp [digits]

theorem digits_succ (n : Nat) : digits (n + 1) = 1 + digits ((n + 1) / 10) := by
  rw [digits]

theorem digits_pos (n : Nat) (h : 0 < n) : digits n = 1 + digits (n / 10) := by
  cases n with
  | zero => omega
  | succ k => exact digits_succ k

/-- `digits n` is the number of decimal digits: `10^(d-1) ≤ n < 10^d` -/
theorem digits_spec (n : Nat) : n < 10 ^ digits n ∧ (0 < n → 10 ^ (digits n - 1) ≤ n) := by
  induction n using Nat.strongRecOn with
  | _ n ih =>
    by_cases h0 : n = 0
    · subst h0; simp [digits_zero]
    · have hpos : 0 < n := Nat.pos_of_ne_zero h0
      have hd := digits_pos n hpos
      have ihq := ih (n / 10) (by omega)
      rw [hd]
      constructor
      · have : n / 10 < 10 ^ digits (n / 10) := ihq.1
        have e : 10 ^ (1 + digits (n / 10)) = 10 * 10 ^ digits (n / 10) := by rw [Nat.pow_add]
        rw [e]; omega
      · intro _
        simp only [Nat.add_sub_cancel_left]
        by_cases hq : n / 10 = 0
        · simp [hq, digits_zero]; omega
        · have hq' : 0 < n / 10 := Nat.pos_of_ne_zero hq
          have h2 := ihq.2 hq'
          have hdq := digits_pos (n / 10) hq'
          have e : 10 ^ digits (n / 10) = 10 * 10 ^ (digits (n / 10) - 1) := by
            rw [hdq]; simp [Nat.pow_add]
          rw [e]; omega

theorem digits_mono {a b : Nat} (h : a ≤ b) : digits a ≤ digits b := by
  induction b using Nat.strongRecOn generalizing a with
  | _ b ih =>
    by_cases ha : a = 0
    · subst ha; simp [digits_zero]
    · have hap : 0 < a := Nat.pos_of_ne_zero ha
      have hbp : 0 < b := by omega
      rw [digits_pos a hap, digits_pos b hbp]
      have := ih (b / 10) (by omega) (a := a / 10) (Nat.div_le_div_right h)
      omega

/-- **retransmit limit**: `mult` transmissions per decimal digit of the cluster size, monotone in the size,
at least `mult` as soon as there is one node, at most `mult * d` for a cluster below `10^d` nodes -/
theorem retransmitLimit_mono (mult : Nat) {a b : Nat} (h : a ≤ b) :
    retransmitLimit mult a ≤ retransmitLimit mult b :=
  Nat.mul_le_mul_left _ (digits_mono h)

theorem retransmitLimit_pos (mult n : Nat) (h : 0 < n) : mult ≤ retransmitLimit mult n := by
  unfold retransmitLimit
  rw [digits_pos n h]
  calc mult = mult * 1 := by simp
    _ ≤ mult * (1 + digits (n / 10)) := Nat.mul_le_mul_left _ (by omega)

theorem retransmitLimit_bound (mult n d : Nat) (h : n < 10 ^ d) : retransmitLimit mult n ≤ mult * d := by
  apply Nat.mul_le_mul_left
  by_cases h0 : n = 0
  · subst h0; simp [digits_zero]
  · have hs := (digits_spec n).2 (Nat.pos_of_ne_zero h0)
    by_cases hd : digits n ≤ d
    · exact hd
    · exfalso
      have : 10 ^ d ≤ 10 ^ (digits n - 1) := Nat.pow_le_pow_right (by decide) (by omega)
      omega

example : retransmitLimit 4 999 = 12 ∧ retransmitLimit 4 1000 = 16 ∧ retransmitLimit 3 0 = 0 := by
  simp [retransmitLimit, digits]

theorem clog2_le_one (n : Nat) (h : n ≤ 1) : clog2 n = 0 := by
  rw [clog2]; simp [h]

theorem clog2_gt_one (n : Nat) (h : 1 < n) : clog2 n = 1 + clog2 ((n + 1) / 2) := by
  rw [clog2]; simp [show ¬ n ≤ 1 by omega]

/-- `clog2 n` is the least exponent whose power of two reaches `n` -/
theorem clog2_spec (n : Nat) : n ≤ 2 ^ clog2 n ∧ (1 < n → 2 ^ (clog2 n - 1) < n) := by
  induction n using Nat.strongRecOn with
  | _ n ih =>
    by_cases h1 : n ≤ 1
    · rw [clog2_le_one n h1]; constructor <;> omega
    · have hn : 1 < n := by omega
      have ihq := ih ((n + 1) / 2) (by omega)
      rw [clog2_gt_one n hn]
      constructor
      · have e : 2 ^ (1 + clog2 ((n + 1) / 2)) = 2 * 2 ^ clog2 ((n + 1) / 2) := by rw [Nat.pow_add]
        rw [e]; omega
      · intro _
        simp only [Nat.add_sub_cancel_left]
        by_cases hq : (n + 1) / 2 ≤ 1
        · rw [clog2_le_one _ hq]; omega
        · have h2 := ihq.2 (by omega)
          have e : 2 ^ clog2 ((n + 1) / 2) = 2 * 2 ^ (clog2 ((n + 1) / 2) - 1) := by
            rw [clog2_gt_one _ (by omega)]; simp [Nat.pow_add]
          rw [e]; omega

theorem clog2_mono {a b : Nat} (h : a ≤ b) : clog2 a ≤ clog2 b := by
  induction b using Nat.strongRecOn generalizing a with
  | _ b ih =>
    by_cases ha : a ≤ 1
    · rw [clog2_le_one a ha]; omega
    · rw [clog2_gt_one a (by omega), clog2_gt_one b (by omega)]
      have := ih ((b + 1) / 2) (by omega) (a := (a + 1) / 2) (by omega)
      omega

/-- **push/pull scaling**: the interval is multiplied by 1 up to 32 nodes and by one more for every
doubling beyond (`32·2^(m-2) < n ≤ 32·2^(m-1)` gives multiplier `m`); monotone in the cluster size -/
theorem pushPullMult_spec (n : Nat) (h : 32 < n) :
    2 ≤ pushPullMult n ∧ 2 ^ (pushPullMult n + 3) < n ∧ n ≤ 2 ^ (pushPullMult n + 4) := by
  have hs := clog2_spec n
  have h6 : 6 ≤ clog2 n := by
    by_cases hc : 6 ≤ clog2 n
    · exact hc
    · exfalso
      have : 2 ^ clog2 n ≤ 2 ^ 5 := Nat.pow_le_pow_right (by decide) (by omega)
      have := hs.1
      omega
  unfold pushPullMult
  simp only [show ¬ n ≤ 32 by omega, if_false]
  refine ⟨by omega, ?_, ?_⟩
  · have := hs.2 (by omega)
    have e : clog2 n - 4 + 3 = clog2 n - 1 := by omega
    rw [e]; exact this
  · have e : clog2 n - 4 + 4 = clog2 n := by omega
    rw [e]; exact hs.1

theorem pushPullMult_mono {a b : Nat} (h : a ≤ b) : pushPullMult a ≤ pushPullMult b := by
  unfold pushPullMult
  by_cases ha : a ≤ 32
  · simp only [ha, if_true]
    by_cases hb : b ≤ 32
    · simp [hb]
    · simp only [hb, if_false]
      have := (pushPullMult_spec b (by omega)).1
      unfold pushPullMult at this
      simp only [hb, if_false] at this
      omega
  · have hb : ¬ b ≤ 32 := by omega
    simp only [ha, hb, if_false]
    have := clog2_mono h
    omega

example : pushPullMult 32 = 1 ∧ pushPullMult 33 = 2 ∧ pushPullMult 64 = 2 ∧ pushPullMult 65 = 3 ∧ pushPullMult 1000 = 6 := by
  simp [pushPullMult, clog2]

/-- **suspicion timeout**: never below `mult` probe intervals, whatever the cluster size, and monotone in it -/
theorem suspScale_ge (n : Nat) : 1000 ≤ suspScale n := Nat.le_max_left _ _

theorem suspicionTimeout_ge (mult n interval : Nat) : mult * interval ≤ suspicionTimeout mult n interval := by
  unfold suspicionTimeout
  have h := suspScale_ge n
  have : mult * interval * 1000 ≤ mult * suspScale n * interval := by
    calc mult * interval * 1000 = mult * 1000 * interval := by
          rw [Nat.mul_assoc, Nat.mul_comm interval 1000, ← Nat.mul_assoc]
      _ ≤ mult * suspScale n * interval := Nat.mul_le_mul_right _ (Nat.mul_le_mul_left _ h)
  exact (Nat.le_div_iff_mul_le (by decide)).mpr this

theorem suspScale_mono {a b : Nat} (h : a ≤ b) : suspScale a ≤ suspScale b := by
  unfold suspScale flog10x1000
  have hp : (max 1 a) ^ 1000 ≤ (max 1 b) ^ 1000 := Nat.pow_le_pow_left (by omega) _
  have := digits_mono hp
  omega

theorem suspicionTimeout_mono (mult interval : Nat) {a b : Nat} (h : a ≤ b) :
    suspicionTimeout mult a interval ≤ suspicionTimeout mult b interval := by
  unfold suspicionTimeout
  exact Nat.div_le_div_right (Nat.mul_le_mul_right _ (Nat.mul_le_mul_left _ (suspScale_mono h)))

end Swim.Scale
