import Swim.Model.Probe
import Swim.Props.C06
/-!
# C03  A crashed member is removed by every live node within a bounded time
(the logic part: the probe schedule; the timing part is observed by the simulator)
-/
namespace Swim.Probe

/-- **probe_target_ok.** Whatever the list, the cursor, the shuffle and the fuel, the member handed
to `probeNode` is never the local node and never a dead or departed member. -/
theorem C03_probe_target_ok (self : String) (reorder : List PNode → List PNode) :
    ∀ (fuel numCheck : Nat) (c : Cursor) (c' : Cursor) (t : PNode),
      probeLoop self reorder fuel numCheck c = (c', some t) → t.name ≠ self ∧ t.gone = false := by
  intro fuel
  induction fuel with
  | zero => intro nc c c' t h; simp [probeLoop] at h
  | succ n ih =>
    intro nc c c' t h
    simp only [probeLoop] at h
    by_cases h1 : nc ≥ c.nodes.length
    · simp [h1] at h
    · simp only [h1, ↓reduceIte] at h
      by_cases h2 : c.idx ≥ c.nodes.length
      · simp only [h2, ↓reduceIte] at h
        exact ih _ _ _ _ h
      · simp only [h2, ↓reduceIte] at h
        cases hn : c.nodes[c.idx]? with
        | none => simp [hn] at h
        | some x =>
          simp only [hn] at h
          by_cases he : eligible self x = true
          · simp only [he, ↓reduceIte, Prod.mk.injEq, Option.some.injEq] at h
            obtain ⟨_, rfl⟩ := h
            simp only [eligible, Bool.and_eq_true, bne_iff_ne, ne_eq, Bool.not_eq_eq_eq_not, Bool.not_true] at he
            exact he
          · simp only [he, Bool.false_eq_true, ↓reduceIte] at h
            exact ih _ _ _ _ h

/-- the target is taken from the list being walked or from its reshuffled successor -/
theorem C03_probe_advances (self : String) (reorder : List PNode → List PNode) (c : Cursor) (n : PNode)
    (hidx : c.idx < c.nodes.length) (hn : c.nodes[c.idx]? = some n) (he : eligible self n = true)
    (hlen : 0 < c.nodes.length) :
    probe self reorder c = ({ c with idx := c.idx + 1 }, some n) := by
  unfold probe
  have : 2 * c.nodes.length + 2 = (2 * c.nodes.length + 1) + 1 := by omega
  rw [this]
  simp only [probeLoop]
  have h1 : ¬ 0 ≥ c.nodes.length := by omega
  have h2 : ¬ c.idx ≥ c.nodes.length := by omega
  simp [h1, h2, hn, he]

/-- the eligible members from position `i` on, in list order -/
def remaining (self : String) (nodes : List PNode) (i : Nat) : List PNode := (nodes.drop i).filter (eligible self)

/-- skipping ineligible entries: if the entry under the cursor is not eligible and the walk has
budget left, the probe behaves as from the next position (with one more check counted) -/
theorem probeLoop_skip (self : String) (reorder : List PNode → List PNode) (fuel nc : Nat) (c : Cursor) (n : PNode)
    (h1 : nc < c.nodes.length) (h2 : c.idx < c.nodes.length) (hn : c.nodes[c.idx]? = some n)
    (he : eligible self n = false) :
    probeLoop self reorder (fuel + 1) nc c = probeLoop self reorder fuel (nc + 1) { c with idx := c.idx + 1 } := by
  simp only [probeLoop]
  have a : ¬ nc ≥ c.nodes.length := by omega
  have b : ¬ c.idx ≥ c.nodes.length := by omega
  simp [a, b, hn, he]

/-- **pass_exact (one step).** While membership does not change and before the wrap-around, a probe
returns the next eligible member at or after the cursor - provided the number of entries skipped on
the way stays below the list length (always the case while at least one eligible entry remains in
a list that contains the local node). Iterating this lemma from index 0 visits every eligible peer
exactly once per pass, in list order. -/
theorem C03_pass_step (self : String) (reorder : List PNode → List PNode) :
    ∀ (k : Nat) (fuel nc : Nat) (c : Cursor) (t : PNode) (rest : List PNode),
      remaining self c.nodes c.idx = t :: rest →
      -- k ineligible entries stand between the cursor and t
      (∀ j, j < k → ∃ x, c.nodes[c.idx + j]? = some x ∧ eligible self x = false) →
      c.nodes[c.idx + k]? = some t → nc + k < c.nodes.length → k < fuel →
      probeLoop self reorder fuel nc c = ({ c with idx := c.idx + k + 1 }, some t) := by
  intro k
  induction k with
  | zero =>
    intro fuel nc c t rest hrem _ ht hnc hf
    cases fuel with
    | zero => omega
    | succ f =>
      simp only [probeLoop]
      have a : ¬ nc ≥ c.nodes.length := by omega
      have hlt : c.idx < c.nodes.length := by
        simp only [Nat.add_zero] at ht
        rcases Nat.lt_or_ge c.idx c.nodes.length with hh | hh
        · exact hh
        · have : c.nodes[c.idx]? = none := List.getElem?_eq_none hh
          rw [this] at ht; cases ht
      have b : ¬ c.idx ≥ c.nodes.length := by omega
      have hel : eligible self t = true := by
        have : t ∈ remaining self c.nodes c.idx := by rw [hrem]; simp
        simp only [remaining, List.mem_filter] at this
        exact this.2
      simp only [Nat.add_zero] at ht
      simp [a, b, ht, hel]
  | succ k ih =>
    intro fuel nc c t rest hrem hskip ht hnc hf
    cases fuel with
    | zero => omega
    | succ f =>
      obtain ⟨x, hx, hxe⟩ := hskip 0 (by omega)
      simp only [Nat.add_zero] at hx
      have hlt : c.idx < c.nodes.length := by
        rcases Nat.lt_or_ge c.idx c.nodes.length with hh | hh
        · exact hh
        · have : c.nodes[c.idx]? = none := List.getElem?_eq_none hh
          rw [this] at hx; cases hx
      rw [probeLoop_skip self reorder f nc c x (by omega) hlt hx hxe]
      have hrem' : remaining self c.nodes (c.idx + 1) = t :: rest := by
        simp only [remaining] at hrem ⊢
        rw [List.drop_eq_getElem_cons hlt] at hrem
        have hxx : c.nodes[c.idx] = x := by
          have := List.getElem?_eq_getElem hlt
          rw [this] at hx; exact Option.some.inj hx
        simp only [List.filter_cons, hxx, hxe, Bool.false_eq_true, ↓reduceIte] at hrem
        exact hrem
      have := ih f (nc + 1) { c with idx := c.idx + 1 } t rest hrem'
        (fun j hj => by
          obtain ⟨y, hy, hye⟩ := hskip (j + 1) (by omega)
          exact ⟨y, by simpa [Nat.add_assoc, Nat.add_comm 1 j] using hy, hye⟩)
        (by simpa [Nat.add_assoc, Nat.add_comm 1 k] using ht) (by simp; omega) (by omega)
      rw [this]
      simp [Nat.add_assoc, Nat.add_comm 1 k]

/-- **detect_bound (arithmetic).** The bound is monotone in every parameter, so evaluating it with
the largest list length and the slowest pace observed in the window is safe. -/
theorem C03_detectBound_mono (n n' d d' s s' : Nat) (hn : n ≤ n') (hd : d ≤ d') (hs : s ≤ s') :
    detectBound n d s ≤ detectBound n' d' s' := by
  unfold detectBound
  have : 2 * (n + 1) * d ≤ 2 * (n' + 1) * d' := Nat.mul_le_mul (by omega) hd
  omega

/-- reaping at the wrap-around never removes the local record or a member that is still listed -/
theorem C03_reset_keeps_listed (self : String) (nodes : List PNode) (x : PNode) (hx : x ∈ nodes)
    (h : x.gone = false ∨ x.name = self) : x ∈ (nodes.filter fun n => !(n.gone && n.reapable) || n.name == self) := by
  simp only [List.mem_filter, hx, true_and]
  rcases h with h | h <;> simp [h]

end Swim.Probe
