import Swim.Model.Queue
/-!
# C10  Broadcast queue: no silent loss, exactly-once completion, bounded retransmits

Theorems over `Swim.Model.Queue`, for every operation sequence.
-/
namespace Swim.Queue

/-! ### the `Less` order -/

theorem less_asymm (a b : Item) (h : less a b = true) : less b a = false := by
  unfold less at *
  by_cases h1 : a.tx < b.tx
  · have : ¬ b.tx < a.tx := by omega
    have : b.tx > a.tx := h1
    simp [*]
  · by_cases h2 : a.tx > b.tx
    · simp [h1, h2] at h
    · have e : a.tx = b.tx := by omega
      by_cases h3 : a.len > b.len
      · have : ¬ b.len > a.len := by omega
        simp [e, this, h3]
      · by_cases h4 : a.len < b.len
        · simp [h1, h2, h3, h4] at h
        · have e2 : a.len = b.len := by omega
          simp [h1, h2, h3, h4] at h
          simp [e, e2]; omega

/-- negative transitivity: `less` is a strict weak order -/
theorem less_negtrans (a b c : Item) (h1 : less a b = false) (h2 : less b c = false) :
    less a c = false := by
  unfold less at *
  by_cases x1 : a.tx < b.tx
  · simp [x1] at h1
  · by_cases x2 : b.tx < c.tx
    · simp [x2] at h2
    · by_cases x3 : a.tx > b.tx
      · have : ¬ a.tx < c.tx := by omega
        have : a.tx > c.tx := by omega
        simp [*]
      · have e1 : a.tx = b.tx := by omega
        by_cases x4 : b.tx > c.tx
        · have : ¬ a.tx < c.tx := by omega
          have : a.tx > c.tx := by omega
          simp [*]
        · have e2 : b.tx = c.tx := by omega
          simp only [x1, x3, x2, x4, ↓reduceIte] at h1 h2
          have n1 : ¬ a.tx < c.tx := by omega
          have n2 : ¬ a.tx > c.tx := by omega
          simp only [n1, n2, ↓reduceIte]
          by_cases y1 : a.len > b.len
          · simp [y1] at h1
          · by_cases y2 : b.len > c.len
            · simp [y2] at h2
            · by_cases y3 : a.len < b.len
              · have : ¬ a.len > c.len := by omega
                have : a.len < c.len := by omega
                simp [*]
              · by_cases y4 : b.len < c.len
                · have : ¬ a.len > c.len := by omega
                  have : a.len < c.len := by omega
                  simp [*]
                · simp only [y1, y3, y2, y4, ↓reduceIte, decide_eq_false_iff_not] at h1 h2
                  have m1 : ¬ a.len > c.len := by omega
                  have m2 : ¬ a.len < c.len := by omega
                  simp only [m1, m2, ↓reduceIte, decide_eq_false_iff_not]
                  omega

theorem pickMin_mem {l : List Item} {k : Item} (h : pickMin l = some k) : k ∈ l := by
  induction l generalizing k with
  | nil => simp [pickMin] at h
  | cons x xs ih =>
    simp only [pickMin] at h
    split at h
    · cases h; simp
    · rename_i y hy
      split at h
      · cases h; simp [ih hy]
      · cases h; simp

theorem pickMin_none {l : List Item} (h : pickMin l = none) : l = [] := by
  cases l with
  | nil => rfl
  | cons x xs =>
    simp only [pickMin] at h
    split at h
    · cases h
    · split at h <;> cases h

theorem less_irrefl (z : Item) : less z z = false := by
  cases hh : less z z
  · rfl
  · have := less_asymm z z hh; rw [hh] at this; cases this

/-- `pickMin` returns a `Less`-least element: nothing in the list is strictly before it. -/
theorem pickMin_least {l : List Item} {k : Item} (h : pickMin l = some k) :
    ∀ x ∈ l, less x k = false := by
  induction l generalizing k with
  | nil => simp [pickMin] at h
  | cons x xs ih =>
    simp only [pickMin] at h
    split at h
    · rename_i hn
      cases h
      have := pickMin_none hn
      subst this
      intro z hz
      simp at hz; subst hz
      exact less_irrefl z
    · rename_i y hy
      have ihy := ih hy
      by_cases hlt : less y x = true
      · simp only [hlt, ↓reduceIte] at h
        have hk : y = k := Option.some.inj h
        subst hk
        intro z hz
        simp at hz
        rcases hz with rfl | hz
        · exact less_asymm _ _ hlt
        · exact ihy z hz
      · simp only [hlt, Bool.false_eq_true, ↓reduceIte] at h
        have hk : x = k := Option.some.inj h
        subst hk
        have hyx : less y x = false := by simpa using hlt
        intro z hz
        simp at hz
        rcases hz with rfl | hz
        · exact less_irrefl z
        · exact less_negtrans z y x (ihy z hz) hyx

theorem pickMax_mem {l : List Item} {k : Item} (h : pickMax l = some k) : k ∈ l := by
  induction l generalizing k with
  | nil => simp [pickMax] at h
  | cons x xs ih =>
    simp only [pickMax] at h
    split at h
    · cases h; simp
    · rename_i y hy
      split at h
      · cases h; simp [ih hy]
      · cases h; simp

/-! ### removing one item by id -/

theorem removeId_sublist (l : List Item) (id : Nat) : (removeId l id).Sublist l :=
  List.filter_sublist

theorem removeId_perm {l : List Item} {k : Item} (hn : (l.map (·.id)).Nodup) (hk : k ∈ l) :
    (k :: removeId l k.id).Perm l := by
  induction l with
  | nil => cases hk
  | cons x xs ih =>
    simp only [List.map_cons, List.nodup_cons] at hn
    by_cases e : x = k
    · subst e
      have : removeId (x :: xs) x.id = xs := by
        simp only [removeId, List.filter_cons, bne_self_eq_false, Bool.false_eq_true, ↓reduceIte]
        apply List.filter_eq_self.mpr
        intro a ha
        have : a.id ≠ x.id := by
          intro e; apply hn.1; rw [← e]; exact List.mem_map_of_mem ha
        simpa using this
      rw [this]
    · have hk' : k ∈ xs := by
        cases hk with
        | head => exact absurd rfl e
        | tail _ h => exact h
      have hne : x.id ≠ k.id := by
        intro e2; apply hn.1; rw [e2]; exact List.mem_map_of_mem hk'
      have : removeId (x :: xs) k.id = x :: removeId xs k.id := by
        simp [removeId, List.filter_cons, hne]
      rw [this]
      exact (List.Perm.swap x k _).trans ((ih hn.2 hk').cons x)

theorem removeId_length {l : List Item} {k : Item} (hn : (l.map (·.id)).Nodup) (hk : k ∈ l) :
    (removeId l k.id).length + 1 = l.length := by
  have := (removeId_perm hn hk).length_eq
  simpa using this

/-! ### invariants -/

def uids (l : List Item) : List Nat := l.map (·.uid)
def ids (l : List Item) : List Nat := l.map (·.id)

/-- ids are unique, positive and were handed out by the current generator epoch -/
def IdsOk (l : List Item) (idGen : Nat) : Prop :=
  (ids l).Nodup ∧ ∀ x ∈ l, 1 ≤ x.id ∧ x.id ≤ idGen

/-- at most one queued broadcast per non-empty name -/
def NamesOk (l : List Item) : Prop :=
  ∀ x ∈ l, ∀ y ∈ l, x.name ≠ "" → x.name = y.name → x.id = y.id

/-- conservation: queued uids and finished uids together are exactly the submitted ones,
each once -/
def Cons (q : Q) : Prop := (uids q.items ++ q.finished).Perm (List.range q.nextUid)

def Inv (q : Q) : Prop := IdsOk q.items q.idGen ∧ NamesOk q.items ∧ Cons q

theorem inv_empty : Inv {} := by
  refine ⟨⟨by simp [ids], by simp⟩, ?_, ?_⟩
  · intro x hx; cases hx
  · simp [Cons, uids]

theorem filter_partition_perm (l : List Item) (p : Item → Bool) :
    (l.filter (fun x => !p x) ++ l.filter p).Perm l := by
  induction l with
  | nil => simp
  | cons x xs ih =>
    by_cases h : p x = true
    · simp only [List.filter_cons, h, Bool.not_true, Bool.false_eq_true, ↓reduceIte]
      exact (List.perm_middle).trans (ih.cons x)
    · have h' : p x = false := by simpa using h
      simp only [List.filter_cons, h', Bool.not_false, ↓reduceIte, Bool.false_eq_true,
        List.cons_append]
      exact ih.cons x

theorem queueWith_inv (q : Q) (lb : Item) (h : Inv q) (hid : lb.id = q.idGen + 1)
    (huid : lb.uid = q.nextUid) : Inv (queueWith q lb) := by
  obtain ⟨⟨hnd, hrange⟩, hnames, hcons⟩ := h
  simp only [queueWith]
  refine ⟨⟨?_, ?_⟩, ?_, ?_⟩
  · -- ids nodup
    simp only [ids, List.map_cons, List.nodup_cons]
    refine ⟨?_, ?_⟩
    · intro hm
      obtain ⟨x, hx, hxe⟩ := List.mem_map.mp hm
      have := (hrange x (List.mem_filter.mp hx).1).2
      omega
    · exact (List.filter_sublist.map _).nodup hnd
  · intro x hx
    simp only [List.mem_cons] at hx
    rcases hx with rfl | hx
    · show 1 ≤ x.id ∧ x.id ≤ x.id
      omega
    · have := hrange x (List.mem_filter.mp hx).1
      show 1 ≤ x.id ∧ x.id ≤ lb.id
      omega
  · -- names
    intro x hx y hy hne heq
    simp only [List.mem_cons] at hx hy
    have key : ∀ z ∈ q.items.filter (fun x => !victimP q.items lb x), lb.name ≠ "" → z.name ≠ lb.name := by
      intro z hz hlbn hzn
      have hzmem := (List.mem_filter.mp hz).1
      have hzv : victimP q.items lb z = false := by simpa using (List.mem_filter.mp hz).2
      unfold victimP at hzv
      simp only [hlbn, ne_eq, not_false_eq_true, ↓reduceIte] at hzv
      cases hv : q.items.find? (fun x => x.name == lb.name) with
      | some v =>
        rw [hv] at hzv
        have hvmem := List.mem_of_find?_eq_some hv
        have hvn : v.name = lb.name := by simpa using List.find?_some hv
        have hid : z.id = v.id := hnames z hzmem v hvmem (by rw [hzn]; exact hlbn) (by rw [hzn, hvn])
        simp [hid] at hzv
      | none =>
        have := List.find?_eq_none.mp hv z hzmem
        simp [hzn] at this
    rcases hx with rfl | hx <;> rcases hy with rfl | hy
    · rfl
    · exact absurd heq.symm (key y hy hne)
    · exact absurd heq (key x hx (by rw [← heq]; exact hne))
    · exact hnames x (List.mem_filter.mp hx).1 y (List.mem_filter.mp hy).1 hne heq
  · -- conservation
    simp only [Cons, uids, List.map_cons] at *
    generalize (victimP q.items lb) = p
    have hp := (filter_partition_perm q.items p).map (·.uid)
    simp only [List.map_append] at hp
    rw [List.range_succ, huid]
    have h1 : (List.map (fun x => x.uid) (List.filter (fun x => !p x) q.items) ++
        (q.finished ++ List.map (fun x => x.uid) (List.filter p q.items))).Perm
        (List.map (fun x => x.uid) q.items ++ q.finished) := by
      have := List.Perm.append_right q.finished hp
      refine List.Perm.trans ?_ this
      simp only [List.append_assoc]
      exact List.Perm.append_left _ List.perm_append_comm
    have h2 := h1.trans hcons
    refine (List.Perm.cons q.nextUid h2).trans ?_
    exact (List.perm_append_singleton _ _).symm

/-- **queue preserves the invariant.** -/
theorem queue_inv (q : Q) (kind : Kind) (name : String) (subj len : Nat) (h : Inv q) :
    Inv (queue q kind name subj len) :=
  queueWith_inv q _ h rfl rfl


/-! ### tx-independent view of items -/

def core (x : Item) : Item := { x with tx := 0 }

@[simp] theorem core_id (x : Item) : (core x).id = x.id := rfl
@[simp] theorem core_uid (x : Item) : (core x).uid = x.uid := rfl
@[simp] theorem core_name (x : Item) : (core x).name = x.name := rfl
@[simp] theorem core_bump (x : Item) : core (bump x) = core x := rfl

theorem ids_core (l : List Item) : ids (l.map core) = ids l := by
  simp [ids, List.map_map, Function.comp_def]

theorem uids_core (l : List Item) : uids (l.map core) = uids l := by
  simp [uids, List.map_map, Function.comp_def]

theorem idsOk_core {l : List Item} {g : Nat} : IdsOk (l.map core) g ↔ IdsOk l g := by
  simp only [IdsOk, ids_core, List.mem_map]
  constructor
  · rintro ⟨h1, h2⟩; exact ⟨h1, fun x hx => h2 (core x) ⟨x, hx, rfl⟩⟩
  · rintro ⟨h1, h2⟩; refine ⟨h1, ?_⟩; rintro _ ⟨x, hx, rfl⟩; exact h2 x hx

theorem namesOk_core {l : List Item} : NamesOk (l.map core) ↔ NamesOk l := by
  simp only [NamesOk, List.mem_map]
  constructor
  · intro h x hx y hy; exact h (core x) ⟨x, hx, rfl⟩ (core y) ⟨y, hy, rfl⟩
  · rintro h _ ⟨x, hx, rfl⟩ _ ⟨y, hy, rfl⟩; exact h x hx y hy

theorem idsOk_perm {l l' : List Item} {g : Nat} (hp : l.Perm l') (h : IdsOk l g) : IdsOk l' g :=
  ⟨(hp.map _).nodup_iff.mp h.1, fun x hx => h.2 x (hp.mem_iff.mpr hx)⟩

theorem namesOk_perm {l l' : List Item} (hp : l.Perm l') (h : NamesOk l) : NamesOk l' :=
  fun x hx y hy => h x (hp.mem_iff.mpr hx) y (hp.mem_iff.mpr hy)

theorem idsOk_append_left {l m : List Item} {g : Nat} (h : IdsOk (l ++ m) g) : IdsOk l g := by
  refine ⟨?_, fun x hx => h.2 x (List.mem_append_left _ hx)⟩
  have := h.1
  simp only [ids, List.map_append] at this
  exact (List.nodup_append.mp this).1

theorem namesOk_append_left {l m : List Item} (h : NamesOk (l ++ m)) : NamesOk l :=
  fun x hx y hy => h x (List.mem_append_left _ hx) y (List.mem_append_left _ hy)

/-! ### GetBroadcasts -/

def allOf (s : GetSt) : List Item := s.items ++ s.reins ++ s.done

/-- induction principle for the tier walk: a predicate preserved by every hand-out holds at the end -/
theorem getLoop_ind (o l tl : Int) (P : GetSt → Prop)
    (hstep : ∀ s t k, P s → pickMin (cands s t (l - s.used - o)) = some k → 0 < l - s.used - o →
      P (pickStep o tl s k)) :
    ∀ fuel t maxT s, P s → P (getLoop o l tl fuel t maxT s) := by
  intro fuel
  induction fuel with
  | zero => intro t maxT s h; exact h
  | succ n ih =>
    intro t maxT s h
    simp only [getLoop]
    by_cases h1 : t > maxT
    · simp [h1, h]
    · by_cases h2 : l - s.used - o ≤ 0
      · simp [h1, h2, h]
      · simp only [h1, h2, ↓reduceIte]
        cases hp : pickMin (cands s t (l - s.used - o)) with
        | none => exact ih _ _ _ h
        | some k => exact ih _ _ _ (hstep s t k h hp (by omega))

theorem cands_mem {s : GetSt} {t : Nat} {free : Int} {k : Item}
    (h : pickMin (cands s t free) = some k) :
    k ∈ s.items ∧ k.tx = t ∧ (k.len : Int) ≤ free := by
  have := pickMin_mem h
  simp only [cands, List.mem_filter, Bool.and_eq_true, beq_iff_eq, decide_eq_true_eq] at this
  exact ⟨this.1, this.2.1, this.2.2⟩

/-- **get_prefers (within a tier).** Each hand-out is the `Less`-least item of its tier that
still fits: less transmitted first is the tier walk, then larger, then newer. -/
theorem C10_pick_is_least {s : GetSt} {t : Nat} {free : Int} {k : Item}
    (h : pickMin (cands s t free) = some k) :
    k ∈ s.items ∧ k.tx = t ∧ (k.len : Int) ≤ free ∧
      ∀ x ∈ s.items, x.tx = t → (x.len : Int) ≤ free → less x k = false := by
  obtain ⟨h1, h2, h3⟩ := cands_mem h
  refine ⟨h1, h2, h3, ?_⟩
  intro x hx ht hl
  apply pickMin_least h
  simp [cands, hx, ht, hl]

/-- **get_prefers (tier order).** The walk moves to the next tier only when no item of the
current tier fits any more. -/
theorem C10_advance_only_if_exhausted {s : GetSt} {t : Nat} {free : Int}
    (h : pickMin (cands s t free) = none) :
    ∀ x ∈ s.items, x.tx = t → ¬ (x.len : Int) ≤ free := by
  intro x hx ht hl
  have := pickMin_none h
  have hm : x ∈ cands s t free := by simp [cands, hx, ht, hl]
  rw [this] at hm; cases hm

def PermP (orig : List Item) (s : GetSt) : Prop :=
  (ids s.items).Nodup ∧ ((allOf s).map core).Perm (orig.map core)

theorem pickStep_perm (o tl : Int) (orig : List Item) (s : GetSt) (k : Item)
    (h : PermP orig s) (hk : k ∈ s.items) : PermP orig (pickStep o tl s k) := by
  obtain ⟨hn, hp⟩ := h
  have hrem := removeId_perm hn hk
  have hn' : (ids (removeId s.items k.id)).Nodup := ((removeId_sublist _ _).map _).nodup hn
  have base : ((removeId s.items k.id ++ s.reins ++ s.done ++ [k]).map core).Perm ((allOf s).map core) := by
    apply List.Perm.map
    simp only [allOf]
    have : (k :: removeId s.items k.id ++ (s.reins ++ s.done)).Perm (s.items ++ (s.reins ++ s.done)) :=
      List.Perm.append_right _ hrem
    simp only [List.append_assoc] at this ⊢
    have e : removeId s.items k.id ++ (s.reins ++ (s.done ++ [k])) =
        (removeId s.items k.id ++ (s.reins ++ s.done)) ++ [k] := by simp
    rw [e]
    exact (List.perm_append_singleton k _).trans this
  unfold pickStep
  split
  · refine ⟨hn', ?_⟩
    refine List.Perm.trans ?_ (base.trans hp)
    simp [allOf, List.append_assoc]
  · refine ⟨hn', ?_⟩
    refine List.Perm.trans ?_ (base.trans hp)
    simp only [allOf, List.map_append, List.map_cons, List.map_nil, core_bump, List.append_assoc]
    apply List.Perm.append_left
    apply List.Perm.append_left
    exact List.perm_append_comm


theorem getRun_perm (q : Q) (o l tl : Int) (h : (ids q.items).Nodup) :
    PermP q.items (getRun q o l tl) := by
  unfold getRun
  apply getLoop_ind o l tl (PermP q.items)
  · intro s t k hs hp _
    exact pickStep_perm o tl q.items s k hs (cands_mem hp).1
  · exact ⟨h, by simp [allOf]⟩

/-- transfer of the invariant along "same items up to transmit counts, some moved to finished" -/
theorem inv_of_perm (q : Q) (r done : List Item) (h : Inv q)
    (hp : ((r ++ done).map core).Perm (q.items.map core)) :
    Inv { q with items := r, idGen := if r.isEmpty then 0 else q.idGen,
                 finished := q.finished ++ done.map (·.uid) } := by
  obtain ⟨hids, hnames, hcons⟩ := h
  have hids' : IdsOk r q.idGen := by
    have := idsOk_perm hp.symm (idsOk_core.mpr hids)
    rw [List.map_append] at this
    exact idsOk_core.mp (idsOk_append_left this)
  refine ⟨?_, ?_, ?_⟩
  · cases r with
    | nil => exact ⟨by simp [ids], by simp⟩
    | cons x xs => simpa using hids'
  · have := namesOk_perm hp.symm (namesOk_core.mpr hnames)
    rw [List.map_append] at this
    exact namesOk_core.mp (namesOk_append_left this)
  · simp only [Cons] at *
    have hu := hp.map (·.uid)
    have e1 : (List.map core (r ++ done)).map (·.uid) = uids r ++ done.map (·.uid) := by
      simp [uids, List.map_map, Function.comp_def]
    have e2 : (List.map core q.items).map (·.uid) = uids q.items := by
      simp [uids, List.map_map, Function.comp_def]
    rw [e1, e2] at hu
    refine List.Perm.trans ?_ hcons
    have : (uids r ++ (q.finished ++ done.map (·.uid))).Perm ((uids r ++ done.map (·.uid)) ++ q.finished) := by
      simp only [List.append_assoc]
      exact List.Perm.append_left _ List.perm_append_comm
    exact this.trans (List.Perm.append_right _ hu)

/-- **get preserves the invariant** (ids, one-per-name, conservation). -/
theorem get_inv (q : Q) (o l tl : Int) (h : Inv q) : Inv (get q o l tl).1 := by
  unfold get
  by_cases he : q.items.isEmpty = true
  · simp [he, h]
  · simp only [he, Bool.false_eq_true, ↓reduceIte]
    have hp := (getRun_perm q o l tl h.1.1).2
    apply inv_of_perm q _ _ h
    refine List.Perm.trans ?_ hp
    apply List.Perm.map
    simp only [allOf]
    exact List.Perm.append_right _ List.perm_append_comm

theorem pruneLoop_perm (m : Int) : ∀ fuel (items done : List Item), (ids items).Nodup →
    ((pruneLoop m fuel items done).1 ++ (pruneLoop m fuel items done).2).Perm (items ++ done) := by
  intro fuel
  induction fuel with
  | zero => intro items done _; simp [pruneLoop]
  | succ n ih =>
    intro items done hn
    simp only [pruneLoop]
    by_cases hc : (items.length : Int) > m
    · simp only [hc, ↓reduceIte]
      cases hm : pickMax items with
      | none => simp
      | some k =>
        have hk := pickMax_mem hm
        have hn' : (ids (removeId items k.id)).Nodup := ((removeId_sublist _ _).map _).nodup hn
        refine (ih _ _ hn').trans ?_
        have := removeId_perm hn hk
        have e : removeId items k.id ++ (done ++ [k]) = (removeId items k.id ++ done) ++ [k] := by simp
        rw [e]
        exact (List.perm_append_singleton k _).trans (List.Perm.append_right done this)
    · simp [hc]

/-- **prune preserves the invariant.** -/
theorem prune_inv (q : Q) (m : Int) (h : Inv q) : Inv (prune q m) := by
  unfold prune
  apply inv_of_perm q _ _ h
  have := pruneLoop_perm m q.items.length q.items [] h.1.1
  simpa using this.map core

/-- **reset preserves the invariant.** -/
theorem reset_inv (q : Q) (h : Inv q) : Inv (reset q) := by
  have := inv_of_perm q [] q.items h (by simp)
  simpa [reset] using this

/-- **inv (one step).** -/
theorem step_inv (q : Q) (op : Op) (h : Inv q) : Inv (step q op) := by
  cases op with
  | queue k n s l => exact queue_inv q k n s l h
  | get o l tl => exact get_inv q o l tl h
  | prune m => exact prune_inv q m h
  | reset => exact reset_inv q h
  | num => exact h

/-- **inv (all histories).** After any sequence of QueueBroadcast / GetBroadcasts / Prune /
Reset / NumQueued calls on a fresh queue: ids unique, at most one broadcast per non-empty name,
and conservation. -/
theorem C10_inv (ops : List Op) : Inv (run {} ops) := by
  have : ∀ q, Inv q → Inv (run q ops) := by
    induction ops with
    | nil => intro q h; exact h
    | cons op ops ih => intro q h; exact ih _ (step_inv q op h)
  exact this _ inv_empty

/-- **conservation, spelled out.** After any history every submitted broadcast is either
still queued or finished, never both, and finished at most once. -/
theorem C10_conservation (ops : List Op) :
    let q := run {} ops
    (∀ u, u < q.nextUid ↔ (u ∈ uids q.items ∨ u ∈ q.finished)) ∧
    (∀ u, u ∈ uids q.items → u ∉ q.finished) ∧
    q.finished.Nodup ∧ (uids q.items).Nodup := by
  intro q
  have hc : Cons q := (C10_inv ops).2.2
  have hnd : (uids q.items ++ q.finished).Nodup := hc.nodup_iff.mpr (List.nodup_range)
  refine ⟨?_, ?_, ?_, ?_⟩
  · intro u
    rw [← List.mem_range, ← hc.mem_iff, List.mem_append]
  · intro u hu hf
    exact (List.nodup_append.mp hnd).2.2 u hu u hf rfl
  · exact (List.nodup_append.mp hnd).2.1
  · exact (List.nodup_append.mp hnd).1

/-- **one broadcast per subject name** after any history -/
theorem C10_one_per_name (ops : List Op) : NamesOk (run {} ops).items := (C10_inv ops).2.1

/-! ### what a retrieval returns -/

def sizeSum (o : Int) (out : List Item) : Int := (out.map fun k => o + (k.len : Int)).foldl (· + ·) 0

theorem foldl_add_shift (l : List Int) (a : Int) : l.foldl (· + ·) a = a + l.foldl (· + ·) 0 := by
  induction l generalizing a with
  | nil => simp
  | cons x xs ih => simp only [List.foldl_cons]; rw [ih (a + x), ih (0 + x)]; omega

theorem sizeSum_append (o : Int) (out : List Item) (k : Item) :
    sizeSum o (out ++ [k]) = sizeSum o out + (o + k.len) := by
  simp only [sizeSum, List.map_append, List.map_cons, List.map_nil, List.foldl_append,
    List.foldl_cons, List.foldl_nil]

def FitsP (o l : Int) (s : GetSt) : Prop := s.used = sizeSum o s.out ∧ (s.out ≠ [] → s.used ≤ l)

/-- **get_fits.** The sizes of the returned messages plus the per-message overhead fit the limit. -/
theorem C10_get_fits (q : Q) (o l tl : Int) :
    (get q o l tl).2 ≠ [] → sizeSum o (get q o l tl).2 ≤ l := by
  unfold get
  by_cases he : q.items.isEmpty = true
  · simp [he]
  · simp only [he, Bool.false_eq_true, ↓reduceIte]
    have : FitsP o l (getRun q o l tl) := by
      unfold getRun
      apply getLoop_ind o l tl (FitsP o l)
      · intro s t k hs hp hfree
        obtain ⟨_, _, hlen⟩ := cands_mem hp
        unfold pickStep
        split <;> (refine ⟨?_, fun _ => ?_⟩ <;> simp only [sizeSum_append, hs.1] <;> (try rw [← hs.1]) <;> omega)
      · exact ⟨by simp [sizeSum], by simp⟩
    intro hne
    rw [← this.1]; exact this.2 hne

def LimitP (tl : Int) (s : GetSt) : Prop :=
  s.done = s.out.filter (fun k => decide ((k.tx : Int) + 1 ≥ tl)) ∧
  s.reins = (s.out.filter (fun k => !decide ((k.tx : Int) + 1 ≥ tl))).map bump

theorem getRun_limit (q : Q) (o l tl : Int) : LimitP tl (getRun q o l tl) := by
  unfold getRun
  apply getLoop_ind o l tl (LimitP tl)
  · intro s t k hs _ _
    unfold pickStep
    by_cases hc : (k.tx : Int) + 1 ≥ tl
    · simp only [hc, ↓reduceIte]
      refine ⟨?_, ?_⟩
      · simp [List.filter_append, hs.1, hc]
      · simp [List.filter_append, hs.2, hc]
    · simp only [hc, ↓reduceIte]
      refine ⟨?_, ?_⟩
      · simp [List.filter_append, hs.1, hc]
      · simp [List.filter_append, hs.2, hc]
  · exact ⟨by simp, by simp⟩

/-- **limit_exact.** A retrieval finishes exactly the handed-out items whose transmit count
reaches the retransmit limit of *that* call, and re-queues every other handed-out item one
tier up; nothing that was not handed out is finished. -/
theorem C10_limit_exact (q : Q) (o l tl : Int) (hne : q.items.isEmpty = false) :
    let s := getRun q o l tl
    (get q o l tl).2 = s.out ∧
    (get q o l tl).1.finished = q.finished ++ (s.out.filter (fun k => decide ((k.tx : Int) + 1 ≥ tl))).map (·.uid) ∧
    (get q o l tl).1.items = (s.out.filter (fun k => !decide ((k.tx : Int) + 1 ≥ tl))).map bump ++ s.items := by
  intro s
  have hl := getRun_limit q o l tl
  simp only [get, hne, Bool.false_eq_true, ↓reduceIte]
  exact ⟨rfl, by rw [hl.1], by rw [hl.2]⟩

/-- non-vacuity / pinned witness (fixed defect, known_findings `fixed:` C10 c5de6b0):
Queue A(5); Get(2,7); Queue B(5); both stay accounted for. -/
example :
    let q := run {} [.queue .plain "" 0 5, .get 2 7 4, .queue .plain "" 1 5]
    uids q.items = [1, 0] ∧ q.finished = [] ∧ (q.items.map (·.id)) = [2, 1] := by decide

end Swim.Queue
