import Swim.Props.C05Recover
import Swim.Props.C09Cluster
/-!
# C05: a cluster in which state exchanges change nothing has converged

`C05_cluster_quiescent_agrees`: take any reachable state of the cluster model in which no state
exchange between any two nodes changes the receiver any more (every entry of every node's state
list, delivered to any node, leaves that node as it is). Then every node holds every running
member alive, at the member's own incarnation and with the member's own metadata. In other words
the only fixed points of push/pull are converged views - a split can persist only between nodes
that no longer exchange state (the stable split of the known finding: they hold each other dead and
never select each other).
-/
namespace Swim.Cluster
open Swim.Merge

/-- no entry of `X`'s state list changes `y` -/
def Quiet (X y : Node) : Prop := ∀ r ∈ X.recs, ∀ env : Env, env.ipAllowed = true → (receive (.state (stateOfRec r)) env y).1 = y

theorem C05_cluster_quiescent_agrees (w0 : World) (ops : List COp) (hfresh : Fresh w0) (hlen : ops.length + 1 < u32)
    (X y : Node) (hX : X ∈ (w0.run ops).nodes) (hy : y ∈ (w0.run ops).nodes) (hne : X.cfg.self ≠ y.cfg.self)
    (me : Rec) (hme : selfRec X = some me) (hal : me.st = .alive) (hrun : X.hasLeft = false)
    (hv : vsnBad me.vsn = false) (hdel : y.cfg.hasAliveDelegate = false)
    (hq1 : Quiet X y) (hq2 : Quiet y X) :
    ∃ r, lookup y.recs X.cfg.self = some r ∧ r.st = .alive ∧ r.inc = me.inc ∧ r.md = me.md := by
  have hinv := grun_inv ops w0 0 (gfresh_inv w0 hfresh) (by omega)
  simp only [Nat.zero_add] at hinv
  generalize w0.run ops = w at *
  have env : Env := { now := 0, ipAllowed := true, delegateOk := true, offset := 0 }
  obtain ⟨env, henv⟩ : ∃ e : Env, e.ipAllowed = true := ⟨{ now := 0, ipAllowed := true, delegateOk := true, offset := 0 }, rfl⟩
  have hmn : me.name = X.cfg.self := lookup_name hme
  have hmem : me ∈ X.recs := List.mem_of_find?_eq_some hme
  obtain ⟨f1, f2, f3, _, _⟩ := (hinv.2.1 X hX).2.2.1 me hme
  -- what y does with X's own entry: nothing (quiescence)
  have hq := hq1 me hmem env henv
  have hst : (stateOfRec me).st = .alive := hal
  rw [receive_state_alive _ env hst] at hq
  have hnode : (aliveOfState (stateOfRec me)).node = X.cfg.self := hmn
  cases hl : lookup y.recs X.cfg.self with
  | none =>
    -- an unknown member would be added
    have hlist := C09_join_lists y (withEnv (stateOfRec me) env) env.now hal
      (by show me.name ≠ y.cfg.self; rw [hmn]; exact hne) hv (by simp [hdel]) henv
      (by show (match lookup y.recs me.name with | none => 0 < me.inc | some old => _) ; rw [hmn, hl]; exact f2)
    have e : mergeOne y (withEnv (stateOfRec me) env) env.now = aliveNode y (aliveOfState (stateOfRec me)) false false env :=
      congrFun (receive_state_alive (stateOfRec me) env hal) y
    rw [e, hq] at hlist
    have : (withEnv (stateOfRec me) env).name = X.cfg.self := hmn
    rw [this] at hlist
    simp [listedAt, hl] at hlist
  | some r =>
    have hr : r ∈ y.recs := List.mem_of_find?_eq_some hl
    have hrn : r.name = X.cfg.self := lookup_name hl
    obtain ⟨hle, ha, hp, _⟩ := accusation_facts hinv hX hy hme hr hrn hne
    obtain ⟨hu, _, _, _, hrg⟩ := hinv.2.1 y hy
    have hrg' := hrg r hr (by rw [hrn]; exact hne)
    by_cases hlt : r.inc < me.inc
    · -- an older record would be replaced
      obtain ⟨⟨r', h1, _, h3⟩, _⟩ := C05_accusation_overridden y (aliveOfState (stateOfRec me)) false false env r
        (by rw [hnode]; exact hne) (by rw [hnode]; exact hl) hv (by simp [hdel]) ⟨ha, hp⟩ hlt
      rw [hq, hnode, hl] at h1
      cases h1
      have : r.inc = me.inc := h3
      omega
    · have heq : r.inc = me.inc := by omega
      refine ⟨r, rfl, ?_⟩
      -- the record is at X's incarnation: it cannot be an accusation, X would refute it
      have hstate : r.st = .alive := by
        cases hs : r.st with
        | alive => rfl
        | left =>
          obtain ⟨X2, hX2, hn2, hl2, _⟩ := hrg'.2.2 hs
          have : X2 = X := name_unique hinv.1 hX2 hX (by rw [hn2, hrn])
          subst this
          rw [hrun] at hl2; cases hl2
        | suspect =>
          exfalso
          have hq' := hq2 r hr env henv
          obtain ⟨_, hsi, hsf, hstm, _⟩ := hinv.2.1 X hX
          have hnt : X.timers.find? (·.node == X.cfg.self) = none := by
            apply List.find?_eq_none.mpr; intro t ht; simp only [beq_iff_eq]; exact hstm t ht
          have hrec : receive (.state (stateOfRec r)) env X = refute X me r.inc := by
            rw [receive_state_susp _ env X (Or.inl hs)]
            have h1 : ¬ r.inc < me.inc := by omega
            have hme' : lookup X.recs X.cfg.self = some me := hme
            unfold suspectNode
            simp only [stateOfRec, hrn, hme', h1, ↓reduceIte, hnt, hal, bne_self_eq_false, Bool.false_eq_true, hmn,
              beq_self_eq_true]
          rw [hrec] at hq'
          have := (refute_sum X me r.inc (by omega) (by omega)).1
          rw [hq'] at this
          omega
        | dead =>
          exfalso
          have hq' := hq2 r hr env henv
          obtain ⟨_, hsi, hsf, hstm, _⟩ := hinv.2.1 X hX
          have hnt : X.timers.find? (·.node == X.cfg.self) = none := by
            apply List.find?_eq_none.mpr; intro t ht; simp only [beq_iff_eq]; exact hstm t ht
          have hrec : receive (.state (stateOfRec r)) env X = refute X me r.inc := by
            rw [receive_state_susp _ env X (Or.inr hs)]
            have h1 : ¬ r.inc < me.inc := by omega
            have hme' : lookup X.recs X.cfg.self = some me := hme
            unfold suspectNode
            simp only [stateOfRec, hrn, hme', h1, ↓reduceIte, hnt, hal, bne_self_eq_false, Bool.false_eq_true, hmn,
              beq_self_eq_true]
          rw [hrec] at hq'
          have := (refute_sum X me r.inc (by omega) (by omega)).1
          rw [hq'] at this
          omega
      refine ⟨hstate, heq, ?_⟩
      -- same incarnation: same content (ownership)
      obtain ⟨⟨_, _, X2, hX2, hn2, me2, hme2, _, hcont⟩, _⟩ := hrg'.1 hstate
      have : X2 = X := name_unique hinv.1 hX2 hX (by rw [hn2]; exact hrn)
      subst this
      rw [hme] at hme2; cases hme2
      exact (hcont heq).1

end Swim.Cluster
