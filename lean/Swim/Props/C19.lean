import Swim.Model.Acks
import Swim.Gen.Facts
/-!
# C19  Probe acknowledgements are correctly correlated, relayed and cleaned up
-/
namespace Swim.Acks

/-- **answered_iff.** A probe counts as answered exactly when an acknowledgement carrying the
probe's own sequence number arrives (on whatever path) before the probe's deadline. -/
theorem C19_answered_iff (c : Cfg) (score : Nat) (evs : List Ev) :
    answered c score evs = true ↔ ∃ e ∈ evs, e.kind = .ack ∧ e.mine = true ∧ e.t < deadline c score := by
  simp [answered, List.any_eq_true, and_assoc]

/-- **foreign_noop.** Acks and nacks for other sequence numbers, and anything arriving at or after
the deadline, have no effect on the outcome. -/
theorem C19_foreign_noop (c : Cfg) (score : Nat) (evs : List Ev) (x : Ev) (exp : Nat) (tcp : Bool)
    (h : x.mine = false ∨ deadline c score ≤ x.t) :
    probeOutcome c score (x :: evs) exp tcp = probeOutcome c score evs exp tcp := by
  have hx : (x.kind == Kind.ack && x.mine && decide (x.t < deadline c score)) = false := by
    rcases h with h | h
    · simp [h]
    · have : ¬ x.t < deadline c score := by omega
      simp [this]
  have hn : (x.kind == Kind.nack && x.mine && decide (x.t < deadline c score)) = false := by
    rcases h with h | h
    · simp [h]
    · have : ¬ x.t < deadline c score := by omega
      simp [this]
  have ha : answered c score (x :: evs) = answered c score evs := by
    simp [answered, List.any_cons, hx]
  have hc : nackCount c score (x :: evs) = nackCount c score evs := by
    simp [nackCount, List.filter_cons, hn]
  unfold probeOutcome
  rw [ha, hc]

/-- an answered probe never leads to a suspicion and improves the health score by one -/
theorem C19_answered_ok (c : Cfg) (score : Nat) (evs : List Ev) (exp : Nat) (tcp : Bool)
    (h : answered c score evs = true) : probeOutcome c score evs exp tcp = (false, -1) := by
  simp [probeOutcome, h]

/-- an unanswered probe (no ack on any path, TCP fallback included) is a suspicion, and the
score delta is non-negative: missed nacks, or one when no nack-capable relay was asked -/
theorem C19_unanswered_suspects (c : Cfg) (score : Nat) (evs : List Ev) (exp : Nat)
    (h : answered c score evs = false) :
    (probeOutcome c score evs exp false).1 = true ∧ 0 ≤ (probeOutcome c score evs exp false).2 ∧
    (probeOutcome c score evs exp false).2 ≤ max 1 exp := by
  simp only [probeOutcome, h, Bool.false_eq_true, ↓reduceIte, true_and]
  split
  · split <;> omega
  · omega

/-- the failure branch of a probe never lowers the score -/
theorem probeOutcome_fail_nonneg (c : Cfg) (score : Nat) (evs : List Ev) (exp : Nat) (tcp : Bool)
    (h : (probeOutcome c score evs exp tcp).1 = true) : 0 ≤ (probeOutcome c score evs exp tcp).2 := by
  unfold probeOutcome at *
  by_cases ha : answered c score evs = true
  · simp [ha] at h
  · by_cases ht : tcp = true
    · simp [ha, ht] at h
    · simp only [ha, ht, Bool.false_eq_true, if_false]
      split
      · split <;> omega
      · omega

/-- a probe that is not in its failure branch was answered -/
theorem probeOutcome_ok_answered (c : Cfg) (score : Nat) (evs : List Ev) (exp : Nat) (tcp : Bool)
    (h : (probeOutcome c score evs exp tcp).1 = false) : answered c score evs = true ∨ tcp = true := by
  unfold probeOutcome at h
  by_cases ha : answered c score evs = true
  · exact Or.inl ha
  · by_cases ht : tcp = true
    · exact Or.inr ht
    · simp [ha, ht] at h

/-- **score falls only on an answered probe**, the send of the ping included: whatever happens to the
direct ping (sent, refused locally, refused by the remote side), a negative awareness delta means
that the ping did leave and that an acknowledgement with the probe's own sequence number arrived
before the deadline or the TCP fallback made contact. -/
theorem C19_score_falls_only_on_answer (sent : Sent) (c : Cfg) (score : Nat) (evs : List Ev) (exp : Nat) (tcp : Bool)
    (h : (probeWithSend sent c score evs exp tcp).2 < 0) :
    sent = .ok ∧ (answered c score evs = true ∨ tcp = true) := by
  cases sent with
  | ok =>
    refine ⟨rfl, ?_⟩
    simp only [probeWithSend] at h
    cases h1 : (probeOutcome c score evs exp tcp).1 with
    | false => exact probeOutcome_ok_answered c score evs exp tcp h1
    | true => have := probeOutcome_fail_nonneg c score evs exp tcp h1; omega
  | localError => simp [probeWithSend] at h
  | remoteError =>
    simp only [probeWithSend] at h
    cases h1 : (probeOutcome c score evs exp tcp).1 with
    | false => simp [h1] at h
    | true =>
      simp only [h1, if_true] at h
      have := probeOutcome_fail_nonneg c score evs exp tcp h1; omega

/-- **fresh sequence numbers (fact theorem).** `nextSeqNo` and `nextIncarnation` are one atomic
read-modify-write whose result is returned: two concurrent probes can never be registered under
the same number (the model's pending table is keyed by it). Regenerated from the source. -/
theorem C19_seqno_single_atomic_step :
    Gen.counterBodies = [("Memberlist.nextIncarnation", ["return m.incarnation.Add(1)"]),
      ("Memberlist.nextSeqNo", ["return atomic.AddUint32(&m.sequenceNum, 1)"])] := by decide

/-- **answering a number consumes its record in the same critical section** (regenerated fact): the handler for an
acknowledgement looks the record up and deletes it before it releases the table's lock, so a duplicate or
late acknowledgement for the same number finds nothing - whatever the first one's handler is doing; a nack
only looks the record up. -/
theorem C19_ack_lookup_and_discard_atomic :
    Gen.criticalSections =
      [("Memberlist.invokeAckHandler", ["ah, ok := m.ackHandlers[ack.SeqNo]", "delete(m.ackHandlers, ack.SeqNo)"]),
       ("Memberlist.invokeNackHandler", ["ah, ok := m.ackHandlers[nack.SeqNo]"])] := by decide

/-- **Ping counts only its own acknowledgement**: foreign acknowledgements, late ones, and the expiry of the
pending record (which happens first when the probe interval is below the probe timeout) never make a
`Ping` succeed. -/
theorem C19_ping_answered_iff (interval timeout : Nat) (evs : List Ev) :
    pingAnswered interval timeout evs = true ↔
      ∃ e ∈ evs, e.kind = .ack ∧ e.mine = true ∧ e.t < interval ∧ e.t < timeout := by
  unfold pingAnswered
  simp only [List.any_eq_true, Bool.and_eq_true, beq_iff_eq, decide_eq_true_eq]
  constructor
  · rintro ⟨e, he, ⟨hk, hm⟩, ht⟩
    exact ⟨e, he, hk, hm, by omega, by omega⟩
  · rintro ⟨e, he, hk, hm, h1, h2⟩
    exact ⟨e, he, ⟨hk, hm⟩, by omega⟩

/-- a ping that could not be sent never marks the target and, refused locally, changes nothing at all -/
theorem C19_local_send_error_is_inert (c : Cfg) (score : Nat) (evs : List Ev) (exp : Nat) (tcp : Bool) :
    probeWithSend .localError c score evs exp tcp = (false, 0) := rfl

example : (probeWithSend .remoteError { probeInterval := 1000, probeTimeout := 500, awarenessMax := 8, indirectChecks := 0 } 2 [] 0 false) = (true, 1) := by
  decide

/-- **score_range.** The health score always stays within [0, max-1]. -/
theorem C19_score_range (max score : Nat) (delta : Int) (hm : 1 ≤ max) :
    applyDelta max score delta ≤ max - 1 := by
  unfold applyDelta
  simp only
  split
  · omega
  · split <;> omega

/-- **score_causes.** The score rises only on a positive delta (failed probe with missed nacks or
no nack-capable relay, refutation) and falls only on a negative one (successful probe). -/
theorem C19_score_causes (max score : Nat) (delta : Int) (h : score ≤ max - 1) :
    (score < applyDelta max score delta → 0 < delta) ∧ (applyDelta max score delta < score → delta < 0) := by
  unfold applyDelta
  simp only
  constructor
  · split
    · omega
    · split <;> omega
  · split
    · omega
    · split <;> omega

/-- every sequence of deltas keeps the score in range -/
theorem C19_score_range_run (max : Nat) (hm : 1 ≤ max) (deltas : List Int) (score : Nat) (h : score ≤ max - 1) :
    deltas.foldl (applyDelta max) score ≤ max - 1 := by
  induction deltas generalizing score with
  | nil => exact h
  | cons d ds ih => exact ih _ (C19_score_range max score d hm)

/-- **one_nack_iff / relay_under_requester_seq.** A relay forwards exactly one ack if the target
answered its fresh ping within the probe timeout, and otherwise sends exactly one nack iff one was
requested; never both, never more than one. -/
theorem C19_relay_one_nack_iff (pt : Nat) (nack : Bool) (ackAt : Option Nat) :
    let r := relayOutcome pt nack ackAt
    r.1 + r.2 ≤ 1 ∧
    (r.1 = 1 ↔ ∃ t, ackAt = some t ∧ t < pt) ∧
    (r.2 = 1 ↔ nack = true ∧ ¬ ∃ t, ackAt = some t ∧ t < pt) := by
  cases ackAt with
  | none => cases nack <;> simp [relayOutcome]
  | some t =>
    by_cases h : t < pt <;> cases nack <;> simp [relayOutcome, h]

/-- non-vacuity: a duplicated foreign ack, a late own ack and one own nack: suspected, delta 2 of 3 -/
example :
    probeOutcome { probeInterval := 1000, probeTimeout := 500, awarenessMax := 8, indirectChecks := 3 } 0
      [⟨100, .ack, false⟩, ⟨100, .ack, false⟩, ⟨1200, .ack, true⟩, ⟨700, .nack, true⟩] 3 false = (true, 2) := by decide

end Swim.Acks
