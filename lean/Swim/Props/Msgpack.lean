import Swim.Model.Msgpack
/-!
# msgpack round trip for the wire structs (part of C12)
-/
namespace Swim.Msgpack

theorem toNat_b (n : Nat) : (b n).toNat = n % 256 := by
  simp [b, UInt8.toNat_ofNat']

theorem rd16_be16 (n : Nat) (r : Bytes) (h : n < 65536) : rd16 (be16 n ++ r) = some (n, r) := by
  simp only [be16, List.cons_append, List.nil_append, rd16, toNat_b]
  congr 2
  omega

theorem rd32_be32 (n : Nat) (r : Bytes) (h : n < 4294967296) : rd32 (be32 n ++ r) = some (n, r) := by
  simp only [be32, List.cons_append, List.nil_append, rd32, toNat_b]
  congr 2
  omega

theorem rd64_be64 (n : Nat) (r : Bytes) (h : n < 18446744073709551616) : rd64 (be64 n ++ r) = some (n, r) := by
  simp only [be64, List.cons_append, List.nil_append, rd64, toNat_b]
  congr 2
  omega

theorem decUint_encUint (n : Nat) (r : Bytes) (h : n < 18446744073709551616) :
    decUint (encUint n ++ r) = some (n, r) := by
  unfold encUint
  split
  · rename_i h1
    have : n % 256 = n := by omega
    simp [decUint, toNat_b, this, h1]
  · split
    · rename_i h1 h2
      have e : n % 256 = n := by omega
      simp [decUint, toNat_b, e]
    · split
      · rename_i h1 h2 h3
        simp only [List.cons_append, decUint, toNat_b]
        simp [rd16_be16 n r (by omega)]
      · split
        · rename_i h1 h2 h3 h4
          simp only [List.cons_append, decUint, toNat_b]
          simp [rd32_be32 n r (by omega)]
        · simp only [List.cons_append, decUint, toNat_b]
          simp [rd64_be64 n r h]

theorem decInt_encInt (n : Nat) (r : Bytes) (h : n < 9223372036854775808) :
    decInt (encInt n ++ r) = some (n, r) := by
  unfold encInt
  split
  · rename_i h1
    have : n % 256 = n := by omega
    simp [decInt, toNat_b, this, h1]
  · split
    · rename_i h1 h2
      simp only [List.cons_append, decInt, toNat_b]
      simp [rd16_be16 n r (by omega), h2]
    · split
      · rename_i h1 h2 h3
        simp only [List.cons_append, decInt, toNat_b]
        simp [rd32_be32 n r (by omega), h3]
      · simp only [List.cons_append, decInt, toNat_b]
        have : n ≤ 9223372036854775807 := by omega
        simp [rd64_be64 n r (by omega), this]

theorem takeN_append (s r : Bytes) : takeN s.length (s ++ r) = some (s, r) := by
  simp [takeN]

theorem decRaw_encRaw (s r : Bytes) (h : s.length < 4294967296) : decRaw (encRaw s ++ r) = some (s, r) := by
  unfold encRaw
  split
  · rename_i h1
    have e : (160 + s.length) % 256 = 160 + s.length := by omega
    simp only [List.cons_append, decRaw, toNat_b, e]
    have : 160 ≤ 160 + s.length ∧ 160 + s.length ≤ 191 := by omega
    simp only [this, and_self, if_true, Nat.add_sub_cancel_left]
    exact takeN_append s r
  · split
    · rename_i h1 h2
      simp only [List.cons_append, decRaw, toNat_b, List.append_assoc]
      simp [rd16_be16 s.length (s ++ r) h2, takeN_append]
    · simp only [List.cons_append, decRaw, toNat_b, List.append_assoc]
      simp [rd32_be32 s.length (s ++ r) h, takeN_append]

theorem decBool_encBool (v : Bool) (r : Bytes) : decBool (encBool v ++ r) = some (v, r) := by
  cases v <;> simp [encBool, decBool, toNat_b]

/-- sizes the encoder can represent: 64-bit unsigned, 63-bit non-negative int, 32-bit lengths -/
def Val.Bounded : Val → Prop
  | .uint n => n < 18446744073709551616
  | .int n => n < 9223372036854775808
  | .str s => s.length < 4294967296
  | .bytes none => True
  | .bytes (some s) => s.length < 4294967296
  | .bool _ => True

/-- the first byte of a raw header is never the nil marker -/
theorem encRaw_head_ne_nil (s : Bytes) : ∃ t rest, encRaw s = t :: rest ∧ t.toNat ≠ 0xc0 := by
  unfold encRaw
  split
  · rename_i h1
    refine ⟨_, _, rfl, ?_⟩
    simp only [toNat_b]; omega
  · split
    · exact ⟨_, _, rfl, by simp [toNat_b]⟩
    · exact ⟨_, _, rfl, by simp [toNat_b]⟩

theorem decVal_encVal (v : Val) (r : Bytes) (h : v.Bounded) : decVal v.ty (encVal v ++ r) = some (v, r) := by
  cases v with
  | uint n => simp [decVal, encVal, Val.ty, decUint_encUint n r h]
  | int n => simp [decVal, encVal, Val.ty, decInt_encInt n r h]
  | str s => simp [decVal, encVal, Val.ty, decRaw_encRaw s r h]
  | bool v => simp [decVal, encVal, Val.ty, decBool_encBool]
  | bytes o =>
    cases o with
    | none => simp [decVal, encVal, Val.ty, toNat_b]
    | some s =>
      obtain ⟨t, rest, he, hne⟩ := encRaw_head_ne_nil s
      have hd := decRaw_encRaw s r h
      simp only [decVal, encVal, Val.ty]
      rw [he] at hd ⊢
      simp only [List.cons_append] at hd ⊢
      simp [hne, hd]

theorem matchKey_self (name r : Bytes) (h : name.length < 4294967296) :
    matchKey name (encRaw name ++ r) = some r := by
  simp [matchKey, decRaw_encRaw name r h]

theorem matchKey_other (name g r : Bytes) (h : g.length < 4294967296) (hne : g ≠ name) :
    matchKey name (encRaw g ++ r) = none := by
  simp [matchKey, decRaw_encRaw g r h, hne]

/-- a value list fits a schema: types, sizes, and `omitempty` fields that are empty hold the zero value
(a decoder cannot tell an omitted empty slice from an omitted nil one) -/
def WF : List Field → List Val → Prop
  | [], [] => True
  | f :: fs, v :: vs => v.ty = f.ty ∧ v.Bounded ∧ (f.omitE = true → v.isEmpty = true → v = zero f.ty) ∧ WF fs vs
  | _, _ => False

/-- field names are pairwise different and short enough to be written as keys -/
def NamesOk (fs : List Field) : Prop :=
  (fs.map (·.name)).Nodup ∧ ∀ f ∈ fs, f.name.length < 4294967296

theorem encFields_head (fs : List Field) (vs : List Val) (h : count fs vs ≠ 0) :
    ∃ g ∈ fs, ∃ rest, encFields fs vs = encRaw g.name ++ rest := by
  induction fs generalizing vs with
  | nil => simp [count] at h
  | cons f fs ih =>
    cases vs with
    | nil => simp [count] at h
    | cons v vs =>
      by_cases hp : present f v = true
      · exact ⟨f, List.mem_cons_self, encVal v ++ encFields fs vs, by simp [encFields, hp]⟩
      · have hc : count fs vs ≠ 0 := by simpa [count, hp] using h
        obtain ⟨g, hg, rest, he⟩ := ih vs hc
        exact ⟨g, List.mem_cons_of_mem _ hg, rest, by simp [encFields, hp, he]⟩

theorem decFields_encFields (fs : List Field) (vs : List Val) (r : Bytes) (hwf : WF fs vs) (hn : NamesOk fs) :
    decFields fs (count fs vs) (encFields fs vs ++ r) = some (vs, r) := by
  induction fs generalizing vs with
  | nil =>
    cases vs with
    | nil => simp [decFields, count, encFields]
    | cons v vs => simp [WF] at hwf
  | cons f fs ih =>
    cases vs with
    | nil => simp [WF] at hwf
    | cons v vs =>
      obtain ⟨hty, hb, hz, hrest⟩ := hwf
      have hn' : NamesOk fs := by
        refine ⟨?_, fun g hg => hn.2 g (List.mem_cons_of_mem _ hg)⟩
        have := hn.1
        simp only [List.map_cons, List.nodup_cons] at this
        exact this.2
      have hfl : f.name.length < 4294967296 := hn.2 f List.mem_cons_self
      have ih' := ih vs hrest hn'
      by_cases hp : present f v = true
      · have hk : (1 + count fs vs = 0) = False := by simp
        simp only [decFields, count, encFields, hp, if_true, List.append_assoc, hk, if_false,
          matchKey_self f.name _ hfl, ← hty, decVal_encVal v _ hb, Nat.add_sub_cancel_left, ih']
      · have hpf : present f v = false := by simpa using hp
        have hom : f.omitE = true ∧ v.isEmpty = true := by
          simpa [present] using hpf
        have hv : v = zero f.ty := hz hom.1 hom.2
        have hkey : (if count fs vs = 0 then none else matchKey f.name (encFields fs vs ++ r)) = none := by
          by_cases hc : count fs vs = 0
          · simp [hc]
          · obtain ⟨g, hg, rest, he⟩ := encFields_head fs vs hc
            have hgne : g.name ≠ f.name := by
              intro heq
              have hnd : f.name ∉ fs.map (·.name) := by
                have := hn.1
                simp only [List.map_cons, List.nodup_cons] at this
                exact this.1
              have hm : g.name ∈ fs.map (·.name) := List.mem_map_of_mem hg
              rw [heq] at hm
              exact hnd hm
            simp only [hc, if_false, he, List.append_assoc]
            exact matchKey_other f.name g.name _ (hn'.2 g hg) hgne
        simp only [decFields, count, encFields, hpf, Bool.false_eq_true, if_false, List.nil_append, Nat.zero_add]
        simp only [hkey, hom.1, if_true, ih']
        rw [hv]

/-- **msgpack round trip, schema level**: decoding the encoding of a well-formed value list returns it,
whatever follows on the wire. -/
theorem decStruct_encStruct (fs : List Field) (vs : List Val) (r : Bytes) (hwf : WF fs vs) (hn : NamesOk fs)
    (hlen : fs.length < 16) : decStruct fs (encStruct fs vs ++ r) = some (vs, r) := by
  have hc : count fs vs ≤ fs.length := by
    clear hwf hn hlen
    induction fs generalizing vs with
    | nil => simp [count]
    | cons f fs ih =>
      cases vs with
      | nil => simp [count]
      | cons v vs =>
        have := ih vs
        simp only [count, List.length_cons]
        split <;> omega
  have e : (128 + count fs vs) % 256 = 128 + count fs vs := by omega
  simp only [encStruct, List.cons_append, decStruct, toNat_b, e]
  have : 128 ≤ 128 + count fs vs ∧ 128 + count fs vs ≤ 143 := by omega
  simp only [this, and_self, if_true, Nat.add_sub_cancel_left]
  exact decFields_encFields fs vs r hwf hn

instance (fs : List Field) : Decidable (NamesOk fs) := by unfold NamesOk; exact inferInstance

theorem schema_ok (k : Kind) : NamesOk (schema k) ∧ (schema k).length < 16 := by
  cases k <;> decide

/-- **C12, msgpack round trip of the wire structs**: for each of the twelve structs memberlist puts on
the wire, decoding the encoding of a well-formed value list returns exactly that list and leaves the
rest of the input untouched. -/
theorem C12_msgpack_roundtrip (k : Kind) (vs : List Val) (r : Bytes) (hwf : WF (schema k) vs) :
    decStruct (schema k) (encStruct (schema k) vs ++ r) = some (vs, r) :=
  decStruct_encStruct (schema k) vs r hwf (schema_ok k).1 (schema_ok k).2

/-- the encoding is injective on well-formed messages: two messages with the same bytes are equal -/
theorem C12_msgpack_injective (k : Kind) (vs ws : List Val) (hv : WF (schema k) vs) (hw : WF (schema k) ws)
    (h : encStruct (schema k) vs = encStruct (schema k) ws) : vs = ws := by
  have a := C12_msgpack_roundtrip k vs [] hv
  have c := C12_msgpack_roundtrip k ws [] hw
  rw [h] at a
  rw [a] at c
  simpa using c

/-- the premises are met by a real message (a ping with a source address, as `probeNode` sends it) -/
example : WF (schema .ping) [.str (s ['n', '1']), .uint 70000, .bytes (some [10, 0, 0, 9]), .str (s ['S']), .uint 7946] := by
  simp [WF, schema, fld, Val.ty, Val.Bounded, Val.isEmpty, s]

theorem decStates_encStates (sts : List (List Val)) (r : Bytes)
    (hwf : ∀ st ∈ sts, WF (schema .pushNodeState) st) :
    decStates sts.length (encStates sts ++ r) = some (sts, r) := by
  induction sts with
  | nil => simp [decStates, encStates]
  | cons st sts ih =>
    have h1 := C12_msgpack_roundtrip .pushNodeState st (encStates sts ++ r) (hwf st List.mem_cons_self)
    have h2 := ih (fun x hx => hwf x (List.mem_cons_of_mem _ hx))
    simp only [List.length_cons, decStates, encStates, List.append_assoc, h1, h2]

/-- **C09 / C12, state exchange framing**: what `sendLocalState` writes behind the type byte - the header,
one node state after the other, the user state - is read back by the receiver's parser as the same
join flag, the same node states in the same order and the same user state, and the parser stops
exactly at the end of the exchange. -/
theorem C09_pushpull_framing_roundtrip (join : Bool) (sts : List (List Val)) (user rest : Bytes)
    (hwf : ∀ st ∈ sts, WF (schema .pushNodeState) st)
    (hn : sts.length < 9223372036854775808) (hu : user.length < 9223372036854775808) :
    decPushPull (encPushPull join sts user ++ rest) = some (join, sts, user, rest) := by
  have hh : WF (schema .pushPullHeader) [.bool join, .int sts.length, .int user.length] := by
    simp [WF, schema, fld, Val.ty, Val.Bounded, hn, hu]
  have h1 := C12_msgpack_roundtrip .pushPullHeader _ (encStates sts ++ user ++ rest) hh
  have h2 := decStates_encStates sts (user ++ rest) hwf
  simp only [decPushPull, encPushPull, List.append_assoc] at h1 ⊢
  rw [h1]
  simp only [h2, takeN_append, Option.map_some]

end Swim.Msgpack
