import Swim.Model.Msgpack
/-!
# msgpack round trip for the wire structs (part of C12)
-/
namespace Swim.Msgpack

theorem toNat_b (n : Nat) : (b n).toNat = n % 256 := by
  simp [b, UInt8.toNat_ofNat']

theorem rd16_be16 (n : Nat) (r : Bytes) (h : n < 65536) : rd16 (be16 n ++ r) = some (n, r) := by
  simp only [be16, List.cons_append, List.nil_append, rd16, toNat_b]
  congr 2
  omega

theorem rd32_be32 (n : Nat) (r : Bytes) (h : n < 4294967296) : rd32 (be32 n ++ r) = some (n, r) := by
  simp only [be32, List.cons_append, List.nil_append, rd32, toNat_b]
  congr 2
  omega

theorem rd64_be64 (n : Nat) (r : Bytes) (h : n < 18446744073709551616) : rd64 (be64 n ++ r) = some (n, r) := by
  simp only [be64, List.cons_append, List.nil_append, rd64, toNat_b]
  congr 2
  omega

theorem decUint_encUint (n : Nat) (r : Bytes) (h : n < 18446744073709551616) :
    decUint (encUint n ++ r) = some (n, r) := by
  unfold encUint
  split
  · rename_i h1
    have : n % 256 = n := by omega
    simp [decUint, toNat_b, this, h1]
  · split
    · rename_i h1 h2
      have e : n % 256 = n := by omega
      simp [decUint, toNat_b, e]
    · split
      · rename_i h1 h2 h3
        simp only [List.cons_append, decUint, toNat_b]
        simp [rd16_be16 n r (by omega)]
      · split
        · rename_i h1 h2 h3 h4
          simp only [List.cons_append, decUint, toNat_b]
          simp [rd32_be32 n r (by omega)]
        · simp only [List.cons_append, decUint, toNat_b]
          simp [rd64_be64 n r h]

theorem decInt_encInt (n : Nat) (r : Bytes) (h : n < 9223372036854775808) :
    decInt (encInt n ++ r) = some (n, r) := by
  unfold encInt
  split
  · rename_i h1
    have : n % 256 = n := by omega
    simp [decInt, toNat_b, this, h1]
  · split
    · rename_i h1 h2
      simp only [List.cons_append, decInt, toNat_b]
      simp [rd16_be16 n r (by omega), h2]
    · split
      · rename_i h1 h2 h3
        simp only [List.cons_append, decInt, toNat_b]
        simp [rd32_be32 n r (by omega), h3]
      · simp only [List.cons_append, decInt, toNat_b]
        have : n ≤ 9223372036854775807 := by omega
        simp [rd64_be64 n r (by omega), this]

theorem takeN_append (s r : Bytes) : takeN s.length (s ++ r) = some (s, r) := by
  simp [takeN]

theorem decRaw_encRaw (s r : Bytes) (h : s.length < 4294967296) : decRaw (encRaw s ++ r) = some (s, r) := by
  unfold encRaw
  split
  · rename_i h1
    have e : (160 + s.length) % 256 = 160 + s.length := by omega
    simp only [List.cons_append, decRaw, toNat_b, e]
    have : 160 ≤ 160 + s.length ∧ 160 + s.length ≤ 191 := by omega
    simp only [this, and_self, if_true, Nat.add_sub_cancel_left]
    exact takeN_append s r
  · split
    · rename_i h1 h2
      simp only [List.cons_append, decRaw, toNat_b, List.append_assoc]
      simp [rd16_be16 s.length (s ++ r) h2, takeN_append]
    · simp only [List.cons_append, decRaw, toNat_b, List.append_assoc]
      simp [rd32_be32 s.length (s ++ r) h, takeN_append]

theorem decBool_encBool (v : Bool) (r : Bytes) : decBool (encBool v ++ r) = some (v, r) := by
  cases v <;> simp [encBool, decBool, toNat_b]

/-- sizes the encoder can represent: 64-bit unsigned, 63-bit non-negative int, 32-bit lengths -/
def Val.Bounded : Val → Prop
  | .uint n => n < 18446744073709551616
  | .int n => n < 9223372036854775808
  | .str s => s.length < 4294967296
  | .bytes none => True
  | .bytes (some s) => s.length < 4294967296
  | .bool _ => True

/-- the first byte of a raw header is never the nil marker -/
theorem encRaw_head_ne_nil (s : Bytes) : ∃ t rest, encRaw s = t :: rest ∧ t.toNat ≠ 0xc0 := by
  unfold encRaw
  split
  · rename_i h1
    refine ⟨_, _, rfl, ?_⟩
    simp only [toNat_b]; omega
  · split
    · exact ⟨_, _, rfl, by simp [toNat_b]⟩
    · exact ⟨_, _, rfl, by simp [toNat_b]⟩

theorem decVal_encVal (v : Val) (r : Bytes) (h : v.Bounded) : decVal v.ty (encVal v ++ r) = some (v, r) := by
  cases v with
  | uint n => simp [decVal, encVal, Val.ty, decUint_encUint n r h]
  | int n => simp [decVal, encVal, Val.ty, decInt_encInt n r h]
  | str s => simp [decVal, encVal, Val.ty, decRaw_encRaw s r h]
  | bool v => simp [decVal, encVal, Val.ty, decBool_encBool]
  | bytes o =>
    cases o with
    | none => simp [decVal, encVal, Val.ty, toNat_b]
    | some s =>
      obtain ⟨t, rest, he, hne⟩ := encRaw_head_ne_nil s
      have hd := decRaw_encRaw s r h
      simp only [decVal, encVal, Val.ty]
      rw [he] at hd ⊢
      simp only [List.cons_append] at hd ⊢
      simp [hne, hd]

theorem matchKey_self (name r : Bytes) (h : name.length < 4294967296) :
    matchKey name (encRaw name ++ r) = some r := by
  simp [matchKey, decRaw_encRaw name r h]

theorem matchKey_other (name g r : Bytes) (h : g.length < 4294967296) (hne : g ≠ name) :
    matchKey name (encRaw g ++ r) = none := by
  simp [matchKey, decRaw_encRaw g r h, hne]

/-- a value list fits a schema: types, sizes, and `omitempty` fields that are empty hold the zero value
(a decoder cannot tell an omitted empty slice from an omitted nil one) -/
def WF : List Field → List Val → Prop
  | [], [] => True
  | f :: fs, v :: vs => v.ty = f.ty ∧ v.Bounded ∧ (f.omitE = true → v.isEmpty = true → v = zero f.ty) ∧ WF fs vs
  | _, _ => False

/-- field names are pairwise different and short enough to be written as keys -/
def NamesOk (fs : List Field) : Prop :=
  (fs.map (·.name)).Nodup ∧ ∀ f ∈ fs, f.name.length < 4294967296

theorem encFields_head (fs : List Field) (vs : List Val) (h : count fs vs ≠ 0) :
    ∃ g ∈ fs, ∃ rest, encFields fs vs = encRaw g.name ++ rest := by
  induction fs generalizing vs with
  | nil => simp [count] at h
  | cons f fs ih =>
    cases vs with
    | nil => simp [count] at h
    | cons v vs =>
      by_cases hp : present f v = true
      · exact ⟨f, List.mem_cons_self, encVal v ++ encFields fs vs, by simp [encFields, hp]⟩
      · have hc : count fs vs ≠ 0 := by simpa [count, hp] using h
        obtain ⟨g, hg, rest, he⟩ := ih vs hc
        exact ⟨g, List.mem_cons_of_mem _ hg, rest, by simp [encFields, hp, he]⟩

theorem decFields_encFields (fs : List Field) (vs : List Val) (r : Bytes) (hwf : WF fs vs) (hn : NamesOk fs) :
    decFields fs (count fs vs) (encFields fs vs ++ r) = some (vs, r) := by
  induction fs generalizing vs with
  | nil =>
    cases vs with
    | nil => simp [decFields, count, encFields]
    | cons v vs => simp [WF] at hwf
  | cons f fs ih =>
    cases vs with
    | nil => simp [WF] at hwf
    | cons v vs =>
      obtain ⟨hty, hb, hz, hrest⟩ := hwf
      have hn' : NamesOk fs := by
        refine ⟨?_, fun g hg => hn.2 g (List.mem_cons_of_mem _ hg)⟩
        have := hn.1
        simp only [List.map_cons, List.nodup_cons] at this
        exact this.2
      have hfl : f.name.length < 4294967296 := hn.2 f List.mem_cons_self
      have ih' := ih vs hrest hn'
      by_cases hp : present f v = true
      · have hk : (1 + count fs vs = 0) = False := by simp
        simp only [decFields, count, encFields, hp, if_true, List.append_assoc, hk, if_false,
          matchKey_self f.name _ hfl, ← hty, decVal_encVal v _ hb, Nat.add_sub_cancel_left, ih']
      · have hpf : present f v = false := by simpa using hp
        have hom : f.omitE = true ∧ v.isEmpty = true := by
          simpa [present] using hpf
        have hv : v = zero f.ty := hz hom.1 hom.2
        have hkey : (if count fs vs = 0 then none else matchKey f.name (encFields fs vs ++ r)) = none := by
          by_cases hc : count fs vs = 0
          · simp [hc]
          · obtain ⟨g, hg, rest, he⟩ := encFields_head fs vs hc
            have hgne : g.name ≠ f.name := by
              intro heq
              have hnd : f.name ∉ fs.map (·.name) := by
                have := hn.1
                simp only [List.map_cons, List.nodup_cons] at this
                exact this.1
              have hm : g.name ∈ fs.map (·.name) := List.mem_map_of_mem hg
              rw [heq] at hm
              exact hnd hm
            simp only [hc, if_false, he, List.append_assoc]
            exact matchKey_other f.name g.name _ (hn'.2 g hg) hgne
        simp only [decFields, count, encFields, hpf, Bool.false_eq_true, if_false, List.nil_append, Nat.zero_add]
        simp only [hkey, hom.1, if_true, ih']
        rw [hv]

/-- **msgpack round trip, schema level**: decoding the encoding of a well-formed value list returns it,
whatever follows on the wire. -/
theorem decStruct_encStruct (fs : List Field) (vs : List Val) (r : Bytes) (hwf : WF fs vs) (hn : NamesOk fs)
    (hlen : fs.length < 16) : decStruct fs (encStruct fs vs ++ r) = some (vs, r) := by
  have hc : count fs vs ≤ fs.length := by
    clear hwf hn hlen
    induction fs generalizing vs with
    | nil => simp [count]
    | cons f fs ih =>
      cases vs with
      | nil => simp [count]
      | cons v vs =>
        have := ih vs
        simp only [count, List.length_cons]
        split <;> omega
  have e : (128 + count fs vs) % 256 = 128 + count fs vs := by omega
  simp only [encStruct, List.cons_append, decStruct, toNat_b, e]
  have : 128 ≤ 128 + count fs vs ∧ 128 + count fs vs ≤ 143 := by omega
  simp only [this, and_self, if_true, Nat.add_sub_cancel_left]
  exact decFields_encFields fs vs r hwf hn

instance (fs : List Field) : Decidable (NamesOk fs) := by unfold NamesOk; exact inferInstance

theorem schema_ok (k : Kind) : NamesOk (schema k) ∧ (schema k).length < 16 := by
  cases k <;> decide

/-- **C12, msgpack round trip of the wire structs**: for each of the twelve structs memberlist puts on
the wire, decoding the encoding of a well-formed value list returns exactly that list and leaves the
rest of the input untouched. -/
theorem C12_msgpack_roundtrip (k : Kind) (vs : List Val) (r : Bytes) (hwf : WF (schema k) vs) :
    decStruct (schema k) (encStruct (schema k) vs ++ r) = some (vs, r) :=
  decStruct_encStruct (schema k) vs r hwf (schema_ok k).1 (schema_ok k).2

/-- the encoding is injective on well-formed messages: two messages with the same bytes are equal -/
theorem C12_msgpack_injective (k : Kind) (vs ws : List Val) (hv : WF (schema k) vs) (hw : WF (schema k) ws)
    (h : encStruct (schema k) vs = encStruct (schema k) ws) : vs = ws := by
  have a := C12_msgpack_roundtrip k vs [] hv
  have c := C12_msgpack_roundtrip k ws [] hw
  rw [h] at a
  rw [a] at c
  simpa using c

/-- the premises are met by a real message (a ping with a source address, as `probeNode` sends it) -/
example : WF (schema .ping) [.str (s ['n', '1']), .uint 70000, .bytes (some [10, 0, 0, 9]), .str (s ['S']), .uint 7946] := by
  simp [WF, schema, fld, Val.ty, Val.Bounded, Val.isEmpty, s]

theorem decStates_encStates (sts : List (List Val)) (r : Bytes)
    (hwf : ∀ st ∈ sts, WF (schema .pushNodeState) st) :
    decStates sts.length (encStates sts ++ r) = some (sts, r) := by
  induction sts with
  | nil => simp [decStates, encStates]
  | cons st sts ih =>
    have h1 := C12_msgpack_roundtrip .pushNodeState st (encStates sts ++ r) (hwf st List.mem_cons_self)
    have h2 := ih (fun x hx => hwf x (List.mem_cons_of_mem _ hx))
    simp only [List.length_cons, decStates, encStates, List.append_assoc, h1, h2]

/-- **C09 / C12, state exchange framing**: what `sendLocalState` writes behind the type byte - the header,
one node state after the other, the user state - is read back by the receiver's parser as the same
join flag, the same node states in the same order and the same user state, and the parser stops
exactly at the end of the exchange. -/
theorem C09_pushpull_framing_roundtrip (join : Bool) (sts : List (List Val)) (user rest : Bytes)
    (hwf : ∀ st ∈ sts, WF (schema .pushNodeState) st)
    (hn : sts.length < 9223372036854775808) (hu : user.length < 9223372036854775808) :
    decPushPull (encPushPull join sts user ++ rest) = some (join, sts, user, rest) := by
  have hh : WF (schema .pushPullHeader) [.bool join, .int sts.length, .int user.length] := by
    simp [WF, schema, fld, Val.ty, Val.Bounded, hn, hu]
  have h1 := C12_msgpack_roundtrip .pushPullHeader _ (encStates sts ++ user ++ rest) hh
  have h2 := decStates_encStates sts (user ++ rest) hwf
  simp only [decPushPull, encPushPull, List.append_assoc] at h1 ⊢
  rw [h1]
  simp only [h2, takeN_append, Option.map_some]

end Swim.Msgpack

namespace Swim.Msgpack

/-! ### decoders only look at what they consume: extension and truncation -/

theorem rd16_ext {bs r s : Bytes} {n : Nat} (h : rd16 bs = some (n, r)) : rd16 (bs ++ s) = some (n, r ++ s) := by
  match bs, h with
  | x :: y :: t, h => simp only [rd16, Option.some.injEq, Prod.mk.injEq] at h; simp [rd16, h.1, ← h.2]

theorem rd32_ext {bs r s : Bytes} {n : Nat} (h : rd32 bs = some (n, r)) : rd32 (bs ++ s) = some (n, r ++ s) := by
  match bs, h with
  | x :: y :: z :: w :: t, h => simp only [rd32, Option.some.injEq, Prod.mk.injEq] at h; simp [rd32, h.1, ← h.2]

theorem rd64_ext {bs r s : Bytes} {n : Nat} (h : rd64 bs = some (n, r)) : rd64 (bs ++ s) = some (n, r ++ s) := by
  match bs, h with
  | a :: b :: c :: d :: e :: f :: g :: i :: t, h =>
    simp only [rd64, Option.some.injEq, Prod.mk.injEq] at h; simp [rd64, h.1, ← h.2]

theorem takeN_ext {n : Nat} {bs a r s : Bytes} (h : takeN n bs = some (a, r)) : takeN n (bs ++ s) = some (a, r ++ s) := by
  unfold takeN at h ⊢
  by_cases hn : n ≤ bs.length
  · simp only [hn, if_true, Option.some.injEq, Prod.mk.injEq] at h
    have hn' : n ≤ (bs ++ s).length := by simp; omega
    simp only [hn', if_true, Option.some.injEq, Prod.mk.injEq]
    constructor
    · rw [List.take_append_of_le_length hn]; exact h.1
    · rw [List.drop_append_of_le_length hn]; rw [h.2]
  · simp [hn] at h

theorem decUint_ext {bs r s : Bytes} {n : Nat} (h : decUint bs = some (n, r)) :
    decUint (bs ++ s) = some (n, r ++ s) := by
  cases bs with
  | nil => simp [decUint] at h
  | cons t tl =>
    simp only [decUint, List.cons_append] at h ⊢
    split at h
    · rename_i h1; simp only [h1, if_true]; simp only [Option.some.injEq, Prod.mk.injEq] at h; simp [h.1, ← h.2]
    · rename_i h1
      simp only [h1, if_false]
      split at h
      · rename_i h2
        simp only [h2, if_true]
        cases tl with
        | nil => simp at h
        | cons x r' => simp only [Option.some.injEq, Prod.mk.injEq] at h; simp [h.1, ← h.2]
      · rename_i h2
        simp only [h2, if_false]
        split at h
        · rename_i h3; simp only [h3, if_true]; exact rd16_ext h
        · rename_i h3
          simp only [h3, if_false]
          split at h
          · rename_i h4; simp only [h4, if_true]; exact rd32_ext h
          · rename_i h4
            simp only [h4, if_false]
            split at h
            · rename_i h5; simp only [h5, if_true]; exact rd64_ext h
            · simp at h

theorem decBool_ext {bs r s : Bytes} {v : Bool} (h : decBool bs = some (v, r)) :
    decBool (bs ++ s) = some (v, r ++ s) := by
  cases bs with
  | nil => simp [decBool] at h
  | cons t tl =>
    simp only [decBool, List.cons_append] at h ⊢
    split at h
    · rename_i h1; simp only [h1, if_true]; simp only [Option.some.injEq, Prod.mk.injEq] at h; simp [h.1, ← h.2]
    · rename_i h1
      simp only [h1, if_false]
      split at h
      · rename_i h2; simp only [h2, if_true]; simp only [Option.some.injEq, Prod.mk.injEq] at h; simp [h.1, ← h.2]
      · simp at h

theorem decInt_ext {bs r s : Bytes} {n : Nat} (h : decInt bs = some (n, r)) :
    decInt (bs ++ s) = some (n, r ++ s) := by
  cases bs with
  | nil => simp [decInt] at h
  | cons t tl =>
    simp only [decInt, List.cons_append] at h ⊢
    split at h
    · rename_i h1; simp only [h1, if_true]; simp only [Option.some.injEq, Prod.mk.injEq] at h; simp [h.1, ← h.2]
    · rename_i h1
      simp only [h1, if_false]
      split at h
      · rename_i h2
        simp only [h2, if_true]
        cases hr : rd16 tl with
        | none => simp [hr] at h
        | some p =>
          obtain ⟨m, r'⟩ := p
          simp only [hr] at h
          rw [rd16_ext hr]
          split at h
          · rename_i hb; simp only [hb, if_true]; simp only [Option.some.injEq, Prod.mk.injEq] at h; simp [h.1, ← h.2]
          · simp at h
      · rename_i h2
        simp only [h2, if_false]
        split at h
        · rename_i h3
          simp only [h3, if_true]
          cases hr : rd32 tl with
          | none => simp [hr] at h
          | some p =>
            obtain ⟨m, r'⟩ := p
            simp only [hr] at h
            rw [rd32_ext hr]
            split at h
            · rename_i hb; simp only [hb, if_true]; simp only [Option.some.injEq, Prod.mk.injEq] at h; simp [h.1, ← h.2]
            · simp at h
        · rename_i h3
          simp only [h3, if_false]
          split at h
          · rename_i h4
            simp only [h4, if_true]
            cases hr : rd64 tl with
            | none => simp [hr] at h
            | some p =>
              obtain ⟨m, r'⟩ := p
              simp only [hr] at h
              rw [rd64_ext hr]
              split at h
              · rename_i hb; simp only [hb, if_true]; simp only [Option.some.injEq, Prod.mk.injEq] at h; simp [h.1, ← h.2]
              · simp at h
          · simp at h

theorem decRaw_ext {bs a r s : Bytes} (h : decRaw bs = some (a, r)) :
    decRaw (bs ++ s) = some (a, r ++ s) := by
  cases bs with
  | nil => simp [decRaw] at h
  | cons t tl =>
    simp only [decRaw, List.cons_append] at h ⊢
    split at h
    · rename_i h1; rw [if_pos h1]; exact takeN_ext h
    · rename_i h1
      rw [if_neg h1]
      split at h
      · rename_i h2
        rw [if_pos h2]
        cases hr : rd16 tl with
        | none => simp [hr] at h
        | some p =>
          obtain ⟨m, r'⟩ := p
          simp only [hr] at h
          rw [rd16_ext hr]
          exact takeN_ext h
      · rename_i h2
        rw [if_neg h2]
        split at h
        · rename_i h3
          rw [if_pos h3]
          cases hr : rd32 tl with
          | none => simp [hr] at h
          | some p =>
            obtain ⟨m, r'⟩ := p
            simp only [hr] at h
            rw [rd32_ext hr]
            exact takeN_ext h
        · simp at h

theorem decVal_ext {ty : Ty} {bs r s : Bytes} {v : Val} (h : decVal ty bs = some (v, r)) :
    decVal ty (bs ++ s) = some (v, r ++ s) := by
  cases ty with
  | uint =>
    simp only [decVal] at h ⊢
    cases hd : decUint bs with
    | none => simp [hd] at h
    | some p => obtain ⟨n, r'⟩ := p; simp [hd] at h; simp [decUint_ext hd, h.1, ← h.2]
  | int =>
    simp only [decVal] at h ⊢
    cases hd : decInt bs with
    | none => simp [hd] at h
    | some p => obtain ⟨n, r'⟩ := p; simp [hd] at h; simp [decInt_ext hd, h.1, ← h.2]
  | str =>
    simp only [decVal] at h ⊢
    cases hd : decRaw bs with
    | none => simp [hd] at h
    | some p => obtain ⟨n, r'⟩ := p; simp [hd] at h; simp [decRaw_ext hd, h.1, ← h.2]
  | bool =>
    simp only [decVal] at h ⊢
    cases hd : decBool bs with
    | none => simp [hd] at h
    | some p => obtain ⟨n, r'⟩ := p; simp [hd] at h; simp [decBool_ext hd, h.1, ← h.2]
  | bytes =>
    cases bs with
    | nil => simp [decVal] at h
    | cons t tl =>
      simp only [decVal, List.cons_append] at h ⊢
      split at h
      · rename_i h1; rw [if_pos h1]; simp only [Option.some.injEq, Prod.mk.injEq] at h; simp [h.1, ← h.2]
      · rename_i h1
        rw [if_neg h1]
        cases hd : decRaw (t :: tl) with
        | none => simp [hd] at h
        | some p =>
          obtain ⟨n, r'⟩ := p
          simp [hd] at h
          have := decRaw_ext (s := s) hd
          simp only [List.cons_append] at this
          simp [this, h.1, ← h.2]

theorem matchKey_ext {name bs r s : Bytes} (h : matchKey name bs = some r) :
    matchKey name (bs ++ s) = some (r ++ s) := by
  unfold matchKey at h ⊢
  cases hd : decRaw bs with
  | none => simp [hd] at h
  | some p =>
    obtain ⟨k, r'⟩ := p
    simp only [hd] at h
    rw [decRaw_ext hd]
    by_cases hk : k = name
    · simp only [hk, if_true, Option.some.injEq] at h ⊢; rw [h]
    · simp [hk] at h

/-- a match of the key never happens on the empty input, so it is decided by the bytes that are there -/
theorem matchKey_none_ext_of_consumed {name bs : Bytes} (h : matchKey name bs = none) (hne : ∃ k r, decRaw bs = some (k, r)) (s : Bytes) :
    matchKey name (bs ++ s) = none := by
  obtain ⟨k, r, hd⟩ := hne
  unfold matchKey at h ⊢
  rw [decRaw_ext hd]
  simp only [hd] at h
  by_cases hk : k = name
  · simp [hk] at h
  · simp [hk]

theorem matchKey_some_decRaw {name bs r : Bytes} (h : matchKey name bs = some r) : ∃ k r', decRaw bs = some (k, r') := by
  unfold matchKey at h
  cases hd : decRaw bs with
  | none => simp [hd] at h
  | some p => exact ⟨p.1, p.2, rfl⟩

/-- a successful parse with map entries left to read starts with a key -/
theorem decFields_key (fs : List Field) (k : Nat) (bs : Bytes) (res : List Val × Bytes) (hk : k ≠ 0)
    (h : decFields fs k bs = some res) : ∃ key r, decRaw bs = some (key, r) := by
  induction fs generalizing res with
  | nil =>
    cases k with
    | zero => exact absurd rfl hk
    | succ k' => simp [decFields] at h
  | cons f fs ih =>
    simp only [decFields, hk, if_false] at h
    cases hm : matchKey f.name bs with
    | some bs' => exact matchKey_some_decRaw hm
    | none =>
      simp only [hm] at h
      by_cases ho : f.omitE = true
      · simp only [ho, if_true] at h
        cases hd : decFields fs k bs with
        | none => simp [hd] at h
        | some res' => exact ih res' hd
      · simp [ho] at h

theorem decFields_ext (fs : List Field) (k : Nat) (bs s : Bytes) (vs : List Val) (r : Bytes)
    (h : decFields fs k bs = some (vs, r)) : decFields fs k (bs ++ s) = some (vs, r ++ s) := by
  induction fs generalizing k bs vs r with
  | nil =>
    cases k with
    | zero => simp only [decFields, Option.some.injEq, Prod.mk.injEq] at h ⊢; exact ⟨h.1, by rw [h.2]⟩
    | succ k' => simp [decFields] at h
  | cons f fs ih =>
    by_cases hk : k = 0
    · subst hk
      simp only [decFields, if_true] at h ⊢
      by_cases ho : f.omitE = true
      · simp only [ho, if_true] at h ⊢
        cases hd : decFields fs 0 bs with
        | none => simp [hd] at h
        | some res =>
          obtain ⟨vs', r'⟩ := res
          simp only [hd, Option.some.injEq, Prod.mk.injEq] at h
          rw [ih 0 bs vs' r' hd]
          simp [h.1, ← h.2]
      · simp [ho] at h
    · simp only [decFields, hk, if_false] at h ⊢
      cases hm : matchKey f.name bs with
      | some bs' =>
        simp only [hm] at h
        rw [matchKey_ext hm]
        cases hv : decVal f.ty bs' with
        | none => simp [hv] at h
        | some p =>
          obtain ⟨v, bs''⟩ := p
          simp only [hv] at h
          simp only [decVal_ext hv]
          cases hd : decFields fs (k - 1) bs'' with
          | none => simp [hd] at h
          | some res =>
            obtain ⟨vs', r'⟩ := res
            simp only [hd, Option.some.injEq, Prod.mk.injEq] at h
            rw [ih (k - 1) bs'' vs' r' hd]
            simp [h.1, ← h.2]
      | none =>
        simp only [hm] at h
        by_cases ho : f.omitE = true
        · simp only [ho, if_true] at h
          cases hd : decFields fs k bs with
          | none => simp [hd] at h
          | some res =>
            obtain ⟨vs', r'⟩ := res
            simp only [hd, Option.some.injEq, Prod.mk.injEq] at h
            have hkey := decFields_key fs k bs (vs', r') hk hd
            rw [matchKey_none_ext_of_consumed hm hkey s]
            simp only [ho, if_true]
            rw [ih k bs vs' r' hd]
            simp [h.1, ← h.2]
        · simp [ho] at h

theorem decStruct_ext (fs : List Field) (bs s : Bytes) (vs : List Val) (r : Bytes)
    (h : decStruct fs bs = some (vs, r)) : decStruct fs (bs ++ s) = some (vs, r ++ s) := by
  cases bs with
  | nil => simp [decStruct] at h
  | cons t tl =>
    simp only [decStruct, List.cons_append] at h ⊢
    split at h
    · rename_i h1; rw [if_pos h1]; exact decFields_ext fs _ tl s vs r h
    · simp at h

/-- **C13, truncation of a wire struct**: no strict prefix of the encoding of a well-formed message is
accepted by the decoder - a message cut anywhere is rejected as a whole, never read as a shorter one. -/
theorem C13_struct_truncation_rejected (k : Kind) (vs : List Val) (hwf : WF (schema k) vs) (p suffix : Bytes)
    (h : encStruct (schema k) vs = p ++ suffix) (hs : suffix ≠ []) : decStruct (schema k) p = none := by
  cases hd : decStruct (schema k) p with
  | none => rfl
  | some res =>
    obtain ⟨vs', r'⟩ := res
    have e := decStruct_ext (schema k) p suffix vs' r' hd
    have rt := C12_msgpack_roundtrip k vs [] hwf
    rw [List.append_nil, h, e] at rt
    simp only [Option.some.injEq, Prod.mk.injEq, List.append_eq_nil_iff] at rt
    exact absurd rt.2.2 hs

/-- **C01 / C09, port normalisation**: every node state `readRemoteState` hands to the merge carries a
non-zero port (the configured one where the wire had none), so a port-less entry is the *same* address
as the one a member already holds with the configured port - never a "different address" that would
take the name-reclaim path around the incarnation check. -/
theorem C01_remote_state_ports_normalised (bindPort : Nat) (all : Bool) (hb : bindPort ≠ 0) (st : List Val)
    (hwf : WF (schema .pushNodeState) st) :
    ∃ a i m n p s v, normState bindPort all st = [a, i, m, n, .uint p, s, v] ∧ p ≠ 0 ∧
      (st = [a, i, m, n, .uint (if p = bindPort then (match st with | [_, _, _, _, .uint q, _, _] => q | _ => 0) else p), s, v]) := by
  match st, hwf with
  | [a, i, m, n, .uint q, s, v], _ =>
    refine ⟨a, i, m, n, (if all || q == 0 then bindPort else q), s, v, rfl, ?_, ?_⟩
    · by_cases hq : q = 0
      · simp [hq, hb]
      · by_cases ha : all = true
        · simp [ha, hb]
        · simp [ha, hq]
    · by_cases hc : (all || q == 0) = true
      · simp [hc]
      · simp only [hc]
        by_cases he : q = bindPort
        · simp [he]
        · simp [he]
  | [_, _, _, _, .int _, _, _], h => simp [WF, schema, fld, Val.ty] at h
  | [_, _, _, _, .str _, _, _], h => simp [WF, schema, fld, Val.ty] at h
  | [_, _, _, _, .bytes _, _, _], h => simp [WF, schema, fld, Val.ty] at h
  | [_, _, _, _, .bool _, _, _], h => simp [WF, schema, fld, Val.ty] at h
  | [], h => simp [WF, schema, fld] at h
  | [_], h => simp [WF, schema, fld] at h
  | [_, _], h => simp [WF, schema, fld] at h
  | [_, _, _], h => simp [WF, schema, fld] at h
  | [_, _, _, _], h => simp [WF, schema, fld] at h
  | [_, _, _, _, _], h => simp [WF, schema, fld] at h
  | [_, _, _, _, _, _], h => simp [WF, schema, fld] at h
  | _ :: _ :: _ :: _ :: _ :: _ :: _ :: _ :: _, h => simp [WF, schema, fld] at h

end Swim.Msgpack
