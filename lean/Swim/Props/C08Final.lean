import Swim.Props.C08Cluster
import Swim.Props.Projection
import Swim.Props.C03Cluster
import Swim.Props.C04Cluster
/-!
# C08 at cluster level: a graceful leave is final

For every history of the cluster model: once a node has called Leave, its own record never becomes
alive again and its incarnation never moves; and a peer that holds the departed member as *left* at
that incarnation keeps holding it as left through every further history - whatever alive, suspect
or dead claims about the member are still in flight, delayed, duplicated or re-gossiped - until it
reaps the record (tombstone expiry, the documented limit of the protocol).
-/
namespace Swim.Cluster
open Swim.Merge

/-- same claim as far as finality is concerned -/
def Tomb (r r' : Rec) : Prop := r'.st = r.st ∧ r'.inc = r.inc ∧ r'.addr = r.addr ∧ r'.port = r.port

theorem Tomb.refl (r : Rec) : Tomb r r := ⟨rfl, rfl, rfl, rfl⟩

theorem suspect_keeps (n : Node) (c : Claim) (env : Env) (z : String) (r : Rec)
    (hr : lookup n.recs z = some r) (hd : r.st.deadOrLeft = true) :
    lookup (suspectNode n c env).1.recs z = some r ∧ (suspectNode n c env).1.hasLeft = n.hasLeft := by
  have hhl : (suspectNode n c env).1.hasLeft = n.hasLeft := by
    unfold suspectNode
    cases lookup n.recs c.node with
    | none => rfl
    | some state =>
      simp only
      split
      · rfl
      · cases n.timers.find? (·.node == c.node) with
        | some t => simp only; split <;> rfl
        | none =>
          simp only
          split
          · rfl
          · split
            · simp [refute]
            · rfl
  refine ⟨?_, hhl⟩
  by_cases hz : z = c.node
  · subst hz
    unfold suspectNode
    rw [hr]
    simp only
    split
    · exact hr
    · cases n.timers.find? (·.node == c.node) with
      | some t => simp only; split <;> exact hr
      | none =>
        have : (r.st != .alive) = true := by
          cases hs : r.st <;> simp_all [St.deadOrLeft]
        simp [this, hr]
  · rw [C01_suspect_frame n c env z hz]; exact hr

theorem dead_keeps (n : Node) (c : Claim) (env : Env) (z : String) (r : Rec)
    (hr : lookup n.recs z = some r) (hd : r.st.deadOrLeft = true) :
    lookup (deadNode n c env).1.recs z = some r ∧ (deadNode n c env).1.hasLeft = n.hasLeft := by
  have hhl : (deadNode n c env).1.hasLeft = n.hasLeft := by
    unfold deadNode
    cases lookup n.recs c.node with
    | none => rfl
    | some state =>
      simp only
      split
      · rfl
      · split
        · rfl
        · split
          · simp [refute]
          · rfl
  refine ⟨?_, hhl⟩
  by_cases hz : z = c.node
  · subst hz
    unfold deadNode
    rw [hr]
    simp only
    split
    · exact hr
    · simp [hd, hr]
  · rw [C01_dead_frame n c env z hz]; exact hr

/-- an alive claim that cannot bring `z` back: about another member, or about the leaver itself, or
no newer than the tombstone and from the recorded address -/
def Harmless (n : Node) (z : String) (r : Rec) (a : AliveMsg) : Prop :=
  a.node ≠ z ∨ (z = n.cfg.self ∧ n.hasLeft = true) ∨
  (z ≠ n.cfg.self ∧ a.inc ≤ r.inc ∧ r.addr = a.addr ∧ r.port = a.port)

theorem alive_keeps (n : Node) (a : AliveMsg) (nt b : Bool) (env : Env) (z : String) (r : Rec)
    (hr : lookup n.recs z = some r) (hh : Harmless n z r a) :
    lookup (aliveNode n a nt b env).1.recs z = some r ∧ (aliveNode n a nt b env).1.hasLeft = n.hasLeft := by
  have hhl : (aliveNode n a nt b env).1.hasLeft = n.hasLeft := (aliveApply_cfg n a nt env _).2
  refine ⟨?_, hhl⟩
  rcases hh with h | ⟨h1, h2⟩ | ⟨h1, h2, h3, h4⟩
  · rw [C01_alive_frame n a nt b env z (fun e => h e.symm)]; exact hr
  · by_cases hz : a.node = z
    · rw [C08_leaver_ignores_own_alive n a nt b env h2 (by rw [hz, h1])]; exact hr
    · rw [C01_alive_frame n a nt b env z (fun e => hz e.symm)]; exact hr
  · by_cases hz : a.node = z
    · have hne : a.node ≠ n.cfg.self := by rw [hz]; exact h1
      have hno : ¬ takeover n a env := by
        rintro ⟨r', hr', hdiff, _, _⟩
        rw [hz, hr] at hr'; cases hr'
        rcases hdiff with h | h
        · exact h h3
        · exact h h4
      rw [(C01_alive_stale_noop n a nt b env r hne (by rw [hz]; exact hr) h2 hno).1]; exact hr
    · rw [C01_alive_frame n a nt b env z (fun e => hz e.symm)]; exact hr

theorem mergeOne_keeps (n : Node) (e : PushState) (now : Nat) (z : String) (r : Rec)
    (hr : lookup n.recs z = some r) (hd : r.st.deadOrLeft = true)
    (hh : e.st = .alive → Harmless n z r (aliveOfState e)) :
    lookup (mergeOne n e now).1.recs z = some r ∧ (mergeOne n e now).1.hasLeft = n.hasLeft := by
  unfold mergeOne
  cases hs : e.st with
  | alive => exact alive_keeps n _ false false _ z r hr (hh hs)
  | left => exact dead_keeps n _ _ z r hr hd
  | dead => exact suspect_keeps n _ _ z r hr hd
  | suspect => exact suspect_keeps n _ _ z r hr hd

/-- the alive claims an operation hands to `aliveNode` (merges: one entry, as the cluster model delivers them) -/
def opAlives (n : Node) : Op → List AliveMsg
  | .alive a _ _ => [a]
  | .merge [e] _ => if e.st = .alive then [aliveOfState e] else []
  | .update addr port md vsn _ => [{ inc := (n.selfInc + 1) % u32, node := n.cfg.self, addr, port, md, vsn }]
  | _ => []

def singleMerge : Op → Prop
  | .merge rs _ => ∃ e, rs = [e]
  | _ => True

/-- **one single-node step keeps a tombstone** (a dead or left record of `z`), unless it is the reaper
forgetting another member, provided no alive claim of the step can bring `z` back. -/
theorem step_keeps (n : Node) (o : Op) (z : String) (r : Rec)
    (hr : lookup n.recs z = some r) (hd : r.st.deadOrLeft = true)
    (hop : o ≠ .reap ∨ z = n.cfg.self) (hsm : singleMerge o)
    (hal : ∀ a ∈ opAlives n o, Harmless n z r a)
    (hself : z = n.cfg.self → n.hasLeft = true) :
    ∃ r', lookup (step n o).1.recs z = some r' ∧ Tomb r r' ∧ (n.hasLeft = true → (step n o).1.hasLeft = true) := by
  cases o with
  | alive a b env =>
    obtain ⟨h1, h2⟩ := alive_keeps n a false b env z r hr (hal a (by simp [opAlives]))
    exact ⟨r, h1, Tomb.refl r, fun h => by simp only [step]; rw [h2]; exact h⟩
  | suspect c env =>
    obtain ⟨h1, h2⟩ := suspect_keeps n c env z r hr hd
    exact ⟨r, h1, Tomb.refl r, fun h => by simp only [step]; rw [h2]; exact h⟩
  | dead c env =>
    obtain ⟨h1, h2⟩ := dead_keeps n c env z r hr hd
    exact ⟨r, h1, Tomb.refl r, fun h => by simp only [step]; rw [h2]; exact h⟩
  | merge rs now =>
    obtain ⟨e, rfl⟩ := hsm
    simp only [step, merge_single]
    obtain ⟨h1, h2⟩ := mergeOne_keeps n e now z r hr hd (fun hs => hal _ (by simp [opAlives, hs]))
    exact ⟨r, h1, Tomb.refl r, fun h => by rw [h2]; exact h⟩
  | fire node ca env =>
    simp only [step, timerFire]
    cases hl : lookup n.recs node with
    | none => exact ⟨r, hr, Tomb.refl r, id⟩
    | some state =>
      simp only
      split
      · obtain ⟨h1, h2⟩ := dead_keeps n { inc := state.inc, node := state.name, frm := n.cfg.self } env z r hr hd
        exact ⟨r, h1, Tomb.refl r, fun h => by rw [h2]; exact h⟩
      · exact ⟨r, hr, Tomb.refl r, id⟩
  | reap =>
    rcases hop with h | h
    · exact absurd rfl h
    · refine ⟨r, ?_, Tomb.refl r, id⟩
      simp only [step, reap]
      rw [lookup_filter_keep n.recs _ z (by intro q _ e; simp [e, h])]
      exact hr
  | update addr port md vsn env =>
    simp only [step, updateNode]
    have hh : Harmless { n with selfInc := (n.selfInc + 1) % u32 } z r
        { inc := (n.selfInc + 1) % u32, node := n.cfg.self, addr, port, md, vsn } := by
      by_cases e : z = n.cfg.self
      · exact Or.inr (Or.inl ⟨e, hself e⟩)
      · exact Or.inl (fun h => e h.symm)
    obtain ⟨h1, h2⟩ := alive_keeps { n with selfInc := (n.selfInc + 1) % u32 } _ true true env z r hr hh
    exact ⟨r, h1, Tomb.refl r, fun h => by rw [h2]; exact h⟩
  | leave env =>
    simp only [step, leave]
    by_cases hl : n.hasLeft = true
    · simp only [hl, ↓reduceIte]; exact ⟨r, hr, Tomb.refl r, fun _ => by first | exact hl | trivial⟩
    · simp only [hl, Bool.false_eq_true, ↓reduceIte]
      cases hme : lookup n.recs n.cfg.self with
      | none => exact ⟨r, hr, Tomb.refl r, fun _ => rfl⟩
      | some state =>
        simp only
        obtain ⟨h1, h2⟩ := dead_keeps { n with hasLeft := true } { inc := state.inc, node := state.name, frm := state.name } env z r hr hd
        exact ⟨r, h1, Tomb.refl r, fun _ => by rw [h2]⟩
  | age nm =>
    simp only [step, ageRec]
    rw [lookup_map_namePreserving _ _ (by intro q; split <;> rfl) z, hr]
    simp only [Option.map_some]
    refine ⟨_, rfl, ?_, id⟩
    split <;> exact ⟨rfl, rfl, rfl, rfl⟩

def FactsC (w : World) (op : COp) (a0 : String) (o : Op) : Prop :=
  singleMerge o ∧ (o = .reap → op = .reap a0) ∧
  ∀ n, nodeAt w a0 = some n → ∀ a ∈ opAlives n o,
    Msg.alive a ∈ w.pool ∨ (∃ s, Msg.state s ∈ w.pool ∧ s.st = .alive ∧ aliveOfState s = a) ∨ a.node = a0

theorem facts_of_quiet (w : World) (op : COp) (a0 : String) (o : Op) (hsm : singleMerge o) (hr : o ≠ .reap)
    (hal : ∀ n, opAlives n o = []) : FactsC w op a0 o :=
  ⟨hsm, fun e => absurd e hr, fun n _ a ha => by rw [hal n] at ha; cases ha⟩

/-- what the single-node operation of a cluster step looks like -/
theorem nodeOp_facts (w : World) (op : COp) (a0 : String) (o : Op) (h : nodeOp w op = some (a0, o)) :
    FactsC w op a0 o := by
  cases op with
  | deliver x i env =>
    simp only [nodeOp] at h
    cases hm : w.pool[i]? with
    | none => rw [hm] at h; cases h
    | some m =>
      have hmem : m ∈ w.pool := List.mem_of_getElem? hm
      rw [hm] at h
      cases m with
      | alive a =>
        simp only [Option.some.injEq, Prod.mk.injEq] at h
        obtain ⟨rfl, rfl⟩ := h
        refine ⟨trivial, ?_, ?_⟩
        · intro e; cases e
        · intro n _ a' ha'
          simp only [opAlives, List.mem_singleton] at ha'
          subst ha'; exact Or.inl hmem
      | suspect c =>
        simp only [Option.some.injEq, Prod.mk.injEq] at h
        obtain ⟨rfl, rfl⟩ := h
        exact facts_of_quiet _ _ _ _ trivial (by intro e; cases e) (fun _ => rfl)
      | dead c =>
        simp only [Option.some.injEq, Prod.mk.injEq] at h
        obtain ⟨rfl, rfl⟩ := h
        exact facts_of_quiet _ _ _ _ trivial (by intro e; cases e) (fun _ => rfl)
      | state s =>
        simp only [Option.some.injEq, Prod.mk.injEq] at h
        obtain ⟨rfl, rfl⟩ := h
        refine ⟨⟨_, rfl⟩, ?_, ?_⟩
        · intro e; cases e
        · intro n _ a' ha'
          simp only [opAlives] at ha'
          by_cases hs : s.st = .alive
          · have : (withEnv s env).st = .alive := hs
            simp only [this, ↓reduceIte, List.mem_singleton] at ha'
            subst ha'
            exact Or.inr (Or.inl ⟨s, hmem, hs, rfl⟩)
          · have : ¬ (withEnv s env).st = .alive := hs
            simp [this] at ha'
  | snapshot x => simp [nodeOp] at h
  | announce x addr port md vsn env =>
    simp only [nodeOp] at h
    cases hn : nodeAt w x with
    | none => rw [hn] at h; cases h
    | some n0 =>
      rw [hn] at h
      simp only at h
      have hname := nodeAt_name hn
      have fin : ∀ a1 p1 v1, FactsC w (.announce x addr port md vsn env) x (.update a1 p1 md v1 env) := by
        intro a1 p1 v1
        refine ⟨trivial, ?_, ?_⟩
        · intro e; cases e
        · intro n hn2 a' ha'
          rw [hn] at hn2; cases hn2
          simp only [opAlives, List.mem_singleton] at ha'
          subst ha'; exact Or.inr (Or.inr hname)
      cases hme : lookup n0.recs n0.cfg.self with
      | some me =>
        rw [hme] at h
        simp only [Option.some.injEq, Prod.mk.injEq] at h
        obtain ⟨rfl, rfl⟩ := h
        exact fin _ _ _
      | none =>
        rw [hme] at h
        simp only at h
        by_cases hv : vsn.length = 6
        · simp only [hv, ↓reduceIte, Option.some.injEq, Prod.mk.injEq] at h
          obtain ⟨rfl, rfl⟩ := h
          exact fin _ _ _
        · simp [hv] at h
  | leave x env =>
    simp only [nodeOp, Option.some.injEq, Prod.mk.injEq] at h
    obtain ⟨rfl, rfl⟩ := h
    exact facts_of_quiet _ _ _ _ trivial (by intro e; cases e) (fun _ => rfl)
  | fire x node ca env =>
    simp only [nodeOp, Option.some.injEq, Prod.mk.injEq] at h
    obtain ⟨rfl, rfl⟩ := h
    exact facts_of_quiet _ _ _ _ trivial (by intro e; cases e) (fun _ => rfl)
  | reap x =>
    simp only [nodeOp, Option.some.injEq, Prod.mk.injEq] at h
    obtain ⟨rfl, rfl⟩ := h
    exact ⟨trivial, fun _ => rfl, fun n _ a ha => by simp [opAlives] at ha⟩
  | age x name =>
    simp only [nodeOp, Option.some.injEq, Prod.mk.injEq] at h
    obtain ⟨rfl, rfl⟩ := h
    exact facts_of_quiet _ _ _ _ trivial (by intro e; cases e) (fun _ => rfl)
  | probeFail x t env =>
    simp only [nodeOp] at h
    cases hn : nodeAt w x with
    | none => rw [hn] at h; cases h
    | some n0 =>
      rw [hn] at h
      simp only at h
      split at h
      · cases h
      · cases hl : lookup n0.recs t with
        | none => rw [hl] at h; cases h
        | some r =>
          rw [hl] at h
          simp only [Option.some.injEq, Prod.mk.injEq] at h
          obtain ⟨rfl, rfl⟩ := h
          exact facts_of_quiet _ _ _ _ trivial (by intro e; cases e) (fun _ => rfl)

/-- `x` has left at incarnation `i`, and `y` holds it as left at `i` -/
def Gone (w : World) (x y : String) (i : Nat) : Prop :=
  (∃ X, nodeAt w x = some X ∧ X.hasLeft = true ∧ ∃ me, selfRec X = some me ∧ me.inc = i ∧ me.st.deadOrLeft = true) ∧
  (∃ Y, nodeAt w y = some Y ∧ ∃ r, lookup Y.recs x = some r ∧ r.st = .left ∧ r.inc = i)

theorem nodeAt_mem {w : World} {z : String} {n : Node} (h : nodeAt w z = some n) : n ∈ w.nodes :=
  (find_actor h).1

/-- **one cluster step keeps the departure** (any step but the reaper at `y`). -/
theorem gone_step (w : World) (k : Nat) (hinv : GInv w k) (x y : String) (i : Nat) (hxy : x ≠ y)
    (hg : Gone w x y i) (op : COp) (hop : op ≠ .reap y) : Gone (w.step op) x y i := by
  obtain ⟨⟨X, hX, hXl, me, hme, hmi, hmd⟩, Y, hY, r, hr, hrl, hri⟩ := hg
  have hXn := nodeAt_name hX
  have hYn := nodeAt_name hY
  obtain ⟨px, _⟩ := step_projection w op x
  obtain ⟨py, _⟩ := step_projection w op y
  rw [hX] at px
  rw [hY] at py
  simp only [Option.map_some] at px py
  have hme' : lookup X.recs x = some me := by rw [← hXn]; exact hme
  refine ⟨⟨_, px, ?_⟩, _, py, ?_⟩
  · -- the leaver
    cases ho : nodeOp w op with
    | none => simp only [applyOp]; exact ⟨hXl, me, hme, hmi, hmd⟩
    | some ao =>
      obtain ⟨a0, o⟩ := ao
      by_cases ha : a0 = x
      · subst ha
        simp only [applyOp, ↓reduceIte]
        obtain ⟨fs, _, _⟩ := nodeOp_facts w op a0 o ho
        obtain ⟨r', h1, ⟨t1, t2, _, _⟩, h3⟩ := step_keeps X o a0 me hme' hmd (Or.inr hXn.symm) fs
          (fun a _ => Or.inr (Or.inl ⟨hXn.symm, hXl⟩)) (fun _ => hXl)
        refine ⟨h3 hXl, r', ?_, by rw [t2]; exact hmi, by rw [t1]; exact hmd⟩
        unfold selfRec
        rw [step_cfg, hXn]; exact h1
      · simp only [applyOp, ha, ↓reduceIte]; exact ⟨hXl, me, hme, hmi, hmd⟩
  · -- the holder of the tombstone
    cases ho : nodeOp w op with
    | none => simp only [applyOp]; exact ⟨r, hr, hrl, hri⟩
    | some ao =>
      obtain ⟨a0, o⟩ := ao
      by_cases ha : a0 = y
      · subst ha
        simp only [applyOp, ↓reduceIte]
        obtain ⟨fs, fr, fa⟩ := nodeOp_facts w op a0 o ho
        have hxs : x ≠ Y.cfg.self := by rw [hYn]; exact hxy
        have hrd : r.st.deadOrLeft = true := by rw [hrl]; rfl
        -- the address on record is the leaver's own
        have hYm := nodeAt_mem hY
        have hXm := nodeAt_mem hX
        have hrm : r ∈ Y.recs := List.mem_of_find?_eq_some hr
        have hrn : r.name = x := lookup_name hr
        obtain ⟨X2, hX2, hn2, me2, hme2, _, ra, rp⟩ := ((hinv.2.1 Y hYm).2.2.2.2 r hrm (by rw [hrn]; exact hxs)).2.1
        have : X2 = X := name_unique hinv.1 hX2 hXm (by rw [hn2, hrn, hXn])
        subst this
        rw [hme] at hme2; cases hme2
        have hal : ∀ a ∈ opAlives Y o, Harmless Y x r a := by
          intro a hao
          by_cases hax : a.node = x
          · right; right
            have hga : GoodAliveG w a := by
              rcases fa Y hY a hao with h | ⟨s, hs, hst, rfl⟩ | h
              · exact hinv.2.2 _ h
              · exact (hinv.2.2 _ hs).2.1 hst
              · exact absurd (by rw [← hax, h]) hxy
            obtain ⟨X3, hX3, hn3, me3, hme3, hle3, aa, ap⟩ := hga.2
            have : X3 = X2 := name_unique hinv.1 hX3 hXm (by rw [hn3, hax, hXn])
            subst this
            rw [hme] at hme3; cases hme3
            exact ⟨hxs, by omega, by rw [← ra, aa], by rw [← rp, ap]⟩
          · exact Or.inl hax
        obtain ⟨r', h1, ⟨t1, t2, _, _⟩, _⟩ := step_keeps Y o x r hr hrd
          (Or.inl (fun e => hop (fr e))) fs hal (fun e => absurd e hxs)
        exact ⟨r', h1, by rw [t1]; exact hrl, by rw [t2]; exact hri⟩
      · simp only [applyOp, ha, ↓reduceIte]; exact ⟨r, hr, hrl, hri⟩

theorem gone_run (x y : String) (i : Nat) (hxy : x ≠ y) (more : List COp) : ∀ (w : World) (k : Nat), GInv w k →
    Gone w x y i → (∀ op ∈ more, op ≠ COp.reap y) → k + more.length < u32 → Gone (w.run more) x y i := by
  induction more with
  | nil => intro w k _ hg _ _; exact hg
  | cons op rest ih =>
    intro w k hinv hg hmore hlen
    simp only [World.run, List.foldl_cons]
    simp only [List.length_cons] at hlen
    have h1 := gstep_inv w k op hinv (by omega)
    have hg1 := gone_step w k hinv x y i hxy hg op (hmore op List.mem_cons_self)
    exact ih (w.step op) (k + 1) h1 hg1 (fun o ho => hmore o (List.mem_cons_of_mem _ ho)) (by omega)

/-- **C08_cluster_leave_final.** In every reachable state of the cluster model in which `x` has called
Leave and a peer `y` holds `x` as left at `x`'s own incarnation: after *any* further history that does
not contain the reaper at `y` - every delivery order, duplication and delay of the alive, suspect and
dead claims still in flight, state exchanges, failed probes, timers, other joins and leaves - `x` has
still left at that incarnation with a record that is not alive, and `y` still holds `x` as left. -/
theorem C08_cluster_leave_final (w0 : World) (ops : List COp) (hfresh : Fresh w0) (x y : String) (i : Nat)
    (hxy : x ≠ y) (hg : Gone (w0.run ops) x y i) (more : List COp) (hmore : ∀ op ∈ more, op ≠ COp.reap y)
    (hlen : ops.length + more.length < u32) :
    Gone ((w0.run ops).run more) x y i := by
  have hinv := grun_inv ops w0 0 (gfresh_inv w0 hfresh) (by omega)
  simp only [Nat.zero_add] at hinv
  exact gone_run x y i hxy more _ _ hinv hg hmore hlen

/-- non-vacuity: at the end of the demo history of `Swim.Props.C04Cluster`, `c` has left at incarnation 1
and `b` holds it as left at 1 -/
example : Gone (demoWorld.run demoOps) "c" "b" 1 :=
  ⟨⟨_, rfl, rfl, _, rfl, rfl, rfl⟩, _, rfl, _, rfl, rfl, rfl⟩

end Swim.Cluster
