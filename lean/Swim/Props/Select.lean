import Swim.Model.Select
/-
Theorems about the member-selection helpers (util.go: moveDeadNodes, kRandomNodes) for every list,
every position of every record, every clock reading and every sequence of random choices.
They carry the "never itself and never dead peers" / "a live peer is never dropped" parts of C03,
the "at least one live peer is chosen when one exists" part of C08 (short lists) and the relay
selection of C19.
-/
namespace Swim.Select

/-! ### moveDeadNodes -/

theorem moveDeadLoop_size (xs : Array SNode) (i d : Nat) : (moveDeadLoop xs i d).1.size = xs.size := by
  fun_induction moveDeadLoop xs i d with
  | case1 xs i d h hr ih => simpa using ih
  | case2 xs i d h hr ih => exact ih
  | case3 xs i d h => rfl

/-- nothing is lost, invented or duplicated: the rearranged list is a permutation of the input -/
theorem moveDeadLoop_perm (xs : Array SNode) (i d : Nat) : (moveDeadLoop xs i d).1.Perm xs := by
  fun_induction moveDeadLoop xs i d with
  | case1 xs i d h hr ih => exact ih.trans (Array.swap_perm _ _)
  | case2 xs i d h hr ih => exact ih
  | case3 xs i d h => exact Array.Perm.refl _

/-- the loop invariant: everything before `i` stays, everything in the last `d` places goes -/
structure LoopInv (xs : Array SNode) (i d : Nat) : Prop where
  le : i + d ≤ xs.size
  front : ∀ j (hj : j < xs.size), j < i → (xs[j]).reap = false
  back : ∀ j (hj : j < xs.size), xs.size - d ≤ j → (xs[j]).reap = true

theorem moveDeadLoop_spec (xs : Array SNode) (i d : Nat) (inv : LoopInv xs i d) :
    let r := moveDeadLoop xs i d
    r.2 ≤ r.1.size ∧
    (∀ j (hj : j < r.1.size), j < r.2 → (r.1[j]).reap = false) ∧
    (∀ j (hj : j < r.1.size), r.2 ≤ j → (r.1[j]).reap = true) := by
  fun_induction moveDeadLoop xs i d with
  | case1 xs i d h hr ih =>
    have hsz : (xs.swap i (xs.size - d - 1) (by omega) (by omega)).size = xs.size := by simp
    apply ih
    refine ⟨by simp; omega, ?_, ?_⟩
    · intro j hj hji
      have : j < xs.size := by simpa using hj
      simp only [Array.getElem_swap]
      have h1 : j ≠ i := by omega
      have h2 : j ≠ xs.size - d - 1 := by omega
      simp [h1, h2]; exact inv.front j this hji
    · intro j hj hjd
      have hj' : j < xs.size := by simpa using hj
      simp only [Array.getElem_swap]
      simp only [hsz] at hjd
      by_cases h2 : j = xs.size - d - 1
      · subst h2
        by_cases h1 : xs.size - d - 1 = i
        · simp [h1]; simpa [h1] using hr
        · simp [h1]; exact hr
      · have h1 : j ≠ i := by omega
        simp [h1, h2]; exact inv.back j hj' (by omega)
  | case2 xs i d h hr ih =>
    apply ih
    refine ⟨by omega, ?_, inv.back⟩
    intro j hj hji
    by_cases hji' : j < i
    · exact inv.front j hj hji'
    · have : j = i := by omega
      subst this; simpa using hr
  | case3 xs i d h =>
    refine ⟨by simp, ?_, ?_⟩
    · intro j hj hjr; exact inv.front j hj (by have := inv.le; simp at hjr; omega)
    · intro j hj hjr; exact inv.back j hj (by simpa using hjr)

theorem moveDead_size (xs : Array SNode) : (moveDead xs).1.size = xs.size := moveDeadLoop_size xs 0 0

/-- **C03 / C07 (reaping).** `moveDeadNodes` only rearranges: every record is still there, once. -/
theorem C03_moveDead_perm (xs : Array SNode) : (moveDead xs).1.Perm xs := moveDeadLoop_perm xs 0 0

/-- **C03 (reaping).** The index `moveDeadNodes` returns splits the rearranged list exactly: no record
in front of it is (departed and old), every record from it on is. `resetNodes` deletes the second part
from the member map and truncates the list to the first, so a member that is alive, suspect or only
recently departed is never dropped, and every long-departed record is. -/
theorem C03_moveDead_split (xs : Array SNode) :
    (moveDead xs).2 ≤ xs.size ∧
    (∀ j (hj : j < (moveDead xs).1.size), j < (moveDead xs).2 → ((moveDead xs).1[j]).reap = false) ∧
    (∀ j (hj : j < (moveDead xs).1.size), (moveDead xs).2 ≤ j → ((moveDead xs).1[j]).reap = true) := by
  have h := moveDeadLoop_spec xs 0 0 ⟨by omega, by intro j _ h; omega, by intro j hj h; omega⟩
  have hs := moveDead_size xs
  exact ⟨by have := h.1; unfold moveDead at *; omega, h.2.1, h.2.2⟩

/-- a list all of whose first `k` entries fail `p` and all later ones satisfy it: filtering by `¬p` is `take k` -/
theorem filter_of_split (p : SNode → Bool) : ∀ (l : List SNode) (k : Nat),
    (∀ j (hj : j < l.length), j < k → p l[j] = false) →
    (∀ j (hj : j < l.length), k ≤ j → p l[j] = true) →
    l.filter (fun s => !p s) = l.take k
  | [], k, _, _ => by simp
  | a :: l, 0, _, hb => by
    have h0 := hb 0 (by simp) (by omega)
    simp at h0
    have := filter_of_split p l 0 (by intro j hj h; omega)
      (by intro j hj _; have := hb (j + 1) (by simp; omega) (by omega); simpa using this)
    simp [h0, this]
  | a :: l, k + 1, hf, hb => by
    have h0 := hf 0 (by simp) (by omega)
    simp at h0
    have := filter_of_split p l k
      (by intro j hj h; have := hf (j + 1) (by simp; omega) (by omega); simpa using this)
      (by intro j hj h; have := hb (j + 1) (by simp; omega) (by omega); simpa using this)
    simp [h0, this]

/-- **C03 (reaping), refinement.** What `resetNodes` keeps - the first `deadIdx` entries after
`moveDeadNodes` - is a permutation of "the input without the departed-and-old records": the
abstract `reset` of the probe-cursor model (`Probe.reset`: a filter followed by an observed order). -/
theorem C03_moveDead_refines_filter (xs : Array SNode) :
    ((moveDead xs).1.toList.take (moveDead xs).2).Perm (xs.toList.filter (fun s => !s.reap)) := by
  obtain ⟨_, hf, hb⟩ := C03_moveDead_split xs
  have h1 := filter_of_split SNode.reap (moveDead xs).1.toList (moveDead xs).2
    (by intro j hj h; simpa using hf j (by simpa using hj) h)
    (by intro j hj h; simpa using hb j (by simpa using hj) h)
  rw [← h1]
  exact (Array.perm_iff_toList_perm.mp (C03_moveDead_perm xs)).filter _

/-- the returned index is the number of records that stay -/
theorem C03_moveDead_count (xs : Array SNode) :
    (moveDead xs).2 = (xs.toList.filter (fun s => !s.reap)).length := by
  have h := (C03_moveDead_refines_filter xs).length_eq
  have hle := (C03_moveDead_split xs).1
  have hs := moveDead_size xs
  simp at h
  omega

/-- a member that is alive or suspect is never reaped, whatever the clock says -/
theorem C03_live_never_reaped (n : SNode) (h : n.state = 0 ∨ n.state = 1) : n.reap = false := by
  rcases h with h | h <;> simp [SNode.reap, SNode.gone, h]

/-- non-vacuity: a five-entry list with two old departed records in front -/
example : (moveDead #[⟨"a", 2, true, false⟩, ⟨"b", 3, true, false⟩, ⟨"c", 0, true, false⟩,
    ⟨"d", 2, false, false⟩, ⟨"e", 1, false, false⟩]).2 = 3 := by
  simp [moveDead, moveDeadLoop, SNode.reap, SNode.gone]


/-! ### resetNodes -/

theorem take_of_split (p : SNode → Bool) (l : List SNode) (k : Nat)
    (h : ∀ j (hj : j < l.length), j < k → p l[j] = false) : ∀ s ∈ l.take k, p s = false := by
  intro s hs
  obtain ⟨j, hj, rfl⟩ := List.mem_iff_getElem.mp hs
  simp only [List.length_take] at hj
  rw [List.getElem_take]
  exact h j (by omega) (by omega)

theorem drop_of_split (p : SNode → Bool) (l : List SNode) (k : Nat)
    (h : ∀ j (hj : j < l.length), k ≤ j → p l[j] = true) : ∀ s ∈ l.drop k, p s = true := by
  intro s hs
  obtain ⟨j, hj, rfl⟩ := List.mem_iff_getElem.mp hs
  simp only [List.length_drop] at hj
  rw [List.getElem_drop]
  exact h (k + j) (by omega) (by omega)

theorem moveDead_take_live (xs : Array SNode) : ∀ s ∈ (moveDead xs).1.toList.take (moveDead xs).2, s.reap = false := by
  obtain ⟨_, hf, _⟩ := C03_moveDead_split xs
  exact take_of_split SNode.reap _ _ (by intro j hj h; simpa using hf j (by simpa using hj) h)

theorem moveDead_drop_old (xs : Array SNode) : ∀ s ∈ (moveDead xs).1.toList.drop (moveDead xs).2, s.reap = true := by
  obtain ⟨_, _, hb⟩ := C03_moveDead_split xs
  exact drop_of_split SNode.reap _ _ (by intro j hj h; simpa using hb j (by simpa using hj) h)

theorem mem_moveDead_iff (xs : Array SNode) (s : SNode) : s ∈ (moveDead xs).1.toList ↔ s ∈ xs := by
  have := (Array.perm_iff_toList_perm.mp (C03_moveDead_perm xs)).mem_iff (a := s)
  simpa using this

/-- **C03 / C07 (reaping).** `resetNodes` never drops a member that is alive, suspect or only recently departed. -/
theorem C03_reset_keeps_live (self : String) (xs : Array SNode) (s : SNode) (hs : s ∈ xs) (hl : s.reap = false) :
    s ∈ resetKeep self xs := by
  have hmem : s ∈ (moveDead xs).1.toList := (mem_moveDead_iff xs s).mpr hs
  rw [← List.take_append_drop (moveDead xs).2 (moveDead xs).1.toList] at hmem
  have hk : s ∈ (moveDead xs).1.toList.take (moveDead xs).2 := by
    rcases List.mem_append.mp hmem with h | h
    · exact h
    · have := moveDead_drop_old xs s h; simp [hl] at this
  unfold resetKeep
  simp only
  split
  · exact List.mem_append.mpr (Or.inl hk)
  · exact hk

/-- **C20 (after Leave).** The node's own record survives every reaping pass - also when it is marked as left
and older than the gossip-to-the-dead window (`LocalNode`, `UpdateNode` and `Leave` look it up). -/
theorem C20_reset_keeps_own (self : String) (xs : Array SNode) (s : SNode) (hs : s ∈ xs) (hn : s.name = self) :
    ∃ s' ∈ resetKeep self xs, s'.name = self := by
  by_cases hl : s.reap = false
  · exact ⟨s, C03_reset_keeps_live self xs s hs hl, hn⟩
  · have hmem : s ∈ (moveDead xs).1.toList := (mem_moveDead_iff xs s).mpr hs
    rw [← List.take_append_drop (moveDead xs).2 (moveDead xs).1.toList] at hmem
    have hd : s ∈ (moveDead xs).1.toList.drop (moveDead xs).2 := by
      rcases List.mem_append.mp hmem with h | h
      · have := moveDead_take_live xs s h; simp [this] at hl
      · exact h
    unfold resetKeep
    simp only
    cases hf : ((moveDead xs).1.toList.drop (moveDead xs).2).find? (fun n => n.name == self) with
    | none =>
      have := List.find?_eq_none.mp hf s hd
      simp [hn] at this
    | some s' =>
      have hp := List.find?_some hf
      exact ⟨s', List.mem_append.mpr (Or.inr (by simp)), by simpa using hp⟩

/-- everything `resetNodes` keeps was there before, and is either not (departed and old) or the node's own record:
long-departed members are forgotten -/
theorem C03_reset_sound (self : String) (xs : Array SNode) (s : SNode) (h : s ∈ resetKeep self xs) :
    s ∈ xs ∧ (s.reap = false ∨ s.name = self) := by
  unfold resetKeep at h
  simp only at h
  have htake : ∀ t ∈ (moveDead xs).1.toList.take (moveDead xs).2, t ∈ xs ∧ (t.reap = false ∨ t.name = self) := by
    intro t ht
    exact ⟨(mem_moveDead_iff xs t).mp (List.mem_of_mem_take ht), Or.inl (moveDead_take_live xs t ht)⟩
  split at h
  · rename_i s' hf
    rcases List.mem_append.mp h with h | h
    · exact htake s h
    · have : s = s' := by simpa using h
      subst this
      exact ⟨(mem_moveDead_iff xs s).mp (List.mem_of_mem_drop (List.mem_of_find?_eq_some hf)),
        Or.inr (by simpa using List.find?_some hf)⟩
  · exact htake s h

example : (resetKeep "me" #[⟨"a", 2, true, false⟩, ⟨"me", 3, true, false⟩, ⟨"c", 0, true, false⟩]).map (·.name) = ["c", "me"] := by
  simp [resetKeep, moveDead, moveDeadLoop, SNode.reap, SNode.gone]

/-! ### kRandomNodes -/

/-- what holds of the list of chosen members at every moment of the second loop -/
structure Chosen (k : Nat) (nodes : Array SNode) (acc : List SNode) : Prop where
  len : acc.length ≤ k
  mem : ∀ s ∈ acc, s ∈ nodes ∧ s.excl = false
  distinct : acc.Pairwise (fun a b => a.name ≠ b.name)

theorem pickLoop_chosen (k : Nat) (nodes : Array SNode) :
    ∀ (os : List Nat) (acc : List SNode), Chosen k nodes acc → Chosen k nodes (pickLoop k nodes os acc)
  | [], acc, h => by simpa [pickLoop] using h
  | o :: os, acc, h => by
    unfold pickLoop
    by_cases hk : acc.length ≥ k
    · simpa [hk] using h
    · simp only [hk, if_false]
      cases hn : nodes[o]? with
      | none => simpa using h
      | some s =>
        simp only
        by_cases he : s.excl = true
        · simpa [he] using pickLoop_chosen k nodes os acc h
        · by_cases hd : acc.any (fun a => a.name == s.name) = true
          · simpa [he, hd] using pickLoop_chosen k nodes os acc h
          · simp only [he, hd]
            apply pickLoop_chosen k nodes os
            refine ⟨by simp; omega, ?_, ?_⟩
            · intro x hx
              rcases List.mem_append.mp hx with hx | hx
              · exact h.mem x hx
              · have : x = s := by simpa using hx
                subst this
                exact ⟨Array.mem_of_getElem? hn, by simpa using he⟩
            · rw [List.pairwise_append]
              refine ⟨h.distinct, by simp, ?_⟩
              intro a ha b hb
              have : b = s := by simpa using hb
              subst this
              intro hab
              apply hd
              simp only [List.any_eq_true]
              exact ⟨a, ha, by simp [hab]⟩

/-- the first loop (short lists): the first `k` admissible entries of the shuffled copy -/
theorem kRandom_small (k : Nat) (nodes : Array SNode) (shuffled : List SNode) (offs : List Nat)
    (h : nodes.size < k * 3) :
    kRandom k nodes shuffled offs = (shuffled.filter (fun s => !s.excl)).take k := by
  simp [kRandom, h]

/-- **C03 / C08 / C19 (selection).** For every list, every `k`, every shuffle and every sequence of random
draws: at most `k` members are chosen, each is a record of the list that the caller's rule admits
(so never the node itself, never the probe's target, never a member the rule calls departed). -/
theorem C19_kRandom_sound (k : Nat) (nodes : Array SNode) (shuffled : List SNode) (offs : List Nat)
    (hperm : shuffled.Perm nodes.toList) :
    (kRandom k nodes shuffled offs).length ≤ k ∧
    ∀ s ∈ kRandom k nodes shuffled offs, s ∈ nodes ∧ s.excl = false := by
  unfold kRandom
  split
  · refine ⟨by simp; omega, ?_⟩
    intro s hs
    have := List.mem_filter.mp (List.mem_of_mem_take hs)
    exact ⟨by have := hperm.mem_iff.mp this.1; simpa using this, by simpa using this.2⟩
  · have := pickLoop_chosen k nodes (offs.take (3 * nodes.size)) [] ⟨by simp, by simp, by simp⟩
    exact ⟨this.len, this.mem⟩

/-- no member is chosen twice: in the random-draw loop by the explicit name test, in the short-list walk
because the walk visits each record of the shuffled copy once (names are unique in the member list) -/
theorem C19_kRandom_distinct (k : Nat) (nodes : Array SNode) (shuffled : List SNode) (offs : List Nat)
    (hperm : shuffled.Perm nodes.toList)
    (huniq : nodes.toList.Pairwise (fun a b => a.name ≠ b.name)) :
    (kRandom k nodes shuffled offs).Pairwise (fun a b => a.name ≠ b.name) := by
  unfold kRandom
  split
  · have hs : shuffled.Pairwise (fun a b => a.name ≠ b.name) :=
      hperm.symm.pairwise huniq (fun h => fun e => h e.symm)
    exact ((hs.filter _).sublist (List.take_sublist _ _))
  · exact (pickLoop_chosen k nodes (offs.take (3 * nodes.size)) [] ⟨by simp, by simp, by simp⟩).distinct

/-- **C08 (a departure reaches a live peer), short lists.** When the list has fewer than `3k` records the
walk is exhaustive: exactly `min k (number of admissible records)` members are chosen - so if any
admissible peer exists at least one is chosen (for `k > 0`), whatever the shuffle. -/
theorem C08_kRandom_exhaustive (k : Nat) (nodes : Array SNode) (shuffled : List SNode) (offs : List Nat)
    (hperm : shuffled.Perm nodes.toList) (h : nodes.size < k * 3) :
    (kRandom k nodes shuffled offs).length = min k (nodes.toList.filter (fun s => !s.excl)).length := by
  rw [kRandom_small k nodes shuffled offs h, List.length_take, (hperm.filter _).length_eq]

theorem C08_kRandom_nonempty (k : Nat) (nodes : Array SNode) (shuffled : List SNode) (offs : List Nat)
    (hperm : shuffled.Perm nodes.toList) (h : nodes.size < k * 3) (hk : 0 < k)
    (s : SNode) (hs : s ∈ nodes) (hadm : s.excl = false) :
    kRandom k nodes shuffled offs ≠ [] := by
  have hl := C08_kRandom_exhaustive k nodes shuffled offs hperm h
  have : 0 < (nodes.toList.filter (fun s => !s.excl)).length :=
    List.length_pos_of_mem (List.mem_filter.mpr ⟨by simpa using hs, by simp [hadm]⟩)
  intro he
  rw [he] at hl
  simp at hl
  omega

/-- the long-list loop may come back with fewer than `k` members although more are admissible (the
draws may repeat): a concrete witness, which is why `C08_kRandom_exhaustive` needs `n < 3k` -/
theorem kRandom_long_may_miss :
    kRandom 1 #[⟨"a", 0, false, true⟩, ⟨"b", 0, false, true⟩, ⟨"c", 0, false, false⟩] [] [0, 1, 0, 1, 0, 1, 0, 1, 0] = [] := by
  decide

/-! ### the callers' exclusion rules -/

/-- **C03 / C08.** `gossip()` never picks the node itself, never a member that left, a dead member only
inside the gossip-to-the-dead window, and always admits alive and suspect peers. -/
theorem C08_gossip_rule (isSelf : Bool) (state : Nat) (old : Bool) :
    (gossipExcl isSelf state old = false ↔
      isSelf = false ∧ (state = 0 ∨ state = 1 ∨ (state = 2 ∧ old = false))) := by
  unfold gossipExcl
  cases isSelf <;> cases old <;> simp <;> omega

/-- **C19.** relays for an indirect ping are alive members other than the prober and the target -/
theorem C19_relay_rule (isSelf isTarget : Bool) (state : Nat) :
    (relayExcl isSelf isTarget state = false ↔ isSelf = false ∧ isTarget = false ∧ state = 0) := by
  unfold relayExcl; cases isSelf <;> cases isTarget <;> simp

/-- the push/pull partner is an alive member other than the node itself -/
theorem C09_pushpull_rule (isSelf : Bool) (state : Nat) :
    (pushPullExcl isSelf state = false ↔ isSelf = false ∧ state = 0) := by
  unfold pushPullExcl; cases isSelf <;> simp

/-- the member list as `gossip()` sees it: every record marked with the verdict of gossip's exclusion rule -/
def withGossipRule (self : String) (nodes : Array SNode) : Array SNode :=
  nodes.map fun n => { n with excl := gossipExcl (n.name == self) n.state n.old }

/-- **C08 (Leave waits only when somebody can hear it, and then somebody is told).** Whenever `anyAlive()` holds -
which is exactly when `Leave` waits for its departure to be gossiped - the next gossip round of a node with
fewer than `3 * GossipNodes` records addresses at least one member, and every member it addresses is an alive
or suspect peer or a recently dead one: never the node itself, never a member that left. (`hwf`: records carry
one of the four state codes - `mergeState` and the message handlers store nothing else.) -/
theorem C08_leave_departure_reaches_someone (self : String) (k : Nat) (nodes : Array SNode)
    (shuffled : List SNode) (offs : List Nat)
    (hperm : shuffled.Perm (withGossipRule self nodes).toList)
    (hwf : ∀ n ∈ nodes, n.state ≤ 3)
    (hany : anyAlive self nodes.toList = true) (hk : 0 < k) (hsmall : nodes.size < k * 3) :
    kRandom k (withGossipRule self nodes) shuffled offs ≠ [] ∧
    ∀ s ∈ kRandom k (withGossipRule self nodes) shuffled offs,
      s.name ≠ self ∧ (s.state = 0 ∨ s.state = 1 ∨ (s.state = 2 ∧ s.old = false)) := by
  obtain ⟨n, hn, hp⟩ := List.any_eq_true.mp hany
  simp only [Bool.and_eq_true, Bool.not_eq_true', bne_iff_ne, ne_eq] at hp
  obtain ⟨hgone, hname⟩ := hp
  have hle := hwf n (by simpa using hn)
  have hst : n.state = 0 ∨ n.state = 1 := by
    unfold SNode.gone at hgone
    simp only [Bool.or_eq_false_iff, beq_eq_false_iff_ne, ne_eq] at hgone
    omega
  -- the marked copy of that peer is admissible
  let n' : SNode := { n with excl := gossipExcl (n.name == self) n.state n.old }
  have hn' : n' ∈ withGossipRule self nodes := by
    unfold withGossipRule
    exact Array.mem_map.mpr ⟨n, by simpa using hn, rfl⟩
  have hadm : n'.excl = false := by
    show gossipExcl (n.name == self) n.state n.old = false
    rw [C08_gossip_rule]
    exact ⟨by simpa using hname, by rcases hst with h | h <;> simp [h]⟩
  have hsz : (withGossipRule self nodes).size < k * 3 := by simpa [withGossipRule] using hsmall
  refine ⟨C08_kRandom_nonempty k _ shuffled offs hperm hsz hk n' hn' hadm, ?_⟩
  intro s hs
  obtain ⟨hmem, hex⟩ := (C19_kRandom_sound k _ shuffled offs hperm).2 s hs
  obtain ⟨m, _, rfl⟩ := Array.mem_map.mp (by simpa [withGossipRule] using hmem)
  have := (C08_gossip_rule (m.name == self) m.state m.old).mp hex
  exact ⟨by simpa using this.1, this.2⟩

/-- the hypotheses of `C08_leave_departure_reaches_someone` are satisfiable: a node and one alive peer -/
example : kRandom 3 (withGossipRule "S" #[⟨"S", 0, false, false⟩, ⟨"p", 0, false, false⟩])
    (withGossipRule "S" #[⟨"S", 0, false, false⟩, ⟨"p", 0, false, false⟩]).toList [] ≠ [] :=
  (C08_leave_departure_reaches_someone "S" 3 #[⟨"S", 0, false, false⟩, ⟨"p", 0, false, false⟩] _ []
    (List.Perm.refl _)
    (by intro n hn; simp at hn; rcases hn with rfl | rfl <;> decide)
    (by decide) (by decide) (by decide)).1

example : kRandom 2 #[⟨"a", 0, false, true⟩, ⟨"b", 0, false, false⟩, ⟨"c", 1, false, false⟩]
    [⟨"c", 1, false, false⟩, ⟨"a", 0, false, true⟩, ⟨"b", 0, false, false⟩] [] =
    [⟨"c", 1, false, false⟩, ⟨"b", 0, false, false⟩] := by decide

end Swim.Select
