import Swim.Props.C12
/-!
# C15  Outbound confidentiality: nothing leaves unencrypted when encryption is enforced
-/
namespace Swim.Codec

/-- **write sites (fact theorem, regenerated from the source on every run).** The complete list of
calls of a method named `Write`, `WriteTo` or `WriteToAddress` in the package. The only call that
hands a buffer to the transport from protocol code is in `rawSendMsgPacket`; the only writes to a
`net.Conn` are in `rawSendMsgStream` and `AddLabelHeaderToStream` (the cleartext label header);
the others write into in-memory buffers or are transport wrappers forwarding to each other.
A new send site breaks this theorem. -/
theorem C15_write_sites :
    Gen.writeSites = [
      ("AddLabelHeaderToStream", "conn", "Write"),
      ("Memberlist.encryptLocalState", "buf", "Write"),
      ("Memberlist.rawSendMsgPacket", "m.transport", "WriteToAddress"),
      ("Memberlist.rawSendMsgStream", "conn", "Write"),
      ("Memberlist.sendLocalState", "bufConn", "Write"),
      ("Memberlist.sendLocalState", "bufConn", "Write"),
      ("Memberlist.sendUserMsg", "bufConn", "Write"),
      ("NetTransport.WriteToAddress", "t.udpListeners[0]", "WriteTo"),
      ("NetTransport.WriteTo", "t", "WriteToAddress"),
      ("compressPayload", "compressor", "Write"),
      ("encryptPayload", "dst", "Write"),
      ("labelWrappedTransport.WriteToAddress", "t.NodeAwareTransport", "WriteToAddress"),
      ("labelWrappedTransport.WriteTo", "t.NodeAwareTransport", "WriteTo"),
      ("makeCompoundMessage", "binary", "Write"),
      ("makeCompoundMessage", "buf", "Write"),
      ("shimNodeAwareTransport.WriteToAddress", "t", "WriteTo")] := by
  decide

/-- the protocol code reaches the transport / a connection only through these three functions -/
theorem C15_send_sites :
    (Gen.writeSites.filter fun s => s.2.1 == "m.transport" || s.2.1 == "conn").map (·.1) =
      ["AddLabelHeaderToStream", "Memberlist.rawSendMsgPacket", "Memberlist.rawSendMsgStream"] := by
  decide

/-- **packet_is_ciphertext.** With a primary key, every buffer `sendPacket` produces is the cleartext
label header followed by a version byte, the nonce and the AEAD sealing - under that key, with the
label as associated data - of the whole (compressed, checksummed) message; nothing else. -/
theorem C15_packet_is_ciphertext (P : Prims) (c : SendCfg) (useComp : Bool) (msg k : Bytes)
    (hk : c.key = some k) :
    ∃ v body, sendPacket P c useComp msg = addLabel c.label (v :: (c.nonce ++ P.sealB k c.nonce c.label body)) ∧
      (v = 0 ∨ v = 1) := by
  unfold sendPacket encLayer
  rw [hk]
  by_cases hv : c.vsn1 = true
  · simp only [hv, ↓reduceIte]; exact ⟨1, _, rfl, Or.inr rfl⟩
  · simp only [hv, Bool.false_eq_true, ↓reduceIte]; exact ⟨0, _, rfl, Or.inl rfl⟩

/-- the label header is the only cleartext: removing it from an emitted packet leaves exactly the
version byte, nonce and sealed body -/
theorem C15_only_label_in_clear (P : Prims) (c : SendCfg) (useComp : Bool) (msg k : Bytes)
    (hk : c.key = some k) (hlabel : c.label.length ≤ 255) :
    ∃ v body, removeLabel (sendPacket P c useComp msg) =
      .ok (v :: (c.nonce ++ P.sealB k c.nonce c.label body), c.label) := by
  obtain ⟨v, body, hs, hv⟩ := C15_packet_is_ciphertext P c useComp msg k hk
  refine ⟨v, body, ?_⟩
  rw [hs]
  by_cases hl : c.label = []
  · rw [hl]
    apply C16_nolabel_roundtrip
    intro t ht
    simp at ht; subst ht
    rcases hv with rfl | rfl <;> decide
  · exact C16_label_roundtrip c.label _ (by cases hcl : c.label with | nil => exact absurd hcl hl | cons a b => simp) hlabel

end Swim.Codec
