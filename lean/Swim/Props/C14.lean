import Swim.Props.C13
/-!
# C14  Inbound authentication: only traffic sealed under an installed key is acted on

The AEAD is abstract (`Aead.openB`). "Genuine" traffic is described by a set `Sealed` of
(key, nonce, aad, plaintext, ciphertext) tuples; the integrity assumption on the primitive is
the hypothesis `Integrity`: `openB` succeeds only on members of `Sealed`.
-/
namespace Swim.Ingest
open Swim.Codec

def nonceOf (msg : Bytes) : Bytes := (msg.drop 1).take 12
def bodyOf (msg : Bytes) : Bytes := msg.drop 13

theorem tryKeys_ok (A : Aead) (vsn : UInt8) (nonce ct aad : Bytes) (keys : List Bytes) (p : Bytes)
    (h : tryKeys A vsn nonce ct aad keys = .ok p) :
    ∃ k ∈ keys, ∃ plain, A.openB k nonce aad ct = some plain ∧
      ((vsn ≠ 0 ∧ p = plain) ∨ (vsn = 0 ∧ pkcs7valid plain 16 = true ∧ p = pkcs7strip plain)) := by
  induction keys with
  | nil => simp [tryKeys] at h
  | cons k ks ih =>
    simp only [tryKeys] at h
    cases hk : A.openB k nonce aad ct with
    | none =>
      rw [hk] at h
      obtain ⟨k', hk', rest⟩ := ih h
      exact ⟨k', List.mem_cons_of_mem _ hk', rest⟩
    | some plain =>
      rw [hk] at h
      simp only at h
      refine ⟨k, by simp, plain, hk, ?_⟩
      by_cases hv : (vsn == 0) = true
      · simp only [hv, ↓reduceIte] at h
        have hv0 : vsn = 0 := by simpa using hv
        by_cases hp : pkcs7valid plain 16 = true
        · simp only [hp, ↓reduceIte, pkcs7decodeRaw_of_valid plain hp] at h
          right; exact ⟨hv0, hp, by cases h; rfl⟩
        · simp [hp] at h
      · simp only [hv, Bool.false_eq_true, ↓reduceIte] at h
        left; exact ⟨by simpa using hv, by cases h; rfl⟩

/-- **accept_genuine (primitive level).** If `decryptPayload` returns a plaintext, some installed
key opens the body of the message under the receiver's associated data and the nonce carried in
the message; the plaintext acted on is that opening, with the PKCS7 padding stripped for
version 0. -/
theorem C14_accept_opens (A : Aead) (keys : List Bytes) (msg aad p : Bytes)
    (h : decryptPayload A keys msg aad = .ok p) :
    ∃ k ∈ keys, ∃ plain, A.openB k (nonceOf msg) aad (bodyOf msg) = some plain ∧
      ((msg.head? = some 1 ∧ p = plain) ∨
       (msg.head? = some 0 ∧ pkcs7valid plain 16 = true ∧ p = pkcs7strip plain)) := by
  unfold decryptPayload at h
  by_cases h0 : msg.length = 0
  · simp [h0] at h
  · simp only [h0, ↓reduceIte] at h
    obtain ⟨v, hv⟩ := idx_ok msg 0 (by omega)
    have hhead : msg.head? = some v := by
      unfold idx at hv
      cases msg with
      | nil => simp at h0
      | cons x xs => simp at hv; simp [hv]
    simp only [hv, bind, Except.bind] at h
    by_cases h1 : v.toNat > Gen.c_maxEncryptionVersion
    · simp [h1] at h
    · simp only [h1, ↓reduceIte] at h
      by_cases h2 : msg.length < encryptedLength v.toNat 0
      · simp [h2] at h
      · simp only [h2, ↓reduceIte] at h
        have hlen : 29 ≤ msg.length := by
          have : 29 ≤ encryptedLength v.toNat 0 := by
            unfold encryptedLength
            simp only [Gen.c_versionSize, Gen.c_nonceSize, Gen.c_tagSize, Gen.c_blockSize]
            split <;> omega
          omega
        have s1 : slice msg Gen.c_versionSize (Gen.c_versionSize + Gen.c_nonceSize) = .ok (nonceOf msg) := by
          simp only [slice, Gen.c_versionSize, Gen.c_nonceSize, nonceOf]
          have : 1 ≤ 1 + 12 ∧ 1 + 12 ≤ msg.length := by omega
          simp [this]
        have s2 : sliceFrom msg (Gen.c_versionSize + Gen.c_nonceSize) = .ok (bodyOf msg) := by
          simp only [sliceFrom, Gen.c_versionSize, Gen.c_nonceSize, bodyOf]
          have : 1 + 12 ≤ msg.length := by omega
          simp [this]
        simp only [s1, s2] at h
        obtain ⟨k, hk, plain, hopen, hcase⟩ := tryKeys_ok A v _ _ aad keys p h
        refine ⟨k, hk, plain, hopen, ?_⟩
        have hv01 : v = 0 ∨ v = 1 := by
          have : v.toNat ≤ 1 := by simpa [Gen.c_maxEncryptionVersion] using h1
          rcases Nat.le_one_iff_eq_zero_or_eq_one.mp this with e | e
          · left; exact UInt8.toNat_inj.mp (by simpa using e)
          · right; exact UInt8.toNat_inj.mp (by simpa using e)
        rcases hcase with ⟨hne, hp⟩ | ⟨he, hval, hp⟩
        · left
          rcases hv01 with e | e
          · exact absurd e hne
          · exact ⟨by rw [hhead, e], hp⟩
        · right; exact ⟨by rw [hhead, he], hval, hp⟩

/-- genuine traffic: what honest nodes holding the key have sealed -/
structure Genuine where
  key : Bytes
  nonce : Bytes
  aad : Bytes
  plain : Bytes
  ct : Bytes

/-- the integrity assumption on AES-GCM: under an installed key, `open` succeeds only on a
ciphertext that was produced by sealing that plaintext under the same key, nonce and AAD -/
def Integrity (A : Aead) (keys : List Bytes) (S : Genuine → Prop) : Prop :=
  ∀ k ∈ keys, ∀ n a c p, A.openB k n a c = some p → S ⟨k, n, a, p, c⟩

/-- **accept_genuine.** Under the integrity assumption, whatever `decryptPayload` returns comes
from a genuine sealing under an installed key whose associated data is exactly the receiver's
(its own label on packets; type‖length‖label on streams), with the nonce and body carried in the
message unmodified. Plaintext, foreign keys, other labels and any change to nonce, body or tag
are therefore rejected. -/
theorem C14_accept_genuine (A : Aead) (keys : List Bytes) (S : Genuine → Prop) (hint : Integrity A keys S)
    (msg aad p : Bytes) (h : decryptPayload A keys msg aad = .ok p) :
    ∃ g, S g ∧ g.key ∈ keys ∧ g.aad = aad ∧ g.nonce = nonceOf msg ∧ g.ct = bodyOf msg ∧
      ((msg.head? = some 1 ∧ p = g.plain) ∨
       (msg.head? = some 0 ∧ pkcs7valid g.plain 16 = true ∧ p = pkcs7strip g.plain)) := by
  obtain ⟨k, hk, plain, hopen, hcase⟩ := C14_accept_opens A keys msg aad p h
  exact ⟨⟨k, nonceOf msg, aad, plain, bodyOf msg⟩, hint k hk _ _ _ _ hopen, hk, rfl, rfl, rfl, hcase⟩

/-- **reject_cases.** If no installed key opens the body under the receiver's associated data
(foreign or removed key, other label, modified nonce/body/tag), nothing is returned. -/
theorem C14_reject (A : Aead) (keys : List Bytes) (msg aad : Bytes)
    (hno : ∀ k ∈ keys, A.openB k (nonceOf msg) aad (bodyOf msg) = none) :
    ∀ p, decryptPayload A keys msg aad ≠ .ok p := by
  intro p h
  obtain ⟨k, hk, plain, hopen, _⟩ := C14_accept_opens A keys msg aad p h
  rw [hno k hk] at hopen; cases hopen

/-- **plain_exact (partial).** If the version byte is the one the sender used, the plaintext acted
on is exactly the sender's: version 1 seals the message itself, version 0 seals the PKCS7-padded
message and the receiver strips exactly that padding. -/
theorem C14_plain_exact_partial (A : Aead) (keys : List Bytes) (msg aad p m : Bytes)
    (h : decryptPayload A keys msg aad = .ok p)
    (huniq : ∀ k ∈ keys, ∀ plain, A.openB k (nonceOf msg) aad (bodyOf msg) = some plain →
      (msg.head? = some 1 → plain = m) ∧ (msg.head? = some 0 → plain = pkcs7pad m 16)) :
    p = m := by
  obtain ⟨k, hk, plain, hopen, hcase⟩ := C14_accept_opens A keys msg aad p h
  rcases hcase with ⟨h1, hp⟩ | ⟨h0, _, hp⟩
  · rw [hp]; exact (huniq k hk plain hopen).1 h1
  · rw [hp, (huniq k hk plain hopen).2 h0]; exact (C12_pkcs7_roundtrip m).2

/-- **version_flip_witness.** The version byte is not covered by the authentication tag: the
same nonce and body under the other version byte are accepted with a different plaintext
(known finding C14-version-byte). Witness with a toy AEAD whose `open` returns a fixed 16-byte
plaintext ending in a valid one-byte padding. -/
theorem C14_version_flip_witness :
    let plain : Bytes := List.replicate 15 7 ++ [1]
    let A : Aead := ⟨fun _ _ _ _ => some plain⟩
    let body : Bytes := List.replicate 12 0 ++ List.replicate 32 9
    decryptPayload A [[1]] ((1 : UInt8) :: body) [] = .ok plain ∧
    decryptPayload A [[1]] ((0 : UInt8) :: body) [] = .ok (List.replicate 15 7) := by
  refine ⟨rfl, rfl⟩

end Swim.Ingest
