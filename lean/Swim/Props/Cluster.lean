import Swim.Model.Cluster
import Swim.Props.C04
import Swim.Props.C07
/-!
# Cluster-level theorems (C04: healthy cluster; used again by C02/C05)
Node-level summaries of what one step does to a healthy node, then the invariant of the whole
cluster and its induction over arbitrary step sequences.
-/
namespace Swim.Cluster
open Swim.Merge

theorem lookup_of_mem {recs : List Rec} (hu : (recs.map (·.name)).Nodup) {r : Rec} (hr : r ∈ recs) :
    lookup recs r.name = some r := by
  induction recs with
  | nil => cases hr
  | cons x xs ih =>
    simp only [List.map_cons, List.nodup_cons] at hu
    simp only [lookup, List.find?_cons]
    rcases List.mem_cons.mp hr with rfl | h
    · simp
    · have : (x.name == r.name) = false := by
        simp only [beq_eq_false_iff_ne, ne_eq]
        intro e
        exact hu.1 (by rw [e]; exact List.mem_map.mpr ⟨r, h, rfl⟩)
      simp only [this]
      exact ih hu.2 h

theorem take6 {l : List Nat} (h : l.length = 6) : l.take 6 = l := List.take_of_length_le (by omega)

theorem at_ne (s : String) : (("@" ++ s) == s) = false := by
  simp only [beq_eq_false_iff_ne, ne_eq]
  intro e
  have := congrArg String.length e
  simp [String.length_append] at this

/-- **A. an alive claim about another member reaches a healthy node.** -/
theorem alive_other (n : Node) (a : AliveMsg) (nt : Bool) (env : Env)
    (h : Healthy n) (hself : a.node ≠ n.cfg.self) (hinc : 0 < a.inc) (hv : a.vsn.length = 6) :
    (aliveNode n a nt false env).1.selfInc = n.selfInc ∧
    (aliveNode n a nt false env).1.hasLeft = n.hasLeft ∧
    lookup (aliveNode n a nt false env).1.recs n.cfg.self = lookup n.recs n.cfg.self ∧
    (∀ x ∈ (aliveNode n a nt false env).1.recs, x ∈ n.recs ∨ (x.st = .alive ∧ aliveOfRec x = a)) ∧
    (∀ o ∈ (aliveNode n a nt false env).2, ∀ m ∈ emit (aliveNode n a nt false env).1 (some a) o, m = .alive a) := by
  have hH := (C04_alive_keeps_healthy n a nt false env h hself hinc).1
  have spec := aliveDecide_nonlocal n a false env hself
  unfold aliveNode at hH ⊢
  generalize aliveDecide n a false env = dec at spec hH
  cases dec with
  | ignore => simp only [aliveApply, true_and]; exact ⟨fun x hx => Or.inl hx, by simp⟩
  | conflict =>
    simp only [aliveApply, true_and]
    refine ⟨fun x hx => Or.inl hx, ?_⟩
    intro o ho m hm
    split at ho <;> simp at ho
    subst ho; simp [emit] at hm
  | stubOnly => simp only at spec; omega
  | delTimerOnly isNew => exact absurd spec (by simp)
  | refuteSelf isNew => exact absurd spec (by simp)
  | accept isNew =>
    have hne : n.cfg.self ≠ a.node := fun e => hself e.symm
    cases isNew with
    | false =>
      simp only at spec
      obtain ⟨r, hr, _⟩ := spec
      have hrn := lookup_name hr
      simp only [aliveApply, Bool.false_eq_true, ↓reduceIte, hr, Option.getD_some, true_and]
      have hRn : (acceptRec r a env).name = a.node := by simp [acceptRec, hrn]
      refine ⟨?_, ?_, ?_⟩
      · exact lookup_setRec_ne _ _ _ (by rw [hRn]; exact hne)
      · intro x hx
        rcases mem_setRec hx with h1 | rfl
        · exact Or.inl h1
        · right
          refine ⟨rfl, ?_⟩
          simp [aliveOfRec, acceptRec, hrn, hv, take6 hv]
      · intro o ho m hm
        simp only [List.mem_append, List.mem_singleton] at ho
        rcases ho with rfl | ho
        · simpa [emit] using hm
        · split at ho
          · simp at ho; subst ho; simp [emit] at hm
          · split at ho <;> simp at ho
            subst ho; simp [emit] at hm
    | true =>
      simp only at spec
      obtain ⟨hnone, _, _⟩ := spec
      have hst : lookup (withStub n a).recs a.node = some (stub a) := by
        simp only [withStub]
        exact lookup_append_stub_self _ (stub a) hnone
      simp only [aliveApply, ↓reduceIte, hst, Option.getD_some] at hH ⊢
      have hRn : (acceptRec (stub a) a env).name = a.node := by simp [acceptRec, stub]
      refine ⟨rfl, rfl, ?_, ?_, ?_⟩
      · rw [lookup_setRec_ne _ _ _ (by rw [hRn]; exact hne)]
        simp only [withStub]
        exact lookup_append_stub_ne _ _ _ (by simpa [stub] using hne)
      · intro x hx
        have hxst := hH.1 x hx
        rcases mem_setRec hx with h1 | rfl
        · simp only [withStub, List.mem_append, List.mem_singleton] at h1
          rcases h1 with h1 | rfl
          · exact Or.inl h1
          · simp [stub] at hxst
        · right
          refine ⟨rfl, ?_⟩
          simp [aliveOfRec, acceptRec, stub, hv, take6 hv]
      · intro o ho m hm
        simp only [List.mem_append, List.mem_singleton] at ho
        rcases ho with rfl | ho
        · simpa [emit] using hm
        · split at ho
          · simp at ho; subst ho; simp [emit] at hm
          · split at ho <;> simp at ho
            subst ho; simp [emit] at hm

theorem decideKnown_self_benign (n : Node) (a : AliveMsg) (me : Rec) (upd : Bool)
    (hs : a.node = n.cfg.self) (hle : a.inc ≤ me.inc)
    (heq : a.inc = me.inc → a.md = me.md ∧ a.vsn = me.vsn) :
    decideKnown n a false me upd false = .ignore ∨ decideKnown n a false me upd false = .delTimerOnly false := by
  have hl : (a.node == n.cfg.self) = true := by simpa using hs
  unfold decideKnown
  simp only [hl, Bool.not_true, Bool.and_false, Bool.false_and, Bool.false_eq_true, ↓reduceIte, Bool.and_true,
    Bool.not_false, Bool.true_and]
  by_cases h1 : a.inc < me.inc
  · simp [h1]
  · have e : a.inc = me.inc := by omega
    obtain ⟨e1, e2⟩ := heq e
    simp [e, e1, e2]

/-- **B. an alive claim about the receiver itself that is not newer than its own record changes nothing.** -/
theorem alive_self_benign (n : Node) (a : AliveMsg) (nt : Bool) (env : Env) (me : Rec)
    (ht : n.timers = []) (hs : a.node = n.cfg.self) (hme : lookup n.recs n.cfg.self = some me)
    (hle : a.inc ≤ me.inc) (heq : a.inc = me.inc → a.md = me.md ∧ a.vsn = me.vsn) :
    (aliveNode n a nt false env).1 = n ∧
    (∀ o ∈ (aliveNode n a nt false env).2, ∀ src, emit (aliveNode n a nt false env).1 src o = []) ∧
    (∀ o ∈ (aliveNode n a nt false env).2, ∀ nm, o ≠ Out.leave nm) := by
  have hdec : aliveDecide n a false env = .ignore ∨ aliveDecide n a false env = .conflict ∨
      aliveDecide n a false env = .delTimerOnly false := by
    unfold aliveDecide
    rw [hs, hme]
    simp only
    split
    · exact Or.inl rfl
    · split
      · exact Or.inl rfl
      · split
        · exact Or.inl rfl
        · split
          · split
            · exact Or.inl rfl
            · split
              · rcases decideKnown_self_benign n a me true hs hle heq with e | e
                · exact Or.inl e
                · exact Or.inr (Or.inr e)
              · exact Or.inr (Or.inl rfl)
          · rcases decideKnown_self_benign n a me false hs hle heq with e | e
            · exact Or.inl e
            · exact Or.inr (Or.inr e)
  unfold aliveNode
  rcases hdec with e | e | e <;> rw [e]
  · simp [aliveApply]
  · simp only [aliveApply, true_and]
    constructor
    · intro o ho src
      split at ho <;> simp at ho
      subst ho; rfl
    · intro o ho nm
      split at ho <;> simp at ho
      subst ho; simp
  · simp only [aliveApply, Bool.false_eq_true, ↓reduceIte, List.not_mem_nil, false_imp_iff, implies_true, and_true]
    cases n
    simp only at ht
    subst ht
    rfl

/-- the record a departure leaves behind -/
def leftRec (state : Rec) (inc now : Nat) : Rec := { state with inc := inc, st := .left, changed := some now }

/-- **C. a self-signed departure reaches a healthy node** (another member's, or its own after `Leave`). -/
theorem dead_departure (n : Node) (d : Claim) (env : Env)
    (h : Healthy n) (hfrom : d.frm = d.node) (hok : d.node ≠ n.cfg.self ∨ n.hasLeft = true) :
    (deadNode n d env).1.timers = [] ∧ (deadNode n d env).1.score = n.score ∧
    (deadNode n d env).1.selfInc = n.selfInc ∧ (deadNode n d env).1.hasLeft = n.hasLeft ∧
    (((deadNode n d env).1.recs = n.recs ∧ (deadNode n d env).2 = []) ∨
      ∃ state, lookup n.recs d.node = some state ∧ state.inc ≤ d.inc ∧ state.st = .alive ∧
        (deadNode n d env).1.recs = setRec n.recs (leftRec state d.inc env.now)) ∧
    (∀ o ∈ (deadNode n d env).2, ∀ src, ∀ m ∈ emit (deadNode n d env).1 src o, ∃ c, m = .dead c ∧ c.inc = d.inc ∧ c.node = d.node ∧ c.frm = d.node) ∧
    (∀ o ∈ (deadNode n d env).2, ∀ nm, o = Out.leave nm → nm = d.node) := by
  obtain ⟨hr, ht⟩ := h
  unfold deadNode
  cases hl : lookup n.recs d.node with
  | none => simp [ht]
  | some state =>
    have hn := lookup_name hl
    have hmem : state ∈ n.recs := List.mem_of_find?_eq_some hl
    simp only
    by_cases h1 : d.inc < state.inc
    · simp [h1, ht]
    · simp only [h1, ↓reduceIte]
      by_cases h2 : state.st.deadOrLeft = true
      · simp [h2, ht, delTimer_nil]
      · simp only [h2, Bool.false_eq_true, ↓reduceIte]
        have hal : state.st = .alive := by
          rcases hr state hmem with e | e
          · exact e
          · rw [e] at h2; simp [St.deadOrLeft] at h2
        have hcond : (state.name == n.cfg.self && !n.hasLeft) = false := by
          rcases hok with e | e
          · have : (state.name == n.cfg.self) = false := by simpa [hn] using e
            simp [this]
          · simp [e]
        simp only [hcond, Bool.false_eq_true, ↓reduceIte, hfrom, beq_self_eq_true, ht, delTimer_nil, true_and]
        refine ⟨Or.inr ⟨state, rfl, by omega, hal, rfl⟩, ?_, ?_⟩
        · intro o ho src m hm
          simp only [List.mem_cons, List.not_mem_nil, or_false] at ho
          rcases ho with rfl | rfl
          · simp only [emit, List.mem_singleton] at hm
            exact ⟨_, hm, rfl, rfl, rfl⟩
          · simp [emit] at hm
        · intro o ho nm hnm
          simp only [List.mem_cons, List.not_mem_nil, or_false] at ho
          rcases ho with rfl | rfl
          · cases hnm
          · cases hnm; rfl

theorem setRec_none {l : List Rec} {r : Rec} (h : lookup l r.name = none) : setRec l r = l := by
  simp only [setRec]
  conv => rhs; rw [← List.map_id l]
  apply List.map_congr_left
  intro x hx
  have := List.find?_eq_none.mp h x hx
  simp only [Bool.not_eq_true] at this
  simp [this]

theorem setRec_append_stub {l : List Rec} {s r : Rec} (hs : s.name = r.name) (h : lookup l r.name = none) :
    setRec (l ++ [s]) r = l ++ [r] := by
  have e : setRec (l ++ [s]) r = setRec l r ++ setRec [s] r := by simp [setRec]
  rw [e, setRec_none h]
  simp [setRec, hs]

/-- what the node does with its own announcement (bootstrap alive about itself, next incarnation) -/
theorem announce_decide (n : Node) (a : AliveMsg) (env : Env)
    (hs : a.node = n.cfg.self)
    (hrec : ∀ me, lookup n.recs n.cfg.self = some me → me.inc < a.inc ∧ me.addr = a.addr ∧ me.port = a.port) :
    aliveDecide n a true env = .ignore ∨
    (lookup n.recs n.cfg.self = none ∧ aliveDecide n a true env = .accept true) ∨
    ((lookup n.recs n.cfg.self).isSome ∧ aliveDecide n a true env = .accept false) := by
  have hl : (a.node == n.cfg.self) = true := by simpa using hs
  unfold aliveDecide
  rw [hs]
  split
  · exact Or.inl rfl
  · split
    · exact Or.inl rfl
    · split
      · exact Or.inl rfl
      · cases hme : lookup n.recs n.cfg.self with
        | none =>
          simp only
          split
          · exact Or.inl rfl
          · right; left
            refine ⟨by first | rfl | trivial, ?_⟩
            simp [decideKnown, hl, stub]
        | some me =>
          obtain ⟨h1, h2, h3⟩ := hrec me hme
          right; right
          refine ⟨by first | rfl | trivial, ?_⟩
          have : ¬ a.inc < me.inc := by omega
          simp [h2, h3, decideKnown, hl, this]

theorem mem_delTimer' {ts : List Timer} {name : String} {t : Timer} (h : t ∈ delTimer ts name) : t ∈ ts := by
  simp only [delTimer, List.mem_filter] at h; exact h.1

/-- **D. a node announces itself** (`setAlive`, `UpdateNode`), any state. -/
theorem announce_sum (n : Node) (addr port md : Nat) (vsn : List Nat) (env : Env)
    (hb : n.selfInc + 1 < u32)
    (hself : ∀ me, lookup n.recs n.cfg.self = some me → me.inc ≤ n.selfInc ∧ me.vsn.length = 6) :
    (∀ t ∈ (announce addr port md vsn env n).1.timers, t ∈ n.timers) ∧
    (announce addr port md vsn env n).1.score = n.score ∧
    (announce addr port md vsn env n).1.hasLeft = n.hasLeft ∧
    (announce addr port md vsn env n).1.cfg = n.cfg ∧
    (announce addr port md vsn env n).1.selfInc ≤ n.selfInc + 1 ∧
    n.selfInc ≤ (announce addr port md vsn env n).1.selfInc ∧
    (((announce addr port md vsn env n).1.recs = n.recs ∧ (announce addr port md vsn env n).2 = []) ∨
     (∃ R, R.st = .alive ∧ aliveOfRec R = announceSrc addr port md vsn n ∧ R.inc = n.selfInc + 1 ∧
        R.vsn.length = 6 ∧ R.name = n.cfg.self ∧
        (announce addr port md vsn env n).1.selfInc = n.selfInc + 1 ∧
        (((lookup n.recs n.cfg.self).isSome ∧ (announce addr port md vsn env n).1.recs = setRec n.recs R) ∨
         (lookup n.recs n.cfg.self = none ∧ (announce addr port md vsn env n).1.recs = n.recs ++ [R])) ∧
        (∀ o ∈ (announce addr port md vsn env n).2,
          (∀ m ∈ emit (announce addr port md vsn env n).1 (some (announceSrc addr port md vsn n)) o,
            m = .alive (announceSrc addr port md vsn n)) ∧ ∀ nm, o ≠ Out.leave nm))) := by
  have hmod : (n.selfInc + 1) % u32 = n.selfInc + 1 := Nat.mod_eq_of_lt hb
  -- common part, for the announcement `a` actually processed
  have core : ∀ (a : AliveMsg), a.node = n.cfg.self → a.inc = n.selfInc + 1 → a.vsn.length = 6 →
      (∀ me, lookup n.recs n.cfg.self = some me → me.addr = a.addr ∧ me.port = a.port) →
      let r := aliveNode { n with selfInc := n.selfInc + 1 } a true true env
      (∀ t ∈ r.1.timers, t ∈ n.timers) ∧ r.1.score = n.score ∧ r.1.hasLeft = n.hasLeft ∧ r.1.cfg = n.cfg ∧
      r.1.selfInc = n.selfInc + 1 ∧
      ((r.1.recs = n.recs ∧ r.2 = []) ∨
       (∃ R, R.st = .alive ∧ aliveOfRec R = a ∧ R.inc = n.selfInc + 1 ∧ R.vsn.length = 6 ∧ R.name = n.cfg.self ∧
          (((lookup n.recs n.cfg.self).isSome ∧ r.1.recs = setRec n.recs R) ∨
           (lookup n.recs n.cfg.self = none ∧ r.1.recs = n.recs ++ [R])) ∧
          (∀ o ∈ r.2, (∀ m ∈ emit r.1 (some a) o, m = .alive a) ∧ ∀ nm, o ≠ Out.leave nm))) := by
    intro a hs hinc hv haddr
    have hd := announce_decide { n with selfInc := n.selfInc + 1 } a env hs (by
      intro me hme
      have := hself me hme
      have := haddr me hme
      simp only at *
      omega)
    simp only
    unfold aliveNode
    rcases hd with e | ⟨hnone, e⟩ | ⟨hsome, e⟩ <;> rw [e]
    · simp [aliveApply]
    · simp only at hnone
      have hst : lookup (withStub { n with selfInc := n.selfInc + 1 } a).recs a.node = some (stub a) := by
        simp only [withStub]
        exact lookup_append_stub_self _ (stub a) (by simpa [stub, hs] using hnone)
      simp only [aliveApply, ↓reduceIte, hst, Option.getD_some]
      refine ⟨fun t ht => mem_delTimer' ht, by first | rfl | trivial, by first | rfl | trivial, by first | rfl | trivial, by first | rfl | trivial, Or.inr ⟨acceptRec (stub a) a env, rfl, ?_, ?_, ?_, ?_, ?_, ?_⟩⟩
      · simp [aliveOfRec, acceptRec, stub, hv, take6 hv]
      · simp [acceptRec, hinc]
      · simp [acceptRec, hv, take6 hv]
      · simp [acceptRec, stub, hs]
      · right
        refine ⟨hnone, ?_⟩
        simp only [withStub]
        exact setRec_append_stub (by simp [acceptRec]) (by simpa [acceptRec, stub, hs] using hnone)
      · intro o ho
        simp only [List.mem_append, List.mem_singleton] at ho
        rcases ho with rfl | ho
        · exact ⟨by intro m hm; simpa [emit] using hm, by simp⟩
        · split at ho
          · simp at ho; subst ho; exact ⟨by simp [emit], by simp⟩
          · split at ho <;> simp at ho
            subst ho; exact ⟨by simp [emit], by simp⟩
    · simp only at hsome
      obtain ⟨me, hme⟩ := Option.isSome_iff_exists.mp hsome
      have hmn := lookup_name hme
      have hme' : lookup n.recs a.node = some me := by rw [hs]; exact hme
      simp only [aliveApply, Bool.false_eq_true, ↓reduceIte, hme', Option.getD_some]
      refine ⟨fun t ht => mem_delTimer' ht, by first | rfl | trivial, by first | rfl | trivial, by first | rfl | trivial, by first | rfl | trivial, Or.inr ⟨acceptRec me a env, rfl, ?_, ?_, ?_, ?_, ?_, ?_⟩⟩
      · simp only [aliveOfRec, acceptRec, hv, take6 hv, hmn, Nat.le_refl, ↓reduceIte]
        rw [← hs]
      · simp [acceptRec, hinc]
      · simp [acceptRec, hv, take6 hv]
      · simp [acceptRec, hmn]
      · left; exact ⟨hsome, rfl⟩
      · intro o ho
        simp only [List.mem_append, List.mem_singleton] at ho
        rcases ho with rfl | ho
        · exact ⟨by intro m hm; simpa [emit] using hm, by simp⟩
        · split at ho
          · simp at ho; subst ho; exact ⟨by simp [emit], by simp⟩
          · split at ho <;> simp at ho
            subst ho; exact ⟨by simp [emit], by simp⟩
  unfold announce announceSrc
  cases hme : lookup n.recs n.cfg.self with
  | some me =>
    simp only [updateNode, hmod]
    have c := core { inc := n.selfInc + 1, node := n.cfg.self, addr := me.addr, port := me.port, md := md, vsn := me.vsn }
      rfl rfl (hself me hme).2 (by intro me2 h2; rw [hme] at h2; cases h2; exact ⟨rfl, rfl⟩)
    simp only at c
    obtain ⟨c1, c2, c3, c4, c5, c6⟩ := c
    refine ⟨c1, c2, c3, c4, by omega, by omega, ?_⟩
    rcases c6 with c6 | ⟨R, r1, r2, r3, r4, r5, r6, r7⟩
    · exact Or.inl c6
    · exact Or.inr ⟨R, r1, r2, r3, r4, r5, c5, by simpa [hme] using r6, r7⟩
  | none =>
    by_cases hv : vsn.length = 6
    · simp only [hv, ↓reduceIte, updateNode, hmod]
      have c := core { inc := n.selfInc + 1, node := n.cfg.self, addr := addr, port := port, md := md, vsn := vsn }
        rfl rfl hv (by intro me2 h2; rw [hme] at h2; cases h2)
      simp only at c
      obtain ⟨c1, c2, c3, c4, c5, c6⟩ := c
      refine ⟨c1, c2, c3, c4, by omega, by omega, ?_⟩
      rcases c6 with c6 | ⟨R, r1, r2, r3, r4, r5, r6, r7⟩
      · exact Or.inl c6
      · exact Or.inr ⟨R, r1, r2, r3, r4, r5, c5, by simpa [hme] using r6, r7⟩
    · simp [hv]

/-- **D (healthy).** -/
theorem announce_healthy (n : Node) (addr port md : Nat) (vsn : List Nat) (env : Env)
    (h : Healthy n) (hb : n.selfInc + 1 < u32)
    (hself : ∀ me, lookup n.recs n.cfg.self = some me → me.inc ≤ n.selfInc ∧ me.vsn.length = 6) :
    (announce addr port md vsn env n).1.timers = [] ∧
    (announce addr port md vsn env n).1.score = n.score ∧
    (announce addr port md vsn env n).1.hasLeft = n.hasLeft ∧
    (announce addr port md vsn env n).1.cfg = n.cfg ∧
    (announce addr port md vsn env n).1.selfInc ≤ n.selfInc + 1 ∧
    n.selfInc ≤ (announce addr port md vsn env n).1.selfInc ∧
    (((announce addr port md vsn env n).1.recs = n.recs ∧ (announce addr port md vsn env n).2 = []) ∨
     (∃ R, R.st = .alive ∧ aliveOfRec R = announceSrc addr port md vsn n ∧ R.inc = n.selfInc + 1 ∧
        R.vsn.length = 6 ∧ R.name = n.cfg.self ∧
        (announce addr port md vsn env n).1.selfInc = n.selfInc + 1 ∧
        (((lookup n.recs n.cfg.self).isSome ∧ (announce addr port md vsn env n).1.recs = setRec n.recs R) ∨
         (lookup n.recs n.cfg.self = none ∧ (announce addr port md vsn env n).1.recs = n.recs ++ [R])) ∧
        (∀ o ∈ (announce addr port md vsn env n).2,
          (∀ m ∈ emit (announce addr port md vsn env n).1 (some (announceSrc addr port md vsn n)) o,
            m = .alive (announceSrc addr port md vsn n)) ∧ ∀ nm, o ≠ Out.leave nm))) := by
  obtain ⟨d1, rest⟩ := announce_sum n addr port md vsn env hb hself
  refine ⟨?_, rest⟩
  cases ht : (announce addr port md vsn env n).1.timers with
  | nil => rfl
  | cons t ts =>
    have := d1 t (by rw [ht]; exact List.mem_cons_self)
    rw [h.2] at this; cases this

/-- **E. a healthy node leaves.** -/
theorem leave_healthy (n : Node) (env : Env) (h : Healthy n) :
    (leave n env).1.timers = [] ∧ (leave n env).1.score = n.score ∧
    (leave n env).1.selfInc = n.selfInc ∧ (leave n env).1.cfg = n.cfg ∧ (leave n env).1.hasLeft = true ∧
    (((leave n env).1.recs = n.recs ∧ (leave n env).2 = []) ∨
      ∃ state, lookup n.recs n.cfg.self = some state ∧ state.st = .alive ∧
        (leave n env).1.recs = setRec n.recs (leftRec state state.inc env.now) ∧
        (∀ o ∈ (leave n env).2, (∀ src, ∀ m ∈ emit (leave n env).1 src o,
            ∃ c, m = .dead c ∧ c.inc = state.inc ∧ c.node = n.cfg.self ∧ c.frm = n.cfg.self) ∧
          ∀ nm, o = Out.leave nm → nm = n.cfg.self)) := by
  unfold leave
  by_cases hl : n.hasLeft = true
  · simp [hl, h.2]
  · simp only [hl, Bool.false_eq_true, ↓reduceIte]
    cases hme : lookup n.recs n.cfg.self with
    | none => simp [h.2]
    | some state =>
      have hn := lookup_name hme
      simp only
      have hH : Healthy { n with hasLeft := true } := h
      have d := dead_departure { n with hasLeft := true } { inc := state.inc, node := state.name, frm := state.name } env hH rfl (Or.inr rfl)
      obtain ⟨d1, d2, d3, d4, d5, d6, d7⟩ := d
      refine ⟨d1, d2, d3, dead_cfg _ _ _, d4, ?_⟩
      rcases d5 with d5 | ⟨st2, e1, _, e3, e4⟩
      · exact Or.inl d5
      · simp only [hn] at e1
        rw [hme] at e1
        cases e1
        refine Or.inr ⟨state, rfl, e3, e4, ?_⟩
        intro o ho
        refine ⟨?_, ?_⟩
        · intro src m hm
          obtain ⟨c, c1, c2, c3, c4⟩ := d6 o ho src m hm
          exact ⟨c, c1, c2, by rw [c3]; exact hn, by rw [c4]; exact hn⟩
        · intro nm hnm
          rw [d7 o ho nm hnm]; exact hn

/-! ## `stepEmit` is `step` with the claims attached -/

theorem emitOuts_fst (n' : Node) (src : Option AliveMsg) (outs : List Out) :
    (emitOuts n' src outs).map (·.1) = outs := by
  simp only [emitOuts, List.map_map]
  conv => rhs; rw [← List.map_id outs]
  apply List.map_congr_left
  intro o _; rfl

theorem mergeEmit_eq (rs : List PushState) (now : Nat) : ∀ (n : Node) (acc : List (Out × List Msg)) (acc' : List Out),
    acc.map (·.1) = acc' →
    let e := rs.foldl (fun (a : Node × List (Out × List Msg)) r =>
      ((mergeOne a.1 r now).1, a.2 ++ emitOuts (mergeOne a.1 r now).1 (if r.st = .alive then some (aliveOfState r) else none) (mergeOne a.1 r now).2)) (n, acc)
    let m := rs.foldl (fun (a : Node × List Out) r => let (n', o) := mergeOne a.1 r now; (n', a.2 ++ o)) (n, acc')
    e.1 = m.1 ∧ e.2.map (·.1) = m.2 := by
  induction rs with
  | nil => intro n acc acc' h; exact ⟨rfl, h⟩
  | cons r rs ih =>
    intro n acc acc' h
    simp only [List.foldl_cons]
    exact ih _ _ _ (by simp [emitOuts_fst, h])

/-- the single-node step with emission agrees with the plain step on effects -/
theorem stepEmit_outs (n : Node) (op : Op) : (stepEmit n op).map (·.1) = (step n op).2 := by
  cases op with
  | merge rs now =>
    simp only [stepEmit, step, mergeState, mergeEmit]
    exact (mergeEmit_eq rs now n [] [] rfl).2
  | alive a b env => simp [stepEmit, emitOuts_fst]
  | update a p m v env => simp [stepEmit, emitOuts_fst]
  | suspect c env => simp [stepEmit, emitOuts_fst]
  | dead c env => simp [stepEmit, emitOuts_fst]
  | fire nd ca env => simp [stepEmit, emitOuts_fst]
  | reap => simp [stepEmit, emitOuts_fst]
  | leave env => simp [stepEmit, emitOuts_fst]
  | age nm => simp [stepEmit, emitOuts_fst]

theorem mergeEmit_node (n : Node) (rs : List PushState) (now : Nat) :
    (mergeEmit n rs now).1 = (mergeState n rs now).1 ∧ (mergeEmit n rs now).2.map (·.1) = (mergeState n rs now).2 := by
  simp only [mergeState, mergeEmit]
  exact mergeEmit_eq rs now n [] [] rfl

/-! ## The healthy-cluster invariant -/

def selfRec (n : Node) : Option Rec := lookup n.recs n.cfg.self

/-- the alive claim is covered by what its subject holds about itself now: not newer than the
subject's own record, and at the same incarnation it carries the same metadata and versions -/
def Owned (w : World) (a : AliveMsg) : Prop :=
  ∃ n ∈ w.nodes, n.cfg.self = a.node ∧ ∃ me, selfRec n = some me ∧ a.inc ≤ me.inc ∧
    (a.inc = me.inc → a.md = me.md ∧ a.vsn = me.vsn)

def GoodAlive (w : World) (a : AliveMsg) : Prop := 0 < a.inc ∧ a.vsn.length = 6 ∧ Owned w a

/-- `x` has called Leave, at an incarnation not below `inc` -/
def Departed (w : World) (x : String) (inc : Nat) : Prop :=
  ∃ n ∈ w.nodes, n.cfg.self = x ∧ n.hasLeft = true ∧ ∃ me, selfRec n = some me ∧ inc ≤ me.inc

/-- the claims that circulate in a healthy cluster -/
def Benign (w : World) : Msg → Prop
  | .alive a => GoodAlive w a
  | .suspect _ => False
  | .dead c => c.frm = c.node ∧ Departed w c.node c.inc
  | .state s => (s.st = .alive ∧ GoodAlive w (aliveOfState s)) ∨ (s.st = .left ∧ Departed w s.name s.inc)

/-- the same claim, possibly with another change time -/
def SameClaim (y0 y : Rec) : Prop := aliveOfRec y0 = aliveOfRec y ∧ y0.st = y.st

def RecGood (w : World) (r : Rec) : Prop :=
  (r.st = .alive → GoodAlive w (aliveOfRec r)) ∧ (r.st = .left → Departed w r.name r.inc)

def SelfFacts (n : Node) : Prop :=
  ∀ me, selfRec n = some me → me.inc ≤ n.selfInc ∧ 0 < me.inc ∧ me.vsn.length = 6 ∧ (me.st = .left → n.hasLeft = true)

def NodeOk (w : World) (k : Nat) (n : Node) : Prop :=
  Healthy n ∧ n.score = 0 ∧ n.selfInc ≤ k ∧ Uniq n ∧ SelfFacts n ∧
  (∀ r ∈ n.recs, r.name ≠ n.cfg.self → RecGood w r)

def Inv (w : World) (k : Nat) : Prop :=
  (w.nodes.map (·.cfg.self)).Nodup ∧ (∀ n ∈ w.nodes, NodeOk w k n) ∧ (∀ m ∈ w.pool, Benign w m) ∧
  (∀ e ∈ w.log, ∀ nm, e.2 = Out.leave nm → ∃ i, Departed w nm i)

/-- what a node holds about itself only moves forward -/
def OwnerMono (n n' : Node) : Prop :=
  n'.cfg = n.cfg ∧ (n.hasLeft = true → n'.hasLeft = true) ∧
  ∀ me, selfRec n = some me → ∃ me', selfRec n' = some me' ∧ me.inc ≤ me'.inc ∧
    (me.inc = me'.inc → me'.md = me.md ∧ me'.vsn = me.vsn)

def Ext (w w' : World) : Prop := ∀ n ∈ w.nodes, ∃ n' ∈ w'.nodes, OwnerMono n n'

theorem OwnerMono.refl (n : Node) : OwnerMono n n := ⟨rfl, id, fun me h => ⟨me, h, Nat.le_refl _, fun _ => ⟨rfl, rfl⟩⟩⟩

theorem Owned.ext {w w' : World} (h : Ext w w') {a : AliveMsg} (ho : Owned w a) : Owned w' a := by
  obtain ⟨n, hn, hname, me, hme, hle, heq⟩ := ho
  obtain ⟨n', hn', hcfg, _, hm⟩ := h n hn
  obtain ⟨me', hme', h1, h2⟩ := hm me hme
  refine ⟨n', hn', by rw [hcfg]; exact hname, me', hme', by omega, ?_⟩
  intro e
  have e1 : a.inc = me.inc := by omega
  have e2 : me.inc = me'.inc := by omega
  obtain ⟨x1, x2⟩ := heq e1
  obtain ⟨y1, y2⟩ := h2 e2
  exact ⟨by rw [x1, y1], by rw [x2, y2]⟩

theorem GoodAlive.ext {w w' : World} (h : Ext w w') {a : AliveMsg} (hg : GoodAlive w a) : GoodAlive w' a :=
  ⟨hg.1, hg.2.1, hg.2.2.ext h⟩

theorem Departed.ext {w w' : World} (h : Ext w w') {x : String} {i : Nat} (hd : Departed w x i) : Departed w' x i := by
  obtain ⟨n, hn, hname, hl, me, hme, hle⟩ := hd
  obtain ⟨n', hn', hcfg, hl', hm⟩ := h n hn
  obtain ⟨me', hme', h1, _⟩ := hm me hme
  exact ⟨n', hn', by rw [hcfg]; exact hname, hl' hl, me', hme', by omega⟩

theorem Benign.ext {w w' : World} (h : Ext w w') {m : Msg} (hb : Benign w m) : Benign w' m := by
  cases m with
  | alive a => exact GoodAlive.ext h hb
  | suspect c => exact hb
  | dead c => exact ⟨hb.1, hb.2.ext h⟩
  | state s =>
    rcases hb with ⟨e, g⟩ | ⟨e, g⟩
    · exact Or.inl ⟨e, g.ext h⟩
    · exact Or.inr ⟨e, g.ext h⟩

theorem RecGood.ext {w w' : World} (h : Ext w w') {r : Rec} (hg : RecGood w r) : RecGood w' r :=
  ⟨fun e => (hg.1 e).ext h, fun e => (hg.2 e).ext h⟩

theorem RecGood.same {w : World} {y0 y : Rec} (hs : SameClaim y0 y) (hg : RecGood w y0) : RecGood w y := by
  obtain ⟨e1, e2⟩ := hs
  have en : y0.name = y.name := congrArg AliveMsg.node e1
  have ei : y0.inc = y.inc := congrArg AliveMsg.inc e1
  constructor
  · intro h; rw [← e1]; exact hg.1 (by rw [e2]; exact h)
  · intro h; rw [← en, ← ei]; exact hg.2 (by rw [e2]; exact h)

theorem name_unique {l : List Node} (hu : (l.map (·.cfg.self)).Nodup) {a b : Node} (ha : a ∈ l) (hb : b ∈ l)
    (e : a.cfg.self = b.cfg.self) : a = b := by
  induction l with
  | nil => cases ha
  | cons x xs ih =>
    simp only [List.map_cons, List.nodup_cons] at hu
    rcases List.mem_cons.mp ha with rfl | ha' <;> rcases List.mem_cons.mp hb with rfl | hb'
    · rfl
    · exact absurd (List.mem_map.mpr ⟨b, hb', e.symm⟩) hu.1
    · exact absurd (List.mem_map.mpr ⟨a, ha', e⟩) hu.1
    · exact ih hu.2 ha' hb'

theorem find_actor {l : List Node} {x : String} {n : Node} (h : l.find? (·.cfg.self == x) = some n) :
    n ∈ l ∧ n.cfg.self = x :=
  ⟨List.mem_of_find?_eq_some h, by simpa using List.find?_some h⟩

theorem NodeOk.ext {w w' : World} {k k' : Nat} (h : Ext w w') (hk : k ≤ k') {n : Node} (ho : NodeOk w k n) :
    NodeOk w' k' n := by
  obtain ⟨a, b, c, d, e, f⟩ := ho
  exact ⟨a, b, by omega, d, e, fun r hr hne => (f r hr hne).ext h⟩

/-- **one node acts.** If the acting node's step moves its own record forward, keeps the node healthy,
and everything new it stores, sends or reports is covered in the resulting world, the cluster
invariant is preserved. -/
theorem act_inv (w : World) (k : Nat) (x : String) (f : Node → Node × List Out) (src : Option AliveMsg) (n : Node)
    (hinv : Inv w k) (hfind : w.nodes.find? (·.cfg.self == x) = some n)
    (h1 : OwnerMono n (f n).1)
    (h2 : Healthy (f n).1 ∧ (f n).1.score = 0 ∧ (f n).1.selfInc ≤ k + 1 ∧ Uniq (f n).1 ∧ SelfFacts (f n).1)
    (h3 : ∀ w', Ext w w' → (f n).1 ∈ w'.nodes → ∀ y ∈ (f n).1.recs, y.name ≠ x →
        (∃ y0 ∈ n.recs, SameClaim y0 y) ∨ RecGood w' y)
    (h4 : ∀ w', Ext w w' → (f n).1 ∈ w'.nodes → ∀ o ∈ (f n).2, ∀ m ∈ emit (f n).1 src o, Benign w' m)
    (h5 : ∀ w', Ext w w' → (f n).1 ∈ w'.nodes → ∀ o ∈ (f n).2, ∀ nm, o = Out.leave nm → ∃ i, Departed w' nm i) :
    Inv (act w x f src) (k + 1) := by
  obtain ⟨hnd, hnodes, hpool, hlog⟩ := hinv
  obtain ⟨hmem, hname⟩ := find_actor hfind
  unfold act
  rw [hfind]
  simp only
  generalize hw' : World.mk _ _ _ = w'
  have hnodes' : w'.nodes = w.nodes.map (fun k => if (k.cfg.self == x) = true then (f n).1 else k) := by rw [← hw']
  have hpool' : w'.pool = w.pool ++ (f n).2.flatMap (emit (f n).1 src) := by rw [← hw']
  have hlog' : w'.log = w.log ++ (f n).2.map (fun o => (x, o)) := by rw [← hw']
  have hext : Ext w w' := by
    intro k0 hk0
    refine ⟨if (k0.cfg.self == x) = true then (f n).1 else k0, ?_, ?_⟩
    · rw [hnodes']; exact List.mem_map.mpr ⟨k0, hk0, rfl⟩
    · by_cases e : (k0.cfg.self == x) = true
      · have : k0 = n := name_unique hnd hk0 hmem (by rw [hname]; simpa using e)
        simp only [e, ↓reduceIte]; rw [this]; exact h1
      · simp only [e, Bool.false_eq_true, ↓reduceIte]; exact OwnerMono.refl k0
  have hin : (f n).1 ∈ w'.nodes := by
    rw [hnodes']
    refine List.mem_map.mpr ⟨n, hmem, ?_⟩
    simp [hname]
  refine ⟨?_, ?_, ?_, ?_⟩
  · rw [hnodes', List.map_map]
    have : (fun k : Node => k.cfg.self) ∘ (fun k => if (k.cfg.self == x) = true then (f n).1 else k) = fun k : Node => k.cfg.self := by
      funext k0
      simp only [Function.comp]
      by_cases e : (k0.cfg.self == x) = true
      · simp only [e, ↓reduceIte]
        rw [h1.1, hname]; exact (by simpa using e : k0.cfg.self = x).symm
      · simp only [e, Bool.false_eq_true, ↓reduceIte]
    rw [this]; exact hnd
  · intro n' hn'
    rw [hnodes'] at hn'
    obtain ⟨k0, hk0, rfl⟩ := List.mem_map.mp hn'
    by_cases e : (k0.cfg.self == x) = true
    · simp only [e, ↓reduceIte]
      obtain ⟨a, b, c, d, e5⟩ := h2
      refine ⟨a, b, c, d, e5, ?_⟩
      intro y hy hne
      have hne' : y.name ≠ x := by rw [h1.1, hname] at hne; exact hne
      rcases h3 w' hext hin y hy hne' with ⟨y0, hy0, hs⟩ | g
      · have hn0 : y0.name ≠ n.cfg.self := by
          have : y0.name = y.name := congrArg AliveMsg.node hs.1
          rw [this, hname]; exact hne'
        exact RecGood.same hs (((hnodes n hmem).2.2.2.2.2 y0 hy0 hn0).ext hext)
      · exact g
    · simp only [e, Bool.false_eq_true, ↓reduceIte]
      exact (hnodes k0 hk0).ext hext (by omega)
  · intro m hm
    rw [hpool'] at hm
    rcases List.mem_append.mp hm with h | h
    · exact (hpool m h).ext hext
    · obtain ⟨o, ho, hmo⟩ := List.mem_flatMap.mp h
      exact h4 w' hext hin o ho m hmo
  · intro e he nm hnm
    rw [hlog'] at he
    rcases List.mem_append.mp he with h | h
    · obtain ⟨i, hi⟩ := hlog e h nm hnm
      exact ⟨i, hi.ext hext⟩
    · obtain ⟨o, ho, rfl⟩ := List.mem_map.mp h
      exact h5 w' hext hin o ho nm hnm

theorem SameClaim.refl (y : Rec) : SameClaim y y := ⟨rfl, rfl⟩

/-- a step that leaves the acting node as it was and sends nothing -/
theorem act_inv_noop (w : World) (k : Nat) (x : String) (f : Node → Node × List Out) (src : Option AliveMsg) (n : Node)
    (hinv : Inv w k) (hfind : w.nodes.find? (·.cfg.self == x) = some n)
    (h1 : (f n).1 = n) (h4 : ∀ o ∈ (f n).2, emit (f n).1 src o = [])
    (h5 : ∀ o ∈ (f n).2, ∀ nm, o ≠ Out.leave nm) : Inv (act w x f src) (k + 1) := by
  have hno := hinv.2.1 n (find_actor hfind).1
  apply act_inv w k x f src n hinv hfind
  · rw [h1]; exact OwnerMono.refl n
  · rw [h1]; exact ⟨hno.1, hno.2.1, by have := hno.2.2.1; omega, hno.2.2.2.1, hno.2.2.2.2.1⟩
  · intro w' _ _ y hy _
    rw [h1] at hy
    exact Or.inl ⟨y, hy, SameClaim.refl y⟩
  · intro w' _ _ o ho m hm
    rw [h4 o ho] at hm; cases hm
  · intro w' _ _ o ho nm hnm
    exact absurd hnm (h5 o ho nm)

theorem selfRec_congr {n n' : Node} (hc : n'.cfg = n.cfg) (hl : lookup n'.recs n.cfg.self = lookup n.recs n.cfg.self) :
    selfRec n' = selfRec n := by
  unfold selfRec; rw [hc]; exact hl

/-- an alive claim that is covered by its subject's own record reaches a node -/
theorem alive_step_inv (w : World) (k : Nat) (x : String) (a : AliveMsg) (env : Env) (n : Node)
    (hinv : Inv w k) (hfind : w.nodes.find? (·.cfg.self == x) = some n) (hg : GoodAlive w a) :
    Inv (act w x (fun n => aliveNode n a false false env) (some a)) (k + 1) := by
  obtain ⟨hmem, hname⟩ := find_actor hfind
  have hno := hinv.2.1 n hmem
  obtain ⟨hH, hsc, hsi, hu, hsf, hrg⟩ := hno
  by_cases hs : a.node = n.cfg.self
  · -- about the receiver itself: nothing happens
    obtain ⟨_, _, n0, hn0, hn0n, me, hme, hle, heq⟩ := hg
    have : n0 = n := name_unique hinv.1 hn0 hmem (by rw [hn0n, hs])
    subst this
    have B := alive_self_benign n0 a false env me hH.2 hs hme hle heq
    exact act_inv_noop w k x _ (some a) n0 hinv hfind B.1 (fun o ho => B.2.1 o ho _) B.2.2
  · have A := alive_other n a false env hH hs hg.1 hg.2.1
    have C := C04_alive_keeps_healthy n a false false env hH hs hg.1
    obtain ⟨a1, a2, a3, a4, a5⟩ := A
    have hcfg := alive_cfg n a false false env
    have hsr : selfRec (aliveNode n a false false env).1 = selfRec n := selfRec_congr hcfg a3
    apply act_inv w k x _ (some a) n hinv hfind
    · refine ⟨hcfg, by rw [a2]; exact id, ?_⟩
      intro me hme
      exact ⟨me, by rw [hsr]; exact hme, Nat.le_refl _, fun _ => ⟨rfl, rfl⟩⟩
    · refine ⟨C.1, by rw [C.2.1]; exact hsc, by rw [a1]; omega, alive_uniq n a false false env hu, ?_⟩
      intro me hme
      rw [hsr] at hme
      have := hsf me hme
      rw [a1, a2]; exact this
    · intro w' hext _ y hy _
      rcases a4 y hy with h | ⟨h1, h2⟩
      · exact Or.inl ⟨y, h, SameClaim.refl y⟩
      · right
        refine ⟨fun _ => by rw [h2]; exact hg.ext hext, fun e => by rw [h1] at e; cases e⟩
    · intro w' hext _ o ho m hm
      rw [a5 o ho m hm]
      exact hg.ext hext
    · intro w' _ _ o ho nm hnm
      exact absurd hnm (C.2.2 o ho nm)

/-- a self-signed departure of a member that has called Leave reaches a node -/
theorem dead_step_inv (w : World) (k : Nat) (x : String) (c : Claim) (env : Env) (src : Option AliveMsg) (n : Node)
    (hinv : Inv w k) (hfind : w.nodes.find? (·.cfg.self == x) = some n)
    (hfrom : c.frm = c.node) (hdep : Departed w c.node c.inc) :
    Inv (act w x (fun n => deadNode n c env) src) (k + 1) := by
  obtain ⟨hmem, hname⟩ := find_actor hfind
  obtain ⟨hH, hsc, hsi, hu, hsf, hrg⟩ := hinv.2.1 n hmem
  -- if the claim is about the receiver, the receiver is the member that left
  have hown : c.node = n.cfg.self → n.hasLeft = true ∧ ∃ me, selfRec n = some me ∧ c.inc ≤ me.inc := by
    intro e
    obtain ⟨n0, hn0, hn0n, hl, me, hme, hle⟩ := hdep
    have : n0 = n := name_unique hinv.1 hn0 hmem (by rw [hn0n, e])
    subst this
    exact ⟨hl, me, hme, hle⟩
  have hok : c.node ≠ n.cfg.self ∨ n.hasLeft = true := by
    by_cases e : c.node = n.cfg.self
    · exact Or.inr (hown e).1
    · exact Or.inl e
  obtain ⟨d1, d2, d3, d4, d5, d6, d7⟩ := dead_departure n c env hH hfrom hok
  have hcfg := dead_cfg n c env
  -- the record list afterwards, and what it means for the node's own record
  have hself : selfRec (deadNode n c env).1 = selfRec n ∨
      ∃ me, selfRec n = some me ∧ c.node = n.cfg.self ∧ me.inc ≤ c.inc ∧
        selfRec (deadNode n c env).1 = some (leftRec me c.inc env.now) := by
    rcases d5 with ⟨e, _⟩ | ⟨state, hst, hle, _, e⟩
    · left; exact selfRec_congr hcfg (by rw [e])
    · have hsn := lookup_name hst
      by_cases es : c.node = n.cfg.self
      · right
        refine ⟨state, by unfold selfRec; rw [← es]; exact hst, es, hle, ?_⟩
        unfold selfRec
        rw [hcfg, e]
        have : (leftRec state c.inc env.now).name = n.cfg.self := by simp [leftRec, hsn, es]
        rw [← this]
        exact lookup_setRec_self _ _ (by rw [this, ← es, hst]; rfl)
      · left
        apply selfRec_congr hcfg
        rw [e]
        exact lookup_setRec_ne _ _ _ (by simp only [leftRec, hsn]; exact fun h => es h.symm)
  have hrecs : ∀ y ∈ (deadNode n c env).1.recs, y ∈ n.recs ∨
      (y.st = .left ∧ y.name = c.node ∧ y.inc = c.inc) := by
    intro y hy
    rcases d5 with ⟨e, _⟩ | ⟨state, hst, _, _, e⟩
    · left; rw [e] at hy; exact hy
    · rw [e] at hy
      rcases mem_setRec hy with h | rfl
      · exact Or.inl h
      · exact Or.inr ⟨rfl, by simp only [leftRec]; exact lookup_name hst, rfl⟩
  apply act_inv w k x _ src n hinv hfind
  · refine ⟨hcfg, by rw [d4]; exact id, ?_⟩
    intro me hme
    rcases hself with e | ⟨me0, hme0, _, hle, e⟩
    · exact ⟨me, by rw [e]; exact hme, Nat.le_refl _, fun _ => ⟨rfl, rfl⟩⟩
    · rw [hme] at hme0; cases hme0
      exact ⟨_, e, hle, fun _ => ⟨rfl, rfl⟩⟩
  · refine ⟨⟨?_, d1⟩, by rw [d2]; exact hsc, by rw [d3]; omega, dead_uniq n c env hu, ?_⟩
    · intro y hy
      rcases hrecs y hy with h | ⟨h, _, _⟩
      · exact hH.1 y h
      · exact Or.inr h
    · intro me hme
      rcases hself with e | ⟨me0, hme0, es, hle, e⟩
      · rw [e] at hme
        have := hsf me hme
        rw [d3, d4]; exact this
      · rw [e] at hme; cases hme
        obtain ⟨hl, me1, hme1, hle1⟩ := hown es
        rw [hme0] at hme1; cases hme1
        have := hsf me0 hme0
        refine ⟨?_, ?_, this.2.2.1, fun _ => by rw [d4]; exact hl⟩
        · rw [d3]; simp only [leftRec]; omega
        · simp only [leftRec]; omega
  · intro w' hext _ y hy _
    rcases hrecs y hy with h | ⟨h1, h2, h3⟩
    · exact Or.inl ⟨y, h, SameClaim.refl y⟩
    · right
      refine ⟨fun e => ?_, fun _ => ?_⟩
      · rw [h1] at e; cases e
      · rw [h2, h3]; exact hdep.ext hext
  · intro w' hext _ o ho m hm
    obtain ⟨c', rfl, c1, c2, c3⟩ := d6 o ho src m hm
    refine ⟨by rw [c3, c2], ?_⟩
    rw [c2, c1]; exact hdep.ext hext
  · intro w' hext _ o ho nm hnm
    rw [d7 o ho nm hnm]
    exact ⟨c.inc, hdep.ext hext⟩

theorem announce_uniq (n : Node) (addr port md : Nat) (vsn : List Nat) (env : Env) (hu : Uniq n) :
    Uniq (announce addr port md vsn env n).1 := by
  unfold announce
  cases lookup n.recs n.cfg.self with
  | some me => exact alive_uniq _ _ _ _ _ hu
  | none =>
    by_cases hv : vsn.length = 6
    · simp only [hv, ↓reduceIte]; exact alive_uniq _ _ _ _ _ hu
    · simp only [hv, ↓reduceIte]; exact hu

/-- a node announces itself (`setAlive`, `UpdateNode`) -/
theorem announce_step_inv (w : World) (k : Nat) (x : String) (addr port md : Nat) (vsn : List Nat) (env : Env) (n : Node)
    (hinv : Inv w k) (hfind : w.nodes.find? (·.cfg.self == x) = some n) (hk : k + 1 < u32) :
    Inv (act w x (announce addr port md vsn env) (some (announceSrc addr port md vsn n))) (k + 1) := by
  obtain ⟨hmem, hname⟩ := find_actor hfind
  obtain ⟨hH, hsc, hsi, hu, hsf, hrg⟩ := hinv.2.1 n hmem
  have D := announce_healthy n addr port md vsn env hH (by omega)
    (fun me hme => ⟨(hsf me hme).1, (hsf me hme).2.2.1⟩)
  have hU := announce_uniq n addr port md vsn env hu
  obtain ⟨d1, d2, d3, hcfg, d5, d6, d7⟩ := D
  generalize announceSrc addr port md vsn n = a at *
  -- own record afterwards
  have hself : ((announce addr port md vsn env n).1.recs = n.recs ∧
        selfRec (announce addr port md vsn env n).1 = selfRec n ∧ (announce addr port md vsn env n).2 = []) ∨
      ∃ R, selfRec (announce addr port md vsn env n).1 = some R ∧ R.st = .alive ∧ aliveOfRec R = a ∧
        R.inc = n.selfInc + 1 ∧ R.vsn.length = 6 ∧
        R.name = n.cfg.self ∧ (announce addr port md vsn env n).1.selfInc = n.selfInc + 1 ∧
        (∀ y ∈ (announce addr port md vsn env n).1.recs, y ∈ n.recs ∨ y = R) ∧
        (∀ o ∈ (announce addr port md vsn env n).2,
          (∀ m ∈ emit (announce addr port md vsn env n).1 (some a) o, m = .alive a) ∧ ∀ nm, o ≠ Out.leave nm) := by
    rcases d7 with ⟨e1, e2⟩ | ⟨R, r1, r2, r3, r4, r5, r6, r7, r8⟩
    · left; exact ⟨e1, selfRec_congr hcfg (by rw [e1]), e2⟩
    · right
      refine ⟨R, ?_, r1, r2, r3, r4, r5, r6, ?_, r8⟩
      · unfold selfRec
        rw [hcfg]
        rcases r7 with ⟨hs, e⟩ | ⟨hn, e⟩
        · rw [e, ← r5]; exact lookup_setRec_self _ _ (by rw [r5]; exact hs)
        · rw [e, ← r5]; exact lookup_append_stub_self _ _ (by rw [r5]; exact hn)
      · intro y hy
        rcases r7 with ⟨_, e⟩ | ⟨_, e⟩
        · rw [e] at hy; exact mem_setRec hy
        · rw [e] at hy; simpa using hy
  apply act_inv w k x _ (some a) n hinv hfind
  · refine ⟨hcfg, by rw [d3]; exact id, ?_⟩
    intro me hme
    rcases hself with ⟨_, e, _⟩ | ⟨R, e, _, _, r3, _⟩
    · exact ⟨me, by rw [e]; exact hme, Nat.le_refl _, fun _ => ⟨rfl, rfl⟩⟩
    · have := (hsf me hme).1
      exact ⟨R, e, by omega, fun h => by omega⟩
  · refine ⟨⟨?_, d1⟩, by rw [d2]; exact hsc, by omega, hU, ?_⟩
    · intro y hy
      rcases hself with ⟨e, _, _⟩ | ⟨R, _, r1, _, _, _, _, _, r7, _⟩
      · rw [e] at hy; exact hH.1 y hy
      · rcases r7 y hy with h | rfl
        · exact hH.1 y h
        · exact Or.inl r1
    · intro me hme
      rcases hself with ⟨_, e, _⟩ | ⟨R, e, r1, _, r3, r4, _, r6, _, _⟩
      · rw [e] at hme
        have := hsf me hme
        refine ⟨by omega, this.2.1, this.2.2.1, fun h => by rw [d3]; exact this.2.2.2 h⟩
      · rw [e] at hme; cases hme
        exact ⟨by omega, by omega, r4, fun h => by rw [r1] at h; cases h⟩
  · intro w' _ _ y hy hne
    rcases hself with ⟨e, _, _⟩ | ⟨R, _, _, _, _, _, r5, _, r7, _⟩
    · rw [e] at hy; exact Or.inl ⟨y, hy, SameClaim.refl y⟩
    · rcases r7 y hy with h | rfl
      · exact Or.inl ⟨y, h, SameClaim.refl y⟩
      · exact absurd (by rw [r5, hname]) hne
  · intro w' _ hin o ho m hm
    rcases hself with ⟨_, _, e⟩ | ⟨R, e, _, r2, r3, r4, r5, _, _, r8⟩
    · rw [e] at ho; cases ho
    · rw [(r8 o ho).1 m hm]
      have ei : a.inc = R.inc := by rw [← r2]; rfl
      have ev : a.vsn = R.vsn := by rw [← r2]; rfl
      have em : a.md = R.md := by rw [← r2]; rfl
      have en : a.node = R.name := by rw [← r2]; rfl
      refine ⟨by omega, by rw [ev]; exact r4, _, hin, by rw [hcfg, en, r5], R, e, by omega, fun _ => ⟨em, ev⟩⟩
  · intro w' _ _ o ho nm hnm
    rcases hself with ⟨_, _, e⟩ | ⟨R, _, _, _, _, _, _, _, _, r8⟩
    · rw [e] at ho; cases ho
    · exact absurd hnm ((r8 o ho).2 nm)

theorem leave_uniq (n : Node) (env : Env) (hu : Uniq n) : Uniq (leave n env).1 := by
  unfold leave
  by_cases hl : n.hasLeft = true
  · simp only [hl, ↓reduceIte]; exact hu
  · simp only [hl, Bool.false_eq_true, ↓reduceIte]
    cases lookup n.recs n.cfg.self with
    | none => exact hu
    | some state => exact dead_uniq _ _ _ hu

/-- a node calls Leave -/
theorem leave_step_inv (w : World) (k : Nat) (x : String) (env : Env) (n : Node)
    (hinv : Inv w k) (hfind : w.nodes.find? (·.cfg.self == x) = some n) :
    Inv (act w x (fun n => leave n env) none) (k + 1) := by
  obtain ⟨hmem, hname⟩ := find_actor hfind
  obtain ⟨hH, hsc, hsi, hu, hsf, hrg⟩ := hinv.2.1 n hmem
  obtain ⟨d1, d2, d3, hcfg, d5, d6⟩ := leave_healthy n env hH
  have hU := leave_uniq n env hu
  have hself : ((leave n env).1.recs = n.recs ∧ selfRec (leave n env).1 = selfRec n ∧ (leave n env).2 = []) ∨
      ∃ me, selfRec n = some me ∧ me.st = .alive ∧
        selfRec (leave n env).1 = some (leftRec me me.inc env.now) ∧
        (∀ y ∈ (leave n env).1.recs, y ∈ n.recs ∨ y = leftRec me me.inc env.now) ∧
        (∀ o ∈ (leave n env).2, (∀ src, ∀ m ∈ emit (leave n env).1 src o,
            ∃ c, m = .dead c ∧ c.inc = me.inc ∧ c.node = n.cfg.self ∧ c.frm = n.cfg.self) ∧
          ∀ nm, o = Out.leave nm → nm = n.cfg.self) := by
    rcases d6 with ⟨e1, e2⟩ | ⟨me, hme, hal, e, ho⟩
    · left; exact ⟨e1, selfRec_congr hcfg (by rw [e1]), e2⟩
    · right
      have hmn := lookup_name hme
      refine ⟨me, hme, hal, ?_, ?_, ho⟩
      · unfold selfRec
        rw [hcfg, e]
        have : (leftRec me me.inc env.now).name = n.cfg.self := by simp [leftRec, hmn]
        rw [← this]
        exact lookup_setRec_self _ _ (by rw [this, hme]; rfl)
      · intro y hy
        rw [e] at hy; exact mem_setRec hy
  apply act_inv w k x _ none n hinv hfind
  · refine ⟨hcfg, fun _ => d5, ?_⟩
    intro me hme
    rcases hself with ⟨_, e, _⟩ | ⟨me0, hme0, _, e, _⟩
    · exact ⟨me, by rw [e]; exact hme, Nat.le_refl _, fun _ => ⟨rfl, rfl⟩⟩
    · rw [hme] at hme0; cases hme0
      exact ⟨_, e, Nat.le_refl _, fun _ => ⟨rfl, rfl⟩⟩
  · refine ⟨⟨?_, d1⟩, by rw [d2]; exact hsc, by rw [d3]; omega, hU, ?_⟩
    · intro y hy
      rcases hself with ⟨e, _, _⟩ | ⟨me0, _, _, _, r, _⟩
      · rw [e] at hy; exact hH.1 y hy
      · rcases r y hy with h | rfl
        · exact hH.1 y h
        · exact Or.inr rfl
    · intro me hme
      rcases hself with ⟨_, e, _⟩ | ⟨me0, hme0, _, e, _⟩
      · rw [e] at hme
        have := hsf me hme
        exact ⟨by rw [d3]; exact this.1, this.2.1, this.2.2.1, fun _ => d5⟩
      · rw [e] at hme; cases hme
        have := hsf me0 hme0
        exact ⟨by rw [d3]; exact this.1, this.2.1, this.2.2.1, fun _ => d5⟩
  · intro w' _ _ y hy hne
    rcases hself with ⟨e, _, _⟩ | ⟨me0, hme0, _, _, r, _⟩
    · rw [e] at hy; exact Or.inl ⟨y, hy, SameClaim.refl y⟩
    · rcases r y hy with h | rfl
      · exact Or.inl ⟨y, h, SameClaim.refl y⟩
      · exact absurd (by simp only [leftRec]; rw [lookup_name hme0, hname]) hne
  · intro w' _ hin o ho m hm
    rcases hself with ⟨_, _, e⟩ | ⟨me0, _, _, e, _, r⟩
    · rw [e] at ho; cases ho
    · obtain ⟨c, rfl, c1, c2, c3⟩ := (r o ho).1 none m hm
      refine ⟨by rw [c3, c2], _, hin, by rw [hcfg, c2], d5, _, e, by simp only [leftRec]; omega⟩
  · intro w' _ hin o ho nm hnm
    rcases hself with ⟨_, _, e⟩ | ⟨me0, _, _, e, _, r⟩
    · rw [e] at ho; cases ho
    · rw [(r o ho).2 nm hnm]
      exact ⟨me0.inc, _, hin, hcfg ▸ rfl, d5, _, e, by simp [leftRec]⟩

/-- a silent step that keeps every claim the node holds (possibly dropping records of others or
changing change times) -/
theorem act_inv_quiet (w : World) (k : Nat) (x : String) (f : Node → Node × List Out) (n : Node) (g : Rec → Rec)
    (hinv : Inv w k) (hfind : w.nodes.find? (·.cfg.self == x) = some n)
    (hg : ∀ r, SameClaim r (g r))
    (hcfg : (f n).1.cfg = n.cfg) (hl : (f n).1.hasLeft = n.hasLeft) (hs : (f n).1.score = n.score)
    (hi : (f n).1.selfInc = n.selfInc) (ht : (f n).1.timers = []) (hU : Uniq (f n).1)
    (hrecs : ∀ y ∈ (f n).1.recs, ∃ y0 ∈ n.recs, y = g y0)
    (hself : selfRec (f n).1 = (selfRec n).map g) (hout : (f n).2 = []) :
    Inv (act w x f none) (k + 1) := by
  obtain ⟨hmem, hname⟩ := find_actor hfind
  obtain ⟨hH, hsc, hsi, hu, hsf, hrg⟩ := hinv.2.1 n hmem
  have hfields : ∀ r, (g r).inc = r.inc ∧ (g r).md = r.md ∧ (g r).vsn = r.vsn ∧ (g r).st = r.st := by
    intro r
    obtain ⟨e1, e2⟩ := hg r
    exact ⟨(congrArg AliveMsg.inc e1).symm, (congrArg AliveMsg.md e1).symm, (congrArg AliveMsg.vsn e1).symm, e2.symm⟩
  apply act_inv w k x f none n hinv hfind
  · refine ⟨hcfg, by rw [hl]; exact id, ?_⟩
    intro me hme
    refine ⟨g me, by rw [hself, hme]; rfl, by rw [(hfields me).1]; exact Nat.le_refl _, fun _ => ⟨(hfields me).2.1, (hfields me).2.2.1⟩⟩
  · refine ⟨⟨?_, ht⟩, by rw [hs]; exact hsc, by rw [hi]; omega, hU, ?_⟩
    · intro y hy
      obtain ⟨y0, hy0, rfl⟩ := hrecs y hy
      rw [(hfields y0).2.2.2]; exact hH.1 y0 hy0
    · intro me' hme'
      rw [hself] at hme'
      cases hme : selfRec n with
      | none => rw [hme] at hme'; cases hme'
      | some me =>
        rw [hme] at hme'
        simp only [Option.map_some, Option.some.injEq] at hme'
        subst hme'
        have := hsf me hme
        obtain ⟨f1, f2, f3, f4⟩ := hfields me
        rw [f1, f3, f4, hi, hl]; exact this
  · intro w' _ _ y hy _
    obtain ⟨y0, hy0, rfl⟩ := hrecs y hy
    exact Or.inl ⟨y0, hy0, hg y0⟩
  · intro w' _ _ o ho
    rw [hout] at ho; cases ho
  · intro w' _ _ o ho
    rw [hout] at ho; cases ho

theorem fire_noop (n : Node) (node : String) (ca : Nat) (env : Env) (h : Healthy n) :
    timerFire n node ca env = (n, []) := by
  unfold timerFire
  cases hl : lookup n.recs node with
  | none => rfl
  | some state =>
    have : state.st ≠ .suspect := by
      rcases h.1 state (List.mem_of_find?_eq_some hl) with e | e <;> rw [e] <;> simp
    simp [this]

theorem lookup_filter_keep (l : List Rec) (p : Rec → Bool) (x : String) (h : ∀ r ∈ l, r.name = x → p r = true) :
    lookup (l.filter p) x = lookup l x := by
  induction l with
  | nil => rfl
  | cons a l ih =>
    have ih' := ih (fun r hr => h r (List.mem_cons_of_mem _ hr))
    simp only [lookup] at ih' ⊢
    by_cases hp : p a = true
    · simp only [List.filter_cons, hp, ↓reduceIte, List.find?_cons]
      cases (a.name == x)
      · exact ih'
      · rfl
    · have hne : (a.name == x) = false := by
        simp only [beq_eq_false_iff_ne, ne_eq]
        intro e
        exact hp (h a List.mem_cons_self e)
      simp only [List.filter_cons, hp, Bool.false_eq_true, ↓reduceIte, List.find?_cons, hne]
      exact ih'

theorem fire_step_inv (w : World) (k : Nat) (x node : String) (ca : Nat) (env : Env) (n : Node)
    (hinv : Inv w k) (hfind : w.nodes.find? (·.cfg.self == x) = some n) :
    Inv (act w x (fun n => timerFire n node ca env) none) (k + 1) := by
  have hH := (hinv.2.1 n (find_actor hfind).1).1
  have e := fire_noop n node ca env hH
  exact act_inv_noop w k x _ none n hinv hfind (by simp only [e]) (by simp only [e]; simp) (by simp only [e]; simp)

theorem reap_step_inv (w : World) (k : Nat) (x : String) (n : Node)
    (hinv : Inv w k) (hfind : w.nodes.find? (·.cfg.self == x) = some n) :
    Inv (act w x (fun n => (reap n, [])) none) (k + 1) := by
  obtain ⟨hH, hsc, hsi, hu, hsf, hrg⟩ := hinv.2.1 n (find_actor hfind).1
  apply act_inv_quiet w k x _ n id hinv hfind (fun r => SameClaim.refl r) rfl rfl rfl rfl hH.2 (reap_uniq n hu)
  · intro y hy
    simp only [reap, List.mem_filter] at hy
    exact ⟨y, hy.1, rfl⟩
  · simp only [Option.map_id, id]
    unfold selfRec
    simp only [reap]
    apply lookup_filter_keep
    intro r _ e
    simp [e]
  · rfl

theorem age_step_inv (w : World) (k : Nat) (x name : String) (n : Node)
    (hinv : Inv w k) (hfind : w.nodes.find? (·.cfg.self == x) = some n) :
    Inv (act w x (fun n => (ageRec n name, [])) none) (k + 1) := by
  obtain ⟨hH, hsc, hsi, hu, hsf, hrg⟩ := hinv.2.1 n (find_actor hfind).1
  apply act_inv_quiet w k x _ n (fun r => if (r.name == name) = true then { r with changed := none } else r)
    hinv hfind ?_ rfl rfl rfl rfl hH.2 (age_uniq n name hu)
  · intro y hy
    simp only [ageRec, List.mem_map] at hy
    obtain ⟨y0, hy0, rfl⟩ := hy
    exact ⟨y0, hy0, rfl⟩
  · unfold selfRec
    simp only [ageRec]
    exact lookup_map_namePreserving _ _ (by intro r; split <;> rfl) _
  · rfl
  · intro r
    split
    · exact ⟨rfl, rfl⟩
    · exact SameClaim.refl r

theorem Ext.refl_nodes {w w' : World} (h : w'.nodes = w.nodes) : Ext w w' := by
  intro n hn
  exact ⟨n, by rw [h]; exact hn, OwnerMono.refl n⟩

theorem Inv.mono {w : World} {k : Nat} (h : Inv w k) : Inv w (k + 1) :=
  ⟨h.1, fun n hn => (h.2.1 n hn).ext (Ext.refl_nodes rfl) (by omega), h.2.2.1, h.2.2.2⟩

/-- a node sends its whole state list (push/pull) -/
theorem snapshot_inv (w : World) (k : Nat) (n : Node) (hinv : Inv w k) (hmem : n ∈ w.nodes) :
    Inv { w with pool := w.pool ++ n.recs.map (fun r => Msg.state (stateOfRec r)) } (k + 1) := by
  obtain ⟨hnd, hnodes, hpool, hlog⟩ := hinv
  generalize hw' : World.mk _ _ _ = w'
  have hn' : w'.nodes = w.nodes := by rw [← hw']
  have hp' : w'.pool = w.pool ++ n.recs.map (fun r => Msg.state (stateOfRec r)) := by rw [← hw']
  have hl' : w'.log = w.log := by rw [← hw']
  have hext : Ext w w' := Ext.refl_nodes hn'
  refine ⟨by rw [hn']; exact hnd, ?_, ?_, ?_⟩
  · intro n0 hn0
    rw [hn'] at hn0
    exact (hnodes n0 hn0).ext hext (by omega)
  · intro m hm
    rw [hp'] at hm
    rcases List.mem_append.mp hm with h | h
    · exact (hpool m h).ext hext
    · obtain ⟨r, hr, rfl⟩ := List.mem_map.mp h
      obtain ⟨hH, _, _, hu, hsf, hrg⟩ := hnodes n hmem
      apply Benign.ext hext
      have hgood : RecGood w r := by
        by_cases e : r.name = n.cfg.self
        · have hme : selfRec n = some r := by
            unfold selfRec; rw [← e]; exact lookup_of_mem hu hr
          obtain ⟨f1, f2, f3, f4⟩ := hsf r hme
          constructor
          · intro _
            exact ⟨f2, f3, n, hmem, e.symm, r, hme, Nat.le_refl _, fun _ => ⟨rfl, rfl⟩⟩
          · intro hst
            exact ⟨n, hmem, e.symm, f4 hst, r, hme, Nat.le_refl _⟩
        · exact hrg r hr e
      rcases hH.1 r hr with e | e
      · exact Or.inl ⟨e, hgood.1 e⟩
      · exact Or.inr ⟨e, hgood.2 e⟩
  · intro e he nm hnm
    rw [hl'] at he
    obtain ⟨i, hi⟩ := hlog e he nm hnm
    exact ⟨i, hi.ext hext⟩

theorem act_none (w : World) (x : String) (f : Node → Node × List Out) (src : Option AliveMsg)
    (h : w.nodes.find? (·.cfg.self == x) = none) : act w x f src = w := by
  unfold act; rw [h]

theorem receive_state_alive (s : PushState) (env : Env) (h : s.st = .alive) :
    receive (.state s) env = fun n => aliveNode n (aliveOfState s) false false env := by
  funext n
  cases env
  simp [receive, mergeOne, withEnv, h, aliveOfState]

theorem receive_state_left (s : PushState) (env : Env) (h : s.st = .left) :
    receive (.state s) env = fun n => deadNode n { inc := s.inc, node := s.name, frm := s.name } env := by
  funext n
  cases env
  simp [receive, mergeOne, withEnv, h]

/-- **one step of a healthy cluster keeps the invariant.** -/
theorem step_inv (w : World) (k : Nat) (op : COp) (hinv : Inv w k) (hop : op.healthy = true) (hk : k + 1 < u32) :
    Inv (w.step op) (k + 1) := by
  cases op with
  | deliver x i env =>
    simp only [World.step]
    cases hm : w.pool[i]? with
    | none => exact hinv.mono
    | some m =>
      simp only
      have hb : Benign w m := hinv.2.2.1 m (List.mem_of_getElem? hm)
      cases hf : w.nodes.find? (·.cfg.self == x) with
      | none => rw [act_none _ _ _ _ hf]; exact hinv.mono
      | some n =>
        cases m with
        | alive a => exact alive_step_inv w k x a env n hinv hf hb
        | suspect c => exact absurd hb (by simp [Benign])
        | dead c => exact dead_step_inv w k x c env _ n hinv hf hb.1 hb.2
        | state s =>
          rcases hb with ⟨e, g⟩ | ⟨e, g⟩
          · rw [receive_state_alive s env e]
            simp only [srcOf, e, ↓reduceIte]
            exact alive_step_inv w k x (aliveOfState s) env n hinv hf g
          · rw [receive_state_left s env e]
            exact dead_step_inv w k x _ env _ n hinv hf rfl g
  | snapshot x =>
    simp only [World.step]
    cases hf : w.nodes.find? (·.cfg.self == x) with
    | none => exact hinv.mono
    | some n => exact snapshot_inv w k n hinv (find_actor hf).1
  | announce x addr port md vsn env =>
    simp only [World.step]
    cases hf : w.nodes.find? (·.cfg.self == x) with
    | none => exact hinv.mono
    | some n => exact announce_step_inv w k x addr port md vsn env n hinv hf hk
  | leave x env =>
    simp only [World.step]
    cases hf : w.nodes.find? (·.cfg.self == x) with
    | none => rw [act_none _ _ _ _ hf]; exact hinv.mono
    | some n => exact leave_step_inv w k x env n hinv hf
  | fire x node ca env =>
    simp only [World.step]
    cases hf : w.nodes.find? (·.cfg.self == x) with
    | none => rw [act_none _ _ _ _ hf]; exact hinv.mono
    | some n => exact fire_step_inv w k x node ca env n hinv hf
  | reap x =>
    simp only [World.step]
    cases hf : w.nodes.find? (·.cfg.self == x) with
    | none => rw [act_none _ _ _ _ hf]; exact hinv.mono
    | some n => exact reap_step_inv w k x n hinv hf
  | age x name =>
    simp only [World.step]
    cases hf : w.nodes.find? (·.cfg.self == x) with
    | none => rw [act_none _ _ _ _ hf]; exact hinv.mono
    | some n => exact age_step_inv w k x name n hinv hf
  | probeFail x t env => simp [COp.healthy] at hop

theorem fresh_inv (w : World) (h : Fresh w) : Inv w 0 := by
  obtain ⟨h1, h2, h3, h4⟩ := h
  refine ⟨h1, ?_, by rw [h3]; simp, by rw [h4]; simp⟩
  intro n hn
  obtain ⟨a, b, c, d, e⟩ := h2 n hn
  refine ⟨⟨by rw [a]; simp, b⟩, e, by omega, by simp [Uniq, a], ?_, by rw [a]; simp⟩
  intro me hme
  simp [selfRec, a, lookup] at hme

theorem run_inv (ops : List COp) : ∀ (w : World) (k : Nat), Inv w k → (∀ op ∈ ops, op.healthy = true) →
    k + ops.length < u32 → Inv (w.run ops) (k + ops.length) := by
  induction ops with
  | nil => intro w k h _ _; exact h
  | cons op ops ih =>
    intro w k h hops hk
    simp only [World.run, List.foldl_cons, List.length_cons] at hk ⊢
    have h1 := step_inv w k op h (hops op List.mem_cons_self) (by omega)
    have := ih (w.step op) (k + 1) h1 (fun o ho => hops o (List.mem_cons_of_mem _ ho)) (by omega)
    rw [show k + (ops.length + 1) = k + 1 + ops.length by omega]
    exact this

end Swim.Cluster
