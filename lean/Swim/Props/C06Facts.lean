import Swim.Gen.Facts
/-!
# C06 / C03: the suspicion timeout never runs in the caller's goroutine

`suspicion.Confirm` is called from `suspectNode` with the membership lock held, and the timeout
function starts by taking that lock. When a late confirmation finds no time remaining, the timeout
must therefore be started in a goroutine of its own (suspicion.go: `go s.timeoutFn(...)`); called
inline it deadlocks the node, which then never declares the member dead.
-/
namespace Swim.Gen

/-- **fact theorem** (regenerated from the source on every run) -/
theorem C06_timeout_in_own_goroutine : ("suspicion.Confirm", "s.timeoutFn") ∈ goSites := by decide

end Swim.Gen
