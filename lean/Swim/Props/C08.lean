import Swim.Props.C01
/-!
# C08  Graceful leave is final; a member's name and address cannot be hijacked
-/
namespace Swim.Merge

/-- **conflict_keeps_addr.** An alive claim that names an existing member which is alive,
suspect, or dead but not past the reclaim time, from a different (admitted) address, leaves the
node state untouched; the conflict callback is the only effect. -/
theorem C08_conflict_keeps_addr (n : Node) (a : AliveMsg) (nt b : Bool) (env : Env) (r : Rec)
    (hself : a.node ≠ n.cfg.self) (hr : lookup n.recs a.node = some r)
    (hdiff : r.addr ≠ a.addr ∨ r.port ≠ a.port) (hnr : reclaimable n r = false) :
    (aliveNode n a nt b env).1 = n ∧
    ∀ o ∈ (aliveNode n a nt b env).2, ∃ nm ad p, o = Out.conflict nm ad p := by
  have spec := aliveDecide_nonlocal n a b env hself
  unfold aliveNode
  generalize aliveDecide n a b env = dec at spec
  cases dec with
  | ignore => exact ⟨rfl, by simp [aliveApply]⟩
  | conflict =>
    refine ⟨rfl, ?_⟩
    simp only [aliveApply]
    split <;> simp
  | stubOnly => simp only at spec; rw [hr] at spec; exact absurd spec.1 (by simp)
  | delTimerOnly isNew => exact absurd spec (by simp)
  | refuteSelf isNew => exact absurd spec (by simp)
  | accept isNew =>
    cases isNew
    · simp only at spec
      obtain ⟨r', hr', hcase⟩ := spec
      rw [hr] at hr'; cases hr'
      rcases hcase with ⟨h1, h2, _⟩ | ⟨r'', hr'', _, _, hrec⟩
      · rcases hdiff with h | h
        · exact absurd h1 h
        · exact absurd h2 h
      · rw [hr] at hr''; cases hr''
        rw [hnr] at hrec; cases hrec
    · simp only at spec; rw [hr] at spec; exact absurd spec.1 (by simp)

/-- the conflict callback does fire when the claim passes the admission filters -/
theorem C08_conflict_reported (n : Node) (a : AliveMsg) (nt b : Bool) (env : Env) (r : Rec)
    (hr : lookup n.recs a.node = some r)
    (hnl : (n.hasLeft && a.node == n.cfg.self) = false) (hv : vsnBad a.vsn = false)
    (hdel : (n.cfg.hasAliveDelegate && (a.vsn.length < 6 || !env.delegateOk)) = false)
    (hdiff : (r.addr != a.addr || r.port != a.port) = true) (hip : env.ipAllowed = true)
    (hnr : reclaimable n r = false) (hcd : n.cfg.hasConflictDelegate = true) :
    aliveNode n a nt b env = (n, [.conflict a.node a.addr a.port]) := by
  unfold aliveNode aliveDecide
  simp [hnl, hv, hdel, hr, hdiff, hip, hnr, aliveApply, hcd]

/-- **reclaim_rules.** A name can be taken over from a new address immediately after a
graceful leave, and after a failure only if a reclaim time is configured and has elapsed. -/
theorem C08_reclaim_rules (n : Node) (r : Rec) :
    reclaimable n r = true ↔ (r.st = .left ∨ (r.st = .dead ∧ n.cfg.reclaim = true ∧ r.changed = none)) := by
  unfold reclaimable
  cases r.st <;> simp

/-- **name reusable.** A left (or reclaimable dead) holder is replaced by an admitted claim from
a new address, whatever its incarnation: the member is alive at the claimed address afterwards. -/
theorem C08_name_reusable (n : Node) (a : AliveMsg) (nt b : Bool) (env : Env) (r : Rec)
    (hself : a.node ≠ n.cfg.self) (hr : lookup n.recs a.node = some r)
    (hv : vsnBad a.vsn = false)
    (hdel : (n.cfg.hasAliveDelegate && (a.vsn.length < 6 || !env.delegateOk)) = false)
    (hdiff : (r.addr != a.addr || r.port != a.port) = true) (hip : env.ipAllowed = true)
    (hrec : reclaimable n r = true) :
    ∃ r', lookup (aliveNode n a nt b env).1.recs a.node = some r' ∧ r'.st = .alive ∧
      r'.addr = a.addr ∧ r'.port = a.port ∧ r'.inc = a.inc := by
  have hl : (a.node == n.cfg.self) = false := by simpa using hself
  have hdec : aliveDecide n a b env = .accept false := by
    unfold aliveDecide
    simp [hl, hv, hdel, hr, hdiff, hip, hrec, decideKnown]
  unfold aliveNode
  rw [hdec]
  simp only [aliveApply, Bool.false_eq_true, ↓reduceIte, hr, Option.getD_some]
  have hn : (acceptRec r a env).name = a.node := by simp [acceptRec, lookup_name hr]
  refine ⟨acceptRec r a env, ?_, rfl, rfl, rfl, rfl⟩
  rw [← hn, lookup_setRec_self _ _ (by rw [hn, hr]; rfl)]

/-- **leave_marks_left (peer side).** A self-signed dead claim (a departure) about a member the
node still lists, at an incarnation at least the held one, records it as left, not failed. -/
theorem C08_departure_recorded_left (n : Node) (d : Claim) (env : Env) (r : Rec)
    (hself : d.node ≠ n.cfg.self) (hr : lookup n.recs d.node = some r)
    (hfrom : d.frm = d.node) (hinc : r.inc ≤ d.inc) (hlisted : r.st.deadOrLeft = false) :
    ∃ r', lookup (deadNode n d env).1.recs d.node = some r' ∧ r'.st = .left ∧ r'.inc = d.inc ∧
      Out.leave d.node ∈ (deadNode n d env).2 := by
  have hn := lookup_name hr
  have hne : (r.name == n.cfg.self) = false := by simpa [hn] using hself
  unfold deadNode
  have h1 : ¬ d.inc < r.inc := by omega
  simp only [hr, h1, ↓reduceIte, hlisted, Bool.false_eq_true, hne, Bool.false_and, hfrom, beq_self_eq_true]
  have hnm : ({ r with inc := d.inc, st := St.left, changed := some env.now } : Rec).name = d.node := hn
  refine ⟨{ r with inc := d.inc, st := St.left, changed := some env.now }, ?_, rfl, rfl, by simp⟩
  rw [← hnm, lookup_setRec_self _ _ (by rw [hnm, hr]; rfl)]

/-- **no_resurrection (peer side).** While the tombstone is held, an alive claim from the same
address that is no newer than the departure changes nothing. -/
theorem C08_no_resurrection (n : Node) (a : AliveMsg) (nt b : Bool) (env : Env) (r : Rec)
    (hself : a.node ≠ n.cfg.self) (hr : lookup n.recs a.node = some r) (_hleft : r.st = .left)
    (hsame : r.addr = a.addr ∧ r.port = a.port) (hold : a.inc ≤ r.inc) :
    (aliveNode n a nt b env).1 = n := by
  apply (C01_alive_stale_noop n a nt b env r hself hr hold ?_).1
  rintro ⟨r', hr', hdiff, _, _⟩
  rw [hr] at hr'; cases hr'
  rcases hdiff with h | h
  · exact h hsame.1
  · exact h hsame.2

/-- **leave_marks_left (leaver side).** `Leave` on a running node records the node itself as
left at its current incarnation and queues the self-signed dead broadcast with the leave
notification attached. -/
theorem C08_leave_marks_left (n : Node) (env : Env) (me : Rec)
    (hme : lookup n.recs n.cfg.self = some me) (hnl : n.hasLeft = false) (halive : me.st = .alive) :
    (leave n env).1.hasLeft = true ∧
    (∃ me', lookup (leave n env).1.recs n.cfg.self = some me' ∧ me'.st = .left ∧ me'.inc = me.inc) ∧
    Out.bcast n.cfg.self .dead n.cfg.self me.inc n.cfg.self true ∈ (leave n env).2 ∧
    Out.leave n.cfg.self ∈ (leave n env).2 := by
  have hn := lookup_name hme
  have h2 : me.st.deadOrLeft = false := by rw [halive]; rfl
  simp only [leave, hnl, Bool.false_eq_true, ↓reduceIte, hme, deadNode, hn, Nat.lt_irrefl, h2, beq_self_eq_true,
    Bool.not_true, Bool.and_false]
  have hnm : ({ me with inc := me.inc, st := St.left, changed := some env.now } : Rec).name = n.cfg.self := hn
  refine ⟨trivial, ⟨{ me with inc := me.inc, st := St.left, changed := some env.now }, ?_, rfl, rfl⟩, by simp, by simp⟩
  rw [← hnm, lookup_setRec_self _ _ (by rw [hnm, hme]; rfl)]

/-- **no_resurrection (leaver side).** Once it has left, the node ignores every alive claim
about itself - including its own queued or replayed ones. -/
theorem C08_leaver_ignores_own_alive (n : Node) (a : AliveMsg) (nt b : Bool) (env : Env)
    (hl : n.hasLeft = true) (hself : a.node = n.cfg.self) : aliveNode n a nt b env = (n, []) := by
  unfold aliveNode aliveDecide
  simp [hl, hself, aliveApply]

end Swim.Merge
