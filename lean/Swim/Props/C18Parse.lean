/-!
# C18: the allow-list parser (`ParseCIDRs`)

An empty allow-list means "allow everybody", so what the parser returns for a list with malformed entries
matters: it returns the well-formed networks, in order, and reports an error iff something was malformed.
The model takes the per-entry verdict of `net.ParseCIDR` as given (`none` = malformed); the `C18 parse`
lines compare it with the real function entry by entry.
-/
namespace Swim.C18Parse

/-- `ParseCIDRs` over per-entry results -/
def parse {Net : Type} (entries : List (Option Net)) : List Net × Bool :=
  (entries.filterMap id, entries.any Option.isNone)

/-- every well-formed entry is kept, in order, and nothing else -/
theorem parse_keeps_wellformed {Net : Type} (entries : List (Option Net)) (n : Net) :
    n ∈ (parse entries).1 ↔ some n ∈ entries := by
  simp [parse, List.mem_filterMap]

/-- **C18, no silent allow-all**: the parser returns the empty list (which the rest of the library reads as
"no allow-list configured") only if not a single entry was well-formed. -/
theorem C18_parse_empty_only_if_nothing_wellformed {Net : Type} (entries : List (Option Net)) :
    (parse entries).1 = [] ↔ ∀ e ∈ entries, e = none := by
  induction entries with
  | nil => simp [parse]
  | cons e es ih =>
    cases e with
    | none => simp only [parse, List.filterMap_cons_none, id] at ih ⊢; simp [ih]
    | some n => simp [parse]

/-- the error is reported exactly when some entry was malformed -/
theorem parse_error_iff {Net : Type} (entries : List (Option Net)) :
    (parse entries).2 = true ↔ ∃ e ∈ entries, e = none := by
  simp [parse, List.any_eq_true]

example : parse [some 1, (none : Option Nat), some 3] = ([1, 3], true) := rfl

end Swim.C18Parse
