import Swim.Props.C02
import Swim.Gen.Facts
/-!
# C07  Membership events are a serialized, faithful log of Members()

Record-level statements: `listedAt n y` says whether `Members()` lists `y`. Every rule
changes `listedAt` exactly when it emits the matching event.
-/
namespace Swim.Merge

/-- does `Members()` list `y`? -/
def listedAt (n : Node) (y : String) : Bool :=
  match lookup n.recs y with
  | some r => !r.st.deadOrLeft
  | none => false

def isEvent : Out → Bool
  | .join .. => true | .update .. => true | .leave .. => true | _ => false

/-- `refute` emits no membership event and keeps the local record's state -/
theorem refute_no_event (n : Node) (me : Rec) (acc : Nat) : ∀ o ∈ (refute n me acc).2, isEvent o = false := by
  intro o ho; simp [refute] at ho; subst ho; rfl

theorem listedAt_setRec_same (n : Node) (r r' : Rec) (y : String) (hr : lookup n.recs r.name = some r)
    (hname : r'.name = r.name) (hst : r'.st.deadOrLeft = r.st.deadOrLeft) (recs' : List Rec)
    (hrecs : recs' = setRec n.recs r') (n' : Node) (hn' : n'.recs = recs') :
    listedAt n' y = listedAt n y := by
  unfold listedAt
  rw [hn', hrecs]
  by_cases hy : y = r.name
  · subst hy
    rw [← hname, lookup_setRec_self _ _ (by rw [hname, hr]; rfl), hname, hr]
    simp [hst]
  · rw [lookup_setRec_ne _ _ _ (by rw [hname]; exact hy)]

/-- **suspect claims never touch Members().** No join/leave/update event, and every member is
listed afterwards iff it was listed before (a suspect member is still a member). -/
theorem C07_suspect_sync (n : Node) (s : Claim) (env : Env) :
    (∀ o ∈ (suspectNode n s env).2, isEvent o = false) ∧
    ∀ y, listedAt (suspectNode n s env).1 y = listedAt n y := by
  unfold suspectNode
  cases hl : lookup n.recs s.node with
  | none => exact ⟨by simp, fun _ => rfl⟩
  | some state =>
    have hn := lookup_name hl
    simp only
    by_cases h1 : s.inc < state.inc
    · simp only [h1, ↓reduceIte]; exact ⟨by simp, fun _ => trivial⟩
    · simp only [h1, ↓reduceIte]
      cases ht : n.timers.find? (·.node == s.node) with
      | some t =>
        simp only
        cases hc : (t.confirm s.frm).2
        · simp only [Bool.false_eq_true, ↓reduceIte]; exact ⟨by simp, fun _ => trivial⟩
        · simp only [↓reduceIte]
          refine ⟨?_, fun _ => rfl⟩
          intro o ho; simp at ho; subst ho; rfl
      | none =>
        simp only
        by_cases h2 : (state.st != St.alive) = true
        · simp only [h2, ↓reduceIte]; exact ⟨by simp, fun _ => trivial⟩
        · simp only [h2, Bool.false_eq_true, ↓reduceIte]
          have hal : state.st = St.alive := by simpa using h2
          by_cases h3 : (state.name == n.cfg.self) = true
          · simp only [h3, ↓reduceIte]
            refine ⟨refute_no_event n state s.inc, fun y => ?_⟩
            exact listedAt_setRec_same n state { state with inc := refuteInc n.selfInc s.inc } y (by rw [hn]; exact hl) rfl rfl _ rfl _ rfl
          · simp only [h3, Bool.false_eq_true, ↓reduceIte]
            refine ⟨?_, fun y => ?_⟩
            · intro o ho; simp at ho; rcases ho with rfl | rfl <;> rfl
            · exact listedAt_setRec_same n state { state with inc := s.inc, st := St.suspect, changed := some env.now } y
                (by rw [hn]; exact hl) rfl (by simp [hal, St.deadOrLeft]) _ rfl _ rfl

/-- **dead claims: leave event ⇔ the member stops being listed.** The only event a dead claim can
cause is `leave` for the named member; it is emitted exactly when that member was listed and
is not any more; nobody else's listing changes. -/
theorem C07_dead_sync (n : Node) (d : Claim) (env : Env) :
    (∀ o ∈ (deadNode n d env).2, isEvent o = true → o = .leave d.node) ∧
    (∀ y, y ≠ d.node → listedAt (deadNode n d env).1 y = listedAt n y) ∧
    (listedAt (deadNode n d env).1 d.node = (listedAt n d.node && !((deadNode n d env).2.contains (.leave d.node)))) ∧
    ((deadNode n d env).2.contains (.leave d.node) = true → listedAt n d.node = true) := by
  refine ⟨?_, fun y hy => ?_, ?_⟩
  · unfold deadNode
    cases hl : lookup n.recs d.node with
    | none => simp
    | some state =>
      simp only
      by_cases h1 : d.inc < state.inc
      · simp [h1]
      · simp only [h1, ↓reduceIte]
        by_cases h2 : state.st.deadOrLeft = true
        · simp [h2]
        · simp only [h2, Bool.false_eq_true, ↓reduceIte]
          by_cases h3 : (state.name == n.cfg.self && !n.hasLeft) = true
          · simp only [h3, ↓reduceIte]
            intro o ho he
            have := refute_no_event _ state d.inc o ho
            rw [this] at he; cases he
          · simp only [h3, Bool.false_eq_true, ↓reduceIte]
            intro o ho he
            simp at ho
            rcases ho with rfl | rfl
            · cases he
            · rfl
  · unfold listedAt; rw [C01_dead_frame n d env y hy]
  · unfold deadNode listedAt
    cases hl : lookup n.recs d.node with
    | none => simp [hl]
    | some state =>
      have hn := lookup_name hl
      simp only
      by_cases h1 : d.inc < state.inc
      · simp [h1, hl]
      · simp only [h1, ↓reduceIte]
        by_cases h2 : state.st.deadOrLeft = true
        · simp [h2, hl]
        · simp only [h2, Bool.false_eq_true, ↓reduceIte]
          have h2' : state.st.deadOrLeft = false := by simpa using h2
          by_cases h3 : (state.name == n.cfg.self && !n.hasLeft) = true
          · simp only [h3, ↓reduceIte, refute]
            have hnm : ({ state with inc := refuteInc n.selfInc d.inc } : Rec).name = d.node := hn
            rw [← hnm, lookup_setRec_self _ _ (by rw [hnm, hl]; rfl)]
            simp [h2']
          · simp only [h3, Bool.false_eq_true, ↓reduceIte]
            generalize hst' : (if (d.node == d.frm) = true then St.left else St.dead) = st'
            have hnm : ({ state with inc := d.inc, st := st', changed := some env.now } : Rec).name = d.node := hn
            rw [← hnm, lookup_setRec_self _ _ (by rw [hnm, hl]; rfl)]
            have : st'.deadOrLeft = true := by rw [← hst']; split <;> rfl
            simp [this, h2']

/-- **alive claims (other members): join ⇔ becomes listed, update ⇔ listed member changes
metadata.** Events carry the metadata and address the record holds afterwards. -/
theorem C07_alive_sync (n : Node) (a : AliveMsg) (nt b : Bool) (env : Env) (hself : a.node ≠ n.cfg.self) :
    (∀ y, y ≠ a.node → listedAt (aliveNode n a nt b env).1 y = listedAt n y) ∧
    (∀ o ∈ (aliveNode n a nt b env).2, isEvent o = true →
        (o = .join a.node a.addr a.port a.md ∧ listedAt n a.node = false ∧ listedAt (aliveNode n a nt b env).1 a.node = true) ∨
        (o = .update a.node a.md ∧ listedAt n a.node = true ∧ listedAt (aliveNode n a nt b env).1 a.node = true)) ∧
    ((∀ o ∈ (aliveNode n a nt b env).2, isEvent o = false) →
        listedAt (aliveNode n a nt b env).1 a.node = listedAt n a.node) := by
  refine ⟨fun y hy => by unfold listedAt; rw [C01_alive_frame n a nt b env y hy], ?_⟩
  have spec := aliveDecide_nonlocal n a b env hself
  unfold aliveNode
  generalize aliveDecide n a b env = dec at spec
  cases dec with
  | ignore => exact ⟨by simp [aliveApply], fun _ => rfl⟩
  | conflict =>
    refine ⟨?_, fun _ => rfl⟩
    intro o ho he
    simp only [aliveApply] at ho
    split at ho <;> simp at ho
    subst ho; cases he
  | stubOnly =>
    simp only at spec
    refine ⟨by simp [aliveApply], fun _ => ?_⟩
    simp only [aliveApply, listedAt, withStub, spec.1]
    rw [show a.node = (stub a).name from rfl, lookup_append_stub_self _ _ spec.1]
    rfl
  | delTimerOnly isNew => exact absurd spec (by simp)
  | refuteSelf isNew => exact absurd spec (by simp)
  | accept isNew =>
    cases isNew
    · simp only at spec
      obtain ⟨r, hr, _⟩ := spec
      have hn : (acceptRec r a env).name = a.node := by simp [acceptRec, lookup_name hr]
      have hpost : listedAt (aliveApply n a nt env (.accept false)).1 a.node = true := by
        simp only [aliveApply, Bool.false_eq_true, ↓reduceIte, hr, Option.getD_some, listedAt]
        rw [← hn, lookup_setRec_self _ _ (by rw [hn, hr]; rfl)]
        rfl
      have hpre : listedAt n a.node = !r.st.deadOrLeft := by simp [listedAt, hr]
      refine ⟨?_, ?_⟩
      · intro o ho he
        simp only [aliveApply, Bool.false_eq_true, ↓reduceIte, hr, Option.getD_some] at ho
        by_cases c1 : r.st.deadOrLeft = true
        · simp only [c1, ↓reduceIte, List.cons_append, List.nil_append, List.mem_cons, List.not_mem_nil, or_false] at ho
          rcases ho with rfl | rfl
          · cases he
          · left; exact ⟨rfl, by rw [hpre, c1]; rfl, hpost⟩
        · by_cases c2 : (r.md != a.md) = true
          · simp only [c1, Bool.false_eq_true, ↓reduceIte, c2, List.cons_append, List.nil_append, List.mem_cons,
              List.not_mem_nil, or_false] at ho
            rcases ho with rfl | rfl
            · cases he
            · right; exact ⟨rfl, by rw [hpre]; simpa using c1, hpost⟩
          · simp only [c1, Bool.false_eq_true, ↓reduceIte, c2, List.append_nil, List.mem_singleton] at ho
            subst ho; cases he
      · intro hno
        rw [hpost, hpre]
        by_cases c1 : r.st.deadOrLeft = true
        · have := hno (.join a.node a.addr a.port a.md) (by simp [aliveApply, hr, c1])
          cases this
        · simpa using c1
    · simp only at spec
      have hst : lookup (withStub n a).recs a.node = some (stub a) := by
        simp only [withStub]
        rw [show a.node = (stub a).name from rfl, lookup_append_stub_self _ _ spec.1]
      have hpost : listedAt (aliveApply n a nt env (.accept true)).1 a.node = true := by
        simp only [aliveApply, ↓reduceIte, hst, Option.getD_some, listedAt]
        have hn : (acceptRec (stub a) a env).name = a.node := rfl
        rw [← hn, lookup_setRec_self _ _ (by rw [hn, hst]; rfl)]
        rfl
      have hpre : listedAt n a.node = false := by simp [listedAt, spec.1]
      refine ⟨?_, ?_⟩
      · intro o ho he
        simp only [aliveApply, ↓reduceIte, hst, Option.getD_some, stub, St.deadOrLeft, List.cons_append,
          List.nil_append, List.mem_cons, List.not_mem_nil, or_false] at ho
        rcases ho with rfl | rfl
        · cases he
        · left; exact ⟨rfl, hpre, hpost⟩
      · intro hno
        have := hno (.join a.node a.addr a.port a.md) (by simp [aliveApply, hst, stub, St.deadOrLeft])
        cases this


/-! ### history level: replaying the event log yields Members() at every moment -/

/-- a subscriber's view: which names it believes to be members -/
def viewStep (v : String → Bool) (o : Out) : String → Bool :=
  match o with
  | .join nm _ _ _ => fun y => y == nm || v y
  | .leave nm => fun y => y != nm && v y
  | _ => v

def replay (v : String → Bool) (outs : List Out) : String → Bool := outs.foldl viewStep v

theorem replay_append (v : String → Bool) (a b : List Out) : replay v (a ++ b) = replay (replay v a) b := by
  simp [replay, List.foldl_append]

theorem replay_nonevents (v : String → Bool) (outs : List Out) (h : ∀ o ∈ outs, isEvent o = false) :
    replay v outs = v := by
  induction outs generalizing v with
  | nil => rfl
  | cons o os ih =>
    simp only [replay, List.foldl_cons]
    have ho := h o (by simp)
    have : viewStep v o = v := by cases o <;> simp_all [viewStep, isEvent]
    rw [this]
    exact ih v (fun x hx => h x (by simp [hx]))

/-- names are unique in the record list (the node map is keyed by name) -/
def Uniq (n : Node) : Prop := (n.recs.map (·.name)).Nodup

theorem setRec_names (recs : List Rec) (r : Rec) (h : (lookup recs r.name).isSome) :
    (setRec recs r).map (·.name) = recs.map (·.name) := by
  simp only [setRec, List.map_map]
  apply List.map_congr_left
  intro x _
  simp only [Function.comp]
  by_cases e : (x.name == r.name) = true
  · simp only [e, ↓reduceIte]; exact (by simpa using e : x.name = r.name).symm
  · simp [e]

theorem lookup_none_not_mem (recs : List Rec) (y : String) (h : lookup recs y = none) : y ∉ recs.map (·.name) := by
  intro hm
  obtain ⟨r, hr, rfl⟩ := List.mem_map.mp hm
  have := List.find?_eq_none.mp h r hr
  simp at this

theorem refute_uniq (n : Node) (me : Rec) (acc : Nat) (hu : Uniq n) (hme : (lookup n.recs me.name).isSome) :
    Uniq (refute n me acc).1 := by
  simp only [Uniq, refute]
  rw [setRec_names _ _ (by simpa using hme)]
  exact hu

theorem withStub_uniq (n : Node) (a : AliveMsg) (hu : Uniq n) (hl : lookup n.recs a.node = none) : Uniq (withStub n a) := by
  simp only [Uniq, withStub, List.map_append, List.map_cons, List.map_nil]
  rw [List.nodup_append]
  refine ⟨hu, by simp, ?_⟩
  intro x hx y hy
  simp at hy; subst hy
  intro e; subst e
  exact lookup_none_not_mem n.recs a.node hl hx

theorem alive_uniq (n : Node) (a : AliveMsg) (nt b : Bool) (env : Env) (hu : Uniq n) : Uniq (aliveNode n a nt b env).1 := by
  unfold aliveNode
  cases hlk : lookup n.recs a.node with
  | some r =>
    have hk := aliveDecide_known n a b env r hlk
    cases hd : aliveDecide n a b env with
    | ignore => exact hu
    | conflict => exact hu
    | stubOnly => rw [hd] at hk; cases hk
    | delTimerOnly isNew => rw [hd] at hk; simp only [AliveDec.isNew] at hk; subst hk; exact hu
    | refuteSelf isNew =>
      rw [hd] at hk; simp only [AliveDec.isNew] at hk; subst hk
      simp only [aliveApply, Bool.false_eq_true, ↓reduceIte, hlk, Option.getD_some]
      exact refute_uniq { n with timers := delTimer n.timers a.node } r a.inc hu (by simp [lookup_name hlk, hlk])
    | accept isNew =>
      rw [hd] at hk; simp only [AliveDec.isNew] at hk; subst hk
      simp only [aliveApply, Bool.false_eq_true, ↓reduceIte, hlk, Option.getD_some, Uniq]
      rw [setRec_names _ _ (by simp [acceptRec, lookup_name hlk, hlk])]
      exact hu
  | none =>
    have hs := withStub_uniq n a hu hlk
    have hst : lookup (withStub n a).recs a.node = some (stub a) := by
      simp only [withStub]; exact lookup_append_stub_self _ (stub a) hlk
    cases hd : aliveDecide n a b env with
    | ignore => exact hu
    | conflict => exact hu
    | stubOnly => exact hs
    | delTimerOnly isNew =>
      cases isNew
      · exact hu
      · exact hs
    | refuteSelf isNew =>
      cases isNew
      · simp only [aliveApply, Bool.false_eq_true, ↓reduceIte, hlk, Option.getD_none, Uniq, refute]
        -- the record is unknown: setRec over a list that does not contain the name changes nothing
        have : setRec n.recs { stub a with inc := refuteInc n.selfInc a.inc } = n.recs := by
          simp only [setRec]
          conv => rhs; rw [← List.map_id n.recs]
          apply List.map_congr_left
          intro x hx
          have : x.name ≠ a.node := fun e => lookup_none_not_mem n.recs a.node hlk (List.mem_map.mpr ⟨x, hx, e⟩)
          simp [stub, this]
        rw [this]; exact hu
      · simp only [aliveApply, ↓reduceIte, hst, Option.getD_some]
        exact refute_uniq { withStub n a with timers := delTimer (withStub n a).timers a.node } (stub a) a.inc hs (by simpa [stub] using (by rw [hst]; rfl))
    | accept isNew =>
      cases isNew
      · simp only [aliveApply, Bool.false_eq_true, ↓reduceIte, hlk, Option.getD_none, Uniq]
        have : setRec n.recs (acceptRec (stub a) a env) = n.recs := by
          simp only [setRec]
          conv => rhs; rw [← List.map_id n.recs]
          apply List.map_congr_left
          intro x hx
          have : x.name ≠ a.node := fun e => lookup_none_not_mem n.recs a.node hlk (List.mem_map.mpr ⟨x, hx, e⟩)
          simp [acceptRec, stub, this]
        rw [this]; exact hu
      · simp only [aliveApply, ↓reduceIte, hst, Option.getD_some, Uniq]
        rw [setRec_names _ _ (by simp [acceptRec, stub, hst])]
        exact hs

theorem suspect_uniq (n : Node) (s : Claim) (env : Env) (hu : Uniq n) : Uniq (suspectNode n s env).1 := by
  unfold suspectNode
  cases hl : lookup n.recs s.node with
  | none => exact hu
  | some state =>
    have hn := lookup_name hl
    have hsome : (lookup n.recs state.name).isSome := by rw [hn, hl]; rfl
    simp only
    split
    · exact hu
    · cases n.timers.find? (·.node == s.node) with
      | some t => simp only; split <;> exact hu
      | none =>
        simp only
        split
        · exact hu
        · split
          · exact refute_uniq n state s.inc hu hsome
          · simp only [Uniq]
            rw [setRec_names n.recs { state with inc := s.inc, st := St.suspect, changed := some env.now } hsome]; exact hu

theorem dead_uniq (n : Node) (d : Claim) (env : Env) (hu : Uniq n) : Uniq (deadNode n d env).1 := by
  unfold deadNode
  cases hl : lookup n.recs d.node with
  | none => exact hu
  | some state =>
    have hn := lookup_name hl
    have hsome : (lookup n.recs state.name).isSome := by rw [hn, hl]; rfl
    simp only
    split
    · exact hu
    · split
      · exact hu
      · split
        · exact refute_uniq { n with timers := delTimer n.timers d.node } state d.inc hu hsome
        · simp only [Uniq]
          rw [setRec_names n.recs { state with inc := d.inc, st := (if (d.node == d.frm) = true then St.left else St.dead), changed := some env.now } hsome]; exact hu

theorem mergeOne_uniq (n : Node) (r : PushState) (now : Nat) (hu : Uniq n) : Uniq (mergeOne n r now).1 := by
  unfold mergeOne
  cases r.st
  · exact alive_uniq n _ false false _ hu
  · exact suspect_uniq n _ _ hu
  · exact suspect_uniq n _ _ hu
  · exact dead_uniq n _ _ hu

/-- the combined invariant the event log relies on -/
def LogInv (n : Node) : Prop := Uniq n ∧ SelfOk n

/-- sync of one step: replaying its events on "who is listed before" gives "who is listed after" -/
def Sync (n : Node) (r : Node × List Out) : Prop := ∀ y, replay (listedAt n) r.2 y = listedAt r.1 y

theorem sync_of_nonevents (n : Node) (r : Node × List Out) (h1 : ∀ o ∈ r.2, isEvent o = false)
    (h2 : ∀ y, listedAt r.1 y = listedAt n y) : Sync n r := by
  intro y; rw [replay_nonevents _ _ h1, h2]

theorem suspect_sync (n : Node) (s : Claim) (env : Env) : Sync n (suspectNode n s env) :=
  sync_of_nonevents n _ (C07_suspect_sync n s env).1 (C07_suspect_sync n s env).2

/-- replaying a list whose only possible event is `leave x` -/
theorem replay_only_leave (v : String → Bool) (outs : List Out) (x : String)
    (h : ∀ o ∈ outs, isEvent o = true → o = .leave x) (y : String) :
    replay v outs y = (if y = x ∧ outs.contains (.leave x) then false else v y) := by
  induction outs generalizing v with
  | nil => simp [replay]
  | cons o os ih =>
    simp only [replay, List.foldl_cons]
    have ih' := ih (viewStep v o) (fun q hq he => h q (by simp [hq]) he)
    simp only [replay] at ih'
    rw [ih']
    by_cases ho : isEvent o = true
    · have := h o (by simp) ho
      subst this
      by_cases hy : y = x
      · subst hy
        by_cases hc : os.contains (Out.leave y) = true <;> simp [viewStep, hc]
      · simp [viewStep, hy]
    · have ho' : isEvent o = false := by simpa using ho
      have hv : viewStep v o = v := by cases o <;> simp_all [viewStep, isEvent]
      have hne : o ≠ .leave x := by intro e; subst e; simp [isEvent] at ho'
      rw [hv]
      have hne' : ¬ (Out.leave x = o) := fun e => hne e.symm
      by_cases hc : (Out.leave x ∈ os) <;> simp [hc, hne']

theorem dead_sync (n : Node) (d : Claim) (env : Env) : Sync n (deadNode n d env) := by
  obtain ⟨h1, h2, h3, h4⟩ := C07_dead_sync n d env
  intro y
  rw [replay_only_leave _ _ d.node h1 y]
  by_cases hy : y = d.node
  · subst hy
    rw [h3]
    cases hc : (deadNode n d env).2.contains (Out.leave d.node) <;> simp [hc]
  · simp [hy, h2 y hy]

def isJL : Out → Bool
  | .join .. => true | .leave .. => true | _ => false

theorem replay_noJL (v : String → Bool) (outs : List Out) (h : ∀ o ∈ outs, isJL o = false) : replay v outs = v := by
  induction outs generalizing v with
  | nil => rfl
  | cons o os ih =>
    simp only [replay, List.foldl_cons]
    have ho := h o (by simp)
    have : viewStep v o = v := by cases o <;> simp_all [viewStep, isJL]
    rw [this]
    exact ih v (fun x hx => h x (by simp [hx]))

theorem sync_of_noJL (n : Node) (r : Node × List Out) (h1 : ∀ o ∈ r.2, isJL o = false)
    (h2 : ∀ y, listedAt r.1 y = listedAt n y) : Sync n r := by
  intro y; rw [replay_noJL _ _ h1, h2]

/-- alive claim about another member -/
theorem alive_other_sync (n : Node) (a : AliveMsg) (nt b : Bool) (env : Env) (hself : a.node ≠ n.cfg.self) :
    Sync n (aliveNode n a nt b env) := by
  obtain ⟨h1, h2, h3⟩ := C07_alive_sync n a nt b env hself
  -- either some event is a join of a.node (then it was unlisted and is listed now), or no join/leave at all
  by_cases hj : ∃ o ∈ (aliveNode n a nt b env).2, isJL o = true
  · obtain ⟨o, ho, hjl⟩ := hj
    have hev : isEvent o = true := by cases o <;> simp_all [isJL, isEvent]
    rcases h2 o ho hev with ⟨rfl, hpre, hpost⟩ | ⟨rfl, _, _⟩
    · intro y
      by_cases hy : y = a.node
      · subst hy
        rw [hpost]
        -- every event of the step is about a.node and none is a leave: once joined, stays
        have key : ∀ (outs : List Out) (v : String → Bool),
            (∀ q ∈ outs, isEvent q = true → (q = .join a.node a.addr a.port a.md ∨ q = .update a.node a.md)) →
            (v a.node = true ∨ .join a.node a.addr a.port a.md ∈ outs) → replay v outs a.node = true := by
          intro outs
          induction outs with
          | nil =>
            intro v _ hv
            rcases hv with hv | hv
            · exact hv
            · cases hv
          | cons q qs ih =>
            intro v hq hv
            simp only [replay, List.foldl_cons]
            apply ih (viewStep v q) (fun z hz he => hq z (by simp [hz]) he)
            by_cases hqe : isEvent q = true
            · rcases hq q (by simp) hqe with rfl | rfl
              · left; simp [viewStep]
              · rcases hv with hv | hv
                · left; simpa [viewStep] using hv
                · simp only [List.mem_cons] at hv
                  rcases hv with hv | hv
                  · cases hv
                  · right; exact hv
            · have hqe' : isEvent q = false := by simpa using hqe
              have hvs : viewStep v q = v := by cases q <;> simp_all [viewStep, isEvent]
              rw [hvs]
              rcases hv with hv | hv
              · left; exact hv
              · simp only [List.mem_cons] at hv
                rcases hv with hv | hv
                · subst hv; simp [isEvent] at hqe'
                · right; exact hv
        apply key _ _ _ (Or.inr ho)
        intro q hq he
        rcases h2 q hq he with ⟨rfl, _, _⟩ | ⟨rfl, _, _⟩
        · left; rfl
        · right; rfl
      · -- other names are not touched by events about a.node
        have key : ∀ (outs : List Out) (v : String → Bool),
            (∀ q ∈ outs, isEvent q = true → (q = .join a.node a.addr a.port a.md ∨ q = .update a.node a.md)) →
            replay v outs y = v y := by
          intro outs
          induction outs with
          | nil => intro v _; rfl
          | cons q qs ih =>
            intro v hq
            simp only [replay, List.foldl_cons]
            have := ih (viewStep v q) (fun z hz he => hq z (by simp [hz]) he)
            simp only [replay] at this
            rw [this]
            by_cases hqe : isEvent q = true
            · rcases hq q (by simp) hqe with rfl | rfl <;> simp [viewStep, hy]
            · have hqe' : isEvent q = false := by simpa using hqe
              cases q <;> simp_all [viewStep, isEvent]
        rw [key _ _ (fun q hq he => by
          rcases h2 q hq he with ⟨rfl, _, _⟩ | ⟨rfl, _, _⟩
          · left; rfl
          · right; rfl), h1 y hy]
    · simp [isJL] at hjl
  · have hno : ∀ o ∈ (aliveNode n a nt b env).2, isJL o = false := by
      intro o ho
      cases hh : isJL o
      · rfl
      · exact absurd ⟨o, ho, hh⟩ hj
    apply sync_of_noJL n _ hno
    intro y
    by_cases hy : y = a.node
    · subst hy
      by_cases hev : ∃ o ∈ (aliveNode n a nt b env).2, isEvent o = true
      · obtain ⟨o, ho, he⟩ := hev
        rcases h2 o ho he with ⟨rfl, _, _⟩ | ⟨_, hpre, hpost⟩
        · have := hno _ ho; simp [isJL] at this
        · rw [hpre, hpost]
      · apply h3
        intro o ho
        cases hh : isEvent o
        · rfl
        · exact absurd ⟨o, ho, hh⟩ hev
    · exact h1 y hy

theorem listedAt_congr (n n' : Node) (h : n'.recs = n.recs) (y : String) : listedAt n' y = listedAt n y := by
  simp [listedAt, h]

/-- alive claim about the local node, on a node that satisfies the self invariant -/
theorem alive_self_sync (n : Node) (a : AliveMsg) (nt b : Bool) (env : Env) (hs : a.node = n.cfg.self)
    (hok : SelfOk n) : Sync n (aliveNode n a nt b env) := by
  obtain ⟨me, hme, hal⟩ := hok
  have hn := lookup_name hme
  have hk := aliveDecide_known n a b env me (by rw [hs]; exact hme)
  -- once Leave has been called, alive claims about ourselves are ignored
  have hleft : n.hasLeft = true → aliveDecide n a b env = .ignore := by
    intro hl; unfold aliveDecide; simp [hl, hs]
  unfold aliveNode
  cases hd : aliveDecide n a b env with
  | ignore => exact sync_of_noJL n _ (by simp [aliveApply]) (fun _ => rfl)
  | conflict =>
    apply sync_of_noJL n _ _ (fun _ => rfl)
    intro o ho
    simp only [aliveApply] at ho
    split at ho <;> simp at ho
    subst ho; rfl
  | stubOnly => rw [hd] at hk; cases hk
  | delTimerOnly isNew =>
    rw [hd] at hk; simp only [AliveDec.isNew] at hk; subst hk
    exact sync_of_noJL n _ (by simp [aliveApply]) (fun y => listedAt_congr _ _ rfl y)
  | refuteSelf isNew =>
    rw [hd] at hk; simp only [AliveDec.isNew] at hk; subst hk
    have hnl : n.hasLeft = false := by
      cases hl : n.hasLeft
      · rfl
      · rw [hleft hl] at hd; cases hd
    have hst := hal hnl
    have hdl : me.st.deadOrLeft = false := by rw [hst]; rfl
    apply sync_of_noJL
    · intro o ho
      simp only [aliveApply, Bool.false_eq_true, ↓reduceIte, hs, hme, Option.getD_some, hdl, List.append_nil, refute] at ho
      simp at ho; subst ho; rfl
    · intro y
      simp only [aliveApply, Bool.false_eq_true, ↓reduceIte, hs, hme, Option.getD_some, refute]
      exact listedAt_setRec_same { n with timers := delTimer n.timers n.cfg.self } me
        { me with inc := refuteInc n.selfInc a.inc } y (by rw [hn]; exact hme) rfl rfl _ rfl _ rfl
  | accept isNew =>
    rw [hd] at hk; simp only [AliveDec.isNew] at hk; subst hk
    have hnl : n.hasLeft = false := by
      cases hl : n.hasLeft
      · rfl
      · rw [hleft hl] at hd; cases hd
    have hst := hal hnl
    have hdl : me.st.deadOrLeft = false := by rw [hst]; rfl
    apply sync_of_noJL
    · intro o ho
      simp only [aliveApply, Bool.false_eq_true, ↓reduceIte, hs, hme, Option.getD_some, hdl] at ho
      simp only [List.cons_append, List.nil_append, List.mem_cons] at ho
      rcases ho with rfl | ho
      · rfl
      · split at ho <;> simp at ho
        subst ho; rfl
    · intro y
      simp only [aliveApply, Bool.false_eq_true, ↓reduceIte, hs, hme, Option.getD_some]
      exact listedAt_setRec_same { n with timers := delTimer n.timers n.cfg.self } me (acceptRec me a env) y
        (by rw [hn]; exact hme) (by simp [acceptRec]) (by simp [acceptRec, hst, St.deadOrLeft]) _ rfl _ rfl

theorem alive_sync (n : Node) (a : AliveMsg) (nt b : Bool) (env : Env) (hok : SelfOk n) :
    Sync n (aliveNode n a nt b env) := by
  by_cases hs : a.node = n.cfg.self
  · exact alive_self_sync n a nt b env hs hok
  · exact alive_other_sync n a nt b env hs

theorem mergeOne_sync (n : Node) (r : PushState) (now : Nat) (hok : SelfOk n) : Sync n (mergeOne n r now) := by
  unfold mergeOne
  cases r.st
  · exact alive_sync n _ false false _ hok
  · exact suspect_sync n _ _
  · exact suspect_sync n _ _
  · exact dead_sync n _ _

theorem mergeOne_logInv (n : Node) (r : PushState) (now : Nat) (h : LogInv n) : LogInv (mergeOne n r now).1 :=
  ⟨mergeOne_uniq n r now h.1, C02_mergeOne_selfOk n r now h.2⟩

theorem merge_sync (n : Node) (rs : List PushState) (now : Nat) (h : LogInv n) :
    Sync n (mergeState n rs now) ∧ LogInv (mergeState n rs now).1 := by
  unfold mergeState
  suffices hh : ∀ (acc : Node × List Out), LogInv acc.1 → (∀ y, replay (listedAt n) acc.2 y = listedAt acc.1 y) →
      (∀ y, replay (listedAt n) (rs.foldl (fun (acc : Node × List Out) r => ((mergeOne acc.1 r now).1, acc.2 ++ (mergeOne acc.1 r now).2)) acc).2 y =
        listedAt (rs.foldl (fun (acc : Node × List Out) r => ((mergeOne acc.1 r now).1, acc.2 ++ (mergeOne acc.1 r now).2)) acc).1 y) ∧
      LogInv (rs.foldl (fun (acc : Node × List Out) r => ((mergeOne acc.1 r now).1, acc.2 ++ (mergeOne acc.1 r now).2)) acc).1 by
    exact hh (n, []) h (fun _ => rfl)
  induction rs with
  | nil => intro acc ha hs; exact ⟨hs, ha⟩
  | cons r rs ih =>
    intro acc ha hs
    simp only [List.foldl_cons]
    apply ih ((mergeOne acc.1 r now).1, acc.2 ++ (mergeOne acc.1 r now).2) (mergeOne_logInv acc.1 r now ha)
    intro y
    rw [replay_append]
    have h1 : replay (listedAt n) acc.2 = listedAt acc.1 := funext hs
    rw [h1]
    exact mergeOne_sync acc.1 r now ha.2 y

theorem lookup_filter_drop (recs : List Rec) (p : Rec → Bool) (y : String) (hu : (recs.map (·.name)).Nodup) :
    lookup (recs.filter p) y = (lookup recs y).bind (fun r => if p r then some r else none) := by
  induction recs with
  | nil => rfl
  | cons x xs ih =>
    simp only [List.map_cons, List.nodup_cons] at hu
    have ih' := ih hu.2
    by_cases hx : (x.name == y) = true
    · have hxy : x.name = y := by simpa using hx
      by_cases hp : p x = true
      · simp [lookup, List.filter_cons, hp, hx]
      · simp only [lookup, List.filter_cons, hp, Bool.false_eq_true, ↓reduceIte, List.find?_cons, hx, Option.bind_some]
        -- no other record carries the name
        have : List.find? (fun r => r.name == y) (List.filter p xs) = none := by
          apply List.find?_eq_none.mpr
          intro r hr
          have hrm := (List.mem_filter.mp hr).1
          have : r.name ≠ y := by
            intro e; apply hu.1; rw [hxy, ← e]; exact List.mem_map_of_mem hrm
          simpa using this
        exact this
    · by_cases hp : p x = true
      · simp only [lookup, List.filter_cons, hp, ↓reduceIte, List.find?_cons, hx] at ih' ⊢
        exact ih'
      · simp only [lookup, List.filter_cons, hp, Bool.false_eq_true, ↓reduceIte, List.find?_cons, hx] at ih' ⊢
        exact ih'

theorem reap_sync (n : Node) (hu : Uniq n) : Sync n (reap n, []) := by
  apply sync_of_noJL n _ (by simp)
  intro y
  simp only [listedAt, reap]
  rw [lookup_filter_drop n.recs _ y hu]
  cases hl : lookup n.recs y with
  | none => rfl
  | some r =>
    simp only [Option.bind_some]
    by_cases hp : (!(r.st.deadOrLeft && r.changed == none) || r.name == n.cfg.self) = true
    · rw [if_pos hp]
    · rw [if_neg hp]
      have : r.st.deadOrLeft = true := by
        cases hd : r.st.deadOrLeft
        · simp [hd] at hp
        · rfl
      simp [this]

theorem reap_uniq (n : Node) (hu : Uniq n) : Uniq (reap n) := by
  simp only [Uniq, reap]
  exact (List.filter_sublist.map _).nodup hu

theorem age_sync (n : Node) (name : String) : Sync n (ageRec n name, []) := by
  apply sync_of_noJL n _ (by simp)
  intro y
  simp only [listedAt, ageRec]
  rw [lookup_map_namePreserving n.recs _ (by intro r; split <;> rfl) y]
  cases lookup n.recs y with
  | none => rfl
  | some r => simp only [Option.map_some]; split <;> rfl

theorem age_uniq (n : Node) (name : String) (hu : Uniq n) : Uniq (ageRec n name) := by
  simp only [Uniq, ageRec, List.map_map]
  have : (n.recs.map ((fun x => x.name) ∘ fun r => if (r.name == name) = true then { r with changed := none } else r)) = n.recs.map (·.name) := by
    apply List.map_congr_left
    intro r _
    simp only [Function.comp]
    split <;> rfl
  rw [this]; exact hu

/-- **one step keeps the log in sync.** For every operation of the model, on a node satisfying the
invariant (unique names, local record alive unless left): replaying the step's events on the set of
listed members before the step gives exactly the set of listed members after it, and the
invariant is preserved. -/
theorem C07_step_sync (n : Node) (op : Op) (h : LogInv n) : Sync n (step n op) ∧ LogInv (step n op).1 := by
  obtain ⟨hu, hok⟩ := h
  cases op with
  | alive a b env => exact ⟨alive_sync n a false b env hok, alive_uniq n a false b env hu, C02_alive_selfOk n a false b env hok⟩
  | suspect c env => exact ⟨suspect_sync n c env, suspect_uniq n c env hu, C02_suspect_selfOk n c env hok⟩
  | dead c env => exact ⟨dead_sync n c env, dead_uniq n c env hu, C02_dead_selfOk n c env hok⟩
  | merge rs now => exact merge_sync n rs now ⟨hu, hok⟩
  | fire node ca env =>
    simp only [step, timerFire]
    cases lookup n.recs node with
    | none => exact ⟨sync_of_noJL n _ (by simp) (fun _ => rfl), hu, hok⟩
    | some state =>
      simp only
      split
      · exact ⟨dead_sync n _ env, dead_uniq n _ env hu, C02_dead_selfOk n _ env hok⟩
      · exact ⟨sync_of_noJL n _ (by simp) (fun _ => rfl), hu, hok⟩
  | reap => exact ⟨reap_sync n hu, reap_uniq n hu, C02_reap_selfOk n hok⟩
  | update a p m v env =>
    simp only [step, updateNode]
    have hok' : SelfOk { n with selfInc := (n.selfInc + 1) % u32 } := hok
    exact ⟨fun y => alive_sync _ _ true true env hok' y, alive_uniq _ _ true true env hu, C02_alive_selfOk _ _ true true env hok'⟩
  | leave env =>
    simp only [step, leave]
    split
    · exact ⟨sync_of_noJL n _ (by simp) (fun _ => rfl), hu, hok⟩
    · obtain ⟨me, hme, _⟩ := hok
      simp only [hme]
      have hok' : SelfOk { n with hasLeft := true } := ⟨me, hme, fun hf => by cases hf⟩
      exact ⟨fun y => dead_sync { n with hasLeft := true } _ env y, dead_uniq { n with hasLeft := true } _ env hu,
        C02_dead_selfOk { n with hasLeft := true } _ env hok'⟩
  | age name => exact ⟨age_sync n name, age_uniq n name hu, C02_age_selfOk n name hok⟩

/-- **C07_history (event_members_sync).** Over every sequence of operations - claims by every path,
merges, timer expiries, reaping passes, UpdateNode, Leave - replaying the whole event log on the
initial member set yields exactly the members listed at the end (hence at every intermediate
moment: apply the theorem to each prefix). In particular no member is reported joined twice
without a leave, none leaves without having joined, and no change of the listed set happens
without its event. -/
theorem C07_history (n : Node) (ops : List Op) (h : LogInv n) :
    let r := ops.foldl (fun (acc : Node × List Out) op => ((step acc.1 op).1, acc.2 ++ (step acc.1 op).2)) (n, [])
    (∀ y, replay (listedAt n) r.2 y = listedAt r.1 y) ∧ LogInv r.1 := by
  suffices hh : ∀ (acc : Node × List Out), LogInv acc.1 → (∀ y, replay (listedAt n) acc.2 y = listedAt acc.1 y) →
      (∀ y, replay (listedAt n) (ops.foldl (fun (acc : Node × List Out) op => ((step acc.1 op).1, acc.2 ++ (step acc.1 op).2)) acc).2 y =
        listedAt (ops.foldl (fun (acc : Node × List Out) op => ((step acc.1 op).1, acc.2 ++ (step acc.1 op).2)) acc).1 y) ∧
      LogInv (ops.foldl (fun (acc : Node × List Out) op => ((step acc.1 op).1, acc.2 ++ (step acc.1 op).2)) acc).1 by
    exact hh (n, []) h (fun _ => rfl)
  induction ops with
  | nil => intro acc ha hs; exact ⟨hs, ha⟩
  | cons op ops ih =>
    intro acc ha hs
    simp only [List.foldl_cons]
    obtain ⟨hsync, hinv⟩ := C07_step_sync acc.1 op ha
    apply ih ((step acc.1 op).1, acc.2 ++ (step acc.1 op).2) hinv
    intro y
    rw [replay_append]
    have h1 : replay (listedAt n) acc.2 = listedAt acc.1 := funext hs
    rw [h1]
    exact hsync y

end Swim.Merge

namespace Swim.Merge

/-! ### callbacks are serialised: structural facts regenerated from the source -/

/-- **events only under the node lock.** Every call of a membership event / conflict / alive
delegate is made from `aliveNode` or `deadNode`, and both functions begin with
`m.nodeLock.Lock(); defer m.nodeLock.Unlock()`, so no two callbacks overlap and none runs
outside the critical section that changes `Members()`. (The merge delegate is a veto hook, not an
event, and is called before any state change.) -/
theorem C07_events_only_under_lock :
    Gen.notifySites.all (fun s =>
      (s.2.1 == "NotifyMerge" && s.1 == "Memberlist.mergeRemoteState") ||
      ((s.1 == "Memberlist.aliveNode" || s.1 == "Memberlist.deadNode") && s.2.2 == "locked")) = true := by
  decide

/-- the event delegate is called from exactly these places -/
theorem C07_event_sites :
    (Gen.notifySites.filter (fun s => s.2.1 == "NotifyJoin" || s.2.1 == "NotifyLeave" || s.2.1 == "NotifyUpdate")) =
      [("Memberlist.aliveNode", "NotifyJoin", "locked"), ("Memberlist.aliveNode", "NotifyUpdate", "locked"),
       ("Memberlist.deadNode", "NotifyLeave", "locked")] := by
  decide

end Swim.Merge
