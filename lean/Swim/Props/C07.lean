import Swim.Props.C01
import Swim.Gen.Facts
/-!
# C07  Membership events are a serialized, faithful log of Members()

Record-level statements: `listedAt n y` says whether `Members()` lists `y`. Every rule
changes `listedAt` exactly when it emits the matching event.
-/
namespace Swim.Merge

/-- does `Members()` list `y`? -/
def listedAt (n : Node) (y : String) : Bool :=
  match lookup n.recs y with
  | some r => !r.st.deadOrLeft
  | none => false

def isEvent : Out → Bool
  | .join .. => true | .update .. => true | .leave .. => true | _ => false

/-- `refute` emits no membership event and keeps the local record's state -/
theorem refute_no_event (n : Node) (me : Rec) (acc : Nat) : ∀ o ∈ (refute n me acc).2, isEvent o = false := by
  intro o ho; simp [refute] at ho; subst ho; rfl

theorem listedAt_setRec_same (n : Node) (r r' : Rec) (y : String) (hr : lookup n.recs r.name = some r)
    (hname : r'.name = r.name) (hst : r'.st.deadOrLeft = r.st.deadOrLeft) (recs' : List Rec)
    (hrecs : recs' = setRec n.recs r') (n' : Node) (hn' : n'.recs = recs') :
    listedAt n' y = listedAt n y := by
  unfold listedAt
  rw [hn', hrecs]
  by_cases hy : y = r.name
  · subst hy
    rw [← hname, lookup_setRec_self _ _ (by rw [hname, hr]; rfl), hname, hr]
    simp [hst]
  · rw [lookup_setRec_ne _ _ _ (by rw [hname]; exact hy)]

/-- **suspect claims never touch Members().** No join/leave/update event, and every member is
listed afterwards iff it was listed before (a suspect member is still a member). -/
theorem C07_suspect_sync (n : Node) (s : Claim) (env : Env) :
    (∀ o ∈ (suspectNode n s env).2, isEvent o = false) ∧
    ∀ y, listedAt (suspectNode n s env).1 y = listedAt n y := by
  unfold suspectNode
  cases hl : lookup n.recs s.node with
  | none => exact ⟨by simp, fun _ => rfl⟩
  | some state =>
    have hn := lookup_name hl
    simp only
    by_cases h1 : s.inc < state.inc
    · simp only [h1, ↓reduceIte]; exact ⟨by simp, fun _ => trivial⟩
    · simp only [h1, ↓reduceIte]
      cases ht : n.timers.find? (·.node == s.node) with
      | some t =>
        simp only
        cases hc : (t.confirm s.frm).2
        · simp only [Bool.false_eq_true, ↓reduceIte]; exact ⟨by simp, fun _ => trivial⟩
        · simp only [↓reduceIte]
          refine ⟨?_, fun _ => rfl⟩
          intro o ho; simp at ho; subst ho; rfl
      | none =>
        simp only
        by_cases h2 : (state.st != St.alive) = true
        · simp only [h2, ↓reduceIte]; exact ⟨by simp, fun _ => trivial⟩
        · simp only [h2, Bool.false_eq_true, ↓reduceIte]
          have hal : state.st = St.alive := by simpa using h2
          by_cases h3 : (state.name == n.cfg.self) = true
          · simp only [h3, ↓reduceIte]
            refine ⟨refute_no_event n state s.inc, fun y => ?_⟩
            exact listedAt_setRec_same n state { state with inc := refuteInc n.selfInc s.inc } y (by rw [hn]; exact hl) rfl rfl _ rfl _ rfl
          · simp only [h3, Bool.false_eq_true, ↓reduceIte]
            refine ⟨?_, fun y => ?_⟩
            · intro o ho; simp at ho; rcases ho with rfl | rfl <;> rfl
            · exact listedAt_setRec_same n state { state with inc := s.inc, st := St.suspect, changed := some env.now } y
                (by rw [hn]; exact hl) rfl (by simp [hal, St.deadOrLeft]) _ rfl _ rfl

/-- **dead claims: leave event ⇔ the member stops being listed.** The only event a dead claim can
cause is `leave` for the named member; it is emitted exactly when that member was listed and
is not any more; nobody else's listing changes. -/
theorem C07_dead_sync (n : Node) (d : Claim) (env : Env) :
    (∀ o ∈ (deadNode n d env).2, isEvent o = true → o = .leave d.node) ∧
    (∀ y, y ≠ d.node → listedAt (deadNode n d env).1 y = listedAt n y) ∧
    (listedAt (deadNode n d env).1 d.node = (listedAt n d.node && !((deadNode n d env).2.contains (.leave d.node)))) ∧
    ((deadNode n d env).2.contains (.leave d.node) = true → listedAt n d.node = true) := by
  refine ⟨?_, fun y hy => ?_, ?_⟩
  · unfold deadNode
    cases hl : lookup n.recs d.node with
    | none => simp
    | some state =>
      simp only
      by_cases h1 : d.inc < state.inc
      · simp [h1]
      · simp only [h1, ↓reduceIte]
        by_cases h2 : state.st.deadOrLeft = true
        · simp [h2]
        · simp only [h2, Bool.false_eq_true, ↓reduceIte]
          by_cases h3 : (state.name == n.cfg.self && !n.hasLeft) = true
          · simp only [h3, ↓reduceIte]
            intro o ho he
            have := refute_no_event _ state d.inc o ho
            rw [this] at he; cases he
          · simp only [h3, Bool.false_eq_true, ↓reduceIte]
            intro o ho he
            simp at ho
            rcases ho with rfl | rfl
            · cases he
            · rfl
  · unfold listedAt; rw [C01_dead_frame n d env y hy]
  · unfold deadNode listedAt
    cases hl : lookup n.recs d.node with
    | none => simp [hl]
    | some state =>
      have hn := lookup_name hl
      simp only
      by_cases h1 : d.inc < state.inc
      · simp [h1, hl]
      · simp only [h1, ↓reduceIte]
        by_cases h2 : state.st.deadOrLeft = true
        · simp [h2, hl]
        · simp only [h2, Bool.false_eq_true, ↓reduceIte]
          have h2' : state.st.deadOrLeft = false := by simpa using h2
          by_cases h3 : (state.name == n.cfg.self && !n.hasLeft) = true
          · simp only [h3, ↓reduceIte, refute]
            have hnm : ({ state with inc := refuteInc n.selfInc d.inc } : Rec).name = d.node := hn
            rw [← hnm, lookup_setRec_self _ _ (by rw [hnm, hl]; rfl)]
            simp [h2']
          · simp only [h3, Bool.false_eq_true, ↓reduceIte]
            generalize hst' : (if (d.node == d.frm) = true then St.left else St.dead) = st'
            have hnm : ({ state with inc := d.inc, st := st', changed := some env.now } : Rec).name = d.node := hn
            rw [← hnm, lookup_setRec_self _ _ (by rw [hnm, hl]; rfl)]
            have : st'.deadOrLeft = true := by rw [← hst']; split <;> rfl
            simp [this, h2']

/-- **alive claims (other members): join ⇔ becomes listed, update ⇔ listed member changes
metadata.** Events carry the metadata and address the record holds afterwards. -/
theorem C07_alive_sync (n : Node) (a : AliveMsg) (nt b : Bool) (env : Env) (hself : a.node ≠ n.cfg.self) :
    (∀ y, y ≠ a.node → listedAt (aliveNode n a nt b env).1 y = listedAt n y) ∧
    (∀ o ∈ (aliveNode n a nt b env).2, isEvent o = true →
        (o = .join a.node a.addr a.port a.md ∧ listedAt n a.node = false ∧ listedAt (aliveNode n a nt b env).1 a.node = true) ∨
        (o = .update a.node a.md ∧ listedAt n a.node = true ∧ listedAt (aliveNode n a nt b env).1 a.node = true)) ∧
    ((∀ o ∈ (aliveNode n a nt b env).2, isEvent o = false) →
        listedAt (aliveNode n a nt b env).1 a.node = listedAt n a.node) := by
  refine ⟨fun y hy => by unfold listedAt; rw [C01_alive_frame n a nt b env y hy], ?_⟩
  have spec := aliveDecide_nonlocal n a b env hself
  unfold aliveNode
  generalize aliveDecide n a b env = dec at spec
  cases dec with
  | ignore => exact ⟨by simp [aliveApply], fun _ => rfl⟩
  | conflict =>
    refine ⟨?_, fun _ => rfl⟩
    intro o ho he
    simp only [aliveApply] at ho
    split at ho <;> simp at ho
    subst ho; cases he
  | stubOnly =>
    simp only at spec
    refine ⟨by simp [aliveApply], fun _ => ?_⟩
    simp only [aliveApply, listedAt, withStub, spec.1]
    rw [show a.node = (stub a).name from rfl, lookup_append_stub_self _ _ spec.1]
    rfl
  | delTimerOnly isNew => exact absurd spec (by simp)
  | refuteSelf isNew => exact absurd spec (by simp)
  | accept isNew =>
    cases isNew
    · simp only at spec
      obtain ⟨r, hr, _⟩ := spec
      have hn : (acceptRec r a env).name = a.node := by simp [acceptRec, lookup_name hr]
      have hpost : listedAt (aliveApply n a nt env (.accept false)).1 a.node = true := by
        simp only [aliveApply, Bool.false_eq_true, ↓reduceIte, hr, Option.getD_some, listedAt]
        rw [← hn, lookup_setRec_self _ _ (by rw [hn, hr]; rfl)]
        rfl
      have hpre : listedAt n a.node = !r.st.deadOrLeft := by simp [listedAt, hr]
      refine ⟨?_, ?_⟩
      · intro o ho he
        simp only [aliveApply, Bool.false_eq_true, ↓reduceIte, hr, Option.getD_some] at ho
        by_cases c1 : r.st.deadOrLeft = true
        · simp only [c1, ↓reduceIte, List.cons_append, List.nil_append, List.mem_cons, List.not_mem_nil, or_false] at ho
          rcases ho with rfl | rfl
          · cases he
          · left; exact ⟨rfl, by rw [hpre, c1]; rfl, hpost⟩
        · by_cases c2 : (r.md != a.md) = true
          · simp only [c1, Bool.false_eq_true, ↓reduceIte, c2, List.cons_append, List.nil_append, List.mem_cons,
              List.not_mem_nil, or_false] at ho
            rcases ho with rfl | rfl
            · cases he
            · right; exact ⟨rfl, by rw [hpre]; simpa using c1, hpost⟩
          · simp only [c1, Bool.false_eq_true, ↓reduceIte, c2, List.append_nil, List.mem_singleton] at ho
            subst ho; cases he
      · intro hno
        rw [hpost, hpre]
        by_cases c1 : r.st.deadOrLeft = true
        · have := hno (.join a.node a.addr a.port a.md) (by simp [aliveApply, hr, c1])
          cases this
        · simpa using c1
    · simp only at spec
      have hst : lookup (withStub n a).recs a.node = some (stub a) := by
        simp only [withStub]
        rw [show a.node = (stub a).name from rfl, lookup_append_stub_self _ _ spec.1]
      have hpost : listedAt (aliveApply n a nt env (.accept true)).1 a.node = true := by
        simp only [aliveApply, ↓reduceIte, hst, Option.getD_some, listedAt]
        have hn : (acceptRec (stub a) a env).name = a.node := rfl
        rw [← hn, lookup_setRec_self _ _ (by rw [hn, hst]; rfl)]
        rfl
      have hpre : listedAt n a.node = false := by simp [listedAt, spec.1]
      refine ⟨?_, ?_⟩
      · intro o ho he
        simp only [aliveApply, ↓reduceIte, hst, Option.getD_some, stub, St.deadOrLeft, List.cons_append,
          List.nil_append, List.mem_cons, List.not_mem_nil, or_false] at ho
        rcases ho with rfl | rfl
        · cases he
        · left; exact ⟨rfl, hpre, hpost⟩
      · intro hno
        have := hno (.join a.node a.addr a.port a.md) (by simp [aliveApply, hst, stub, St.deadOrLeft])
        cases this


/-! ### callbacks are serialised: structural facts regenerated from the source -/

/-- **events only under the node lock.** Every call of a membership event / conflict / alive
delegate is made from `aliveNode` or `deadNode`, and both functions begin with
`m.nodeLock.Lock(); defer m.nodeLock.Unlock()`, so no two callbacks overlap and none runs
outside the critical section that changes `Members()`. (The merge delegate is a veto hook, not an
event, and is called before any state change.) -/
theorem C07_events_only_under_lock :
    Gen.notifySites.all (fun s =>
      (s.2.1 == "NotifyMerge" && s.1 == "Memberlist.mergeRemoteState") ||
      ((s.1 == "Memberlist.aliveNode" || s.1 == "Memberlist.deadNode") && s.2.2 == "locked")) = true := by
  decide

/-- the event delegate is called from exactly these places -/
theorem C07_event_sites :
    (Gen.notifySites.filter (fun s => s.2.1 == "NotifyJoin" || s.2.1 == "NotifyLeave" || s.2.1 == "NotifyUpdate")) =
      [("Memberlist.aliveNode", "NotifyJoin", "locked"), ("Memberlist.aliveNode", "NotifyUpdate", "locked"),
       ("Memberlist.deadNode", "NotifyLeave", "locked")] := by
  decide

end Swim.Merge
