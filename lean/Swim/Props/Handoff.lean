import Swim.Model.Handoff
/-!
# The handoff queue: bounded, nothing invented, sources kept (C13, C18)
-/
namespace Swim.Handoff

theorem push_bounded (d : Nat) (q : Q) (m : Msg) (h : q.high.length ≤ d ∧ q.low.length ≤ d) :
    (push d q m).high.length ≤ d ∧ (push d q m).low.length ≤ d := by
  unfold push
  cases m.kind with
  | alive => by_cases hf : q.high.length ≥ d <;> simp [hf] <;> omega
  | other => by_cases hf : q.low.length ≥ d <;> simp [hf] <;> omega

/-- **C13, handoff depth**: whatever arrives, neither queue ever holds more than `HandoffQueueDepth` messages -/
theorem C13_handoff_bounded (d : Nat) (ms : List Msg) (q : Q) (h : q.high.length ≤ d ∧ q.low.length ≤ d) :
    (pushes d q ms).high.length ≤ d ∧ (pushes d q ms).low.length ≤ d := by
  induction ms generalizing q with
  | nil => exact h
  | cons m ms ih => exact ih (push d q m) (push_bounded d q m h)

theorem push_mem (d : Nat) (q : Q) (m x : Msg) (hx : x ∈ (push d q m).high ∨ x ∈ (push d q m).low) :
    x ∈ q.high ∨ x ∈ q.low ∨ x = m := by
  unfold push at hx
  cases hk : m.kind with
  | alive =>
    simp only [hk] at hx
    by_cases hf : q.high.length ≥ d
    · simp only [hf, if_true] at hx; rcases hx with h | h <;> simp [h]
    · simp only [hf, if_false, List.mem_append, List.mem_singleton] at hx
      rcases hx with (h | h) | h <;> simp [h]
  | other =>
    simp only [hk] at hx
    by_cases hf : q.low.length ≥ d
    · simp only [hf, if_true] at hx; rcases hx with h | h <;> simp [h]
    · simp only [hf, if_false, List.mem_append, List.mem_singleton] at hx
      rcases hx with h | (h | h) <;> simp [h]

/-- **C18, sources are kept**: every message the handler ever takes from the queues is one that arrived -
the same kind, the same content, the same source verdict; a full queue drops, it never rewrites. -/
theorem C18_handoff_nothing_invented (d : Nat) (ms : List Msg) (q : Q) (x : Msg)
    (hx : x ∈ order (pushes d q ms)) : x ∈ q.high ∨ x ∈ q.low ∨ x ∈ ms := by
  have key : ∀ (ms : List Msg) (q : Q), (x ∈ (pushes d q ms).high ∨ x ∈ (pushes d q ms).low) →
      x ∈ q.high ∨ x ∈ q.low ∨ x ∈ ms := by
    intro ms
    induction ms with
    | nil => intro q h; rcases h with h | h <;> simp [pushes] at h <;> simp [h]
    | cons m ms ih =>
      intro q h
      have h' := ih (push d q m) (by simpa [pushes] using h)
      rcases h' with h1 | h1 | h1
      · rcases push_mem d q m x (Or.inl h1) with a | a | a
        · exact Or.inl a
        · exact Or.inr (Or.inl a)
        · exact Or.inr (Or.inr (by simp [a]))
      · rcases push_mem d q m x (Or.inr h1) with a | a | a
        · exact Or.inl a
        · exact Or.inr (Or.inl a)
        · exact Or.inr (Or.inr (by simp [a]))
      · exact Or.inr (Or.inr (List.mem_cons_of_mem _ h1))
  apply key ms q
  simp only [order, List.mem_append, List.mem_reverse] at hx
  exact hx

/-- an alive message from outside the allow-list has no effect, queued or not, full queue or not -/
theorem C18_handoff_outsider_no_effect (q : Q) (t : Nat) (h : ∀ m ∈ order q, m.kind = .alive → m.tag = t → m.srcOk = false) :
    (Kind.alive, t) ∉ effects q := by
  intro hin
  simp only [effects, List.mem_filterMap] at hin
  obtain ⟨m, hm, he⟩ := hin
  unfold effect at he
  cases hk : m.kind with
  | alive =>
    simp only [hk] at he
    by_cases hs : m.srcOk = true
    · simp only [hs, if_true, Option.some.injEq, Prod.mk.injEq] at he
      have := h m hm hk he.2
      rw [this] at hs; exact absurd hs (by decide)
    · simp [hs] at he
  | other => simp [hk] at he

example : effects (pushes 2 {} [⟨.other, 1, true⟩, ⟨.alive, 2, true⟩, ⟨.alive, 3, false⟩, ⟨.alive, 4, true⟩, ⟨.other, 5, true⟩]) =
    [(.alive, 2), (.other, 5), (.other, 1)] := by decide

end Swim.Handoff
