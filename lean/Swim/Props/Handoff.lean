import Swim.Model.Handoff
/-!
# The handoff queue: bounded, nothing invented, sources kept (C13, C18)
-/
namespace Swim.Handoff

theorem push_bounded (d : Nat) (q : Q) (m : Msg) (h : q.high.length ≤ d ∧ q.low.length ≤ d) :
    (push d q m).high.length ≤ d ∧ (push d q m).low.length ≤ d := by
  unfold push
  cases m.kind with
  | alive => by_cases hf : q.high.length ≥ d <;> simp [hf] <;> omega
  | other => by_cases hf : q.low.length ≥ d <;> simp [hf] <;> omega

/-- **C13, handoff depth**: whatever arrives, neither queue ever holds more than `HandoffQueueDepth` messages -/
theorem C13_handoff_bounded (d : Nat) (ms : List Msg) (q : Q) (h : q.high.length ≤ d ∧ q.low.length ≤ d) :
    (pushes d q ms).high.length ≤ d ∧ (pushes d q ms).low.length ≤ d := by
  induction ms generalizing q with
  | nil => exact h
  | cons m ms ih => exact ih (push d q m) (push_bounded d q m h)

theorem push_mem (d : Nat) (q : Q) (m x : Msg) (hx : x ∈ (push d q m).high ∨ x ∈ (push d q m).low) :
    x ∈ q.high ∨ x ∈ q.low ∨ x = m := by
  unfold push at hx
  cases hk : m.kind with
  | alive =>
    simp only [hk] at hx
    by_cases hf : q.high.length ≥ d
    · simp only [hf, if_true] at hx; rcases hx with h | h <;> simp [h]
    · simp only [hf, if_false, List.mem_append, List.mem_singleton] at hx
      rcases hx with (h | h) | h <;> simp [h]
  | other =>
    simp only [hk] at hx
    by_cases hf : q.low.length ≥ d
    · simp only [hf, if_true] at hx; rcases hx with h | h <;> simp [h]
    · simp only [hf, if_false, List.mem_append, List.mem_singleton] at hx
      rcases hx with h | (h | h) <;> simp [h]

/-- **C18, sources are kept**: every message the handler ever takes from the queues is one that arrived -
the same kind, the same content, the same source verdict; a full queue drops, it never rewrites. -/
theorem C18_handoff_nothing_invented (d : Nat) (ms : List Msg) (q : Q) (x : Msg)
    (hx : x ∈ order (pushes d q ms)) : x ∈ q.high ∨ x ∈ q.low ∨ x ∈ ms := by
  have key : ∀ (ms : List Msg) (q : Q), (x ∈ (pushes d q ms).high ∨ x ∈ (pushes d q ms).low) →
      x ∈ q.high ∨ x ∈ q.low ∨ x ∈ ms := by
    intro ms
    induction ms with
    | nil => intro q h; rcases h with h | h <;> simp [pushes] at h <;> simp [h]
    | cons m ms ih =>
      intro q h
      have h' := ih (push d q m) (by simpa [pushes] using h)
      rcases h' with h1 | h1 | h1
      · rcases push_mem d q m x (Or.inl h1) with a | a | a
        · exact Or.inl a
        · exact Or.inr (Or.inl a)
        · exact Or.inr (Or.inr (by simp [a]))
      · rcases push_mem d q m x (Or.inr h1) with a | a | a
        · exact Or.inl a
        · exact Or.inr (Or.inl a)
        · exact Or.inr (Or.inr (by simp [a]))
      · exact Or.inr (Or.inr (List.mem_cons_of_mem _ h1))
  apply key ms q
  simp only [order, List.mem_append, List.mem_reverse] at hx
  exact hx

/-- an alive message from outside the allow-list has no effect, queued or not, full queue or not -/
theorem C18_handoff_outsider_no_effect (q : Q) (t : Nat) (h : ∀ m ∈ order q, m.kind = .alive → m.tag = t → m.srcOk = false) :
    (Kind.alive, t) ∉ effects q := by
  intro hin
  simp only [effects, List.mem_filterMap] at hin
  obtain ⟨m, hm, he⟩ := hin
  unfold effect at he
  cases hk : m.kind with
  | alive =>
    simp only [hk] at he
    by_cases hs : m.srcOk = true
    · simp only [hs, if_true, Option.some.injEq, Prod.mk.injEq] at he
      have := h m hm hk he.2
      rw [this] at hs; exact absurd hs (by decide)
    · simp [hs] at he
  | other => simp [hk] at he

def isAlive (m : Msg) : Bool := m.kind == .alive

theorem take_append_full {α : Type} (l r : List α) (d : Nat) (h : l.length ≥ d) : (l ++ r).take d = l.take d := by
  rw [List.take_append]
  have : d - l.length = 0 := by omega
  simp [this]

theorem push_high_closed (d : Nat) (q : Q) (m : Msg) (hq : q.high.length ≤ d) :
    (push d q m).high = (q.high ++ (if isAlive m then [m] else [])).take d := by
  unfold push isAlive
  cases hk : m.kind with
  | alive =>
    simp only [beq_self_eq_true, if_true]
    by_cases hf : q.high.length ≥ d
    · simp only [hf, if_true]
      rw [take_append_full _ _ _ hf]
      exact (List.take_of_length_le hq).symm
    · simp only [hf, if_false]
      exact (List.take_of_length_le (by simp; omega)).symm
  | other =>
    have : (Kind.other == Kind.alive) = false := by decide
    simp only [this, Bool.false_eq_true, if_false, List.append_nil]
    by_cases hf : q.low.length ≥ d <;> simp only [hf, if_true, if_false] <;> exact (List.take_of_length_le hq).symm

/-- **which messages survive a busy handler**: of the alive gossip that arrives while the handler is busy,
exactly the first `depth` messages are kept (later ones find the queue full), whatever else arrives in
between; the handler then takes them newest first. -/
theorem C13_handoff_keeps_the_first (d : Nat) (ms : List Msg) (q : Q) (hq : q.high.length ≤ d) :
    (pushes d q ms).high = (q.high ++ ms.filter isAlive).take d := by
  induction ms generalizing q with
  | nil => simp [pushes]; exact (List.take_of_length_le hq).symm
  | cons m ms ih =>
    have hb' : (push d q m).high.length ≤ d := by
      have := push_high_closed d q m hq
      rw [this]; simp [List.length_take]; omega
    have step := ih (push d q m) hb'
    simp only [pushes, List.foldl_cons] at step ⊢
    rw [step, push_high_closed d q m hq]
    by_cases ha : isAlive m = true
    · simp only [ha, if_true, List.filter_cons_of_pos]
      by_cases hf : q.high.length ≥ d
      · have e1 : (q.high ++ [m]).take d = q.high := by
          rw [take_append_full _ _ _ hf]; exact List.take_of_length_le hq
        rw [e1, take_append_full _ _ _ hf, take_append_full _ _ _ hf]
      · have e1 : (q.high ++ [m]).take d = q.high ++ [m] := List.take_of_length_le (by simp; omega)
        rw [e1]; simp
    · have ha' : isAlive m = false := by simpa using ha
      simp only [ha', Bool.false_eq_true, if_false, List.append_nil, List.filter_cons_of_neg, not_false_eq_true]
      rw [List.take_of_length_le hq]

example : effects (pushes 2 {} [⟨.other, 1, true⟩, ⟨.alive, 2, true⟩, ⟨.alive, 3, false⟩, ⟨.alive, 4, true⟩, ⟨.other, 5, true⟩]) =
    [(.alive, 2), (.other, 5), (.other, 1)] := by decide

end Swim.Handoff
