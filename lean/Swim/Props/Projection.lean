import Swim.Props.Cluster
import Swim.Props.C18
/-!
# Projection: every node of a cluster history runs a single-node history

Each cluster step changes at most one node, by exactly one operation of the single-node model
(`Swim.Merge.step`), and appends that operation's effects to the log under the node's name. Hence
for every node of every cluster history there is a sequence of single-node operations that takes its
initial state to its final state and produces its part of the log - and every theorem about
single-node histories (C01_history, C02_history, C07_history, C18_history) holds for every node of
every cluster history.
-/
namespace Swim.Cluster
open Swim.Merge

theorem find_map_replace (l : List Node) (x y : String) (n' : Node) (hn' : n'.cfg.self = x) :
    (l.map (fun k => if (k.cfg.self == x) = true then n' else k)).find? (·.cfg.self == y) =
      if x = y then (l.find? (·.cfg.self == x)).map (fun _ => n') else l.find? (·.cfg.self == y) := by
  induction l with
  | nil => simp
  | cons a l ih =>
    simp only [List.map_cons, List.find?_cons]
    by_cases hax : (a.cfg.self == x) = true
    · simp only [hax, ↓reduceIte]
      by_cases hxy : x = y
      · subst hxy
        simp [hn', hax]
      · have : (n'.cfg.self == y) = false := by simpa [hn'] using hxy
        have h2 : (a.cfg.self == y) = false := by
          have : a.cfg.self = x := by simpa using hax
          simpa [this] using hxy
        simp only [this, h2, hxy, ↓reduceIte] at ih ⊢
        exact ih
    · simp only [hax, Bool.false_eq_true, ↓reduceIte]
      by_cases hxy : x = y
      · have h2 : (a.cfg.self == y) = false := by rw [← hxy]; simpa using hax
        simp only [h2, hxy, ↓reduceIte] at ih ⊢
        simpa [hxy] using ih
      · simp only [hxy, ↓reduceIte] at ih ⊢
        cases (a.cfg.self == y)
        · exact ih
        · rfl

/-- what `act` does to the node called `y` and to `y`'s part of the log -/
theorem act_nodeAt (w : World) (x y : String) (f : Node → Node × List Out) (src : Option AliveMsg)
    (hcfg : ∀ n, (f n).1.cfg = n.cfg) :
    nodeAt (act w x f src) y =
      (if x = y then (nodeAt w x).map (fun n => (f n).1) else nodeAt w y) ∧
    ((act w x f src).log.filter (·.1 == y)).map (·.2) =
      (w.log.filter (·.1 == y)).map (·.2) ++
        (if x = y then (match nodeAt w x with | some n => (f n).2 | none => []) else []) := by
  unfold act nodeAt
  cases hf : w.nodes.find? (·.cfg.self == x) with
  | none =>
    simp only
    by_cases hxy : x = y
    · subst hxy; simp [hf]
    · simp [hxy]
  | some n =>
    have hname : n.cfg.self = x := (find_actor hf).2
    simp only
    refine ⟨?_, ?_⟩
    · rw [find_map_replace w.nodes x y (f n).1 (by rw [hcfg, hname])]
      by_cases hxy : x = y
      · subst hxy
        simp [hf]
      · simp [hxy]
    · simp only [List.filter_append, List.map_append]
      congr 1
      by_cases hxy : x = y
      · subst hxy
        simp only [↓reduceIte]
        rw [List.filter_map]
        simp [Function.comp_def, List.map_map]
      · simp only [hxy, ↓reduceIte]
        rw [List.filter_map]
        have : (x == y) = false := by simpa using hxy
        simp [Function.comp_def, this]

def logOf (w : World) (y : String) : List Out := (w.log.filter (·.1 == y)).map (·.2)

/-- effect of one single-node operation (or none) on the node called `y` -/
def applyOp (o? : Option (String × Op)) (y : String) (n : Node) : Node × List Out :=
  match o? with
  | some (x, o) => if x = y then step n o else (n, [])
  | none => (n, [])

theorem act_proj (w : World) (x y : String) (f : Node → Node × List Out) (src : Option AliveMsg) (o? : Option Op)
    (hcfg : ∀ n, (f n).1.cfg = n.cfg)
    (hf : ∀ n, nodeAt w x = some n → f n = match o? with | some o => step n o | none => (n, [])) :
    nodeAt (act w x f src) y = (nodeAt w y).map (fun n => (applyOp (o?.map (fun o => (x, o))) y n).1) ∧
    logOf (act w x f src) y = logOf w y ++
      (match nodeAt w y with | some n => (applyOp (o?.map (fun o => (x, o))) y n).2 | none => []) := by
  obtain ⟨h1, h2⟩ := act_nodeAt w x y f src hcfg
  unfold logOf
  rw [h1, h2]
  by_cases hxy : x = y
  · subst hxy
    simp only [↓reduceIte]
    cases hn : nodeAt w x with
    | none => simp
    | some n =>
      have := hf n hn
      cases o? with
      | none => simp only at this; simp [applyOp, this]
      | some o => simp only at this; simp [applyOp, this]
  · simp only [hxy, ↓reduceIte]
    cases hn : nodeAt w y with
    | none => simp
    | some n =>
      cases o? with
      | none => simp [applyOp]
      | some o => simp [applyOp, hxy]

theorem merge_single (n : Node) (s : PushState) (now : Nat) : mergeState n [s] now = mergeOne n s now := by
  simp [mergeState]

theorem announce_cfg (addr port md : Nat) (vsn : List Nat) (env : Env) (n : Node) :
    (announce addr port md vsn env n).1.cfg = n.cfg := by
  unfold announce
  cases lookup n.recs n.cfg.self with
  | some me => exact alive_cfg _ _ _ _ _
  | none =>
    by_cases hv : vsn.length = 6
    · simp only [hv, ↓reduceIte]; exact alive_cfg _ _ _ _ _
    · simp only [hv, ↓reduceIte]

theorem probeFail_cfg (t : String) (env : Env) (n : Node) : (probeFail t env n).1.cfg = n.cfg := by
  unfold probeFail
  split
  · rfl
  · cases lookup n.recs t with
    | none => rfl
    | some r => exact suspect_cfg _ _ _

/-- **one cluster step is at most one single-node step.** For every node name `y`: the node called `y`
after the step is the node before it with `nodeOp`'s operation applied when `y` is the acting node,
and unchanged otherwise; `y`'s log grows by exactly that operation's effects. -/
theorem step_projection (w : World) (op : COp) (y : String) :
    nodeAt (w.step op) y = (nodeAt w y).map (fun n => (applyOp (nodeOp w op) y n).1) ∧
    logOf (w.step op) y = logOf w y ++
      (match nodeAt w y with | some n => (applyOp (nodeOp w op) y n).2 | none => []) := by
  have noop : nodeAt w y = (nodeAt w y).map (fun n => (applyOp none y n).1) ∧
      logOf w y = logOf w y ++ (match nodeAt w y with | some n => (applyOp none y n).2 | none => []) := by
    cases nodeAt w y <;> simp [applyOp]
  cases op with
  | deliver x i env =>
    simp only [World.step, nodeOp]
    cases hm : w.pool[i]? with
    | none => exact noop
    | some m =>
      cases m with
      | alive a =>
        exact act_proj w x y _ _ (some (.alive a false env)) (fun n => alive_cfg n a false false env) (fun n _ => rfl)
      | suspect c =>
        exact act_proj w x y _ _ (some (.suspect c env)) (fun n => suspect_cfg n c env) (fun n _ => rfl)
      | dead c =>
        exact act_proj w x y _ _ (some (.dead c env)) (fun n => dead_cfg n c env) (fun n _ => rfl)
      | state s =>
        exact act_proj w x y _ _ (some (.merge [withEnv s env] env.now)) (fun n => mergeOne_cfg n _ _)
          (fun n _ => by simp only [step, merge_single]; rfl)
  | snapshot x =>
    simp only [World.step, nodeOp]
    cases hf : w.nodes.find? (·.cfg.self == x) with
    | none => exact noop
    | some n => exact noop
  | announce x addr port md vsn env =>
    simp only [World.step, nodeOp]
    cases hf : nodeAt w x with
    | none =>
      have hf' : w.nodes.find? (·.cfg.self == x) = none := hf
      simp only [hf']
      exact noop
    | some n =>
      have hf' : w.nodes.find? (·.cfg.self == x) = some n := hf
      simp only [hf']
      cases hme : lookup n.recs n.cfg.self with
      | some me =>
        simp only
        exact act_proj w x y _ _ (some (.update me.addr me.port md me.vsn env)) (announce_cfg addr port md vsn env)
          (fun n2 h2 => by rw [hf] at h2; cases h2; simp [announce, hme, step])
      | none =>
        simp only
        by_cases hv : vsn.length = 6
        · simp only [hv, ↓reduceIte]
          exact act_proj w x y _ _ (some (.update addr port md vsn env)) (announce_cfg addr port md vsn env)
            (fun n2 h2 => by rw [hf] at h2; cases h2; simp [announce, hme, step, hv])
        · simp only [hv, ↓reduceIte]
          exact act_proj w x y _ _ none (announce_cfg addr port md vsn env)
            (fun n2 h2 => by rw [hf] at h2; cases h2; simp [announce, hme, hv])
  | leave x env =>
    exact act_proj w x y _ _ (some (.leave env)) (fun n => step_cfg n (.leave env)) (fun n _ => rfl)
  | fire x node ca env =>
    exact act_proj w x y _ _ (some (.fire node ca env)) (fun n => step_cfg n (.fire node ca env)) (fun n _ => rfl)
  | reap x =>
    exact act_proj w x y _ _ (some .reap) (fun n => rfl) (fun n _ => rfl)
  | age x name =>
    exact act_proj w x y _ _ (some (.age name)) (fun n => rfl) (fun n _ => rfl)
  | probeFail x t env =>
    simp only [World.step, nodeOp]
    cases hf : nodeAt w x with
    | none =>
      simp only
      exact act_proj w x y _ _ none (probeFail_cfg t env) (fun n2 h2 => by rw [hf] at h2; cases h2)
    | some n =>
      simp only
      by_cases hs : (t == n.cfg.self) = true
      · simp only [hs, ↓reduceIte]
        exact act_proj w x y _ _ none (probeFail_cfg t env)
          (fun n2 h2 => by rw [hf] at h2; cases h2; simp [probeFail, hs])
      · simp only [hs, Bool.false_eq_true, ↓reduceIte]
        cases hl : lookup n.recs t with
        | none =>
          simp only
          exact act_proj w x y _ _ none (probeFail_cfg t env)
            (fun n2 h2 => by rw [hf] at h2; cases h2; simp [probeFail, hs, hl])
        | some r =>
          simp only
          exact act_proj w x y _ _ (some (.suspect { inc := r.inc, node := t, frm := n.cfg.self } env)) (probeFail_cfg t env)
            (fun n2 h2 => by rw [hf] at h2; cases h2; simp [probeFail, hs, hl, step])

/-- the single-node operations node `y` performs during a cluster history -/
def projOps : World → List COp → String → List Op
  | _, [], _ => []
  | w, op :: rest, y =>
    (match nodeOp w op with
      | some (x, o) => if x = y then [o] else []
      | none => []) ++ projOps (w.step op) rest y

/-- the single-node run with its effects -/
def nodeRun (n : Node) (ops : List Op) : Node × List Out :=
  ops.foldl (fun (acc : Node × List Out) op => ((step acc.1 op).1, acc.2 ++ (step acc.1 op).2)) (n, [])

theorem nodeRun_fst (n : Node) (ops : List Op) : (nodeRun n ops).1 = ops.foldl (fun n op => (step n op).1) n := by
  unfold nodeRun
  suffices h : ∀ (acc : List Out), (ops.foldl (fun (acc : Node × List Out) op => ((step acc.1 op).1, acc.2 ++ (step acc.1 op).2)) (n, acc)).1 =
      ops.foldl (fun n op => (step n op).1) n from h []
  induction ops generalizing n with
  | nil => intro acc; rfl
  | cons op ops ih => intro acc; simp only [List.foldl_cons]; exact ih _ _

theorem nodeRun_cons (n : Node) (op : Op) (ops : List Op) :
    nodeRun n (op :: ops) = ((nodeRun (step n op).1 ops).1, (step n op).2 ++ (nodeRun (step n op).1 ops).2) := by
  unfold nodeRun
  simp only [List.foldl_cons, List.nil_append]
  suffices h : ∀ (m : Node) (acc : List Out),
      ops.foldl (fun (acc : Node × List Out) op => ((step acc.1 op).1, acc.2 ++ (step acc.1 op).2)) (m, acc) =
      ((ops.foldl (fun (acc : Node × List Out) op => ((step acc.1 op).1, acc.2 ++ (step acc.1 op).2)) (m, [])).1,
        acc ++ (ops.foldl (fun (acc : Node × List Out) op => ((step acc.1 op).1, acc.2 ++ (step acc.1 op).2)) (m, [])).2) from h _ _
  induction ops with
  | nil => intro m acc; simp
  | cons o os ih =>
    intro m acc
    simp only [List.foldl_cons, List.nil_append]
    rw [ih (step m o).1 (acc ++ (step m o).2), ih (step m o).1 (step m o).2]
    simp [List.append_assoc]

/-- **projection.** For every cluster history and every node: the node's final state and its part of
the log are those of the single-node history `projOps` run from its initial state. -/
theorem projection (ops : List COp) : ∀ (w : World) (y : String) (n0 : Node), nodeAt w y = some n0 →
    nodeAt (w.run ops) y = some (nodeRun n0 (projOps w ops y)).1 ∧
    logOf (w.run ops) y = logOf w y ++ (nodeRun n0 (projOps w ops y)).2 := by
  induction ops with
  | nil => intro w y n0 h0; simp [World.run, projOps, nodeRun, h0]
  | cons op ops ih =>
    intro w y n0 h0
    obtain ⟨s1, s2⟩ := step_projection w op y
    rw [h0] at s1 s2
    simp only [Option.map_some] at s1 s2
    obtain ⟨i1, i2⟩ := ih (w.step op) y _ s1
    simp only [World.run, List.foldl_cons] at i1 i2 ⊢
    rw [i1, i2, s2]
    simp only [projOps]
    cases ho : nodeOp w op with
    | none => simp [applyOp]
    | some xo =>
      obtain ⟨x, o⟩ := xo
      by_cases hxy : x = y
      · simp only [applyOp, hxy, ↓reduceIte, List.singleton_append, nodeRun_cons, List.append_assoc, and_self]
      · simp [applyOp, hxy]

/-! ## Single-node history theorems, for every node of every cluster history -/

/-- **C07 at cluster level.** For every cluster history starting in a state where node `y` is running
with distinct record names, replaying the part of the event log `y` produced during the history on
the set `y` listed at the start yields exactly the set `y` lists at the end. -/
theorem C07_cluster_sync (w : World) (ops : List COp) (y : String) (n0 : Node) (h0 : nodeAt w y = some n0)
    (hlog : LogInv n0) :
    ∃ n1, nodeAt (w.run ops) y = some n1 ∧ ∃ part, logOf (w.run ops) y = logOf w y ++ part ∧
      ∀ z, replay (listedAt n0) part z = listedAt n1 z := by
  obtain ⟨p1, p2⟩ := projection ops w y n0 h0
  exact ⟨_, p1, _, p2, (C07_history n0 (projOps w ops y) hlog).1⟩

/-- **C02 at cluster level (own record).** A node that lists itself alive (or has left) keeps doing so
through every cluster history. -/
theorem C02_cluster_selfOk (w : World) (ops : List COp) (y : String) (n0 : Node) (h0 : nodeAt w y = some n0)
    (hok : SelfOk n0) : ∃ n1, nodeAt (w.run ops) y = some n1 ∧ SelfOk n1 := by
  obtain ⟨p1, _⟩ := projection ops w y n0 h0
  refine ⟨_, p1, ?_⟩
  rw [nodeRun_fst]
  exact C02_history n0 _ hok

/-- **C01 at cluster level.** Through every cluster history, the view any node holds of any other
member only moves forward in the precedence order, except at a legitimate takeover of the name by
another address or when the reaper forgets a dead record. -/
theorem C01_cluster_forward (w : World) (ops : List COp) (y x : String) (n0 : Node) (h0 : nodeAt w y = some n0)
    (hx : x ≠ n0.cfg.self) :
    ∃ n1, nodeAt (w.run ops) y = some n1 ∧
      (kle (key (lookup n0.recs x)) (key (lookup n1.recs x)) ∨ histRegress n0 (projOps w ops y) x) := by
  obtain ⟨p1, _⟩ := projection ops w y n0 h0
  refine ⟨_, p1, ?_⟩
  rw [nodeRun_fst]
  exact C01_history n0 _ x hx

/-- **C18 at cluster level.** With an allow-list, if every admission verdict a node computes during the
history is the allow-list's verdict on the claimed address, every address it holds stays allowed. -/
theorem C18_cluster_allowed (allowed : Nat → Bool) (w : World) (ops : List COp) (y : String) (n0 : Node)
    (h0 : nodeAt w y = some n0) (hinv : AllAllowed allowed n0)
    (hops : ∀ op ∈ projOps w ops y, opHonest allowed op) :
    ∃ n1, nodeAt (w.run ops) y = some n1 ∧ AllAllowed allowed n1 := by
  obtain ⟨p1, _⟩ := projection ops w y n0 h0
  refine ⟨_, p1, ?_⟩
  rw [nodeRun_fst]
  exact C18_history allowed n0 _ hinv hops

end Swim.Cluster
