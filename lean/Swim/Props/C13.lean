import Swim.Model.Ingest
import Swim.Props.C12
/-!
# C13  Hostile bytes never crash, hang, or bypass the documented resource caps
(packet path: label, decryption, checksum, command dispatch with compound nesting)
-/
namespace Swim.Ingest
open Swim.Codec

theorem idx_ok (b : Bytes) (i : Nat) (h : i < b.length) : ∃ x, idx b i = .ok x := by
  unfold idx
  rw [List.getElem?_eq_getElem h]
  exact ⟨_, rfl⟩

theorem getLast?_eq_getElem? (b : Bytes) : b.getLast? = b[b.length - 1]? := by
  cases b with
  | nil => rfl
  | cons x xs => simp [List.getLast?_eq_getElem?]

/-- after `pkcs7valid`, stripping the padding cannot panic, and strips exactly what the model says -/
theorem pkcs7decodeRaw_of_valid (buf : Bytes) (h : pkcs7valid buf 16 = true) :
    pkcs7decodeRaw buf = .ok (pkcs7strip buf) := by
  unfold pkcs7valid at h
  cases hl : buf.getLast? with
  | none => simp [hl] at h
  | some last =>
    simp only [hl, Bool.and_eq_true, beq_iff_eq, decide_eq_true_eq] at h
    obtain ⟨⟨⟨⟨_, h1⟩, _⟩, h3⟩, _⟩ := h
    have hne : buf.length ≠ 0 := by
      intro e; have : buf = [] := List.eq_nil_of_length_eq_zero e; subst this; simp at hl
    have hidx : idx buf (buf.length - 1) = .ok last := by
      unfold idx
      rw [← getLast?_eq_getElem?, hl]
    simp only [pkcs7decodeRaw, hne, ↓reduceIte, hidx, bind, Except.bind, h3, sliceTo, pkcs7strip, hl]
    have : buf.length - last.toNat ≤ buf.length := by omega
    simp [this]

theorem tryKeys_no_panic (A : Aead) (vsn : UInt8) (nonce ct aad : Bytes) (keys : List Bytes) :
    tryKeys A vsn nonce ct aad keys ≠ .error .panic := by
  induction keys with
  | nil => simp [tryKeys]
  | cons k ks ih =>
    simp only [tryKeys]
    cases hk : A.openB k nonce aad ct with
    | none => exact ih
    | some plain =>
      simp only
      by_cases hv : (vsn == 0) = true
      · simp only [hv, ↓reduceIte]
        by_cases hp : pkcs7valid plain 16 = true
        · simp [hp, pkcs7decodeRaw_of_valid plain hp]
        · simp [hp]
      · simp [hv]

/-- **decrypt_no_panic.** For every byte string, key list and associated data, `decryptPayload`
returns plaintext or an error; it never panics. -/
theorem C13_decrypt_no_panic (A : Aead) (keys : List Bytes) (msg aad : Bytes) :
    decryptPayload A keys msg aad ≠ .error .panic := by
  unfold decryptPayload
  by_cases h0 : msg.length = 0
  · simp [h0]
  · simp only [h0, ↓reduceIte]
    obtain ⟨v, hv⟩ := idx_ok msg 0 (by omega)
    simp only [hv, bind, Except.bind]
    by_cases h1 : v.toNat > Gen.c_maxEncryptionVersion
    · simp [h1]
    · simp only [h1, ↓reduceIte]
      by_cases h2 : msg.length < encryptedLength v.toNat 0
      · simp [h2]
      · simp only [h2, ↓reduceIte]
        have hlen : 29 ≤ msg.length := by
          have : 29 ≤ encryptedLength v.toNat 0 := by
            unfold encryptedLength
            simp only [Gen.c_versionSize, Gen.c_nonceSize, Gen.c_tagSize, Gen.c_blockSize]
            split <;> omega
          omega
        have s1 : slice msg Gen.c_versionSize (Gen.c_versionSize + Gen.c_nonceSize) =
            .ok ((msg.drop 1).take 12) := by
          simp only [slice, Gen.c_versionSize, Gen.c_nonceSize]
          have : 1 ≤ 1 + 12 ∧ 1 + 12 ≤ msg.length := by omega
          simp [this]
        have s2 : sliceFrom msg (Gen.c_versionSize + Gen.c_nonceSize) = .ok (msg.drop 13) := by
          simp only [sliceFrom, Gen.c_versionSize, Gen.c_nonceSize]
          have : 1 + 12 ≤ msg.length := by omega
          simp [this]
        simp only [s1, s2]
        exact tryKeys_no_panic A v _ _ aad keys

/-- the pinned code did panic: a 16-byte plaintext ending in 0xff, decrypted as version 0
(known_findings.json `fixed:` C13 14559a2) -/
theorem C13_pinned_pkcs7_panics :
    pkcs7decodeRaw (List.replicate 15 0 ++ [255]) = .error .panic := by rfl

theorem splitParts_len : ∀ (lens : List Nat) (b : Bytes), ∀ p ∈ (splitParts lens b).1, p.length ≤ b.length := by
  intro lens
  induction lens with
  | nil => intro b p hp; simp [splitParts] at hp
  | cons l ls ih =>
    intro b p hp
    simp only [splitParts] at hp
    by_cases h : b.length < l
    · simp [h] at hp
    · simp only [h, ↓reduceIte, List.mem_cons] at hp
      rcases hp with rfl | hp
      · simp [List.length_take]; omega
      · have := ih (b.drop l) p hp
        simp only [List.length_drop] at this
        omega

theorem readLens_len : ∀ (n : Nat) (b : Bytes) (ls : List Nat) (r : Bytes), readLens n b = some (ls, r) → r.length ≤ b.length := by
  intro n
  induction n with
  | zero => intro b ls r h; simp [readLens] at h; rw [h.2]; exact Nat.le_refl _
  | succ k ih =>
    intro b ls r h
    match b, h with
    | x :: y :: rest, h =>
      simp only [readLens, Option.map_eq_some_iff] at h
      obtain ⟨⟨ls', r'⟩, hr, he⟩ := h
      have := ih rest ls' r' hr
      simp only [Prod.mk.injEq] at he
      rw [← he.2]; simp; omega

/-- every part of a compound message is strictly shorter than the message -/
theorem decodeCompound_parts_shorter (body : Bytes) (t : Nat) (parts : List Bytes)
    (h : decodeCompound body = .ok (t, parts)) : ∀ p ∈ parts, p.length < body.length := by
  unfold decodeCompound at h
  cases body with
  | nil => simp at h
  | cons n rest =>
    simp only at h
    cases hr : readLens n.toNat rest with
    | none => simp [hr] at h
    | some lr =>
      obtain ⟨lens, r⟩ := lr
      simp only [hr] at h
      have hlen := readLens_len _ _ _ _ hr
      intro p hp
      have : parts = (splitParts lens r).1 := by
        cases hs : splitParts lens r with
        | mk ps tt => simp only [hs] at h; cases h; rfl
      rw [this] at hp
      have := splitParts_len lens r p hp
      simp only [List.length_cons]; omega

/-- **handleCommand never fails.** For every fuel and every byte string the dispatcher returns a
(possibly empty) list of leaf commands: no panic and no error escapes, however the compound
messages are nested. -/
theorem C13_handleCommand_total : ∀ (fuel : Nat) (buf : Bytes), ∃ ls, handleCommand fuel buf = .ok ls := by
  intro fuel
  induction fuel with
  | zero => intro buf; exact ⟨[], rfl⟩
  | succ n ih =>
    intro buf
    cases buf with
    | nil => exact ⟨[], rfl⟩
    | cons t body =>
      simp only [handleCommand]
      by_cases h1 : t.toNat = Gen.c_compoundMsg
      · simp only [h1, ↓reduceIte]
        cases hd : decodeCompound body with
        | error e => exact ⟨[], rfl⟩
        | ok tp =>
          obtain ⟨tr, parts⟩ := tp
          simp only
          have : ∀ (qs : List Bytes) (acc : List Leaf), ∃ ls, qs.foldlM (fun acc p => do let l ← handleCommand n p; pure (acc ++ l)) acc = Except.ok ls := by
            intro qs
            induction qs with
            | nil => intro acc; exact ⟨acc, rfl⟩
            | cons p ps ihp =>
              intro acc
              obtain ⟨l, hl⟩ := ih p
              simp only [List.foldlM_cons, hl, bind, Except.bind, pure, Except.pure]
              exact ihp (acc ++ l)
          exact this parts []
      · simp only [h1, ↓reduceIte]
        split
        · exact ⟨_, rfl⟩
        · split
          · exact ⟨_, rfl⟩
          · split <;> exact ⟨_, rfl⟩

theorem foldlM_congr_parts (parts : List Bytes) (f g : Bytes → G (List Leaf)) (h : ∀ p ∈ parts, f p = g p) (acc : List Leaf) :
    parts.foldlM (fun acc p => do let l ← f p; pure (acc ++ l)) acc =
    parts.foldlM (fun acc p => do let l ← g p; pure (acc ++ l)) acc := by
  induction parts generalizing acc with
  | nil => rfl
  | cons p ps ih =>
    simp only [List.foldlM_cons, h p (by simp)]
    cases g p with
    | error e => rfl
    | ok l => simp only [bind, Except.bind, pure, Except.pure]; exact ih (fun q hq => h q (by simp [hq])) _

/-- **compound_terminates.** The nesting depth of compound messages is bounded by the length of the
packet: once the fuel exceeds the buffer length, more fuel changes nothing - the dispatcher has
reached every leaf. (`ingestPacket` calls it with `length + 1`.) -/
theorem C13_compound_terminates : ∀ (fuel : Nat) (buf : Bytes), buf.length < fuel →
    handleCommand (fuel + 1) buf = handleCommand fuel buf := by
  intro fuel
  induction fuel with
  | zero => intro buf h; omega
  | succ n ih =>
    intro buf h
    cases buf with
    | nil => rfl
    | cons t body =>
      simp only [handleCommand]
      by_cases h1 : t.toNat = Gen.c_compoundMsg
      · simp only [h1, ↓reduceIte]
        cases hd : decodeCompound body with
        | error e => rfl
        | ok tp =>
          obtain ⟨tr, parts⟩ := tp
          simp only
          apply foldlM_congr_parts
          intro p hp
          have := decodeCompound_parts_shorter body tr parts hd p hp
          simp only [List.length_cons] at h
          exact ih p (by omega)
      · simp only [h1, ↓reduceIte]

theorem unCrc_no_panic (crcOk : Bytes → Bytes → Bool) (buf : Bytes) : unCrc crcOk buf ≠ .error .panic := by
  unfold unCrc
  split
  · rename_i h
    have h1 : slice buf 1 5 = .ok ((buf.drop 1).take 4) := by
      simp only [slice]; have : 1 ≤ 5 ∧ 5 ≤ buf.length := by omega
      simp [this]
    have h2 : sliceFrom buf 5 = .ok (buf.drop 5) := by
      simp only [sliceFrom]; have : 5 ≤ buf.length := by omega
      simp [this]
    simp only [h1, h2, bind, Except.bind]
    split <;> simp
  · simp

theorem decLayer_no_panic (A : Aead) (c : RxCfg) (l b1 : Bytes) : decLayer A c l b1 ≠ .error .panic := by
  unfold decLayer
  by_cases he : c.keys.isEmpty = true
  · simp [he]
  · simp only [he, Bool.false_eq_true, ↓reduceIte]
    have hnp := C13_decrypt_no_panic A c.keys b1 l
    cases hd : decryptPayload A c.keys b1 l with
    | ok p => simp
    | error f =>
      cases f with
      | panic => exact absurd hd hnp
      | drop w => simp only; split <;> simp

/-- **ingest_no_panic.** No byte string arriving as a packet makes the packet path panic, under
every label / SkipInboundLabelCheck / keyring / verify-incoming configuration. -/
theorem C13_ingest_no_panic (A : Aead) (crcOk : Bytes → Bytes → Bool) (c : RxCfg) (buf : Bytes) :
    ingestPacket A crcOk c buf ≠ .error .panic := by
  unfold ingestPacket
  cases removeLabel buf with
  | error e => simp
  | ok pr =>
    obtain ⟨b1, carried⟩ := pr
    simp only
    cases labelGate c.label c.skipInbound carried with
    | none => simp
    | some l =>
      simp only
      cases hd : decLayer A c l b1 with
      | error f => simp only; intro e; cases e; exact decLayer_no_panic A c l b1 hd
      | ok b2 =>
        simp only
        cases hu : unCrc crcOk b2 with
        | error f => simp only; intro e; cases e; exact unCrc_no_panic crcOk b2 hu
        | ok b3 =>
          simp only
          obtain ⟨ls, hls⟩ := C13_handleCommand_total (b3.length + 1) b3
          rw [hls]; simp

/-- **reject_no_effect (label).** A packet whose label the receiver does not accept yields no
command at all, whatever else it contains. -/
theorem C13_foreign_label_no_effect (A : Aead) (crcOk : Bytes → Bytes → Bool) (c : RxCfg) (buf b1 carried : Bytes)
    (hr : removeLabel buf = .ok (b1, carried)) (hg : labelGate c.label c.skipInbound carried = none) :
    ingestPacket A crcOk c buf = .error (.drop "unacceptable label") := by
  simp [ingestPacket, hr, hg]

/-- **reject_no_effect (authentication).** With a keyring and incoming verification on, a packet
that does not decrypt yields no command. -/
theorem C13_undecryptable_no_effect (A : Aead) (crcOk : Bytes → Bytes → Bool) (c : RxCfg) (buf b1 carried l : Bytes)
    (w : String)
    (hr : removeLabel buf = .ok (b1, carried)) (hg : labelGate c.label c.skipInbound carried = some l)
    (hk : c.keys.isEmpty = false) (hv : c.verifyIncoming = true)
    (hd : decryptPayload A c.keys b1 l = .error (.drop w)) :
    ingestPacket A crcOk c buf = .error (.drop w) := by
  simp [ingestPacket, hr, hg, decLayer, hk, hv, hd]

/-- fact theorem: the documented resource caps, as compiled -/
theorem C13_caps :
    Gen.c_maxPushStateBytes = 20 * 1024 * 1024 ∧ Gen.c_maxPushStateNodes = 1024 * 1024 ∧
    Gen.c_maxUserMsgBytes = 20 * 1024 * 1024 ∧ Gen.c_maxPushPullRequests = 128 ∧
    Gen.c_maxDecompressedBytes = 2 * Gen.c_maxPushStateBytes := by decide

end Swim.Ingest
