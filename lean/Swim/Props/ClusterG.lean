import Swim.Props.Cluster
import Swim.Props.C08
/-!
# Cluster-level invariant for arbitrary histories (C02, C05, C08 at cluster level)
No health hypothesis: probes may fail, suspicions start, time out and are refuted. What stays true:
nobody ever holds or sends a claim about `x` with an incarnation above the one `x` itself has
reached, every address on record for `x` is `x`'s own, alive claims carry what `x` said at that
incarnation, and "left" is only ever recorded for members that called Leave.
-/
namespace Swim.Cluster
open Swim.Merge

/-! ## Node-level summaries without health hypotheses -/

def NoSelfTimer (n : Node) : Prop := ∀ t ∈ n.timers, t.node ≠ n.cfg.self

theorem refuteInc_eq (cur acc : Nat) (h : acc ≤ cur) (hb : cur + 1 < u32) : refuteInc cur acc = cur + 1 := by
  unfold refuteInc
  have : (cur + 1) % u32 = cur + 1 := Nat.mod_eq_of_lt hb
  simp only [this]
  have : ¬ acc ≥ cur + 1 := by omega
  simp [this]

/-- a refutation of an accusation not above the node's counter: next incarnation, own record updated,
one alive claim built from the updated record -/
theorem refute_sum (n : Node) (me : Rec) (acc : Nat) (hacc : acc ≤ n.selfInc) (hb : n.selfInc + 1 < u32) :
    (refute n me acc).1.selfInc = n.selfInc + 1 ∧ (refute n me acc).1.cfg = n.cfg ∧
    (refute n me acc).1.hasLeft = n.hasLeft ∧ (refute n me acc).1.timers = n.timers ∧
    (refute n me acc).1.recs = setRec n.recs { me with inc := n.selfInc + 1 } ∧
    (refute n me acc).2 = [Out.bcast ("@" ++ me.name) .alive me.name (n.selfInc + 1) "" false] := by
  simp [refute, refuteInc_eq n.selfInc acc hacc hb]

theorem emit_refute (n' : Node) (src : Option AliveMsg) (name : String) (inc : Nat) (R : Rec)
    (h : lookup n'.recs name = some R) :
    emit n' src (Out.bcast ("@" ++ name) .alive name inc "" false) = [.alive (aliveOfRec R)] := by
  simp [emit, at_ne, h]

def suspRec (state : Rec) (inc now : Nat) : Rec := { state with inc := inc, st := .suspect, changed := some now }

/-- **suspectNode, any state.** Either nothing but (possibly) a re-gossip of the same suspicion
happens, or the node refutes (claim about itself), or a new suspicion of another member is recorded. -/
theorem suspect_sum (n : Node) (s : Claim) (env : Env) (hst : NoSelfTimer n) :
    ((suspectNode n s env).1.recs = n.recs ∧ (suspectNode n s env).1.selfInc = n.selfInc ∧
      (suspectNode n s env).1.hasLeft = n.hasLeft ∧ (suspectNode n s env).1.cfg = n.cfg ∧
      NoSelfTimer (suspectNode n s env).1 ∧
      (∀ o ∈ (suspectNode n s env).2, ∀ src, ∀ m ∈ emit (suspectNode n s env).1 src o, m = .suspect s)) ∨
    (s.node = n.cfg.self ∧ ∃ me, lookup n.recs n.cfg.self = some me ∧ me.st = .alive ∧ me.inc ≤ s.inc ∧
      suspectNode n s env = refute n me s.inc) ∨
    (s.node ≠ n.cfg.self ∧ ∃ state, lookup n.recs s.node = some state ∧ state.st = .alive ∧ state.inc ≤ s.inc ∧
      (suspectNode n s env).1.recs = setRec n.recs (suspRec state s.inc env.now) ∧
      (suspectNode n s env).1.selfInc = n.selfInc ∧ (suspectNode n s env).1.hasLeft = n.hasLeft ∧
      (suspectNode n s env).1.cfg = n.cfg ∧ NoSelfTimer (suspectNode n s env).1 ∧
      (∀ o ∈ (suspectNode n s env).2, ∀ src, ∀ m ∈ emit (suspectNode n s env).1 src o, m = .suspect s)) := by
  unfold suspectNode
  cases hl : lookup n.recs s.node with
  | none => left; simp [hst]
  | some state =>
    have hn := lookup_name hl
    simp only
    by_cases h1 : s.inc < state.inc
    · left; simp [h1, hst]
    · simp only [h1, ↓reduceIte]
      cases ht : n.timers.find? (·.node == s.node) with
      | some t =>
        simp only
        left
        cases hc : (t.confirm s.frm).2
        · simp [hst]
        · simp only [↓reduceIte, true_and]
          refine ⟨?_, ?_⟩
          · intro t' ht'
            simp only [List.mem_map] at ht'
            obtain ⟨t0, ht0, rfl⟩ := ht'
            by_cases e : (t0.node == s.node) = true
            · simp only [e, ↓reduceIte]
              have : (t.confirm s.frm).1.node = t.node := by
                unfold Timer.confirm; split
                · rfl
                · split <;> rfl
              rw [this]
              have htm := List.mem_of_find?_eq_some ht
              exact hst t htm
            · simp only [e, Bool.false_eq_true, ↓reduceIte]; exact hst t0 ht0
          · intro o ho src m hm
            simp only [List.mem_singleton] at ho
            subst ho
            simpa [emit] using hm
      | none =>
        simp only
        by_cases h2 : (state.st != .alive) = true
        · left; simp [h2, hst]
        · simp only [h2, Bool.false_eq_true, ↓reduceIte]
          have hal : state.st = .alive := by simpa using h2
          by_cases h3 : (state.name == n.cfg.self) = true
          · right; left
            simp only [h3, ↓reduceIte]
            have e : state.name = n.cfg.self := by simpa using h3
            refine ⟨by rw [← hn, e], state, by rw [← e, hn]; exact hl, hal, by omega, rfl⟩
          · right; right
            simp only [h3, Bool.false_eq_true, ↓reduceIte]
            have e : s.node ≠ n.cfg.self := by
              intro e'; rw [← hn] at e'; simp [e'] at h3
            refine ⟨e, state, rfl, hal, by omega, rfl, by first | rfl | trivial, by first | rfl | trivial, by first | rfl | trivial, ?_, ?_⟩
            · intro t' ht'
              simp only [List.mem_append, List.mem_singleton] at ht'
              rcases ht' with h | rfl
              · exact hst t' h
              · exact e
            · intro o ho src m hm
              simp only [List.mem_cons, List.not_mem_nil, or_false] at ho
              rcases ho with rfl | rfl
              · simpa [emit] using hm
              · simp [emit] at hm

def goneRec (state : Rec) (d : Claim) (now : Nat) : Rec :=
  { state with inc := d.inc, st := if d.node == d.frm then .left else .dead, changed := some now }

theorem noSelfTimer_del (n : Node) (name : String) (h : NoSelfTimer n) :
    ∀ t ∈ delTimer n.timers name, t.node ≠ n.cfg.self := by
  intro t ht
  simp only [delTimer, List.mem_filter] at ht
  exact h t ht.1

/-- **deadNode, any state.** Nothing (but a dropped timer); or the node, still running, refutes a claim
about itself; or the member is recorded as dead - as left when the claim is self-signed. -/
theorem dead_sum (n : Node) (d : Claim) (env : Env) (hst : NoSelfTimer n) :
    ((deadNode n d env).1.recs = n.recs ∧ (deadNode n d env).1.selfInc = n.selfInc ∧
      (deadNode n d env).1.hasLeft = n.hasLeft ∧ NoSelfTimer (deadNode n d env).1 ∧ (deadNode n d env).2 = []) ∨
    (d.node = n.cfg.self ∧ n.hasLeft = false ∧ ∃ me, lookup n.recs n.cfg.self = some me ∧ me.st.deadOrLeft = false ∧
      me.inc ≤ d.inc ∧ deadNode n d env = refute { n with timers := delTimer n.timers d.node } me d.inc) ∨
    (∃ state, lookup n.recs d.node = some state ∧ state.st.deadOrLeft = false ∧ state.inc ≤ d.inc ∧
      (d.node = n.cfg.self → n.hasLeft = true) ∧
      (deadNode n d env).1.recs = setRec n.recs (goneRec state d env.now) ∧
      (deadNode n d env).1.selfInc = n.selfInc ∧ (deadNode n d env).1.hasLeft = n.hasLeft ∧
      NoSelfTimer (deadNode n d env).1 ∧
      (∀ o ∈ (deadNode n d env).2, ∀ src, ∀ m ∈ emit (deadNode n d env).1 src o, m = .dead d) ∧
      (∀ o ∈ (deadNode n d env).2, ∀ nm, o = Out.leave nm → nm = d.node)) := by
  unfold deadNode
  cases hl : lookup n.recs d.node with
  | none => left; simp [hst]
  | some state =>
    have hn := lookup_name hl
    simp only
    by_cases h1 : d.inc < state.inc
    · left; simp [h1, hst]
    · simp only [h1, ↓reduceIte]
      by_cases h2 : state.st.deadOrLeft = true
      · left
        simp only [h2, ↓reduceIte, and_true, true_and]
        exact noSelfTimer_del n d.node hst
      · simp only [h2, Bool.false_eq_true, ↓reduceIte]
        have h2' : state.st.deadOrLeft = false := by simpa using h2
        by_cases h3 : (state.name == n.cfg.self && !n.hasLeft) = true
        · right; left
          simp only [h3, ↓reduceIte]
          simp only [Bool.and_eq_true, beq_iff_eq, Bool.not_eq_eq_eq_not, Bool.not_true] at h3
          refine ⟨by rw [← hn]; exact h3.1, h3.2, state, by rw [← h3.1, hn]; exact hl, h2', by omega, rfl⟩
        · right; right
          simp only [h3, Bool.false_eq_true, ↓reduceIte]
          refine ⟨state, rfl, h2', by omega, ?_, rfl, by first | rfl | trivial, by first | rfl | trivial, ?_, ?_, ?_⟩
          · intro e
            rw [← hn] at e
            simp only [e, beq_self_eq_true, Bool.true_and, Bool.not_eq_eq_eq_not, Bool.not_true] at h3
            simpa using h3
          · exact noSelfTimer_del n d.node hst
          · intro o ho src m hm
            simp only [List.mem_cons, List.not_mem_nil, or_false] at ho
            rcases ho with rfl | rfl
            · simpa [emit] using hm
            · simp [emit] at hm
          · intro o ho nm hnm
            simp only [List.mem_cons, List.not_mem_nil, or_false] at ho
            rcases ho with rfl | rfl
            · cases hnm
            · cases hnm; rfl

theorem noSelfTimer_of_sub {n n' : Node} (hc : n'.cfg = n.cfg) (h : NoSelfTimer n)
    (hs : ∀ t ∈ n'.timers, t ∈ n.timers) : NoSelfTimer n' := by
  intro t ht; rw [hc]; exact h t (hs t ht)

theorem mem_delTimer {ts : List Timer} {name : String} {t : Timer} (h : t ∈ delTimer ts name) : t ∈ ts := by
  simp only [delTimer, List.mem_filter] at h; exact h.1

/-- **aliveNode about another member, any state** (claim with a positive incarnation and six version bytes). -/
theorem alive_other_sum (n : Node) (a : AliveMsg) (nt : Bool) (env : Env)
    (hself : a.node ≠ n.cfg.self) (hinc : 0 < a.inc) (hv : a.vsn.length = 6) (hst : NoSelfTimer n) :
    (aliveNode n a nt false env).1.selfInc = n.selfInc ∧
    (aliveNode n a nt false env).1.hasLeft = n.hasLeft ∧
    lookup (aliveNode n a nt false env).1.recs n.cfg.self = lookup n.recs n.cfg.self ∧
    NoSelfTimer (aliveNode n a nt false env).1 ∧
    (∀ x ∈ (aliveNode n a nt false env).1.recs, x ∈ n.recs ∨ (x.st = .alive ∧ aliveOfRec x = a)) ∧
    (∀ o ∈ (aliveNode n a nt false env).2, ∀ m ∈ emit (aliveNode n a nt false env).1 (some a) o, m = .alive a) ∧
    (∀ o ∈ (aliveNode n a nt false env).2, ∀ nm, o ≠ Out.leave nm) := by
  have spec := aliveDecide_nonlocal n a false env hself
  have hcfg := alive_cfg n a nt false env
  unfold aliveNode at hcfg ⊢
  generalize aliveDecide n a false env = dec at spec hcfg
  have houts : ∀ (st : Rec), ∀ o ∈ ([Out.bcast a.node .alive a.node a.inc "" nt] ++
      (if st.st.deadOrLeft = true then [Out.join a.node a.addr a.port a.md]
       else if (st.md != a.md) = true then [Out.update a.node a.md] else [])),
      (∀ n' : Node, ∀ m ∈ emit n' (some a) o, m = .alive a) ∧ ∀ nm, o ≠ Out.leave nm := by
    intro st o ho
    simp only [List.mem_append, List.mem_singleton] at ho
    rcases ho with rfl | ho
    · exact ⟨by intro n' m hm; simpa [emit] using hm, by simp⟩
    · split at ho
      · simp at ho; subst ho; exact ⟨by simp [emit], by simp⟩
      · split at ho <;> simp at ho
        subst ho; exact ⟨by simp [emit], by simp⟩
  cases dec with
  | ignore => simp only [aliveApply, true_and]; exact ⟨hst, fun x hx => Or.inl hx, by simp, by simp⟩
  | conflict =>
    simp only [aliveApply, true_and]
    refine ⟨hst, fun x hx => Or.inl hx, ?_, ?_⟩
    · intro o ho m hm
      split at ho <;> simp at ho
      subst ho; simp [emit] at hm
    · intro o ho nm
      split at ho <;> simp at ho
      subst ho; simp
  | stubOnly => simp only at spec; omega
  | delTimerOnly isNew => exact absurd spec (by simp)
  | refuteSelf isNew => exact absurd spec (by simp)
  | accept isNew =>
    have hne : n.cfg.self ≠ a.node := fun e => hself e.symm
    cases isNew with
    | false =>
      simp only at spec
      obtain ⟨r, hr, _⟩ := spec
      have hrn := lookup_name hr
      simp only [aliveApply, Bool.false_eq_true, ↓reduceIte, hr, Option.getD_some, true_and] at hcfg ⊢
      have hRn : (acceptRec r a env).name = a.node := by simp [acceptRec, hrn]
      refine ⟨?_, ?_, ?_, ?_, ?_⟩
      · exact lookup_setRec_ne _ _ _ (by rw [hRn]; exact hne)
      · exact noSelfTimer_of_sub (n := n) rfl hst (fun t ht => mem_delTimer ht)
      · intro x hx
        rcases mem_setRec hx with h1 | rfl
        · exact Or.inl h1
        · right
          refine ⟨rfl, ?_⟩
          simp [aliveOfRec, acceptRec, hrn, hv, take6 hv]
      · intro o ho m hm; exact (houts r o ho).1 _ m hm
      · intro o ho; exact (houts r o ho).2
    | true =>
      simp only at spec
      obtain ⟨hnone, _, _⟩ := spec
      have hst' : lookup (withStub n a).recs a.node = some (stub a) := by
        simp only [withStub]
        exact lookup_append_stub_self _ (stub a) hnone
      simp only [aliveApply, ↓reduceIte, hst', Option.getD_some]
      have hrecs : setRec (withStub n a).recs (acceptRec (stub a) a env) = n.recs ++ [acceptRec (stub a) a env] := by
        simp only [withStub]
        exact setRec_append_stub (by simp [acceptRec]) (by simpa [acceptRec, stub] using hnone)
      refine ⟨rfl, rfl, ?_, ?_, ?_, ?_, ?_⟩
      · simp only [hrecs]
        exact lookup_append_stub_ne _ _ _ (by simpa [acceptRec, stub] using hne)
      · exact noSelfTimer_of_sub (n := n) rfl hst (fun t ht => mem_delTimer ht)
      · intro x hx
        simp only [hrecs, List.mem_append, List.mem_singleton] at hx
        rcases hx with h1 | rfl
        · exact Or.inl h1
        · right
          refine ⟨rfl, ?_⟩
          simp [aliveOfRec, acceptRec, stub, hv, take6 hv]
      · intro o ho m hm; exact (houts (stub a) o ho).1 _ m hm
      · intro o ho; exact (houts (stub a) o ho).2

/-- **aliveNode about the receiver itself, not newer than its own record, any state.** -/
theorem alive_self_sum (n : Node) (a : AliveMsg) (nt : Bool) (env : Env) (me : Rec)
    (hs : a.node = n.cfg.self) (hme : lookup n.recs n.cfg.self = some me)
    (hle : a.inc ≤ me.inc) (heq : a.inc = me.inc → a.md = me.md ∧ a.vsn = me.vsn) (hst : NoSelfTimer n) :
    (aliveNode n a nt false env).1.recs = n.recs ∧ (aliveNode n a nt false env).1.selfInc = n.selfInc ∧
    (aliveNode n a nt false env).1.hasLeft = n.hasLeft ∧ NoSelfTimer (aliveNode n a nt false env).1 ∧
    (∀ o ∈ (aliveNode n a nt false env).2, ∀ src, emit (aliveNode n a nt false env).1 src o = []) ∧
    (∀ o ∈ (aliveNode n a nt false env).2, ∀ nm, o ≠ Out.leave nm) := by
  have hdec : aliveDecide n a false env = .ignore ∨ aliveDecide n a false env = .conflict ∨
      aliveDecide n a false env = .delTimerOnly false := by
    unfold aliveDecide
    rw [hs, hme]
    simp only
    split
    · exact Or.inl rfl
    · split
      · exact Or.inl rfl
      · split
        · exact Or.inl rfl
        · split
          · split
            · exact Or.inl rfl
            · split
              · rcases decideKnown_self_benign n a me true hs hle heq with e | e
                · exact Or.inl e
                · exact Or.inr (Or.inr e)
              · exact Or.inr (Or.inl rfl)
          · rcases decideKnown_self_benign n a me false hs hle heq with e | e
            · exact Or.inl e
            · exact Or.inr (Or.inr e)
  unfold aliveNode
  rcases hdec with e | e | e <;> rw [e]
  · simp [aliveApply, hst]
  · simp only [aliveApply, true_and]
    refine ⟨hst, ?_, ?_⟩
    · intro o ho src
      split at ho <;> simp at ho
      subst ho; rfl
    · intro o ho nm
      split at ho <;> simp at ho
      subst ho; simp
  · simp only [aliveApply, Bool.false_eq_true, ↓reduceIte, List.not_mem_nil, false_imp_iff, implies_true, and_true,
      true_and]
    exact noSelfTimer_of_sub (n := n) rfl hst (fun t ht => mem_delTimer ht)

/-! ## The general invariant -/

/-- `x` itself has reached incarnation `i` -/
def Known (w : World) (x : String) (i : Nat) : Prop :=
  ∃ X ∈ w.nodes, X.cfg.self = x ∧ ∃ me, selfRec X = some me ∧ i ≤ me.inc

/-- ... and `addr:port` is `x`'s own address -/
def KnownAt (w : World) (x : String) (i addr port : Nat) : Prop :=
  ∃ X ∈ w.nodes, X.cfg.self = x ∧ ∃ me, selfRec X = some me ∧ i ≤ me.inc ∧ me.addr = addr ∧ me.port = port

def GoodAliveG (w : World) (a : AliveMsg) : Prop := GoodAlive w a ∧ KnownAt w a.node a.inc a.addr a.port

def RecG (w : World) (r : Rec) : Prop :=
  (r.st = .alive → GoodAliveG w (aliveOfRec r)) ∧ KnownAt w r.name r.inc r.addr r.port ∧
  (r.st = .left → Departed w r.name r.inc)

def GBenign (w : World) : Msg → Prop
  | .alive a => GoodAliveG w a
  | .suspect c => Known w c.node c.inc
  | .dead c => Known w c.node c.inc ∧ (c.frm = c.node → Departed w c.node c.inc)
  | .state s => KnownAt w s.name s.inc s.addr s.port ∧ (s.st = .alive → GoodAliveG w (aliveOfState s)) ∧
      (s.st = .left → Departed w s.name s.inc)

def SelfFactsG (n : Node) : Prop :=
  ∀ me, selfRec n = some me → me.inc ≤ n.selfInc ∧ 0 < me.inc ∧ me.vsn.length = 6 ∧
    (me.st = .alive ∨ n.hasLeft = true) ∧ me.st ≠ .suspect ∧ (n.hasLeft = true → me.st ≠ .alive)

def NodeG (w : World) (k : Nat) (n : Node) : Prop :=
  Uniq n ∧ n.selfInc ≤ k ∧ SelfFactsG n ∧ NoSelfTimer n ∧ (∀ r ∈ n.recs, r.name ≠ n.cfg.self → RecG w r)

def GInv (w : World) (k : Nat) : Prop :=
  (w.nodes.map (·.cfg.self)).Nodup ∧ (∀ n ∈ w.nodes, NodeG w k n) ∧ (∀ m ∈ w.pool, GBenign w m)

/-- own record moves forward and keeps its address -/
def OwnerMonoG (n n' : Node) : Prop :=
  OwnerMono n n' ∧ ∀ me, selfRec n = some me → ∃ me', selfRec n' = some me' ∧ me'.addr = me.addr ∧ me'.port = me.port

def ExtG (w w' : World) : Prop := ∀ n ∈ w.nodes, ∃ n' ∈ w'.nodes, OwnerMonoG n n'

theorem OwnerMonoG.refl (n : Node) : OwnerMonoG n n := ⟨OwnerMono.refl n, fun me h => ⟨me, h, rfl, rfl⟩⟩

theorem ExtG.toExt {w w' : World} (h : ExtG w w') : Ext w w' := by
  intro n hn
  obtain ⟨n', hn', hm, _⟩ := h n hn
  exact ⟨n', hn', hm⟩

theorem Known.ext {w w' : World} (h : ExtG w w') {x : String} {i : Nat} (hk : Known w x i) : Known w' x i := by
  obtain ⟨X, hX, hname, me, hme, hle⟩ := hk
  obtain ⟨X', hX', ⟨hcfg, _, hm⟩, _⟩ := h X hX
  obtain ⟨me', hme', h1, _⟩ := hm me hme
  exact ⟨X', hX', by rw [hcfg]; exact hname, me', hme', by omega⟩

theorem KnownAt.ext {w w' : World} (h : ExtG w w') {x : String} {i a p : Nat} (hk : KnownAt w x i a p) :
    KnownAt w' x i a p := by
  obtain ⟨X, hX, hname, me, hme, hle, ha, hp⟩ := hk
  obtain ⟨X', hX', ⟨hcfg, _, hm⟩, hadr⟩ := h X hX
  obtain ⟨me', hme', h1, _⟩ := hm me hme
  obtain ⟨me2, hme2, a2, p2⟩ := hadr me hme
  rw [hme'] at hme2; cases hme2
  exact ⟨X', hX', by rw [hcfg]; exact hname, me', hme', by omega, by rw [a2]; exact ha, by rw [p2]; exact hp⟩

theorem KnownAt.known {w : World} {x : String} {i a p : Nat} (hk : KnownAt w x i a p) : Known w x i := by
  obtain ⟨X, hX, hname, me, hme, hle, _, _⟩ := hk
  exact ⟨X, hX, hname, me, hme, hle⟩

theorem GoodAliveG.ext {w w' : World} (h : ExtG w w') {a : AliveMsg} (hg : GoodAliveG w a) : GoodAliveG w' a :=
  ⟨hg.1.ext h.toExt, hg.2.ext h⟩

theorem RecG.ext {w w' : World} (h : ExtG w w') {r : Rec} (hg : RecG w r) : RecG w' r :=
  ⟨fun e => (hg.1 e).ext h, hg.2.1.ext h, fun e => (hg.2.2 e).ext h.toExt⟩

theorem GBenign.ext {w w' : World} (h : ExtG w w') {m : Msg} (hb : GBenign w m) : GBenign w' m := by
  cases m with
  | alive a => exact GoodAliveG.ext h hb
  | suspect c => exact Known.ext h hb
  | dead c => exact ⟨hb.1.ext h, fun e => (hb.2 e).ext h.toExt⟩
  | state s => exact ⟨hb.1.ext h, fun e => (hb.2.1 e).ext h, fun e => (hb.2.2 e).ext h.toExt⟩

/-- same claim as far as the general invariant is concerned: name, incarnation, address, state, content -/
def SameG (y0 y : Rec) : Prop := aliveOfRec y0 = aliveOfRec y ∧ y0.st = y.st

theorem RecG.same {w : World} {y0 y : Rec} (hs : SameG y0 y) (hg : RecG w y0) : RecG w y := by
  obtain ⟨e1, e2⟩ := hs
  have en : y0.name = y.name := congrArg AliveMsg.node e1
  have ei : y0.inc = y.inc := congrArg AliveMsg.inc e1
  have ea : y0.addr = y.addr := congrArg AliveMsg.addr e1
  have ep : y0.port = y.port := congrArg AliveMsg.port e1
  refine ⟨?_, ?_, ?_⟩
  · intro h; rw [← e1]; exact hg.1 (by rw [e2]; exact h)
  · rw [← en, ← ei, ← ea, ← ep]; exact hg.2.1
  · intro h; rw [← en, ← ei]; exact hg.2.2 (by rw [e2]; exact h)

theorem NodeG.ext {w w' : World} {k k' : Nat} (h : ExtG w w') (hk : k ≤ k') {n : Node} (ho : NodeG w k n) :
    NodeG w' k' n := by
  obtain ⟨a, b, c, d, e⟩ := ho
  exact ⟨a, by omega, c, d, fun r hr hne => (e r hr hne).ext h⟩

/-- **one node acts (general).** -/
theorem act_ginv (w : World) (k : Nat) (x : String) (f : Node → Node × List Out) (src : Option AliveMsg) (n : Node)
    (hinv : GInv w k) (hfind : w.nodes.find? (·.cfg.self == x) = some n)
    (h1 : OwnerMonoG n (f n).1)
    (h2 : Uniq (f n).1 ∧ (f n).1.selfInc ≤ k + 1 ∧ SelfFactsG (f n).1 ∧ NoSelfTimer (f n).1)
    (h3 : ∀ w', ExtG w w' → (f n).1 ∈ w'.nodes → ∀ y ∈ (f n).1.recs, y.name ≠ x →
        (∃ y0 ∈ n.recs, SameG y0 y) ∨ RecG w' y)
    (h4 : ∀ w', ExtG w w' → (f n).1 ∈ w'.nodes → ∀ o ∈ (f n).2, ∀ m ∈ emit (f n).1 src o, GBenign w' m) :
    GInv (act w x f src) (k + 1) := by
  obtain ⟨hnd, hnodes, hpool⟩ := hinv
  obtain ⟨hmem, hname⟩ := find_actor hfind
  unfold act
  rw [hfind]
  simp only
  generalize hw' : World.mk _ _ _ = w'
  have hnodes' : w'.nodes = w.nodes.map (fun k => if (k.cfg.self == x) = true then (f n).1 else k) := by rw [← hw']
  have hpool' : w'.pool = w.pool ++ (f n).2.flatMap (emit (f n).1 src) := by rw [← hw']
  have hcfg : (f n).1.cfg = n.cfg := h1.1.1
  have hext : ExtG w w' := by
    intro k0 hk0
    refine ⟨if (k0.cfg.self == x) = true then (f n).1 else k0, ?_, ?_⟩
    · rw [hnodes']; exact List.mem_map.mpr ⟨k0, hk0, rfl⟩
    · by_cases e : (k0.cfg.self == x) = true
      · have : k0 = n := name_unique hnd hk0 hmem (by rw [hname]; simpa using e)
        simp only [e, ↓reduceIte]; rw [this]; exact h1
      · simp only [e, Bool.false_eq_true, ↓reduceIte]; exact OwnerMonoG.refl k0
  have hin : (f n).1 ∈ w'.nodes := by
    rw [hnodes']
    refine List.mem_map.mpr ⟨n, hmem, ?_⟩
    simp [hname]
  refine ⟨?_, ?_, ?_⟩
  · rw [hnodes', List.map_map]
    have : (fun k : Node => k.cfg.self) ∘ (fun k => if (k.cfg.self == x) = true then (f n).1 else k) = fun k : Node => k.cfg.self := by
      funext k0
      simp only [Function.comp]
      by_cases e : (k0.cfg.self == x) = true
      · simp only [e, ↓reduceIte]
        rw [hcfg, hname]; exact (by simpa using e : k0.cfg.self = x).symm
      · simp only [e, Bool.false_eq_true, ↓reduceIte]
    rw [this]; exact hnd
  · intro n' hn'
    rw [hnodes'] at hn'
    obtain ⟨k0, hk0, rfl⟩ := List.mem_map.mp hn'
    by_cases e : (k0.cfg.self == x) = true
    · simp only [e, ↓reduceIte]
      obtain ⟨a, b, c, d⟩ := h2
      refine ⟨a, b, c, d, ?_⟩
      intro y hy hne
      have hne' : y.name ≠ x := by rw [hcfg, hname] at hne; exact hne
      rcases h3 w' hext hin y hy hne' with ⟨y0, hy0, hs⟩ | g
      · have hn0 : y0.name ≠ n.cfg.self := by
          have : y0.name = y.name := congrArg AliveMsg.node hs.1
          rw [this, hname]; exact hne'
        exact RecG.same hs (((hnodes n hmem).2.2.2.2 y0 hy0 hn0).ext hext)
      · exact g
    · simp only [e, Bool.false_eq_true, ↓reduceIte]
      exact (hnodes k0 hk0).ext hext (by omega)
  · intro m hm
    rw [hpool'] at hm
    rcases List.mem_append.mp hm with h | h
    · exact (hpool m h).ext hext
    · obtain ⟨o, ho, hmo⟩ := List.mem_flatMap.mp h
      exact h4 w' hext hin o ho m hmo

theorem KnownAt.combine {w : World} (hnd : (w.nodes.map (·.cfg.self)).Nodup) {x : String} {i j a p : Nat}
    (h1 : Known w x i) (h2 : KnownAt w x j a p) : KnownAt w x i a p := by
  obtain ⟨X, hX, hn, me, hme, hle⟩ := h1
  obtain ⟨X2, hX2, hn2, me2, hme2, _, ha, hp⟩ := h2
  have : X2 = X := name_unique hnd hX2 hX (by rw [hn, hn2])
  subst this
  rw [hme] at hme2; cases hme2
  exact ⟨X2, hX, hn, me, hme, hle, ha, hp⟩

/-- what the general invariant says about the acting node, unpacked -/
theorem actor_facts {w : World} {k : Nat} {x : String} {n : Node} (hinv : GInv w k)
    (hfind : w.nodes.find? (·.cfg.self == x) = some n) :
    n ∈ w.nodes ∧ n.cfg.self = x ∧ NodeG w k n := by
  obtain ⟨hmem, hname⟩ := find_actor hfind
  exact ⟨hmem, hname, hinv.2.1 n hmem⟩

/-- a claim about the acting node itself is bounded by its own record -/
theorem known_self {w : World} {k : Nat} {n : Node} (hinv : GInv w k) (hmem : n ∈ w.nodes) {i : Nat}
    (h : Known w n.cfg.self i) : ∃ me, selfRec n = some me ∧ i ≤ me.inc := by
  obtain ⟨X, hX, hn, me, hme, hle⟩ := h
  have : X = n := name_unique hinv.1 hX hmem hn
  subst this
  exact ⟨me, hme, hle⟩

/-- the acting node's step is a refutation of an accusation not above its own record -/
theorem grefute_like (w : World) (k : Nat) (x : String) (f : Node → Node × List Out) (src : Option AliveMsg)
    (n n1 : Node) (me : Rec) (acc : Nat)
    (hinv : GInv w k) (hfind : w.nodes.find? (·.cfg.self == x) = some n) (hk : k + 1 < u32)
    (hf : f n = refute n1 me acc)
    (hb1 : n1.cfg = n.cfg ∧ n1.recs = n.recs ∧ n1.selfInc = n.selfInc ∧ n1.hasLeft = n.hasLeft ∧
      (∀ t ∈ n1.timers, t ∈ n.timers))
    (hme : selfRec n = some me) (hal : me.st = .alive) (hacc : acc ≤ me.inc) :
    GInv (act w x f src) (k + 1) := by
  obtain ⟨hmem, hname, hu, hsi, hsf, hst, hrg⟩ := actor_facts hinv hfind
  obtain ⟨f1, f2, f3, f4, f5, f6⟩ := hsf me hme
  obtain ⟨b1, b2, b3, b4, b5⟩ := hb1
  have hmn : me.name = n.cfg.self := lookup_name hme
  obtain ⟨r1, r2, r3, r4, r5, r6⟩ := refute_sum n1 me acc (by rw [b3]; omega) (by rw [b3]; omega)
  have hR : selfRec (f n).1 = some { me with inc := n.selfInc + 1 } := by
    unfold selfRec
    rw [hf, r2, r5, b1, b2, b3]
    have := lookup_setRec_self n.recs { me with inc := n.selfInc + 1 } (by simp only [hmn]; unfold selfRec at hme; rw [hme]; rfl)
    simpa [hmn] using this
  apply act_ginv w k x f src n hinv hfind
  · refine ⟨⟨by rw [hf, r2, b1], by rw [hf, r3, b4]; exact id, ?_⟩, ?_⟩
    · intro me0 hme0
      rw [hme] at hme0; cases hme0
      exact ⟨_, hR, by simp only; omega, fun h => by simp only at h; omega⟩
    · intro me0 hme0
      rw [hme] at hme0; cases hme0
      exact ⟨_, hR, rfl, rfl⟩
  · refine ⟨?_, by rw [hf, r1, b3]; omega, ?_, ?_⟩
    · rw [hf]
      have : Uniq n1 := by simp only [Uniq, b2]; exact hu
      exact refute_uniq n1 me acc this (by rw [b2, hmn]; unfold selfRec at hme; rw [hme]; rfl)
    · intro me0 hme0
      rw [hR] at hme0; cases hme0
      refine ⟨by rw [hf, r1, b3]; exact Nat.le_refl _, Nat.succ_pos _, f3, Or.inl hal, by rw [hal]; simp, ?_⟩
      intro hl
      rw [hf, r3, b4] at hl
      exact absurd hal (f6 hl)
    · intro t ht
      rw [hf, r4] at ht
      rw [hf, r2, b1]
      exact hst t (b5 t ht)
  · intro w' _ _ y hy hne
    rw [hf, r5, b2] at hy
    rcases mem_setRec hy with h | rfl
    · exact Or.inl ⟨y, h, rfl, rfl⟩
    · exact absurd (by simp only [hmn, hname]) hne
  · intro w' hext hin o ho m hm
    rw [hf, r6] at ho
    simp only [List.mem_singleton] at ho
    subst ho
    have hl : lookup (f n).1.recs me.name = some { me with inc := n.selfInc + 1 } := by
      have := hR; unfold selfRec at this; rw [hf, r2, b1, ← hmn] at this; rw [hf]; exact this
    rw [emit_refute (f n).1 src me.name _ _ hl] at hm
    simp only [List.mem_singleton] at hm
    subst hm
    have hcfg : (f n).1.cfg.self = me.name := by rw [hf, r2, b1, hmn]
    refine ⟨⟨by simp [aliveOfRec], by simpa [aliveOfRec] using f3, (f n).1, hin, hcfg, _, hR, Nat.le_refl _, fun _ => ⟨rfl, rfl⟩⟩,
      (f n).1, hin, hcfg, _, hR, Nat.le_refl _, rfl, rfl⟩

/-- the acting node's step leaves its own record, counter and flags alone; every record it holds
afterwards was held before or satisfies `P`, and `P`-records and emitted claims are covered -/
theorem gother_like (w : World) (k : Nat) (x : String) (f : Node → Node × List Out) (src : Option AliveMsg)
    (n : Node) (P : Rec → Prop)
    (hinv : GInv w k) (hfind : w.nodes.find? (·.cfg.self == x) = some n)
    (hcfg : (f n).1.cfg = n.cfg) (hi : (f n).1.selfInc = n.selfInc) (hl : (f n).1.hasLeft = n.hasLeft)
    (hU : Uniq (f n).1) (hT : NoSelfTimer (f n).1)
    (hself : lookup (f n).1.recs n.cfg.self = lookup n.recs n.cfg.self)
    (hrecs : ∀ y ∈ (f n).1.recs, y ∈ n.recs ∨ P y)
    (hP : ∀ w', ExtG w w' → ∀ y, P y → y.name ≠ x → RecG w' y)
    (h4 : ∀ w', ExtG w w' → (f n).1 ∈ w'.nodes → ∀ o ∈ (f n).2, ∀ m ∈ emit (f n).1 src o, GBenign w' m) :
    GInv (act w x f src) (k + 1) := by
  obtain ⟨hmem, hname, hu, hsi, hsf, hst, hrg⟩ := actor_facts hinv hfind
  have hsr : selfRec (f n).1 = selfRec n := selfRec_congr hcfg hself
  apply act_ginv w k x f src n hinv hfind
  · refine ⟨⟨hcfg, by rw [hl]; exact id, ?_⟩, ?_⟩
    · intro me hme
      exact ⟨me, by rw [hsr]; exact hme, Nat.le_refl _, fun _ => ⟨rfl, rfl⟩⟩
    · intro me hme
      exact ⟨me, by rw [hsr]; exact hme, rfl, rfl⟩
  · refine ⟨hU, by rw [hi]; omega, ?_, hT⟩
    intro me hme
    rw [hsr] at hme
    have := hsf me hme
    rw [hi, hl]; exact this
  · intro w' hext _ y hy hne
    rcases hrecs y hy with h | h
    · exact Or.inl ⟨y, h, rfl, rfl⟩
    · exact Or.inr (hP w' hext y h hne)
  · exact h4

/-- **an alive claim reaches a node (general).** -/
theorem galive_step (w : World) (k : Nat) (x : String) (a : AliveMsg) (env : Env) (n : Node)
    (hinv : GInv w k) (hfind : w.nodes.find? (·.cfg.self == x) = some n) (hg : GoodAliveG w a) :
    GInv (act w x (fun n => aliveNode n a false false env) (some a)) (k + 1) := by
  obtain ⟨hmem, hname, hu, hsi, hsf, hst, hrg⟩ := actor_facts hinv hfind
  have hcfg := alive_cfg n a false false env
  have hU := alive_uniq n a false false env hu
  by_cases hs : a.node = n.cfg.self
  · obtain ⟨⟨_, _, n0, hn0, hn0n, me, hme, hle, heq⟩, _⟩ := hg
    have : n0 = n := name_unique hinv.1 hn0 hmem (by rw [hn0n, hs])
    subst this
    obtain ⟨b1, b2, b3, b4, b5, b6⟩ := alive_self_sum n0 a false env me hs hme hle heq hst
    apply gother_like w k x _ (some a) n0 (fun _ => False) hinv hfind hcfg b2 b3 hU b4 (by rw [b1])
      (fun y hy => Or.inl (by rw [b1] at hy; exact hy)) (fun _ _ _ h => absurd h id)
    intro w' _ _ o ho m hm
    rw [b5 o ho] at hm; cases hm
  · obtain ⟨a1, a2, a3, a4, a5, a6, a7⟩ := alive_other_sum n a false env hs hg.1.1 hg.1.2.1 hst
    apply gother_like w k x _ (some a) n (fun y => y.st = .alive ∧ aliveOfRec y = a) hinv hfind hcfg a1 a2 hU a4 a3 a5
    · intro w' hext y ⟨h1, h2⟩ _
      have hg' := hg.ext hext
      have hn : y.name = a.node := by rw [← h2]; rfl
      have hi : y.inc = a.inc := by rw [← h2]; rfl
      have ha : y.addr = a.addr := by rw [← h2]; rfl
      have hp : y.port = a.port := by rw [← h2]; rfl
      refine ⟨fun _ => by rw [h2]; exact hg', by rw [hn, hi, ha, hp]; exact hg'.2, fun e => by rw [h1] at e; cases e⟩
    · intro w' hext _ o ho m hm
      rw [a6 o ho m hm]
      exact hg.ext hext

/-- **the acting node processes a suspicion (general)** - received, from a state entry, or its own
after an unanswered probe. -/
theorem gsuspect_like (w : World) (k : Nat) (x : String) (f : Node → Node × List Out) (src : Option AliveMsg)
    (n : Node) (c : Claim) (env : Env)
    (hinv : GInv w k) (hfind : w.nodes.find? (·.cfg.self == x) = some n) (hk : k + 1 < u32)
    (hf : f n = suspectNode n c env) (hK : Known w c.node c.inc) :
    GInv (act w x f src) (k + 1) := by
  obtain ⟨hmem, hname, hu, hsi, hsf, hst, hrg⟩ := actor_facts hinv hfind
  have hU : Uniq (f n).1 := by rw [hf]; exact suspect_uniq n c env hu
  have hcfg : (f n).1.cfg = n.cfg := by rw [hf]; exact suspect_cfg n c env
  have hemit : ∀ w', ExtG w w' → ∀ m, m = Msg.suspect c → GBenign w' m := by
    intro w' hext m hm; subst hm; exact hK.ext hext
  rcases suspect_sum n c env hst with ⟨a1, a2, a3, _, a5, a6⟩ | ⟨hs, me, hme, hal, hle, e⟩ | ⟨hs, state, hl, hal, hle, b1, b2, b3, _, b5, b6⟩
  · apply gother_like w k x f src n (fun _ => False) hinv hfind hcfg (by rw [hf]; exact a2) (by rw [hf]; exact a3) hU
      (by rw [hf]; exact a5) (by rw [hf, a1]) (fun y hy => Or.inl (by rw [hf, a1] at hy; exact hy))
      (fun _ _ _ h => absurd h id)
    intro w' hext _ o ho m hm
    rw [hf] at ho hm
    exact hemit w' hext m (a6 o ho src m hm)
  · rw [hs] at hK
    obtain ⟨me2, hme2, hle2⟩ := known_self hinv hmem hK
    have hme' : selfRec n = some me := hme
    rw [hme'] at hme2; cases hme2
    exact grefute_like w k x f src n n me c.inc hinv hfind hk (hf.trans e) ⟨rfl, rfl, rfl, rfl, fun _ h => h⟩ hme' hal hle2
  · have hsn := lookup_name hl
    apply gother_like w k x f src n (fun y => y = suspRec state c.inc env.now) hinv hfind hcfg
      (by rw [hf]; exact b2) (by rw [hf]; exact b3) hU (by rw [hf]; exact b5)
    · rw [hf, b1]
      exact lookup_setRec_ne _ _ _ (by simp only [suspRec, hsn]; exact fun h => hs h.symm)
    · intro y hy
      rw [hf, b1] at hy
      exact mem_setRec hy
    · intro w' hext y hy _
      subst hy
      have hst0 : state ∈ n.recs := List.mem_of_find?_eq_some hl
      have hk0 := (hrg state hst0 (by rw [hsn]; exact hs)).2.1
      rw [hsn] at hk0
      refine ⟨fun e => by simp [suspRec] at e, ?_, fun e => by simp [suspRec] at e⟩
      simp only [suspRec, hsn]
      exact (KnownAt.combine hinv.1 hK hk0).ext hext
    · intro w' hext _ o ho m hm
      rw [hf] at ho hm
      exact hemit w' hext m (b6 o ho src m hm)

theorem alive_of_not_gone {st : St} (h1 : st.deadOrLeft = false) (h2 : st ≠ .suspect) : st = .alive := by
  cases st <;> simp_all [St.deadOrLeft]

/-- the acting node's own record is replaced by a dead/left one (it has called Leave) -/
theorem gself_gone (w : World) (k : Nat) (x : String) (f : Node → Node × List Out) (src : Option AliveMsg)
    (n : Node) (me : Rec) (c : Claim) (now : Nat)
    (hinv : GInv w k) (hfind : w.nodes.find? (·.cfg.self == x) = some n)
    (hme : selfRec n = some me) (hs : c.node = n.cfg.self) (hle : me.inc ≤ c.inc) (hK : Known w c.node c.inc)
    (hD : ∀ w', ExtG w w' → (f n).1 ∈ w'.nodes → c.frm = c.node → Departed w' c.node c.inc)
    (hcfg : (f n).1.cfg = n.cfg) (hi : (f n).1.selfInc = n.selfInc) (hl : (f n).1.hasLeft = true)
    (hU : Uniq (f n).1) (hT : NoSelfTimer (f n).1)
    (hrecs : (f n).1.recs = setRec n.recs (goneRec me c now))
    (hemit : ∀ o ∈ (f n).2, ∀ m ∈ emit (f n).1 src o, m = .dead c) :
    GInv (act w x f src) (k + 1) := by
  obtain ⟨hmem, hname, hu, hsi, hsf, hst, hrg⟩ := actor_facts hinv hfind
  obtain ⟨f1, f2, f3, f4, f5, f6⟩ := hsf me hme
  have hmn : me.name = n.cfg.self := lookup_name hme
  have hle2 : c.inc ≤ me.inc := by
    rw [hs] at hK
    obtain ⟨me2, hme2, h⟩ := known_self hinv hmem hK
    rw [hme] at hme2; cases hme2; exact h
  have hR : selfRec (f n).1 = some (goneRec me c now) := by
    unfold selfRec
    rw [hcfg, hrecs]
    have := lookup_setRec_self n.recs (goneRec me c now) (by simp only [goneRec, hmn]; unfold selfRec at hme; rw [hme]; rfl)
    simpa [goneRec, hmn] using this
  apply act_ginv w k x f src n hinv hfind
  · refine ⟨⟨hcfg, fun _ => hl, ?_⟩, ?_⟩
    · intro me0 hme0
      rw [hme] at hme0; cases hme0
      exact ⟨_, hR, by simp only [goneRec]; omega, fun _ => ⟨rfl, rfl⟩⟩
    · intro me0 hme0
      rw [hme] at hme0; cases hme0
      exact ⟨_, hR, rfl, rfl⟩
  · refine ⟨hU, by rw [hi]; omega, ?_, hT⟩
    intro me0 hme0
    rw [hR] at hme0; cases hme0
    refine ⟨by rw [hi]; simp only [goneRec]; omega, by simp only [goneRec]; omega, f3, Or.inr hl, ?_, ?_⟩
    · simp only [goneRec]
      split <;> simp
    · intro _
      simp only [goneRec]
      split <;> simp
  · intro w' _ _ y hy hne
    rw [hrecs] at hy
    rcases mem_setRec hy with h | rfl
    · exact Or.inl ⟨y, h, rfl, rfl⟩
    · exact absurd (by simp only [goneRec, hmn, hname]) hne
  · intro w' hext hin o ho m hm
    rw [hemit o ho m hm]
    exact ⟨hK.ext hext, fun e => hD w' hext hin e⟩

/-- **the acting node processes a dead claim (general)** - received, from a state entry (a departure),
or its own when a suspicion timer fires. -/
theorem gdead_like (w : World) (k : Nat) (x : String) (f : Node → Node × List Out) (src : Option AliveMsg)
    (n : Node) (c : Claim) (env : Env)
    (hinv : GInv w k) (hfind : w.nodes.find? (·.cfg.self == x) = some n) (hk : k + 1 < u32)
    (hf : f n = deadNode n c env) (hK : Known w c.node c.inc) (hD : c.frm = c.node → Departed w c.node c.inc) :
    GInv (act w x f src) (k + 1) := by
  obtain ⟨hmem, hname, hu, hsi, hsf, hst, hrg⟩ := actor_facts hinv hfind
  have hU : Uniq (f n).1 := by rw [hf]; exact dead_uniq n c env hu
  have hcfg : (f n).1.cfg = n.cfg := by rw [hf]; exact dead_cfg n c env
  rcases dead_sum n c env hst with ⟨a1, a2, a3, a4, a5⟩ | ⟨hs, hnl, me, hme, hng, hle, e⟩ |
      ⟨state, hl, hng, hle, hsl, b1, b2, b3, b4, b5, b6⟩
  · apply gother_like w k x f src n (fun _ => False) hinv hfind hcfg (by rw [hf]; exact a2) (by rw [hf]; exact a3) hU
      (by rw [hf]; exact a4) (by rw [hf, a1]) (fun y hy => Or.inl (by rw [hf, a1] at hy; exact hy))
      (fun _ _ _ h => absurd h id)
    intro w' _ _ o ho
    rw [hf, a5] at ho; cases ho
  · have hme' : selfRec n = some me := hme
    have hal : me.st = .alive := alive_of_not_gone hng (hsf me hme').2.2.2.2.1
    rw [hs] at hK
    obtain ⟨me2, hme2, hle2⟩ := known_self hinv hmem hK
    rw [hme'] at hme2; cases hme2
    exact grefute_like w k x f src n { n with timers := delTimer n.timers c.node } me c.inc hinv hfind hk (hf.trans e)
      ⟨rfl, rfl, rfl, rfl, fun _ h => mem_delTimer h⟩ hme' hal hle2
  · have hsn := lookup_name hl
    by_cases hs : c.node = n.cfg.self
    · have hme : selfRec n = some state := by unfold selfRec; rw [← hs]; exact hl
      apply gself_gone w k x f src n state c env.now hinv hfind hme hs hle hK (fun w' hext _ e => (hD e).ext hext.toExt) hcfg (by rw [hf]; exact b2)
        (by rw [hf, b3]; exact hsl hs) hU (by rw [hf]; exact b4) (by rw [hf]; exact b1)
      intro o ho m hm
      rw [hf] at ho hm
      exact b5 o ho src m hm
    · apply gother_like w k x f src n (fun y => y = goneRec state c env.now) hinv hfind hcfg
        (by rw [hf]; exact b2) (by rw [hf]; exact b3) hU (by rw [hf]; exact b4)
      · rw [hf, b1]
        exact lookup_setRec_ne _ _ _ (by simp only [goneRec, hsn]; exact fun h => hs h.symm)
      · intro y hy
        rw [hf, b1] at hy
        exact mem_setRec hy
      · intro w' hext y hy _
        subst hy
        have hst0 : state ∈ n.recs := List.mem_of_find?_eq_some hl
        have hk0 := (hrg state hst0 (by rw [hsn]; exact hs)).2.1
        rw [hsn] at hk0
        refine ⟨?_, ?_, ?_⟩
        · intro e; simp only [goneRec] at e; split at e <;> cases e
        · simp only [goneRec, hsn]
          exact (KnownAt.combine hinv.1 hK hk0).ext hext
        · intro e
          simp only [goneRec, hsn]
          simp only [goneRec] at e
          split at e
          · rename_i h
            have h' : c.node = c.frm := by simpa using h
            exact (hD h'.symm).ext hext.toExt
          · cases e
      · intro w' hext _ o ho m hm
        rw [hf] at ho hm
        rw [b5 o ho src m hm]
        exact ⟨hK.ext hext, fun e => (hD e).ext hext.toExt⟩

theorem gnoop (w : World) (k : Nat) (x : String) (f : Node → Node × List Out) (src : Option AliveMsg) (n : Node)
    (hinv : GInv w k) (hfind : w.nodes.find? (·.cfg.self == x) = some n) (hf : f n = (n, [])) :
    GInv (act w x f src) (k + 1) := by
  obtain ⟨hmem, hname, hu, hsi, hsf, hst, hrg⟩ := actor_facts hinv hfind
  apply gother_like w k x f src n (fun _ => False) hinv hfind (by rw [hf]) (by rw [hf]) (by rw [hf]) (by rw [hf]; exact hu)
    (by rw [hf]; exact hst) (by rw [hf]) (fun y hy => Or.inl (by rw [hf] at hy; exact hy)) (fun _ _ _ h => absurd h id)
  intro w' _ _ o ho
  rw [hf] at ho; cases ho

/-- **a suspicion timer fires (general).** -/
theorem gfire_step (w : World) (k : Nat) (x node : String) (ca : Nat) (env : Env) (n : Node)
    (hinv : GInv w k) (hfind : w.nodes.find? (·.cfg.self == x) = some n) (hk : k + 1 < u32) :
    GInv (act w x (fun n => timerFire n node ca env) none) (k + 1) := by
  obtain ⟨hmem, hname, hu, hsi, hsf, hst, hrg⟩ := actor_facts hinv hfind
  cases hl : lookup n.recs node with
  | none => exact gnoop w k x _ none n hinv hfind (by simp [timerFire, hl])
  | some state =>
    by_cases hc : (state.st == .suspect && state.changed == some ca) = true
    · have hsn := lookup_name hl
      have hmemr : state ∈ n.recs := List.mem_of_find?_eq_some hl
      have hsus : state.st = .suspect := by
        simp only [Bool.and_eq_true, beq_iff_eq] at hc; exact hc.1
      have hne : state.name ≠ n.cfg.self := by
        intro e
        have hme : selfRec n = some state := by unfold selfRec; rw [← e, hsn]; exact hl
        exact (hsf state hme).2.2.2.2.1 hsus
      apply gdead_like w k x _ none n { inc := state.inc, node := state.name, frm := n.cfg.self } env hinv hfind hk
        (by simp [timerFire, hl, hc])
      · exact (hrg state hmemr hne).2.1.known
      · intro e; exact absurd e.symm hne
    · exact gnoop w k x _ none n hinv hfind (by simp [timerFire, hl, hc])

/-- **a probe goes unanswered (general).** -/
theorem gprobeFail_step (w : World) (k : Nat) (x t : String) (env : Env) (n : Node)
    (hinv : GInv w k) (hfind : w.nodes.find? (·.cfg.self == x) = some n) (hk : k + 1 < u32) :
    GInv (act w x (probeFail t env) none) (k + 1) := by
  obtain ⟨hmem, hname, hu, hsi, hsf, hst, hrg⟩ := actor_facts hinv hfind
  by_cases hs : (t == n.cfg.self) = true
  · exact gnoop w k x _ none n hinv hfind (by simp [probeFail, hs])
  · cases hl : lookup n.recs t with
    | none => exact gnoop w k x _ none n hinv hfind (by simp [probeFail, hs, hl])
    | some r =>
      have hrn := lookup_name hl
      apply gsuspect_like w k x _ none n { inc := r.inc, node := t, frm := n.cfg.self } env hinv hfind hk
        (by simp [probeFail, hs, hl])
      have := (hrg r (List.mem_of_find?_eq_some hl) (by rw [hrn]; simpa using hs)).2.1.known
      rw [hrn] at this; exact this

/-- a silent step that keeps every claim the node holds (general) -/
theorem gquiet_like (w : World) (k : Nat) (x : String) (f : Node → Node × List Out) (n : Node) (g : Rec → Rec)
    (hinv : GInv w k) (hfind : w.nodes.find? (·.cfg.self == x) = some n)
    (hg : ∀ r, SameG r (g r))
    (hcfg : (f n).1.cfg = n.cfg) (hl : (f n).1.hasLeft = n.hasLeft)
    (hi : (f n).1.selfInc = n.selfInc) (ht : (f n).1.timers = n.timers) (hU : Uniq (f n).1)
    (hrecs : ∀ y ∈ (f n).1.recs, ∃ y0 ∈ n.recs, y = g y0)
    (hself : selfRec (f n).1 = (selfRec n).map g) (hout : (f n).2 = []) :
    GInv (act w x f none) (k + 1) := by
  obtain ⟨hmem, hname, hu, hsi, hsf, hst, hrg⟩ := actor_facts hinv hfind
  have hfields : ∀ r, (g r).inc = r.inc ∧ (g r).md = r.md ∧ (g r).vsn = r.vsn ∧ (g r).st = r.st ∧
      (g r).addr = r.addr ∧ (g r).port = r.port := by
    intro r
    obtain ⟨e1, e2⟩ := hg r
    exact ⟨(congrArg AliveMsg.inc e1).symm, (congrArg AliveMsg.md e1).symm, (congrArg AliveMsg.vsn e1).symm, e2.symm,
      (congrArg AliveMsg.addr e1).symm, (congrArg AliveMsg.port e1).symm⟩
  apply act_ginv w k x f none n hinv hfind
  · refine ⟨⟨hcfg, by rw [hl]; exact id, ?_⟩, ?_⟩
    · intro me hme
      exact ⟨g me, by rw [hself, hme]; rfl, by rw [(hfields me).1]; exact Nat.le_refl _,
        fun _ => ⟨(hfields me).2.1, (hfields me).2.2.1⟩⟩
    · intro me hme
      exact ⟨g me, by rw [hself, hme]; rfl, (hfields me).2.2.2.2.1, (hfields me).2.2.2.2.2⟩
  · refine ⟨hU, by rw [hi]; omega, ?_, ?_⟩
    · intro me' hme'
      rw [hself] at hme'
      cases hme : selfRec n with
      | none => rw [hme] at hme'; cases hme'
      | some me =>
        rw [hme] at hme'
        simp only [Option.map_some, Option.some.injEq] at hme'
        subst hme'
        have := hsf me hme
        obtain ⟨f1, f2, f3, f4, _, _⟩ := hfields me
        rw [f1, f3, f4, hi, hl]; exact this
    · intro t htm
      rw [ht] at htm; rw [hcfg]; exact hst t htm
  · intro w' _ _ y hy _
    obtain ⟨y0, hy0, rfl⟩ := hrecs y hy
    exact Or.inl ⟨y0, hy0, hg y0⟩
  · intro w' _ _ o ho
    rw [hout] at ho; cases ho

theorem greap_step (w : World) (k : Nat) (x : String) (n : Node)
    (hinv : GInv w k) (hfind : w.nodes.find? (·.cfg.self == x) = some n) :
    GInv (act w x (fun n => (reap n, [])) none) (k + 1) := by
  obtain ⟨hmem, hname, hu, hsi, hsf, hst, hrg⟩ := actor_facts hinv hfind
  apply gquiet_like w k x _ n id hinv hfind (fun r => ⟨rfl, rfl⟩) rfl rfl rfl rfl (reap_uniq n hu)
  · intro y hy
    simp only [reap, List.mem_filter] at hy
    exact ⟨y, hy.1, rfl⟩
  · simp only [Option.map_id, id]
    unfold selfRec
    simp only [reap]
    apply lookup_filter_keep
    intro r _ e
    simp [e]
  · rfl

theorem gage_step (w : World) (k : Nat) (x name : String) (n : Node)
    (hinv : GInv w k) (hfind : w.nodes.find? (·.cfg.self == x) = some n) :
    GInv (act w x (fun n => (ageRec n name, [])) none) (k + 1) := by
  obtain ⟨hmem, hname, hu, hsi, hsf, hst, hrg⟩ := actor_facts hinv hfind
  apply gquiet_like w k x _ n (fun r => if (r.name == name) = true then { r with changed := none } else r)
    hinv hfind ?_ rfl rfl rfl rfl (age_uniq n name hu)
  · intro y hy
    simp only [ageRec, List.mem_map] at hy
    obtain ⟨y0, hy0, rfl⟩ := hy
    exact ⟨y0, hy0, rfl⟩
  · unfold selfRec
    simp only [ageRec]
    exact lookup_map_namePreserving _ _ (by intro r; split <;> rfl) _
  · rfl
  · intro r
    split
    · exact ⟨rfl, rfl⟩
    · exact ⟨rfl, rfl⟩

theorem announce_left_noop (n : Node) (addr port md : Nat) (vsn : List Nat) (env : Env) (hl : n.hasLeft = true) :
    (announce addr port md vsn env n).1.recs = n.recs ∧ (announce addr port md vsn env n).2 = [] := by
  unfold announce
  cases lookup n.recs n.cfg.self with
  | some me => simp [updateNode, aliveNode, aliveDecide, hl, aliveApply]
  | none =>
    by_cases hv : vsn.length = 6
    · simp [hv, updateNode, aliveNode, aliveDecide, hl, aliveApply]
    · simp [hv]

/-- **a node announces itself (general).** -/
theorem gannounce_step (w : World) (k : Nat) (x : String) (addr port md : Nat) (vsn : List Nat) (env : Env) (n : Node)
    (hinv : GInv w k) (hfind : w.nodes.find? (·.cfg.self == x) = some n) (hk : k + 1 < u32) :
    GInv (act w x (announce addr port md vsn env) (some (announceSrc addr port md vsn n))) (k + 1) := by
  obtain ⟨hmem, hname, hu, hsi, hsf, hst, hrg⟩ := actor_facts hinv hfind
  have D := announce_sum n addr port md vsn env (by omega)
    (fun me hme => ⟨(hsf me hme).1, (hsf me hme).2.2.1⟩)
  have hU := announce_uniq n addr port md vsn env hu
  obtain ⟨d1, d2, d3, hcfg, d5, d6, d7⟩ := D
  have hsrc : ∀ me, selfRec n = some me →
      (announceSrc addr port md vsn n).addr = me.addr ∧ (announceSrc addr port md vsn n).port = me.port := by
    intro me hme
    unfold selfRec at hme
    simp [announceSrc, hme]
  generalize announceSrc addr port md vsn n = a at *
  have hself : ((announce addr port md vsn env n).1.recs = n.recs ∧
        selfRec (announce addr port md vsn env n).1 = selfRec n ∧ (announce addr port md vsn env n).2 = []) ∨
      ∃ R, selfRec (announce addr port md vsn env n).1 = some R ∧ R.st = .alive ∧ aliveOfRec R = a ∧
        R.inc = n.selfInc + 1 ∧ R.vsn.length = 6 ∧
        R.name = n.cfg.self ∧ (announce addr port md vsn env n).1.selfInc = n.selfInc + 1 ∧
        (∀ y ∈ (announce addr port md vsn env n).1.recs, y ∈ n.recs ∨ y = R) ∧
        (∀ me, selfRec n = some me → R.addr = me.addr ∧ R.port = me.port) ∧
        (∀ o ∈ (announce addr port md vsn env n).2,
          (∀ m ∈ emit (announce addr port md vsn env n).1 (some a) o, m = .alive a) ∧ ∀ nm, o ≠ Out.leave nm) := by
    rcases d7 with ⟨e1, e2⟩ | ⟨R, r1, r2, r3, r4, r5, r6, r7, r8⟩
    · left; exact ⟨e1, selfRec_congr hcfg (by rw [e1]), e2⟩
    · right
      refine ⟨R, ?_, r1, r2, r3, r4, r5, r6, ?_, ?_, r8⟩
      · unfold selfRec
        rw [hcfg]
        rcases r7 with ⟨hs, e⟩ | ⟨hn, e⟩
        · rw [e, ← r5]; exact lookup_setRec_self _ _ (by rw [r5]; exact hs)
        · rw [e, ← r5]; exact lookup_append_stub_self _ _ (by rw [r5]; exact hn)
      · intro y hy
        rcases r7 with ⟨_, e⟩ | ⟨_, e⟩
        · rw [e] at hy; exact mem_setRec hy
        · rw [e] at hy; simpa using hy
      · intro me hme
        have := hsrc me hme
        rw [← r2] at this
        exact this
  apply act_ginv w k x _ (some a) n hinv hfind
  · refine ⟨⟨hcfg, by rw [d3]; exact id, ?_⟩, ?_⟩
    · intro me hme
      rcases hself with ⟨_, e, _⟩ | ⟨R, e, _, _, r3, _⟩
      · exact ⟨me, by rw [e]; exact hme, Nat.le_refl _, fun _ => ⟨rfl, rfl⟩⟩
      · have := (hsf me hme).1
        exact ⟨R, e, by omega, fun h => by omega⟩
    · intro me hme
      rcases hself with ⟨_, e, _⟩ | ⟨R, e, _, _, _, _, _, _, _, r9, _⟩
      · exact ⟨me, by rw [e]; exact hme, rfl, rfl⟩
      · exact ⟨R, e, (r9 me hme).1, (r9 me hme).2⟩
  · refine ⟨hU, by omega, ?_, ?_⟩
    · intro me hme
      rcases hself with ⟨_, e, _⟩ | ⟨R, e, r1, _, r3, r4, _, r6, _, _⟩
      · rw [e] at hme
        have := hsf me hme
        refine ⟨by omega, this.2.1, this.2.2.1, by rw [d3]; exact this.2.2.2.1, this.2.2.2.2.1, by rw [d3]; exact this.2.2.2.2.2⟩
      · rw [e] at hme; cases hme
        refine ⟨by omega, by omega, r4, Or.inl r1, by rw [r1]; simp, ?_⟩
        intro hl
        rw [d3] at hl
        -- a node that has left ignores its own announcement: nothing would have changed
        exfalso
        obtain ⟨q1, _⟩ := announce_left_noop n addr port md vsn env hl
        have hsr2 : selfRec (announce addr port md vsn env n).1 = selfRec n := selfRec_congr hcfg (by rw [q1])
        rw [e] at hsr2
        cases hme0 : selfRec n with
        | none => rw [hme0] at hsr2; cases hsr2
        | some me0 =>
          rw [hme0] at hsr2
          cases hsr2
          have := (hsf me hme0).1
          omega
    · intro t ht
      rw [hcfg]; exact hst t (d1 t ht)
  · intro w' _ _ y hy hne
    rcases hself with ⟨e, _, _⟩ | ⟨R, _, _, _, _, _, r5, _, r7, _⟩
    · rw [e] at hy; exact Or.inl ⟨y, hy, rfl, rfl⟩
    · rcases r7 y hy with h | rfl
      · exact Or.inl ⟨y, h, rfl, rfl⟩
      · exact absurd (by rw [r5, hname]) hne
  · intro w' _ hin o ho m hm
    rcases hself with ⟨_, _, e⟩ | ⟨R, e, _, r2, r3, r4, r5, _, _, _, r8⟩
    · rw [e] at ho; cases ho
    · rw [(r8 o ho).1 m hm]
      have ei : a.inc = R.inc := by rw [← r2]; rfl
      have ev : a.vsn = R.vsn := by rw [← r2]; rfl
      have em : a.md = R.md := by rw [← r2]; rfl
      have en : a.node = R.name := by rw [← r2]; rfl
      have ea : a.addr = R.addr := by rw [← r2]; rfl
      have ep : a.port = R.port := by rw [← r2]; rfl
      have hc : (announce addr port md vsn env n).1.cfg.self = a.node := by rw [hcfg, en, r5]
      exact ⟨⟨by omega, by rw [ev]; exact r4, _, hin, hc, R, e, by omega, fun _ => ⟨em, ev⟩⟩,
        _, hin, hc, R, e, by omega, ea.symm, ep.symm⟩

/-- the acting node sets its Leave flag and nothing else changes -/
theorem gflag_only (w : World) (k : Nat) (x : String) (f : Node → Node × List Out) (src : Option AliveMsg) (n : Node)
    (hinv : GInv w k) (hfind : w.nodes.find? (·.cfg.self == x) = some n)
    (hcfg : (f n).1.cfg = n.cfg) (hi : (f n).1.selfInc = n.selfInc) (hl : (f n).1.hasLeft = true)
    (hT : NoSelfTimer (f n).1) (hrecs : (f n).1.recs = n.recs) (hout : (f n).2 = [])
    (hgone : ∀ me, selfRec n = some me → me.st ≠ .alive) :
    GInv (act w x f src) (k + 1) := by
  obtain ⟨hmem, hname, hu, hsi, hsf, hst, hrg⟩ := actor_facts hinv hfind
  have hsr : selfRec (f n).1 = selfRec n := selfRec_congr hcfg (by rw [hrecs])
  apply act_ginv w k x f src n hinv hfind
  · refine ⟨⟨hcfg, fun _ => hl, ?_⟩, ?_⟩
    · intro me hme
      exact ⟨me, by rw [hsr]; exact hme, Nat.le_refl _, fun _ => ⟨rfl, rfl⟩⟩
    · intro me hme
      exact ⟨me, by rw [hsr]; exact hme, rfl, rfl⟩
  · refine ⟨by simp only [Uniq, hrecs]; exact hu, by rw [hi]; omega, ?_, hT⟩
    intro me hme
    rw [hsr] at hme
    have := hsf me hme
    exact ⟨by rw [hi]; exact this.1, this.2.1, this.2.2.1, Or.inr hl, this.2.2.2.2.1, fun _ => hgone me hme⟩
  · intro w' _ _ y hy _
    rw [hrecs] at hy
    exact Or.inl ⟨y, hy, rfl, rfl⟩
  · intro w' _ _ o ho
    rw [hout] at ho; cases ho

/-- **a node calls Leave (general).** -/
theorem gleave_step (w : World) (k : Nat) (x : String) (env : Env) (n : Node)
    (hinv : GInv w k) (hfind : w.nodes.find? (·.cfg.self == x) = some n) :
    GInv (act w x (fun n => leave n env) none) (k + 1) := by
  obtain ⟨hmem, hname, hu, hsi, hsf, hst, hrg⟩ := actor_facts hinv hfind
  by_cases hl : n.hasLeft = true
  · exact gnoop w k x _ none n hinv hfind (by simp [leave, hl])
  · cases hme : lookup n.recs n.cfg.self with
    | none =>
      have e : leave n env = ({ n with hasLeft := true }, []) := by simp [leave, hl, hme]
      exact gflag_only w k x _ none n hinv hfind (by simp only [e]) (by simp only [e]) (by simp only [e])
        (by simp only [e]; exact hst) (by simp only [e]) (by simp only [e])
        (fun me0 h0 => by unfold selfRec at h0; rw [hme] at h0; cases h0)
    | some me =>
      have hmn := lookup_name hme
      have hsr : selfRec n = some me := hme
      have e : leave n env = deadNode { n with hasLeft := true } { inc := me.inc, node := me.name, frm := me.name } env := by
        simp [leave, hl, hme]
      have hst1 : NoSelfTimer { n with hasLeft := true } := hst
      have hK : Known w me.name me.inc := ⟨n, hmem, hmn.symm, me, hsr, Nat.le_refl _⟩
      have hcfg : (leave n env).1.cfg = n.cfg := by rw [e]; exact dead_cfg _ _ _
      have hU : Uniq (leave n env).1 := leave_uniq n env hu
      rcases dead_sum { n with hasLeft := true } { inc := me.inc, node := me.name, frm := me.name } env hst1 with
          ⟨a1, a2, a3, a4, a5⟩ | ⟨_, hnl, _⟩ | ⟨state, hl2, hng, hle, hsl, b1, b2, b3, b4, b5, b6⟩
      · have hrecs : (leave n env).1.recs = n.recs := by simp only [e]; exact a1
        refine gflag_only w k x _ none n hinv hfind hcfg (by simp only [e]; exact a2) (by simp only [e]; exact a3)
          (by simp only [e]; exact a4) hrecs (by simp only [e]; exact a5) ?_
        intro me0 h0 hal
        rw [hsr] at h0; cases h0
        have hnl : n.hasLeft = false := by simpa using hl
        obtain ⟨_, ⟨me', hl', hst', _⟩, _⟩ := C08_leave_marks_left n env me hme hnl hal
        rw [hrecs, hme] at hl'
        cases hl'
        rw [hal] at hst'; cases hst'
      · cases hnl
      · simp only [hmn] at hl2
        rw [hme] at hl2; cases hl2
        apply gself_gone w k x _ none n me { inc := me.inc, node := me.name, frm := me.name } env.now hinv hfind hsr hmn
          (Nat.le_refl _) hK ?_ hcfg (by simp only [e]; exact b2) (by simp only [e]; exact b3) hU
          (by simp only [e]; exact b4) (by simp only [e]; exact b1)
        · intro o ho m hm
          simp only [e] at ho hm
          exact b5 o ho none m hm
        · intro w' _ hin _
          have hR : selfRec (leave n env).1 = some (goneRec me { inc := me.inc, node := me.name, frm := me.name } env.now) := by
            unfold selfRec
            rw [hcfg]
            simp only [e, b1]
            have := lookup_setRec_self n.recs (goneRec me { inc := me.inc, node := me.name, frm := me.name } env.now)
              (by simp only [goneRec, hmn, hme]; rfl)
            simpa [goneRec, hmn] using this
          exact ⟨_, hin, by rw [hcfg, hmn], by simp only [e]; exact b3, _, hR, by simp [goneRec]⟩

/-- **a node sends its state list (general).** -/
theorem gsnapshot_inv (w : World) (k : Nat) (n : Node) (hinv : GInv w k) (hmem : n ∈ w.nodes) :
    GInv { w with pool := w.pool ++ n.recs.map (fun r => Msg.state (stateOfRec r)) } (k + 1) := by
  obtain ⟨hnd, hnodes, hpool⟩ := hinv
  generalize hw' : World.mk _ _ _ = w'
  have hn' : w'.nodes = w.nodes := by rw [← hw']
  have hp' : w'.pool = w.pool ++ n.recs.map (fun r => Msg.state (stateOfRec r)) := by rw [← hw']
  have hext : ExtG w w' := by
    intro n0 hn0
    exact ⟨n0, by rw [hn']; exact hn0, OwnerMonoG.refl n0⟩
  refine ⟨by rw [hn']; exact hnd, ?_, ?_⟩
  · intro n0 hn0
    rw [hn'] at hn0
    exact (hnodes n0 hn0).ext hext (by omega)
  · intro m hm
    rw [hp'] at hm
    rcases List.mem_append.mp hm with h | h
    · exact (hpool m h).ext hext
    · obtain ⟨r, hr, rfl⟩ := List.mem_map.mp h
      obtain ⟨hu, _, hsf, _, hrg⟩ := hnodes n hmem
      apply GBenign.ext hext
      have hgood : RecG w r := by
        by_cases e : r.name = n.cfg.self
        · have hme : selfRec n = some r := by
            unfold selfRec; rw [← e]; exact lookup_of_mem hu hr
          obtain ⟨f1, f2, f3, f4, f5, _⟩ := hsf r hme
          have hk : KnownAt w r.name r.inc r.addr r.port := ⟨n, hmem, e.symm, r, hme, Nat.le_refl _, rfl, rfl⟩
          refine ⟨fun _ => ⟨⟨f2, f3, n, hmem, e.symm, r, hme, Nat.le_refl _, fun _ => ⟨rfl, rfl⟩⟩, hk⟩, hk, ?_⟩
          intro hst
          rcases f4 with h | h
          · rw [hst] at h; cases h
          · exact ⟨n, hmem, e.symm, h, r, hme, Nat.le_refl _⟩
        · exact hrg r hr e
      exact ⟨hgood.2.1, hgood.1, hgood.2.2⟩

theorem GInv.mono {w : World} {k : Nat} (h : GInv w k) : GInv w (k + 1) :=
  ⟨h.1, fun n hn => (h.2.1 n hn).ext (fun n0 hn0 => ⟨n0, hn0, OwnerMonoG.refl n0⟩) (by omega), h.2.2⟩

theorem receive_state_susp (s : PushState) (env : Env) (n : Node) (h : s.st = .suspect ∨ s.st = .dead) :
    receive (.state s) env n = suspectNode n { inc := s.inc, node := s.name, frm := n.cfg.self } env := by
  cases env
  rcases h with h | h <;> simp [receive, mergeOne, withEnv, h]

/-- **one step of any kind keeps the general invariant.** -/
theorem gstep_inv (w : World) (k : Nat) (op : COp) (hinv : GInv w k) (hk : k + 1 < u32) :
    GInv (w.step op) (k + 1) := by
  cases op with
  | deliver x i env =>
    simp only [World.step]
    cases hm : w.pool[i]? with
    | none => exact hinv.mono
    | some m =>
      simp only
      have hb : GBenign w m := hinv.2.2 m (List.mem_of_getElem? hm)
      cases hf : w.nodes.find? (·.cfg.self == x) with
      | none => rw [act_none _ _ _ _ hf]; exact hinv.mono
      | some n =>
        cases m with
        | alive a => exact galive_step w k x a env n hinv hf hb
        | suspect c => exact gsuspect_like w k x _ _ n c env hinv hf hk rfl hb
        | dead c => exact gdead_like w k x _ _ n c env hinv hf hk rfl hb.1 hb.2
        | state s =>
          obtain ⟨b1, b2, b3⟩ := hb
          cases hs : s.st with
          | alive =>
            rw [receive_state_alive s env hs]
            simp only [srcOf, hs, ↓reduceIte]
            exact galive_step w k x (aliveOfState s) env n hinv hf (b2 hs)
          | left =>
            rw [receive_state_left s env hs]
            exact gdead_like w k x _ _ n _ env hinv hf hk rfl b1.known (fun _ => b3 hs)
          | suspect =>
            exact gsuspect_like w k x _ _ n _ env hinv hf hk (receive_state_susp s env n (Or.inl hs)) b1.known
          | dead =>
            exact gsuspect_like w k x _ _ n _ env hinv hf hk (receive_state_susp s env n (Or.inr hs)) b1.known
  | snapshot x =>
    simp only [World.step]
    cases hf : w.nodes.find? (·.cfg.self == x) with
    | none => exact hinv.mono
    | some n => exact gsnapshot_inv w k n hinv (find_actor hf).1
  | announce x addr port md vsn env =>
    simp only [World.step]
    cases hf : w.nodes.find? (·.cfg.self == x) with
    | none => exact hinv.mono
    | some n => exact gannounce_step w k x addr port md vsn env n hinv hf hk
  | leave x env =>
    simp only [World.step]
    cases hf : w.nodes.find? (·.cfg.self == x) with
    | none => rw [act_none _ _ _ _ hf]; exact hinv.mono
    | some n => exact gleave_step w k x env n hinv hf
  | fire x node ca env =>
    simp only [World.step]
    cases hf : w.nodes.find? (·.cfg.self == x) with
    | none => rw [act_none _ _ _ _ hf]; exact hinv.mono
    | some n => exact gfire_step w k x node ca env n hinv hf hk
  | reap x =>
    simp only [World.step]
    cases hf : w.nodes.find? (·.cfg.self == x) with
    | none => rw [act_none _ _ _ _ hf]; exact hinv.mono
    | some n => exact greap_step w k x n hinv hf
  | age x name =>
    simp only [World.step]
    cases hf : w.nodes.find? (·.cfg.self == x) with
    | none => rw [act_none _ _ _ _ hf]; exact hinv.mono
    | some n => exact gage_step w k x name n hinv hf
  | probeFail x t env =>
    simp only [World.step]
    cases hf : w.nodes.find? (·.cfg.self == x) with
    | none => rw [act_none _ _ _ _ hf]; exact hinv.mono
    | some n => exact gprobeFail_step w k x t env n hinv hf hk

theorem gfresh_inv (w : World) (h : Fresh w) : GInv w 0 := by
  obtain ⟨h1, h2, h3, _⟩ := h
  refine ⟨h1, ?_, by rw [h3]; simp⟩
  intro n hn
  obtain ⟨a, b, c, d, e⟩ := h2 n hn
  refine ⟨by simp [Uniq, a], by omega, ?_, ?_, by rw [a]; simp⟩
  · intro me hme
    simp [selfRec, a, lookup] at hme
  · intro t ht; rw [b] at ht; cases ht

theorem grun_inv (ops : List COp) : ∀ (w : World) (k : Nat), GInv w k → k + ops.length < u32 →
    GInv (w.run ops) (k + ops.length) := by
  induction ops with
  | nil => intro w k h _; exact h
  | cons op ops ih =>
    intro w k h hk
    simp only [World.run, List.foldl_cons, List.length_cons] at hk ⊢
    have h1 := gstep_inv w k op h (by omega)
    have := ih (w.step op) (k + 1) h1 (by omega)
    rw [show k + (ops.length + 1) = k + 1 + ops.length by omega]
    exact this

end Swim.Cluster
