import Swim.Gen.Facts
/-!
# C04 / C03 / C19: the shipped configuration profiles

The probe machinery assumes that a probe's own timeout is shorter than the interval between probes (the
acknowledgement record is reaped at the awareness-scaled interval: with a timeout at or above it every ping
whose answer takes longer than the interval is counted as failed although it is well inside the timeout).
The three profiles the package ships satisfy that, with room for the indirect round. Regenerated from the
running code (`DefaultLANConfig`, `DefaultWANConfig`, `DefaultLocalConfig`) on every run.
-/
namespace Swim.Gen

def cfgGet (c : List (String × Int)) (k : String) : Int := ((c.find? (·.1 == k)).map (·.2)).getD 0

/-- a profile is sane for the failure detector: timeout below interval, somebody to gossip to, a positive
suspicion multiplier and a maximum not below the minimum -/
def profileSane (c : List (String × Int)) : Bool :=
  0 < cfgGet c "ProbeTimeoutMs" && cfgGet c "ProbeTimeoutMs" < cfgGet c "ProbeIntervalMs" &&
  0 < cfgGet c "GossipNodes" && 0 < cfgGet c "GossipIntervalMs" &&
  1 ≤ cfgGet c "SuspicionMult" && 1 ≤ cfgGet c "SuspicionMaxTimeoutMult" &&
  1 ≤ cfgGet c "AwarenessMaxMultiplier" && 0 ≤ cfgGet c "IndirectChecks" &&
  0 < cfgGet c "GossipToTheDeadTimeMs" && 0 < cfgGet c "PushPullIntervalMs" && 0 < cfgGet c "HandoffQueueDepth"

/-- **fact theorem** (regenerated): every shipped profile is sane -/
theorem C04_shipped_profiles_sane : profileSane cfgLAN = true ∧ profileSane cfgWAN = true ∧ profileSane cfgLocal = true := by
  decide

/-- the WAN profile only slows the LAN profile down: longer probe interval and timeout, same fan-outs or more -/
theorem C04_wan_profile_is_slower :
    cfgGet cfgLAN "ProbeIntervalMs" ≤ cfgGet cfgWAN "ProbeIntervalMs" ∧
    cfgGet cfgLAN "ProbeTimeoutMs" ≤ cfgGet cfgWAN "ProbeTimeoutMs" ∧
    cfgGet cfgLAN "GossipNodes" ≤ cfgGet cfgWAN "GossipNodes" := by decide

end Swim.Gen
