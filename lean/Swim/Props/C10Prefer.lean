import Swim.Props.C10
/-!
# C10: the order of a retrieval - less transmitted first, over the whole walk

`C10_pick_is_least` and `C10_advance_only_if_exhausted` speak about one hand-out and one tier
change. Here the whole walk of `GetBroadcasts` is covered: at the moment any item is handed out,
no item with fewer transmissions that would still fit is waiting in the queue, the item is the
`Less`-least of its tier among those that fit, and the handed-out list is ordered by transmissions.
-/
namespace Swim.Queue

/-- the walk with a record of every hand-out: (state before, tier, item) -/
def getTrace (overhead limit tl : Int) : Nat → Nat → Nat → GetSt → List (GetSt × Nat × Item)
  | 0, _, _, _ => []
  | fuel + 1, t, maxT, s =>
    if t > maxT then []
    else if limit - s.used - overhead ≤ 0 then []
    else
      match pickMin (cands s t (limit - s.used - overhead)) with
      | none => getTrace overhead limit tl fuel (t + 1) maxT s
      | some k => (s, t, k) :: getTrace overhead limit tl fuel t maxT (pickStep overhead tl s k)

/-- the trace is the walk: its items are exactly what the walk hands out, in order -/
theorem getTrace_out (o l tl : Int) : ∀ fuel t maxT s,
    (getLoop o l tl fuel t maxT s).out = s.out ++ (getTrace o l tl fuel t maxT s).map (·.2.2) := by
  intro fuel
  induction fuel with
  | zero => intro t maxT s; simp [getLoop, getTrace]
  | succ n ih =>
    intro t maxT s
    simp only [getLoop, getTrace]
    by_cases h1 : t > maxT
    · simp [h1]
    · by_cases h2 : l - s.used - o ≤ 0
      · simp [h1, h2]
      · simp only [h1, h2, ↓reduceIte]
        cases hp : pickMin (cands s t (l - s.used - o)) with
        | none => exact ih _ _ _
        | some k =>
          simp only [List.map_cons]
          rw [ih]
          unfold pickStep
          split <;> simp

/-- no item below tier `t` that still fits is waiting -/
def Passed (o l : Int) (t : Nat) (s : GetSt) : Prop :=
  ∀ x ∈ s.items, x.tx < t → ¬ (x.len : Int) ≤ l - s.used - o

theorem removeId_mem {items : List Item} {id : Nat} {x : Item} (h : x ∈ removeId items id) : x ∈ items := by
  simp only [removeId, List.mem_filter] at h; exact h.1

theorem pickStep_items (o tl : Int) (s : GetSt) (k : Item) :
    (pickStep o tl s k).items = removeId s.items k.id ∧ (pickStep o tl s k).used = s.used + o + k.len := by
  unfold pickStep; split <;> exact ⟨rfl, rfl⟩

/-- **C10_prefers_less_transmitted (whole walk).** For every hand-out `(s, t, k)` of the walk started
in a state where nothing below the starting tier is waiting: `k` is the `Less`-least item of tier
`t` that fits into the space left, and no item with fewer transmissions that fits is waiting. -/
theorem C10_trace_prefers (o l tl : Int) (ho : 0 ≤ o) : ∀ fuel t maxT s, Passed o l t s →
    ∀ e ∈ getTrace o l tl fuel t maxT s,
      pickMin (cands e.1 e.2.1 (l - e.1.used - o)) = some e.2.2 ∧ Passed o l e.2.1 e.1 := by
  intro fuel
  induction fuel with
  | zero => intro t maxT s _ e he; simp [getTrace] at he
  | succ n ih =>
    intro t maxT s hP e he
    simp only [getTrace] at he
    by_cases h1 : t > maxT
    · simp [h1] at he
    · by_cases h2 : l - s.used - o ≤ 0
      · simp [h1, h2] at he
      · simp only [h1, h2, ↓reduceIte] at he
        cases hp : pickMin (cands s t (l - s.used - o)) with
        | none =>
          rw [hp] at he
          refine ih (t + 1) maxT s ?_ e he
          intro x hx hlt
          by_cases e1 : x.tx = t
          · exact C10_advance_only_if_exhausted hp x hx e1
          · exact hP x hx (by omega)
        | some k =>
          rw [hp] at he
          rcases List.mem_cons.mp he with rfl | he'
          · exact ⟨hp, hP⟩
          · refine ih t maxT _ ?_ e he'
            obtain ⟨e1, e2⟩ := pickStep_items o tl s k
            intro x hx hlt
            rw [e1] at hx
            rw [e2]
            have := hP x (removeId_mem hx) hlt
            have hk : (0 : Int) ≤ (k.len : Int) := Int.natCast_nonneg _
            omega

theorem minTx_le (items : List Item) : ∀ x ∈ items, minTx items ≤ x.tx := by
  intro x hx
  unfold minTx
  have gen : ∀ (l : List Nat) (a : Nat), l.foldl min a ≤ a ∧ ∀ y ∈ l, l.foldl min a ≤ y := by
    intro l
    induction l with
    | nil => intro a; exact ⟨Nat.le_refl _, by simp⟩
    | cons b bs ih =>
      intro a
      simp only [List.foldl_cons]
      obtain ⟨i1, i2⟩ := ih (min a b)
      refine ⟨Nat.le_trans i1 (Nat.min_le_left _ _), ?_⟩
      intro y hy
      rcases List.mem_cons.mp hy with rfl | hy'
      · exact Nat.le_trans i1 (Nat.min_le_right _ _)
      · exact i2 y hy'
  exact (gen _ _).2 x.tx (List.mem_map.mpr ⟨x, hx, rfl⟩)

/-- **C10_prefers (one retrieval).** In `GetBroadcasts` on any queue: at the moment an item is handed
out it is the `Less`-least (most bytes, then newest) item of its transmission count that fits into
the space left, and every queued item with fewer transmissions does not fit any more. -/
theorem C10_get_prefers (q : Q) (o l tl : Int) (ho : 0 ≤ o) :
    let s0 : GetSt := { items := q.items, used := 0, out := [], reins := [], done := [] }
    let tr := getTrace o l tl (q.items.length + (maxTx q.items - minTx q.items) + 2) (minTx q.items) (maxTx q.items) s0
    (getRun q o l tl).out = tr.map (·.2.2) ∧
    ∀ e ∈ tr, pickMin (cands e.1 e.2.1 (l - e.1.used - o)) = some e.2.2 ∧
      ∀ x ∈ e.1.items, x.tx < e.2.2.tx → ¬ (x.len : Int) ≤ l - e.1.used - o := by
  intro s0 tr
  refine ⟨?_, ?_⟩
  · have := getTrace_out o l tl (q.items.length + (maxTx q.items - minTx q.items) + 2) (minTx q.items) (maxTx q.items) s0
    simpa [getRun, s0] using this
  · intro e he
    have hP0 : Passed o l (minTx q.items) s0 := by
      intro x hx hlt
      have := minTx_le q.items x hx
      omega
    obtain ⟨h1, h2⟩ := C10_trace_prefers o l tl ho _ _ _ s0 hP0 e he
    refine ⟨h1, ?_⟩
    have hk := (cands_mem h1).2.1
    intro x hx hlt
    exact h2 x hx (by omega)

/-- the handed-out list is ordered by transmission count -/
theorem C10_out_sorted (o l tl : Int) : ∀ fuel t maxT s,
    (∀ k ∈ s.out, k.tx ≤ t) → (s.out.map (·.tx)).Pairwise (· ≤ ·) →
    ((getLoop o l tl fuel t maxT s).out.map (·.tx)).Pairwise (· ≤ ·) := by
  intro fuel
  induction fuel with
  | zero => intro t maxT s _ h; exact h
  | succ n ih =>
    intro t maxT s hb hs
    simp only [getLoop]
    by_cases h1 : t > maxT
    · simp [h1, hs]
    · by_cases h2 : l - s.used - o ≤ 0
      · simp [h1, h2, hs]
      · simp only [h1, h2, ↓reduceIte]
        cases hp : pickMin (cands s t (l - s.used - o)) with
        | none => exact ih _ _ _ (fun k hk => Nat.le_succ_of_le (hb k hk)) hs
        | some k =>
          have hkt := (cands_mem hp).2.1
          have hout : (pickStep o tl s k).out = s.out ++ [k] := by unfold pickStep; split <;> rfl
          apply ih
          · intro k' hk'
            rw [hout] at hk'
            rcases List.mem_append.mp hk' with h | h
            · exact hb k' h
            · simp only [List.mem_singleton] at h; rw [h, hkt]; exact Nat.le_refl _
          · rw [hout, List.map_append, List.pairwise_append]
            refine ⟨hs, by simp, ?_⟩
            intro a ha b hb'
            simp only [List.map_cons, List.map_nil, List.mem_singleton] at hb'
            obtain ⟨k', hk', rfl⟩ := List.mem_map.mp ha
            rw [hb', hkt]; exact hb k' hk'

end Swim.Queue
