import Swim.Props.Cluster
/-!
# C04 at cluster level: no false suspicion in a healthy cluster, for every history

`Swim.Cluster.World` is any number of nodes running the merge rules of `Swim.Model.Merge`
over a network that reorders, duplicates, delays and loses claims. A *healthy* history is any
sequence of cluster steps without an unanswered probe (`C04_ack_in_time_no_suspect`: with every
member responsive and packets delivered within half the probe timeout, no probe goes unanswered).
-/
namespace Swim.Cluster
open Swim.Merge

/-- **C04_cluster_history.** From a cluster that has not started yet, after *any* healthy history -
any interleaving of announcements (joins, metadata updates), deliveries of any claim in flight to
any node in any order and multiplicity, push/pull state exchanges, graceful leaves, reaping, ageing
and timer callbacks, for any number of nodes - every node holds only alive or departed records, has
no suspicion timer and a health score of zero; no suspect claim and no accusation (a dead claim not
signed by its subject) was ever handed to the network; and every leave event reported to a delegate
names a member that called Leave. -/
theorem C04_cluster_history (w0 : World) (ops : List COp) (hfresh : Fresh w0)
    (hops : ∀ op ∈ ops, op.healthy = true) (hlen : ops.length < u32) :
    (∀ n ∈ (w0.run ops).nodes, (∀ r ∈ n.recs, r.st = .alive ∨ r.st = .left) ∧ n.timers = [] ∧ n.score = 0) ∧
    (∀ m ∈ (w0.run ops).pool, match m with
      | .suspect _ => False
      | .dead c => c.frm = c.node
      | .state s => s.st = .alive ∨ s.st = .left
      | .alive _ => True) ∧
    (∀ e ∈ (w0.run ops).log, ∀ nm, e.2 = Out.leave nm →
      ∃ n ∈ (w0.run ops).nodes, n.cfg.self = nm ∧ n.hasLeft = true) := by
  have h := run_inv ops w0 0 (fresh_inv w0 hfresh) hops (by omega)
  obtain ⟨_, hn, hp, hl⟩ := h
  refine ⟨?_, ?_, ?_⟩
  · intro n hmem
    obtain ⟨hH, hs, _⟩ := hn n hmem
    exact ⟨hH.1, hH.2, hs⟩
  · intro m hm
    have := hp m hm
    cases m with
    | alive a => trivial
    | suspect c => exact this
    | dead c => exact this.1
    | state s =>
      rcases this with ⟨e, _⟩ | ⟨e, _⟩
      · exact Or.inl e
      · exact Or.inr e
  · intro e he nm hnm
    obtain ⟨i, n, hmem, hname, hleft, _⟩ := hl e he nm hnm
    exact ⟨n, hmem, hname, hleft⟩

/-- the same for every prefix of the history: the statement holds at every moment, not only at the end -/
theorem C04_cluster_always (w0 : World) (ops : List COp) (hfresh : Fresh w0)
    (hops : ∀ op ∈ ops, op.healthy = true) (hlen : ops.length < u32) (j : Nat) :
    ∀ n ∈ (w0.run (ops.take j)).nodes, (∀ r ∈ n.recs, r.st = .alive ∨ r.st = .left) ∧ n.timers = [] ∧ n.score = 0 :=
  (C04_cluster_history w0 (ops.take j) hfresh (fun op h => hops op (List.mem_of_mem_take h))
    (by have := List.length_take_le' j ops; omega)).1

/-! ### Non-vacuity: a three-node history with joins, an update, an exchange and a leave -/

def demoCfg (s : String) : Cfg :=
  { self := s, reclaim := false, hasAliveDelegate := false, hasConflictDelegate := false, awarenessMax := 8, suspicionK := 2 }

def demoWorld : World := { nodes := [{ cfg := demoCfg "a" }, { cfg := demoCfg "b" }, { cfg := demoCfg "c" }] }

def demoEnv (t : Nat) : Env := { now := t, ipAllowed := true, delegateOk := true, offset := 0 }

def demoOps : List COp :=
  [ .announce "a" 1 7946 10 [1, 5, 2, 0, 0, 0] (demoEnv 1),
    .announce "b" 2 7946 20 [1, 5, 2, 0, 0, 0] (demoEnv 2),
    .announce "c" 3 7946 30 [1, 5, 2, 0, 0, 0] (demoEnv 3),
    .deliver "b" 0 (demoEnv 4), .deliver "a" 1 (demoEnv 5), .deliver "c" 0 (demoEnv 6),
    .snapshot "b", .deliver "c" 4 (demoEnv 7), .deliver "c" 5 (demoEnv 8),
    .announce "a" 0 0 11 [] (demoEnv 9), .deliver "b" 9 (demoEnv 10), .deliver "c" 9 (demoEnv 11), .deliver "a" 6 (demoEnv 11),
    .deliver "a" 2 (demoEnv 11), .deliver "b" 2 (demoEnv 11),
    .leave "c" (demoEnv 12), .deliver "a" 14 (demoEnv 13), .deliver "b" 14 (demoEnv 14), .deliver "c" 14 (demoEnv 14),
    .age "a" "c", .reap "a" ]

theorem demo_fresh : Fresh demoWorld := by
  refine ⟨by decide, ?_, rfl, rfl⟩
  intro n hn
  simp only [demoWorld, List.mem_cons, List.not_mem_nil, or_false] at hn
  rcases hn with rfl | rfl | rfl <;> exact ⟨rfl, rfl, rfl, rfl, rfl⟩

theorem demo_healthy : ∀ op ∈ demoOps, op.healthy = true := by decide

/-- the demo history really exchanges claims: 17 claims in flight, everybody has learnt of the
update of `a` and of the departure of `c`, and `a` has already reaped `c` -/
example : (demoWorld.run demoOps).pool.length = 17 ∧
    (demoWorld.run demoOps).nodes.map (fun n => (n.cfg.self, n.recs.map (fun r => (r.name, r.inc, r.st, r.md)))) =
      [("a", [("a", 2, .alive, 11), ("b", 1, .alive, 20)]),
       ("b", [("b", 1, .alive, 20), ("a", 2, .alive, 11), ("c", 1, .left, 30)]),
       ("c", [("c", 1, .left, 30), ("a", 2, .alive, 11), ("b", 1, .alive, 20)])] := by decide

end Swim.Cluster
