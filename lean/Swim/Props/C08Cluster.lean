import Swim.Props.ClusterG
/-!
# C08 at cluster level: "left" always means the member called Leave

For every history of the cluster model: whenever any node holds another member as *left*, or a
self-signed dead claim (a graceful departure) or a *left* state entry is in flight, the member it
names has really called Leave, at an incarnation at least the recorded one - a crash, a timeout or
an accusation is never recorded as a graceful departure by anybody.
-/
namespace Swim.Cluster
open Swim.Merge

/-- **C08_cluster_left_is_left.** -/
theorem C08_cluster_left_is_left (w0 : World) (ops : List COp) (hfresh : Fresh w0) (hlen : ops.length < u32) :
    (∀ y ∈ (w0.run ops).nodes, ∀ r ∈ y.recs, r.name ≠ y.cfg.self → r.st = .left →
      ∃ X ∈ (w0.run ops).nodes, X.cfg.self = r.name ∧ X.hasLeft = true) ∧
    (∀ m ∈ (w0.run ops).pool, match m with
      | .dead c => c.frm = c.node → ∃ X ∈ (w0.run ops).nodes, X.cfg.self = c.node ∧ X.hasLeft = true
      | .state s => s.st = .left → ∃ X ∈ (w0.run ops).nodes, X.cfg.self = s.name ∧ X.hasLeft = true
      | _ => True) := by
  have h := grun_inv ops w0 0 (gfresh_inv w0 hfresh) (by omega)
  obtain ⟨_, hn, hp⟩ := h
  refine ⟨?_, ?_⟩
  · intro y hy r hr hne hst
    obtain ⟨X, hX, hname, hl, _⟩ := ((hn y hy).2.2.2.2 r hr hne).2.2 hst
    exact ⟨X, hX, hname, hl⟩
  · intro m hm
    have := hp m hm
    cases m with
    | alive a => trivial
    | suspect c => trivial
    | dead c =>
      intro e
      obtain ⟨X, hX, hname, hl, _⟩ := this.2 e
      exact ⟨X, hX, hname, hl⟩
    | state s =>
      intro e
      obtain ⟨X, hX, hname, hl, _⟩ := this.2.2 e
      exact ⟨X, hX, hname, hl⟩

/-- a node's own record is alive unless it has called Leave, in every reachable cluster state -/
theorem C08_cluster_self_alive_unless_left (w0 : World) (ops : List COp) (hfresh : Fresh w0) (hlen : ops.length < u32) :
    ∀ X ∈ (w0.run ops).nodes, ∀ me, selfRec X = some me → me.st = .alive ∨ X.hasLeft = true := by
  have h := grun_inv ops w0 0 (gfresh_inv w0 hfresh) (by omega)
  intro X hX me hme
  exact ((h.2.1 X hX).2.2.1 me hme).2.2.2.1

/-- **C08_cluster_leaver_stays_gone.** In every reachable cluster state, a node that has called Leave does
not hold its own record alive: neither replayed alive claims about it, nor accusations, nor its own
queued messages or later UpdateNode calls bring it back on the leaver itself. -/
theorem C08_cluster_leaver_stays_gone (w0 : World) (ops : List COp) (hfresh : Fresh w0) (hlen : ops.length < u32) :
    ∀ X ∈ (w0.run ops).nodes, X.hasLeft = true → ∀ me, selfRec X = some me → me.st ≠ .alive := by
  have h := grun_inv ops w0 0 (gfresh_inv w0 hfresh) (by omega)
  intro X hX hl me hme
  exact ((h.2.1 X hX).2.2.1 me hme).2.2.2.2.2 hl

end Swim.Cluster
