import Swim.Lemmas.Merge
/-!
# C01  Stale or weaker membership claims never override newer knowledge

All theorems are about a claim concerning a member other than the local node
(the local node is C02).
-/
namespace Swim.Merge

/-- a different, admitted address taking over a name whose holder left or has been dead
longer than the reclaim time: the only permitted regression -/
def takeover (n : Node) (a : AliveMsg) (env : Env) : Prop :=
  ∃ r, lookup n.recs a.node = some r ∧ (r.addr ≠ a.addr ∨ r.port ≠ a.port) ∧
    env.ipAllowed = true ∧ reclaimable n r = true

/-- what each decision of `aliveNode` implies, for a claim about another member -/
theorem aliveDecide_nonlocal (n : Node) (a : AliveMsg) (b : Bool) (env : Env)
    (hself : a.node ≠ n.cfg.self) :
    match aliveDecide n a b env with
    | .ignore => True
    | .conflict => ∃ r, lookup n.recs a.node = some r ∧ (r.addr ≠ a.addr ∨ r.port ≠ a.port) ∧ reclaimable n r = false
    | .stubOnly => lookup n.recs a.node = none ∧ a.inc = 0 ∧ env.ipAllowed = true
    | .delTimerOnly _ => False
    | .refuteSelf _ => False
    | .accept true => lookup n.recs a.node = none ∧ 0 < a.inc ∧ env.ipAllowed = true
    | .accept false => ∃ r, lookup n.recs a.node = some r ∧
        ((r.addr = a.addr ∧ r.port = a.port ∧ r.inc < a.inc) ∨ takeover n a env) := by
  have hl : (a.node == n.cfg.self) = false := by simpa using hself
  unfold aliveDecide
  by_cases h1 : (n.hasLeft && a.node == n.cfg.self) = true
  · simp [h1]
  · by_cases h2 : vsnBad a.vsn = true
    · simp [h1, h2]
    · by_cases h3 : (n.cfg.hasAliveDelegate && (a.vsn.length < 6 || !env.delegateOk)) = true
      · simp [h1, h2, h3]
      · simp only [h1, h2, h3, Bool.false_eq_true, ↓reduceIte]
        cases hlk : lookup n.recs a.node with
        | none =>
          by_cases h4 : env.ipAllowed = true
          · simp only [h4, Bool.not_true, Bool.false_eq_true, ↓reduceIte, decideKnown, hl, stub,
              Bool.not_false, Bool.and_true, Bool.and_false]
            by_cases h5 : a.inc = 0
            · simp [h5]
            · have : 0 < a.inc := Nat.pos_of_ne_zero h5
              simp [h5, this]
          · simp [h4]
        | some r =>
          by_cases h5 : (r.addr != a.addr || r.port != a.port) = true
          · simp only [h5, ↓reduceIte]
            by_cases h4 : env.ipAllowed = true
            · by_cases h6 : reclaimable n r = true
              · simp only [h4, Bool.not_true, Bool.false_eq_true, ↓reduceIte, h6, decideKnown, hl,
                  Bool.not_false, Bool.and_true, Bool.and_false]
                refine ⟨r, rfl, Or.inr ⟨r, hlk, ?_, h4, h6⟩⟩
                simpa using h5
              · have h6' : reclaimable n r = false := by simpa using h6
                simp only [h4, Bool.not_true, Bool.false_eq_true, ↓reduceIte, h6']
                exact ⟨r, rfl, by simpa using h5, h6'⟩
            · simp [h4]
          · simp only [h5, Bool.false_eq_true, ↓reduceIte, decideKnown, hl, Bool.not_false, Bool.and_true,
              Bool.and_false]
            have h5' : r.addr = a.addr ∧ r.port = a.port := by simpa using h5
            by_cases h7 : a.inc ≤ r.inc
            · simp [h7]
            · simp only [h7, decide_false, Bool.false_eq_true, ↓reduceIte]
              exact ⟨r, rfl, Or.inl ⟨h5'.1, h5'.2, by omega⟩⟩


theorem stateFor_name (recs : List Rec) (a : AliveMsg) :
    ((lookup recs a.node).getD (stub a)).name = a.node := by
  cases h : lookup recs a.node with
  | none => rfl
  | some r => exact lookup_name h

theorem withStub_lookup_ne (n : Node) (a : AliveMsg) (y : String) (hy : y ≠ a.node) :
    lookup (withStub n a).recs y = lookup n.recs y :=
  lookup_append_stub_ne n.recs (stub a) y hy

/-- **frame.** A claim about `a.node` leaves the record of every other member untouched. -/
theorem C01_alive_frame (n : Node) (a : AliveMsg) (nt b : Bool) (env : Env) (y : String)
    (hy : y ≠ a.node) : lookup (aliveNode n a nt b env).1.recs y = lookup n.recs y := by
  unfold aliveNode
  generalize aliveDecide n a b env = dec
  cases dec with
  | ignore => rfl
  | conflict => rfl
  | stubOnly => exact withStub_lookup_ne n a y hy
  | delTimerOnly isNew => cases isNew <;> simp [aliveApply, withStub_lookup_ne n a y hy]
  | refuteSelf isNew =>
    cases isNew
    · simp only [aliveApply, refute, Bool.false_eq_true, ↓reduceIte]
      rw [lookup_setRec_ne]
      simpa [stateFor_name] using hy
    · simp only [aliveApply, refute, ↓reduceIte]
      rw [lookup_setRec_ne]
      · exact withStub_lookup_ne n a y hy
      · simpa [stateFor_name] using hy
  | accept isNew =>
    cases isNew
    · simp only [aliveApply, Bool.false_eq_true, ↓reduceIte]
      rw [lookup_setRec_ne]
      simpa [acceptRec, stateFor_name] using hy
    · simp only [aliveApply, ↓reduceIte]
      rw [lookup_setRec_ne]
      · exact withStub_lookup_ne n a y hy
      · simpa [acceptRec, stateFor_name] using hy

/-- **forward (alive).** Unless a legitimate takeover happens, an alive claim about another
member never moves that member's view backwards in the precedence order. -/
theorem C01_alive_forward (n : Node) (a : AliveMsg) (nt b : Bool) (env : Env)
    (hself : a.node ≠ n.cfg.self) (hno : ¬ takeover n a env) :
    kle (key (lookup n.recs a.node)) (key (lookup (aliveNode n a nt b env).1.recs a.node)) := by
  have spec := aliveDecide_nonlocal n a b env hself
  unfold aliveNode
  generalize aliveDecide n a b env = dec at spec
  cases dec with
  | ignore => exact kle_refl _
  | conflict => exact kle_refl _
  | stubOnly =>
    simp only at spec
    rw [spec.1]; simp only [key]; left
    simp only [aliveApply, withStub]
    rw [show a.node = (stub a).name from rfl, lookup_append_stub_self _ _ spec.1]
    simp [key]
  | delTimerOnly isNew => exact absurd spec (by simp)
  | refuteSelf isNew => exact absurd spec (by simp)
  | accept isNew =>
    cases isNew
    · simp only at spec
      obtain ⟨r, hr, hcase⟩ := spec
      rcases hcase with ⟨_, _, hinc⟩ | ht
      · simp only [aliveApply, Bool.false_eq_true, ↓reduceIte, hr, Option.getD_some]
        have hn : (acceptRec r a env).name = a.node := by simp [acceptRec, lookup_name hr]
        rw [← hn, lookup_setRec_self _ _ (by rw [hn, hr]; rfl)]
        simp only [key, acceptRec]; left; omega
      · exact absurd ht hno
    · simp only at spec
      rw [spec.1]; simp only [key]; left
      simp only [aliveApply, ↓reduceIte]
      have hst : lookup (withStub n a).recs a.node = some (stub a) := by
        simp only [withStub]
        rw [show a.node = (stub a).name from rfl, lookup_append_stub_self _ _ spec.1]
      rw [hst]
      simp only [Option.getD_some]
      have hn : (acceptRec (stub a) a env).name = a.node := rfl
      rw [← hn, lookup_setRec_self _ _ (by rw [hn, hst]; rfl)]
      simp [key]

/-- **stale no-op (alive).** An alive claim about another, known member that is not newer
than the held incarnation changes nothing: same node state, and at most a conflict callback. -/
theorem C01_alive_stale_noop (n : Node) (a : AliveMsg) (nt b : Bool) (env : Env) (r : Rec)
    (hself : a.node ≠ n.cfg.self) (hr : lookup n.recs a.node = some r) (hold : a.inc ≤ r.inc)
    (hno : ¬ takeover n a env) :
    (aliveNode n a nt b env).1 = n ∧
      ∀ o ∈ (aliveNode n a nt b env).2, ∃ nm ad p, o = Out.conflict nm ad p := by
  have spec := aliveDecide_nonlocal n a b env hself
  unfold aliveNode
  generalize aliveDecide n a b env = dec at spec
  cases dec with
  | ignore => exact ⟨rfl, by simp [aliveApply]⟩
  | conflict =>
    refine ⟨rfl, ?_⟩
    simp only [aliveApply]
    split <;> simp
  | stubOnly => simp only at spec; rw [hr] at spec; exact absurd spec.1 (by simp)
  | delTimerOnly isNew => exact absurd spec (by simp)
  | refuteSelf isNew => exact absurd spec (by simp)
  | accept isNew =>
    cases isNew
    · simp only at spec
      obtain ⟨r', hr', hcase⟩ := spec
      rw [hr] at hr'; cases hr'
      rcases hcase with ⟨_, _, hinc⟩ | ht
      · omega
      · exact absurd ht hno
    · simp only at spec; rw [hr] at spec; exact absurd spec.1 (by simp)

/-- **regression only by reclaim (alive).** If the key of the named member decreases, the claim
was a takeover by a different admitted address of a left / long-dead holder. -/
theorem C01_alive_regression_iff_reclaim (n : Node) (a : AliveMsg) (nt b : Bool) (env : Env)
    (hself : a.node ≠ n.cfg.self)
    (hdec : ¬ kle (key (lookup n.recs a.node)) (key (lookup (aliveNode n a nt b env).1.recs a.node))) :
    takeover n a env := by
  by_cases h : takeover n a env
  · exact h
  · exact absurd (C01_alive_forward n a nt b env hself h) hdec


/-! ### suspect claims -/

theorem C01_suspect_frame (n : Node) (s : Claim) (env : Env) (y : String) (hy : y ≠ s.node) :
    lookup (suspectNode n s env).1.recs y = lookup n.recs y := by
  unfold suspectNode
  cases hl : lookup n.recs s.node with
  | none => rfl
  | some state =>
    have hn := lookup_name hl
    simp only
    by_cases h1 : s.inc < state.inc
    · simp [h1]
    · simp only [h1, ↓reduceIte]
      cases ht : n.timers.find? (·.node == s.node) with
      | some t =>
        simp only
        cases hc : (t.confirm s.frm).2 <;> simp [hc]
      | none =>
        simp only
        by_cases h2 : (state.st != St.alive) = true
        · simp [h2]
        · simp only [h2, Bool.false_eq_true, ↓reduceIte]
          by_cases h3 : (state.name == n.cfg.self) = true
          · simp only [h3, ↓reduceIte, refute]
            rw [lookup_setRec_ne]; simpa [hn] using hy
          · simp only [h3, Bool.false_eq_true, ↓reduceIte]
            rw [lookup_setRec_ne]; simpa [hn] using hy

/-- **forward (suspect).** A suspect claim about another member never moves it backwards. -/
theorem C01_suspect_forward (n : Node) (s : Claim) (env : Env) (hself : s.node ≠ n.cfg.self) :
    kle (key (lookup n.recs s.node)) (key (lookup (suspectNode n s env).1.recs s.node)) := by
  unfold suspectNode
  cases hl : lookup n.recs s.node with
  | none => simp [hl]; exact kle_refl _
  | some state =>
    have hn := lookup_name hl
    simp only
    by_cases h1 : s.inc < state.inc
    · simp [h1, hl]; exact kle_refl _
    · simp only [h1, ↓reduceIte]
      cases ht : n.timers.find? (·.node == s.node) with
      | some t =>
        simp only
        cases hc : (t.confirm s.frm).2 <;> simp [hc, hl] <;> exact kle_refl _
      | none =>
        simp only
        by_cases h2 : (state.st != St.alive) = true
        · simp [h2, hl]; exact kle_refl _
        · simp only [h2, Bool.false_eq_true, ↓reduceIte]
          have hne : (state.name == n.cfg.self) = false := by simpa [hn] using hself
          simp only [hne, Bool.false_eq_true, ↓reduceIte]
          have hnm : ({ state with inc := s.inc, st := St.suspect, changed := some env.now } : Rec).name = s.node := hn
          rw [← hnm, lookup_setRec_self _ _ (by rw [hnm, hl]; rfl)]
          have hst : state.st = St.alive := by simpa using h2
          simp only [key, hst, rank]
          by_cases e : state.inc = s.inc
          · right; omega
          · left; omega

/-- **stale no-op (suspect).** A suspect claim that is older than the held incarnation, or that
concerns a member already held dead or left, changes nothing and causes no output. (A suspect
claim about a member already suspect is a confirmation, which the property allows.) -/
theorem C01_suspect_stale_noop (n : Node) (s : Claim) (env : Env) (r : Rec)
    (hr : lookup n.recs s.node = some r)
    (hstale : s.inc < r.inc ∨ (r.st.deadOrLeft = true ∧ n.timers.find? (·.node == s.node) = none)) :
    suspectNode n s env = (n, []) := by
  unfold suspectNode
  simp only [hr]
  rcases hstale with h | ⟨hd, ht⟩
  · simp [h]
  · by_cases h1 : s.inc < r.inc
    · simp [h1]
    · simp only [h1, ↓reduceIte, ht]
      have : (r.st != St.alive) = true := by
        cases hst : r.st <;> simp_all [St.deadOrLeft]
      simp [this]

/-! ### dead claims -/

theorem C01_dead_frame (n : Node) (d : Claim) (env : Env) (y : String) (hy : y ≠ d.node) :
    lookup (deadNode n d env).1.recs y = lookup n.recs y := by
  unfold deadNode
  cases hl : lookup n.recs d.node with
  | none => rfl
  | some state =>
    have hn := lookup_name hl
    simp only
    by_cases h1 : d.inc < state.inc
    · simp [h1]
    · simp only [h1, ↓reduceIte]
      by_cases h2 : state.st.deadOrLeft = true
      · simp [h2]
      · simp only [h2, Bool.false_eq_true, ↓reduceIte]
        by_cases h3 : (state.name == n.cfg.self && !n.hasLeft) = true
        · simp only [h3, ↓reduceIte, refute]
          rw [lookup_setRec_ne]; simpa [hn] using hy
        · simp only [h3, Bool.false_eq_true, ↓reduceIte]
          rw [lookup_setRec_ne]; simpa [hn] using hy

/-- **forward (dead).** -/
theorem C01_dead_forward (n : Node) (d : Claim) (env : Env) (hself : d.node ≠ n.cfg.self) :
    kle (key (lookup n.recs d.node)) (key (lookup (deadNode n d env).1.recs d.node)) := by
  unfold deadNode
  cases hl : lookup n.recs d.node with
  | none => simp [hl]; exact kle_refl _
  | some state =>
    have hn := lookup_name hl
    simp only
    by_cases h1 : d.inc < state.inc
    · simp [h1, hl]; exact kle_refl _
    · simp only [h1, ↓reduceIte]
      by_cases h2 : state.st.deadOrLeft = true
      · simp [h2, hl]; exact kle_refl _
      · simp only [h2, Bool.false_eq_true, ↓reduceIte]
        have hne : (state.name == n.cfg.self) = false := by simpa [hn] using hself
        simp only [hne, Bool.false_and, Bool.false_eq_true, ↓reduceIte]
        generalize hst' : (if d.node = d.frm then St.left else St.dead) = st'
        have hnm : ({ state with inc := d.inc, st := st', changed := some env.now } : Rec).name = d.node := hn
        have : (if (d.node == d.frm) = true then St.left else St.dead) = st' := by
          rw [← hst']; by_cases e : d.node = d.frm <;> simp [e]
        rw [this, ← hnm, lookup_setRec_self _ _ (by rw [hnm, hl]; rfl)]
        have hr2 : rank st' = 2 := by rw [← hst']; by_cases e : d.node = d.frm <;> simp [e, rank]
        simp only [key, hr2]
        by_cases e : state.inc = d.inc
        · right; refine ⟨by omega, ?_⟩; cases state.st <;> simp [rank]
        · left; omega

/-- **stale no-op (dead).** A dead claim older than the held incarnation changes nothing at all;
one about a member already dead or left changes no record and produces no output. -/
theorem C01_dead_stale_noop (n : Node) (d : Claim) (env : Env) (r : Rec)
    (hr : lookup n.recs d.node = some r) :
    (d.inc < r.inc → deadNode n d env = (n, [])) ∧
    (r.st.deadOrLeft = true → (deadNode n d env).1.recs = n.recs ∧ (deadNode n d env).2 = []) := by
  unfold deadNode
  simp only [hr]
  refine ⟨fun h => by simp [h], fun hd => ?_⟩
  by_cases h1 : d.inc < r.inc
  · simp [h1]
  · simp [h1, hd]

/-! ### push/pull entries and the timer callback reduce to the three rules -/

/-- the name a merge entry is about -/
theorem C01_merge_frame (n : Node) (r : PushState) (now : Nat) (y : String) (hy : y ≠ r.name) :
    lookup (mergeOne n r now).1.recs y = lookup n.recs y := by
  unfold mergeOne
  cases r.st
  · exact C01_alive_frame n _ false false _ y hy
  · exact C01_suspect_frame n _ _ y hy
  · exact C01_suspect_frame n _ _ y hy
  · exact C01_dead_frame n _ _ y hy

/-- **merge (entry-wise).** A push/pull entry about another member moves it forward unless it is
an alive entry performing a legitimate takeover; remote dead/suspect become a suspicion,
remote left a departure. -/
theorem C01_merge_forward (n : Node) (r : PushState) (now : Nat) (hself : r.name ≠ n.cfg.self)
    (hno : ¬ takeover n { inc := r.inc, node := r.name, addr := r.addr, port := r.port, md := r.md, vsn := r.vsn }
      { now, ipAllowed := r.ipAllowed, delegateOk := r.delegateOk, offset := r.offset }) :
    kle (key (lookup n.recs r.name)) (key (lookup (mergeOne n r now).1.recs r.name)) := by
  unfold mergeOne
  cases r.st
  · exact C01_alive_forward n _ false false _ hself hno
  · exact C01_suspect_forward n { inc := r.inc, node := r.name, frm := n.cfg.self } _ hself
  · exact C01_suspect_forward n { inc := r.inc, node := r.name, frm := n.cfg.self } _ hself
  · exact C01_dead_forward n { inc := r.inc, node := r.name, frm := r.name } _ hself

/-- **timer callback.** The suspicion timeout only ever moves the suspected member forward
(suspect → dead at the same incarnation), and does nothing if the member was refuted meanwhile. -/
theorem C01_fire_forward (n : Node) (node : String) (ca : Nat) (env : Env) (hself : node ≠ n.cfg.self) :
    kle (key (lookup n.recs node)) (key (lookup (timerFire n node ca env).1.recs node)) := by
  unfold timerFire
  cases hl : lookup n.recs node with
  | none => simp [hl]; exact kle_refl _
  | some state =>
    have hn := lookup_name hl
    simp only
    split
    · have := C01_dead_forward n { inc := state.inc, node := state.name, frm := n.cfg.self } env (by simpa [hn] using hself)
      simpa [hn, hl] using this
    · simp [hl]; exact kle_refl _

/-! ### histories: the view of a member only moves forward between takeovers and reaping -/

theorem alive_cfg (n : Node) (a : AliveMsg) (nt b : Bool) (env : Env) : (aliveNode n a nt b env).1.cfg = n.cfg := by
  unfold aliveNode
  cases aliveDecide n a b env with
  | ignore => rfl
  | conflict => rfl
  | stubOnly => rfl
  | delTimerOnly isNew => cases isNew <;> rfl
  | refuteSelf isNew => cases isNew <;> rfl
  | accept isNew => cases isNew <;> rfl

theorem suspect_cfg (n : Node) (s : Claim) (env : Env) : (suspectNode n s env).1.cfg = n.cfg := by
  unfold suspectNode
  cases lookup n.recs s.node with
  | none => rfl
  | some state =>
    simp only
    split
    · rfl
    · cases n.timers.find? (·.node == s.node) with
      | some t => simp only; split <;> rfl
      | none =>
        simp only
        split
        · rfl
        · split <;> rfl

theorem dead_cfg (n : Node) (d : Claim) (env : Env) : (deadNode n d env).1.cfg = n.cfg := by
  unfold deadNode
  cases lookup n.recs d.node with
  | none => rfl
  | some state =>
    simp only
    split
    · rfl
    · split
      · rfl
      · split <;> rfl

theorem mergeOne_cfg (n : Node) (r : PushState) (now : Nat) : (mergeOne n r now).1.cfg = n.cfg := by
  unfold mergeOne
  cases r.st
  · exact alive_cfg n _ false false _
  · exact suspect_cfg n _ _
  · exact suspect_cfg n _ _
  · exact dead_cfg n _ _

/-- the alive claim and environment a push/pull entry stands for -/
def PushState.toAlive (r : PushState) : AliveMsg := { inc := r.inc, node := r.name, addr := r.addr, port := r.port, md := r.md, vsn := r.vsn }
def PushState.toEnv (r : PushState) (now : Nat) : Env := { now, ipAllowed := r.ipAllowed, delegateOk := r.delegateOk, offset := r.offset }

/-- some entry of the merged list performs a legitimate takeover of `x` at the moment it is merged -/
def mergeTakeover : Node → List PushState → Nat → String → Prop
  | _, [], _, _ => False
  | n, r :: rest, now, x =>
    (r.name = x ∧ r.st = .alive ∧ takeover n r.toAlive (r.toEnv now)) ∨ mergeTakeover (mergeOne n r now).1 rest now x

theorem mergeFold_eq (n : Node) (rs : List PushState) (now : Nat) (acc : List Out) :
    (rs.foldl (fun (a : Node × List Out) r => ((mergeOne a.1 r now).1, a.2 ++ (mergeOne a.1 r now).2)) (n, acc)).1 =
    (rs.foldl (fun m r => (mergeOne m r now).1) n) := by
  induction rs generalizing n acc with
  | nil => rfl
  | cons r rs ih => simp only [List.foldl_cons]; exact ih _ _

/-- **merge (whole list).** Merging a complete push/pull state moves the view of every other member
forward, unless one of its alive entries performs a legitimate takeover. -/
theorem C01_mergeState_forward (n : Node) (rs : List PushState) (now : Nat) (x : String) (hx : x ≠ n.cfg.self) :
    kle (key (lookup n.recs x)) (key (lookup (mergeState n rs now).1.recs x)) ∨ mergeTakeover n rs now x := by
  unfold mergeState
  rw [mergeFold_eq]
  induction rs generalizing n with
  | nil => left; exact kle_refl _
  | cons r rs ih =>
    simp only [List.foldl_cons, mergeTakeover]
    have hcfg := mergeOne_cfg n r now
    have hx' : x ≠ (mergeOne n r now).1.cfg.self := by rw [hcfg]; exact hx
    -- the first entry
    have hfirst : kle (key (lookup n.recs x)) (key (lookup (mergeOne n r now).1.recs x)) ∨
        (r.name = x ∧ r.st = .alive ∧ takeover n r.toAlive (r.toEnv now)) := by
      by_cases hn : r.name = x
      · subst hn
        by_cases ht : takeover n r.toAlive (r.toEnv now)
        · cases hst : r.st with
          | alive => right; exact ⟨rfl, rfl, ht⟩
          | suspect =>
            left; unfold mergeOne; rw [hst]
            exact C01_suspect_forward n { inc := r.inc, node := r.name, frm := n.cfg.self } _ hx
          | dead =>
            left; unfold mergeOne; rw [hst]
            exact C01_suspect_forward n { inc := r.inc, node := r.name, frm := n.cfg.self } _ hx
          | left =>
            left; unfold mergeOne; rw [hst]
            exact C01_dead_forward n { inc := r.inc, node := r.name, frm := r.name } _ hx
        · left; exact C01_merge_forward n r now hx ht
      · left
        rw [C01_merge_frame n r now x (fun e => hn e.symm)]
        exact kle_refl _
    rcases hfirst with h1 | h1
    · rcases ih (mergeOne n r now).1 hx' with h2 | h2
      · left; exact kle_trans h1 h2
      · right; right; exact h2
    · right; left; exact h1

/-- a step of the history that may legitimately move the view of `x` backwards: an alive claim or a
merge entry taking the name over from a new address, or the reaper forgetting a dead record -/
def regressStep (n : Node) (op : Op) (x : String) : Prop :=
  match op with
  | .alive a _ env => a.node = x ∧ takeover n a env
  | .merge rs now => mergeTakeover n rs now x
  | .reap => True
  | _ => False

def histRegress : Node → List Op → String → Prop
  | _, [], _ => False
  | n, op :: rest, x => regressStep n op x ∨ histRegress (step n op).1 rest x

theorem step_cfg (n : Node) (op : Op) : (step n op).1.cfg = n.cfg := by
  cases op with
  | alive a b env => exact alive_cfg n a false b env
  | suspect c env => exact suspect_cfg n c env
  | dead c env => exact dead_cfg n c env
  | merge rs now =>
    simp only [step, mergeState]
    rw [mergeFold_eq]
    induction rs generalizing n with
    | nil => rfl
    | cons r rs ih => simp only [List.foldl_cons]; rw [ih, mergeOne_cfg]
  | fire node ca env =>
    simp only [step, timerFire]
    cases lookup n.recs node with
    | none => rfl
    | some state =>
      simp only
      split
      · exact dead_cfg n _ env
      · rfl
  | reap => rfl
  | update a p m v env => simp only [step, updateNode]; exact alive_cfg _ _ true true env
  | leave env =>
    simp only [step, leave]
    split
    · rfl
    · cases lookup n.recs n.cfg.self with
      | none => rfl
      | some state => simp only; exact dead_cfg _ _ env
  | age name => rfl

theorem lookup_map_key (recs : List Rec) (f : Rec → Rec) (hf : ∀ r, (f r).name = r.name ∧ (f r).inc = r.inc ∧ (f r).st = r.st)
    (y : String) : key (lookup (recs.map f) y) = key (lookup recs y) := by
  induction recs with
  | nil => rfl
  | cons x xs ih =>
    simp only [lookup, List.map_cons, List.find?_cons, (hf x).1] at ih ⊢
    cases hx : (x.name == y)
    · simpa using ih
    · simp [key, (hf x).2.1, (hf x).2.2]

/-- **one step of any kind.** -/
theorem C01_step_forward (n : Node) (op : Op) (x : String) (hx : x ≠ n.cfg.self) :
    kle (key (lookup n.recs x)) (key (lookup (step n op).1.recs x)) ∨ regressStep n op x := by
  cases op with
  | alive a b env =>
    by_cases hn : a.node = x
    · subst hn
      by_cases ht : takeover n a env
      · right; exact ⟨rfl, ht⟩
      · left; exact C01_alive_forward n a false b env hx ht
    · left; simp only [step]; rw [C01_alive_frame n a false b env x (fun e => hn e.symm)]; exact kle_refl _
  | suspect c env =>
    left
    by_cases hn : c.node = x
    · subst hn; exact C01_suspect_forward n c env hx
    · simp only [step]; rw [C01_suspect_frame n c env x (fun e => hn e.symm)]; exact kle_refl _
  | dead c env =>
    left
    by_cases hn : c.node = x
    · subst hn; exact C01_dead_forward n c env hx
    · simp only [step]; rw [C01_dead_frame n c env x (fun e => hn e.symm)]; exact kle_refl _
  | merge rs now => exact C01_mergeState_forward n rs now x hx
  | fire node ca env =>
    left
    by_cases hn : node = x
    · subst hn; exact C01_fire_forward n node ca env hx
    · simp only [step, timerFire]
      cases hl : lookup n.recs node with
      | none => exact kle_refl _
      | some state =>
        simp only
        split
        · rw [C01_dead_frame n _ env x (by simpa [lookup_name hl] using fun e => hn e.symm)]; exact kle_refl _
        · exact kle_refl _
  | reap => right; trivial
  | update a p m v env =>
    left
    simp only [step, updateNode]
    rw [C01_alive_frame _ _ true true env x (by simpa using hx)]
    exact kle_refl _
  | leave env =>
    left
    simp only [step, leave]
    split
    · exact kle_refl _
    · cases hl : lookup n.recs n.cfg.self with
      | none => exact kle_refl _
      | some state =>
        simp only
        rw [C01_dead_frame _ _ env x (by simpa [lookup_name hl] using hx)]
        exact kle_refl _
  | age name =>
    left
    simp only [step, ageRec]
    rw [lookup_map_key n.recs _ (by intro r; split <;> exact ⟨rfl, rfl, rfl⟩) x]
    exact kle_refl _

/-- **C01_history.** Over any sequence of operations - claims by every path and in every order,
merges, timer callbacks, UpdateNode, Leave, ageing - the view a node holds of any other member only
moves forward in the precedence order, except at the steps where a different admitted address
takes the name over from a left / long-dead holder, or where the reaper forgets a dead record. -/
theorem C01_history (n : Node) (ops : List Op) (x : String) (hx : x ≠ n.cfg.self) :
    kle (key (lookup n.recs x)) (key (lookup (ops.foldl (fun n op => (step n op).1) n).recs x)) ∨ histRegress n ops x := by
  induction ops generalizing n with
  | nil => left; exact kle_refl _
  | cons op ops ih =>
    simp only [List.foldl_cons, histRegress]
    have hx' : x ≠ (step n op).1.cfg.self := by rw [step_cfg]; exact hx
    rcases C01_step_forward n op x hx with h1 | h1
    · rcases ih (step n op).1 hx' with h2 | h2
      · left; exact kle_trans h1 h2
      · right; right; exact h2
    · right; left; exact h1

/-- non-vacuity: a stale alive claim on a concrete node state is a no-op, a newer one is accepted -/
example :
    let cfg : Cfg := { self := "S", reclaim := false, hasAliveDelegate := false, hasConflictDelegate := true, awarenessMax := 8, suspicionK := 2 }
    let r : Rec := { name := "n1", inc := 3, st := .suspect, addr := 1, port := 0, md := 1, vsn := [1,5,2,0,0,0], changed := some 1 }
    let n : Node := { cfg, recs := [r] }
    let env : Env := { now := 5, ipAllowed := true, delegateOk := true, offset := 0 }
    (aliveNode n { inc := 3, node := "n1", addr := 1, port := 0, md := 2, vsn := [1,5,2,0,0,0] } false false env).1.recs = [r] ∧
    ((aliveNode n { inc := 4, node := "n1", addr := 1, port := 0, md := 2, vsn := [1,5,2,0,0,0] } false false env).1.recs.map (·.st)) = [.alive] := by
  decide

end Swim.Merge
