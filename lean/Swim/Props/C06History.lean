import Swim.Props.C06
import Swim.Props.C07
/-!
# C06 over histories: the confirmation bookkeeping of every suspicion timer

For every sequence of operations of the single-node model (hence, by projection, for every node of
every cluster history): every live suspicion timer belongs to a member that is currently held as
suspect, there is at most one timer per member, its confirmers are pairwise distinct with the
original accuser first, and the number of confirmations counted is the number of confirmers minus
the accuser and never exceeds the expected number `k`.
-/
namespace Swim.Merge

def TimerOk (n : Node) : Prop :=
  (n.timers.map (·.node)).Nodup ∧
  ∀ t ∈ n.timers, t.confirmers.Nodup ∧ t.n + 1 = t.confirmers.length ∧ t.n ≤ t.k ∧
    ∃ r, lookup n.recs t.node = some r ∧ r.st = .suspect

theorem delTimer_sub {ts : List Timer} {name : String} {t : Timer} (h : t ∈ delTimer ts name) :
    t ∈ ts ∧ t.node ≠ name := by
  simp only [delTimer, List.mem_filter, bne_iff_ne, ne_eq] at h
  exact h

theorem delTimer_nodup {ts : List Timer} (name : String) (h : (ts.map (·.node)).Nodup) :
    ((delTimer ts name).map (·.node)).Nodup := by
  simp only [delTimer]
  exact List.Nodup.sublist (List.Sublist.map _ List.filter_sublist) h

/-- removing the timer of `name` and changing only the record of `name` keeps the invariant -/
theorem timerOk_del (n : Node) (name : String) (recs' : List Rec) (h : TimerOk n)
    (hrecs : ∀ y, y ≠ name → lookup recs' y = lookup n.recs y) :
    (((delTimer n.timers name).map (·.node)).Nodup) ∧
    ∀ t ∈ delTimer n.timers name, t.confirmers.Nodup ∧ t.n + 1 = t.confirmers.length ∧ t.n ≤ t.k ∧
      ∃ r, lookup recs' t.node = some r ∧ r.st = .suspect := by
  refine ⟨delTimer_nodup name h.1, ?_⟩
  intro t ht
  obtain ⟨hm, hne⟩ := delTimer_sub ht
  obtain ⟨a, b, c, r, hr, hs⟩ := h.2 t hm
  exact ⟨a, b, c, r, by rw [hrecs t.node hne]; exact hr, hs⟩

theorem confirm_ok (t : Timer) (frm : String) (h : t.confirmers.Nodup ∧ t.n + 1 = t.confirmers.length ∧ t.n ≤ t.k) :
    (t.confirm frm).1.confirmers.Nodup ∧ (t.confirm frm).1.n + 1 = (t.confirm frm).1.confirmers.length ∧
    (t.confirm frm).1.n ≤ (t.confirm frm).1.k ∧ (t.confirm frm).1.node = t.node := by
  unfold Timer.confirm
  by_cases h1 : t.n ≥ t.k
  · simp only [h1, ↓reduceIte]; exact ⟨h.1, h.2.1, h.2.2, trivial⟩
  · simp only [h1, ↓reduceIte]
    by_cases h2 : t.confirmers.contains frm = true
    · simp only [h2, ↓reduceIte]; exact ⟨h.1, h.2.1, h.2.2, trivial⟩
    · simp only [h2, Bool.false_eq_true, ↓reduceIte]
      refine ⟨?_, by simp; omega, by omega, trivial⟩
      rw [List.nodup_append]
      refine ⟨h.1, by simp, ?_⟩
      intro a ha b hb
      simp only [List.mem_singleton] at hb
      subst hb
      intro e; subst e
      exact h2 (by simpa using ha)

theorem lookup_filter_found (l : List Rec) (p : Rec → Bool) (x : String) (r : Rec)
    (h : lookup l x = some r) (hp : p r = true) : lookup (l.filter p) x = some r := by
  induction l with
  | nil => cases h
  | cons a l ih =>
    simp only [lookup, List.find?_cons] at h ⊢
    by_cases ha : (a.name == x) = true
    · simp only [ha] at h
      cases h
      simp [List.filter_cons, hp, ha]
    · simp only [ha] at h
      by_cases hpa : p a = true
      · simp only [List.filter_cons, hpa, ↓reduceIte, List.find?_cons, ha]
        exact ih h
      · simp only [List.filter_cons, hpa, Bool.false_eq_true, ↓reduceIte]
        exact ih h

/-- keeping the timer list while records of timed members stay suspect -/
theorem timerOk_same (n n' : Node) (h : TimerOk n) (ht : n'.timers = n.timers)
    (hr : ∀ t ∈ n.timers, ∀ r, lookup n.recs t.node = some r → r.st = .suspect →
      ∃ r', lookup n'.recs t.node = some r' ∧ r'.st = .suspect) : TimerOk n' := by
  refine ⟨by rw [ht]; exact h.1, ?_⟩
  intro t htm
  rw [ht] at htm
  obtain ⟨a, b, c, r, hl, hs⟩ := h.2 t htm
  exact ⟨a, b, c, hr t htm r hl hs⟩

theorem timerOk_delTimer (n n' : Node) (name : String) (h : TimerOk n) (ht : n'.timers = delTimer n.timers name)
    (hrecs : ∀ y, y ≠ name → lookup n'.recs y = lookup n.recs y) : TimerOk n' := by
  obtain ⟨a, b⟩ := timerOk_del n name n'.recs h hrecs
  exact ⟨by rw [ht]; exact a, by rw [ht]; exact b⟩

theorem refute_timerOk (n : Node) (me : Rec) (acc : Nat) (h : TimerOk n) (hme : lookup n.recs me.name = some me)
    (hal : me.st ≠ .suspect) : TimerOk (refute n me acc).1 := by
  apply timerOk_same n _ h (by simp [refute])
  intro t _ r hl hs
  by_cases e : t.node = me.name
  · rw [e, hme] at hl; cases hl; exact absurd hs hal
  · refine ⟨r, ?_, hs⟩
    simp only [refute]
    rw [lookup_setRec_ne n.recs _ t.node (by simpa using e)]; exact hl

theorem suspect_timerOk (n : Node) (s : Claim) (env : Env) (h : TimerOk n) : TimerOk (suspectNode n s env).1 := by
  unfold suspectNode
  cases hl : lookup n.recs s.node with
  | none => exact h
  | some state =>
    have hsn := lookup_name hl
    simp only
    split
    · exact h
    · cases hf : n.timers.find? (·.node == s.node) with
      | some t =>
        simp only
        have htm : t ∈ n.timers := List.mem_of_find?_eq_some hf
        have htn : t.node = s.node := by simpa using List.find?_some hf
        obtain ⟨c1, c2, c3, c4⟩ := confirm_ok t s.frm ⟨(h.2 t htm).1, (h.2 t htm).2.1, (h.2 t htm).2.2.1⟩
        split
        · refine ⟨?_, ?_⟩
          · simp only [List.map_map]
            have : (fun x : Timer => x.node) ∘ (fun x => if (x.node == s.node) = true then (t.confirm s.frm).1 else x) =
                fun x : Timer => x.node := by
              funext x
              simp only [Function.comp]
              split
              · rename_i hx; rw [c4, htn]; exact (by simpa using hx : x.node = s.node).symm
              · rfl
            rw [this]; exact h.1
          · intro t' ht'
            simp only [List.mem_map] at ht'
            obtain ⟨t0, ht0, rfl⟩ := ht'
            split
            · refine ⟨c1, c2, c3, ?_⟩
              rw [c4]; exact (h.2 t htm).2.2.2
            · exact h.2 t0 ht0
        · exact h
      | none =>
        simp only
        split
        · exact h
        · rename_i hnal
          have hal : state.st = .alive := by simpa using hnal
          split
          · exact refute_timerOk n state s.inc h (by rw [hsn]; exact hl) (by rw [hal]; simp)
          · -- a new suspicion
            have hno : ∀ t ∈ n.timers, t.node ≠ s.node := by
              intro t ht e
              have := List.find?_eq_none.mp hf t ht
              simp [e] at this
            refine ⟨?_, ?_⟩
            · simp only [List.map_append, List.map_cons, List.map_nil]
              rw [List.nodup_append]
              refine ⟨h.1, by simp, ?_⟩
              intro a ha b hb
              simp only [List.mem_singleton] at hb
              obtain ⟨t, ht, rfl⟩ := List.mem_map.mp ha
              rw [hb]; exact hno t ht
            · intro t ht
              simp only [List.mem_append, List.mem_singleton] at ht
              rcases ht with ht | rfl
              · obtain ⟨a, b, c, r, hr, hs⟩ := h.2 t ht
                refine ⟨a, b, c, r, ?_, hs⟩
                rw [lookup_setRec_ne _ _ _ (by simp only [hsn]; exact hno t ht)]; exact hr
              · refine ⟨by simp, rfl, Nat.zero_le _, { state with inc := s.inc, st := .suspect, changed := some env.now }, ?_, rfl⟩
                have := lookup_setRec_self n.recs { state with inc := s.inc, st := .suspect, changed := some env.now }
                  (by simp only [hsn, hl]; rfl)
                simpa [hsn] using this

theorem dead_timerOk (n : Node) (d : Claim) (env : Env) (h : TimerOk n) : TimerOk (deadNode n d env).1 := by
  have hframe := fun y hy => C01_dead_frame n d env y hy
  unfold deadNode at hframe ⊢
  cases hl : lookup n.recs d.node with
  | none => exact h
  | some state =>
    rw [hl] at hframe
    simp only at hframe ⊢
    split
    · exact h
    · rename_i hst
      simp only [hst, ↓reduceIte] at hframe
      split
      · exact timerOk_delTimer n _ d.node h rfl (fun y _ => rfl)
      · rename_i hd
        simp only [hd, ↓reduceIte] at hframe
        split
        · rename_i hs
          simp only [hs, ↓reduceIte] at hframe
          exact timerOk_delTimer n _ d.node h (by simp [refute]) hframe
        · rename_i hs
          simp only [hs, ↓reduceIte] at hframe
          exact timerOk_delTimer n _ d.node h rfl hframe

theorem lookup_append_left (l m : List Rec) (x : String) (r : Rec) (h : lookup l x = some r) :
    lookup (l ++ m) x = some r := by
  simp only [lookup, List.find?_append] at *
  simp [h]

theorem alive_timerOk (n : Node) (a : AliveMsg) (nt b : Bool) (env : Env) (h : TimerOk n) :
    TimerOk (aliveNode n a nt b env).1 := by
  have hframe := fun y hy => C01_alive_frame n a nt b env y hy
  unfold aliveNode at hframe ⊢
  cases hdec : aliveDecide n a b env with
  | ignore => exact h
  | conflict => exact h
  | stubOnly =>
    refine timerOk_same n (aliveApply n a nt env .stubOnly).1 h (by simp [aliveApply, withStub]) ?_
    intro t _ r hl hs
    exact ⟨r, by simp only [aliveApply, withStub]; exact lookup_append_left _ _ _ _ hl, hs⟩
  | delTimerOnly isNew =>
    rw [hdec] at hframe
    apply timerOk_delTimer n _ a.node h (by cases isNew <;> simp [aliveApply, withStub]) hframe
  | refuteSelf isNew =>
    rw [hdec] at hframe
    apply timerOk_delTimer n _ a.node h (by cases isNew <;> simp [aliveApply, withStub, refute]) hframe
  | accept isNew =>
    rw [hdec] at hframe
    apply timerOk_delTimer n _ a.node h (by cases isNew <;> simp [aliveApply, withStub]) hframe

theorem mergeOne_timerOk (n : Node) (r : PushState) (now : Nat) (h : TimerOk n) : TimerOk (mergeOne n r now).1 := by
  unfold mergeOne
  cases r.st
  · exact alive_timerOk n _ false false _ h
  · exact suspect_timerOk n _ _ h
  · exact suspect_timerOk n _ _ h
  · exact dead_timerOk n _ _ h

theorem step_timerOk (n : Node) (op : Op) (h : TimerOk n) : TimerOk (step n op).1 := by
  cases op with
  | alive a b env => exact alive_timerOk n a false b env h
  | suspect c env => exact suspect_timerOk n c env h
  | dead c env => exact dead_timerOk n c env h
  | merge rs now =>
    simp only [step, mergeState]
    rw [mergeFold_eq]
    induction rs generalizing n with
    | nil => exact h
    | cons r rs ih => simp only [List.foldl_cons]; exact ih _ (mergeOne_timerOk n r now h)
  | fire node ca env =>
    simp only [step, timerFire]
    cases lookup n.recs node with
    | none => exact h
    | some state =>
      simp only
      split
      · exact dead_timerOk n _ _ h
      · exact h
  | reap =>
    refine timerOk_same n (step n .reap).1 h (by simp [step, reap]) ?_
    intro t _ r hl hs
    refine ⟨r, ?_, hs⟩
    simp only [step, reap]
    exact lookup_filter_found _ _ _ _ hl (by simp [hs, St.deadOrLeft])
  | update addr port md vsn env => exact alive_timerOk { n with selfInc := (n.selfInc + 1) % u32 } _ true true env h
  | leave env =>
    simp only [step, leave]
    split
    · exact h
    · cases lookup n.recs n.cfg.self with
      | none => exact h
      | some state => exact dead_timerOk { n with hasLeft := true } _ env h
  | age nm =>
    refine timerOk_same n (step n (.age nm)).1 h (by simp [step, ageRec]) ?_
    intro t _ r hl hs
    simp only [step, ageRec]
    rw [lookup_map_namePreserving _ _ (by intro q; split <;> rfl) t.node, hl]
    simp only [Option.map_some]
    refine ⟨_, rfl, ?_⟩
    split <;> exact hs

/-- **C06_history_confirmations.** Over every sequence of operations, starting from a node without
timers: every live suspicion timer belongs to a member currently held as suspect, no member has two
timers, the confirmers of a timer are pairwise distinct (each counts once; the accuser, recorded
first, is never counted), and the count equals the confirmers beyond the accuser, never above `k`. -/
theorem C06_history_confirmations (n : Node) (ops : List Op) (h : TimerOk n) :
    TimerOk (ops.foldl (fun n op => (step n op).1) n) := by
  induction ops generalizing n with
  | nil => exact h
  | cons op ops ih => exact ih _ (step_timerOk n op h)

theorem timerOk_fresh (n : Node) (h : n.timers = []) : TimerOk n := by
  refine ⟨by rw [h]; simp, ?_⟩
  intro t ht; rw [h] at ht; cases ht

end Swim.Merge
