import Swim.Gen.Facts
import Swim.Model.Merge
import Swim.Model.Lifecycle
/-!
# C20  Lifecycle safety: Leave/Shutdown and the query API in any order and interleaving
Logic part: a sequential model of the lifecycle stages and the outcome of each public call,
plus structural facts regenerated from the source. Data races and deadlocks among real
goroutines are observed by the simulator (virtual time, goroutine accounting), not proved.
-/
namespace Swim.Lifecycle

/-- **api_total.** Over every sequence of public calls and ageing steps, the only panic is the
documented Leave-after-Shutdown, and no call blocks. -/
theorem C20_api_total (calls : List (Option Call)) (s : Stage) :
    ∀ c ∈ (calls.foldl (fun (acc : Stage × List Outcome) oc => match oc with
        | none => (age acc.1, acc.2)
        | some c => (next acc.1 c, acc.2 ++ [outcome acc.1 c])) (s, [])).2,
      c ≠ .PANIC ∧ c ≠ .BLOCKS := by
  have key : ∀ (st : Stage) (c : Call), outcome st c ≠ .PANIC ∧ outcome st c ≠ .BLOCKS := by
    intro st c; cases st <;> cases c <;> simp [outcome]
  suffices h : ∀ (acc : Stage × List Outcome), (∀ c ∈ acc.2, c ≠ .PANIC ∧ c ≠ .BLOCKS) →
      ∀ c ∈ (calls.foldl (fun (acc : Stage × List Outcome) oc => match oc with
        | none => (age acc.1, acc.2)
        | some c => (next acc.1 c, acc.2 ++ [outcome acc.1 c])) acc).2, c ≠ .PANIC ∧ c ≠ .BLOCKS by
    exact h (s, []) (by simp)
  induction calls with
  | nil => intro acc h; exact h
  | cons oc rest ih =>
    intro acc h
    simp only [List.foldl_cons]
    apply ih
    cases oc with
    | none => exact h
    | some c =>
      intro x hx
      simp only [List.mem_append, List.mem_singleton] at hx
      rcases hx with hx | rfl
      · exact h x hx
      · exact key acc.1 c

/-- **shutdown_idempotent / leave_idempotent** in the stage model -/
theorem C20_idempotent (s : Stage) :
    next (next s .shutdownC) .shutdownC = next s .shutdownC ∧ outcome (next s .shutdownC) .shutdownC = .ok ∧
    (s = .joined → outcome (next s .leave) .leave = .ok ∧ next (next s .leave) .leave = next s .leave) := by
  cases s <;> simp [next, outcome]

/-- **shutdown_closes_transport_first (fact theorem).** In `Memberlist.Shutdown` the transport is shut
down before the shutdown flag is stored and before the shutdown channel is closed and the tickers
are stopped, all under `shutdownLock`. -/
theorem C20_shutdown_closes_transport_first :
    Gen.shutdownCalls = ["m.shutdownLock.Lock", "m.shutdownLock.Unlock", "m.hasShutdown", "m.transport.Shutdown",
      "m.logger.Printf", "m.shutdown.Store", "close", "m.deschedule"] := by decide

/-- **goroutines_select_on_shutdown (fact theorem).** Every endless for/select loop of the package
has a case receiving from the shutdown channel (or the ticker stop channel closed by `deschedule`). -/
theorem C20_goroutines_select_on_shutdown :
    Gen.loopSites.all (fun s => s.2 == "selects-shutdown") = true ∧
    (Gen.loopSites.map (·.1)) = ["Memberlist.checkBroadcastQueueDepth", "Memberlist.packetHandler", "Memberlist.packetListen",
      "Memberlist.pushPullTrigger", "Memberlist.streamListen", "Memberlist.triggerFunc"] := by decide

/-- the goroutines the package starts (fact theorem): a new `go` statement shows up here -/
theorem C20_go_sites :
    Gen.goSites = [("Memberlist.handleIndirectPing", "func-literal"), ("Memberlist.probeNode", "func-literal"),
      ("Memberlist.schedule", "m.pushPullTrigger"), ("Memberlist.schedule", "m.triggerFunc"),
      ("Memberlist.schedule", "m.triggerFunc"), ("Memberlist.streamListen", "m.handleConn"),
      ("NewNetTransport", "t.tcpListen"), ("NewNetTransport", "t.udpListen"),
      ("newMemberlist", "m.checkBroadcastQueueDepth"), ("newMemberlist", "m.packetHandler"),
      ("newMemberlist", "m.packetListen"), ("newMemberlist", "m.streamListen"), ("suspicion.Confirm", "s.timeoutFn")] := by
  decide

end Swim.Lifecycle

namespace Swim.Merge

/-- **own record is never reaped** (fixed code, known_findings `fixed:` C20 361d109): whatever the
state of the local record, `resetNodes` keeps it, so LocalNode / UpdateNode / Leave always find it. -/
theorem C20_reap_keeps_self (n : Node) (me : Rec) (h : me ∈ n.recs) (hname : me.name = n.cfg.self) :
    me ∈ (reap n).recs := by
  simp only [reap, List.mem_filter, h, true_and]
  simp [hname]

end Swim.Merge
