import Swim.Gen.Facts
import Swim.Model.Merge
import Swim.Model.Lifecycle
/-!
# C20  Lifecycle safety: Leave/Shutdown and the query API in any order and interleaving
Logic part: a sequential model of the lifecycle stages and the outcome of each public call,
plus structural facts regenerated from the source. Data races and deadlocks among real
goroutines are observed by the simulator (virtual time, goroutine accounting), not proved.
-/
namespace Swim.Lifecycle

theorem next_selfListed (s : Stage) (c : Call) : (next s c).selfListed = s.selfListed := by
  cases s <;> cases c <;> rfl

theorem age_selfListed (s : Stage) : (age s).selfListed = s.selfListed := by
  cases s <;> rfl

/-- **api_total** (partial: stages in which the node is a member of itself, i.e. its own record was
admitted at creation). Over every sequence of public calls and ageing steps, the only panic is the
documented Leave-after-Shutdown, and no call blocks. The full statement (every stage) is false on
the current code: see `C20_api_total_fails_when_self_denied`. -/
theorem C20_api_total_partial (calls : List (Option Call)) (s : Stage) (hs : s.selfListed = true) :
    ∀ c ∈ (calls.foldl (fun (acc : Stage × List Outcome) oc => match oc with
        | none => (age acc.1, acc.2)
        | some c => (next acc.1 c, acc.2 ++ [outcome acc.1 c])) (s, [])).2,
      c ≠ .PANIC ∧ c ≠ .BLOCKS := by
  have key : ∀ (st : Stage) (c : Call), st.selfListed = true → outcome st c ≠ .PANIC ∧ outcome st c ≠ .BLOCKS := by
    intro st c; cases st <;> cases c <;> simp [outcome, Stage.selfListed]
  suffices h : ∀ (acc : Stage × List Outcome), acc.1.selfListed = true → (∀ c ∈ acc.2, c ≠ .PANIC ∧ c ≠ .BLOCKS) →
      ∀ c ∈ (calls.foldl (fun (acc : Stage × List Outcome) oc => match oc with
        | none => (age acc.1, acc.2)
        | some c => (next acc.1 c, acc.2 ++ [outcome acc.1 c])) acc).2, c ≠ .PANIC ∧ c ≠ .BLOCKS by
    exact h (s, []) hs (by simp)
  induction calls with
  | nil => intro acc _ h; exact h
  | cons oc rest ih =>
    intro acc hl h
    simp only [List.foldl_cons]
    cases oc with
    | none => exact ih _ (by simpa [age_selfListed] using hl) h
    | some c =>
      apply ih _ (by simpa [next_selfListed] using hl)
      intro x hx
      simp only [List.mem_append, List.mem_singleton] at hx
      rcases hx with hx | rfl
      · exact h x hx
      · exact key acc.1 c hl

/-- the premise is met by the stage every simulator run starts in -/
example : Stage.joined.selfListed = true := rfl

/-- **the full statement fails** (known finding C20-selfdenied-localnode): at the stage reached by
`Create` with a configuration that refuses the node's own address, `LocalNode` panics; the stage
table is compared with the real calls on every run (`denied:LocalNode=PANIC…`). -/
theorem C20_api_total_fails_when_self_denied :
    ∃ s c, outcome s c = .PANIC ∧ s.selfListed = false := ⟨.denied, .localNode, rfl, rfl⟩

/-- every other call is total at the self-denied stages as well (fixed code, known_findings `fixed:`
C20 c3262bb Leave, 784c1b7 UpdateNode) -/
theorem C20_self_denied_others_total (s : Stage) (c : Call) (hc : c ≠ .localNode) :
    outcome s c ≠ .PANIC ∧ outcome s c ≠ .BLOCKS := by
  cases s <;> cases c <;> simp [outcome] at hc ⊢

/-- **shutdown_idempotent / leave_idempotent** in the stage model -/
theorem C20_idempotent (s : Stage) :
    next (next s .shutdownC) .shutdownC = next s .shutdownC ∧ outcome (next s .shutdownC) .shutdownC = .ok ∧
    (s = .joined → outcome (next s .leave) .leave = .ok ∧ next (next s .leave) .leave = next s .leave) := by
  cases s <;> simp [next, outcome]

/-- **shutdown_closes_transport_first (fact theorem).** In `Memberlist.Shutdown` the transport is shut
down before the shutdown flag is stored and before the shutdown channel is closed and the tickers
are stopped, all under `shutdownLock`. -/
theorem C20_shutdown_closes_transport_first :
    Gen.shutdownCalls = ["m.shutdownLock.Lock", "m.shutdownLock.Unlock", "m.hasShutdown", "m.transport.Shutdown",
      "m.logger.Printf", "m.shutdown.Store", "close", "m.deschedule"] := by decide

/-- **goroutines_select_on_shutdown (fact theorem).** Every endless for/select loop of the package
has a case receiving from the shutdown channel (or the ticker stop channel closed by `deschedule`). -/
theorem C20_goroutines_select_on_shutdown :
    Gen.loopSites.all (fun s => s.2 == "selects-shutdown") = true ∧
    (Gen.loopSites.map (·.1)) = ["Memberlist.checkBroadcastQueueDepth", "Memberlist.packetHandler", "Memberlist.packetListen",
      "Memberlist.pushPullTrigger", "Memberlist.streamListen", "Memberlist.triggerFunc"] := by decide

/-- the goroutines the package starts (fact theorem): a new `go` statement shows up here -/
theorem C20_go_sites :
    Gen.goSites = [("Memberlist.handleIndirectPing", "func-literal"), ("Memberlist.probeNode", "func-literal"),
      ("Memberlist.schedule", "m.pushPullTrigger"), ("Memberlist.schedule", "m.triggerFunc"),
      ("Memberlist.schedule", "m.triggerFunc"), ("Memberlist.streamListen", "m.handleConn"),
      ("NewNetTransport", "t.tcpListen"), ("NewNetTransport", "t.udpListen"),
      ("newMemberlist", "m.checkBroadcastQueueDepth"), ("newMemberlist", "m.packetHandler"),
      ("newMemberlist", "m.packetListen"), ("newMemberlist", "m.streamListen"), ("suspicion.Confirm", "s.timeoutFn")] := by
  decide

/-- **lock order (fact theorem).** The broadcast queue calls its cluster-size callback while holding the
queue mutex; membership updates take the node lock first and the queue mutex second. The callback
therefore must not take the node lock: it reads the lock-free estimate and nothing else. -/
theorem C20_numNodes_callback_lock_free : Gen.numNodesCallbackCalls = ["m.estNumNodes"] := by decide

end Swim.Lifecycle

namespace Swim.Merge

/-- **own record is never reaped** (fixed code, known_findings `fixed:` C20 361d109): whatever the
state of the local record, `resetNodes` keeps it, so LocalNode / UpdateNode / Leave always find it. -/
theorem C20_reap_keeps_self (n : Node) (me : Rec) (h : me ∈ n.recs) (hname : me.name = n.cfg.self) :
    me ∈ (reap n).recs := by
  simp only [reap, List.mem_filter, h, true_and]
  simp [hname]

end Swim.Merge
