import Swim.Props.C11
import Swim.Props.C16
/-!
# C12  The wire pipeline round-trips every message under every configuration

Byte-exact layers (PKCS7, label, compound — C11/C16) are proved outright; the packet pipeline
is proved over abstract primitives whose laws are hypotheses (compression, AEAD, checksum).
-/
namespace Swim.Codec

theorem getLast?_append_replicate (buf : Bytes) (k : Nat) (x : UInt8) (hk : 0 < k) :
    (buf ++ List.replicate k x).getLast? = some x := by
  rw [List.getLast?_append]
  cases k with
  | zero => omega
  | succ n => simp [List.getLast?_replicate]

/-- **pkcs7_roundtrip.** Padding to a 16-byte block and stripping it returns the original
buffer, and the padded buffer passes the validity check the receiver applies. -/
theorem C12_pkcs7_roundtrip (buf : Bytes) :
    pkcs7valid (pkcs7pad buf 16) 16 = true ∧ pkcs7strip (pkcs7pad buf 16) = buf := by
  have hm : 0 < 16 - buf.length % 16 ∧ 16 - buf.length % 16 ≤ 16 := by omega
  have hto : (UInt8.ofNat (16 - buf.length % 16)).toNat = 16 - buf.length % 16 := by
    simp [UInt8.toNat_ofNat']; omega
  have hlast := getLast?_append_replicate buf (16 - buf.length % 16) (UInt8.ofNat (16 - buf.length % 16)) hm.1
  constructor
  · simp only [pkcs7valid, pkcs7pad, hlast, hto, List.length_append, List.length_replicate]
    have h1 : (buf.length + (16 - buf.length % 16)) % 16 = 0 := by omega
    have h2 : buf.length + (16 - buf.length % 16) - (16 - buf.length % 16) = buf.length := by omega
    simp only [h1, h2, List.drop_left', beq_self_eq_true, Bool.true_and]
    simp [hm.1, hm.2, List.all_replicate]
    omega
  · simp only [pkcs7strip, pkcs7pad, hlast, hto, List.length_append, List.length_replicate]
    have h2 : buf.length + (16 - buf.length % 16) - (16 - buf.length % 16) = buf.length := by omega
    rw [h2, List.take_left']
    rfl

/-- the padded length is the one `encryptedLength` budgets for version 0 -/
theorem C12_pkcs7_length (buf : Bytes) : (pkcs7pad buf 16).length = buf.length + (16 - buf.length % 16) := by
  simp [pkcs7pad]

/-! ### the packet pipeline over abstract primitives -/

/-- primitives of the pipeline with the laws the round-trip needs -/
structure Prims where
  compress : Bytes → Bytes
  decompress : Bytes → Option Bytes
  sealB : (key nonce aad plain : Bytes) → Bytes
  openB : (key nonce aad ct : Bytes) → Option Bytes
  crc : Bytes → Bytes                     -- 4 bytes
  decompress_compress : ∀ x, decompress (compress x) = some x
  open_seal : ∀ k n a p, openB k n a (sealB k n a p) = some p
  crc_len : ∀ x, (crc x).length = 4

structure SendCfg where
  label : Bytes
  key : Option Bytes       -- primary key when encryption is on
  nonce : Bytes            -- 12 bytes drawn by the sender
  compress : Bool
  crc : Bool
  vsn1 : Bool              -- encryption version 1 (no padding) / 0 (PKCS7)

def compLayer (P : Prims) (on : Bool) (msg : Bytes) : Bytes :=
  if on then UInt8.ofNat Gen.c_compressMsg :: P.compress msg else msg

def crcLayer (P : Prims) (on : Bool) (m : Bytes) : Bytes :=
  if on then UInt8.ofNat Gen.c_hasCrcMsg :: (P.crc m ++ m) else m

def encLayer (P : Prims) (c : SendCfg) (m : Bytes) : Bytes :=
  match c.key with
  | none => m
  | some k =>
    if c.vsn1 then (1 : UInt8) :: (c.nonce ++ P.sealB k c.nonce c.label m)
    else (0 : UInt8) :: (c.nonce ++ P.sealB k c.nonce c.label (pkcs7pad m 16))

/-- `rawSendMsgPacket` followed by the label-wrapping transport; `useComp` is the sender's
"compression made it smaller" decision -/
def sendPacket (P : Prims) (c : SendCfg) (useComp : Bool) (msg : Bytes) : Bytes :=
  addLabel c.label (encLayer P c (crcLayer P c.crc (compLayer P (c.compress && useComp) msg)))

def unEnc (P : Prims) (key : Option Bytes) (aad : Bytes) (b : Bytes) : Option Bytes :=
  match key with
  | none => some b
  | some k =>
    match b with
    | v :: rest =>
      if v == 1 then P.openB k (rest.take 12) aad (rest.drop 12)
      else if v == 0 then
        (P.openB k (rest.take 12) aad (rest.drop 12)).bind fun p => if pkcs7valid p 16 then some (pkcs7strip p) else none
      else none
    | [] => none

def unCrc (P : Prims) (b : Bytes) : Option Bytes :=
  match b with
  | t :: rest =>
    if t.toNat == Gen.c_hasCrcMsg && decide (b.length ≥ 5) then
      (if rest.take 4 == P.crc (rest.drop 4) then some (rest.drop 4) else none)
    else some b
  | [] => some b

def unComp (P : Prims) (b : Bytes) : Option Bytes :=
  match b with
  | t :: rest => if t.toNat == Gen.c_compressMsg then P.decompress rest else some b
  | [] => some b

/-- the receiver's side of the same layers, for a receiver configured with label and key;
returns the message handed on after the decompression layer -/
def recvPacket (P : Prims) (label : Bytes) (key : Option Bytes) (buf : Bytes) : Option Bytes :=
  match removeLabel buf with
  | .error _ => none
  | .ok (b1, carried) =>
    match labelGate label false carried with
    | none => none
    | some l => ((unEnc P key l b1).bind (unCrc P)).bind (unComp P)

theorem unComp_compLayer (P : Prims) (on : Bool) (t : UInt8) (rest : Bytes)
    (ht : t.toNat ≠ Gen.c_compressMsg) : unComp P (compLayer P on (t :: rest)) = some (t :: rest) := by
  cases on
  · have : (t.toNat == Gen.c_compressMsg) = false := by simpa using ht
    simp [compLayer, unComp, this]
  · have h9 : ((UInt8.ofNat Gen.c_compressMsg).toNat == Gen.c_compressMsg) = true := by decide
    simp only [compLayer, ↓reduceIte, unComp, h9, P.decompress_compress]

theorem compLayer_head (P : Prims) (on : Bool) (t : UInt8) (rest : Bytes) :
    ∃ t' r', compLayer P on (t :: rest) = t' :: r' ∧ (t' = t ∨ t' = UInt8.ofNat Gen.c_compressMsg) := by
  cases on
  · exact ⟨t, rest, rfl, Or.inl rfl⟩
  · exact ⟨_, _, rfl, Or.inr rfl⟩

theorem unCrc_crcLayer (P : Prims) (on : Bool) (t : UInt8) (rest : Bytes)
    (ht : t.toNat ≠ Gen.c_hasCrcMsg) : unCrc P (crcLayer P on (t :: rest)) = some (t :: rest) := by
  cases on
  · have : (t.toNat == Gen.c_hasCrcMsg) = false := by simpa using ht
    simp [crcLayer, unCrc, this]
  · have h12 : ((UInt8.ofNat Gen.c_hasCrcMsg).toNat == Gen.c_hasCrcMsg) = true := by decide
    have h4 := P.crc_len (t :: rest)
    have hlen : (UInt8.ofNat Gen.c_hasCrcMsg :: (P.crc (t :: rest) ++ t :: rest)).length ≥ 5 := by
      simp [h4]
    simp only [crcLayer, ↓reduceIte, unCrc, h12, hlen, decide_true, Bool.and_self, List.take_left' h4,
      List.drop_left' h4, beq_self_eq_true]

theorem crcLayer_head (P : Prims) (on : Bool) (t : UInt8) (rest : Bytes) :
    ∃ t' r', crcLayer P on (t :: rest) = t' :: r' ∧ (t' = t ∨ t' = UInt8.ofNat Gen.c_hasCrcMsg) := by
  cases on
  · exact ⟨t, rest, rfl, Or.inl rfl⟩
  · exact ⟨_, _, rfl, Or.inr rfl⟩

theorem unEnc_encLayer (P : Prims) (c : SendCfg) (m : Bytes) (hnonce : c.nonce.length = 12) :
    unEnc P c.key c.label (encLayer P c m) = some m := by
  unfold encLayer unEnc
  cases c.key with
  | none => rfl
  | some k =>
    by_cases hv : c.vsn1 = true
    · simp only [hv, ↓reduceIte, beq_self_eq_true, List.take_left' hnonce, List.drop_left' hnonce, P.open_seal]
    · have h01 : ((0 : UInt8) == 1) = false := by decide
      simp only [hv, Bool.false_eq_true, ↓reduceIte, h01, beq_self_eq_true, List.take_left' hnonce,
        List.drop_left' hnonce, P.open_seal, Option.bind_some, (C12_pkcs7_roundtrip m).1, (C12_pkcs7_roundtrip m).2]

theorem encLayer_head (P : Prims) (c : SendCfg) (t : UInt8) (rest : Bytes) :
    ∃ t' r', encLayer P c (t :: rest) = t' :: r' ∧ (t' = t ∨ t' = 0 ∨ t' = 1) := by
  unfold encLayer
  cases c.key with
  | none => exact ⟨t, rest, rfl, Or.inl rfl⟩
  | some k =>
    by_cases hv : c.vsn1 = true
    · simp only [hv, ↓reduceIte]; exact ⟨_, _, rfl, Or.inr (Or.inr rfl)⟩
    · simp only [hv, Bool.false_eq_true, ↓reduceIte]; exact ⟨_, _, rfl, Or.inr (Or.inl rfl)⟩

/-- **packet_roundtrip.** For every message whose first byte is an emitted message type other
than the checksum / compression / label markers (every protocol and user message qualifies),
every label of at most 255 bytes, key, 12-byte nonce, compression decision, checksum setting and
encryption version, the receiver recovers exactly the message the sender handed to the pipeline. -/
theorem C12_packet_roundtrip (P : Prims) (c : SendCfg) (useComp : Bool) (t : UInt8) (rest : Bytes)
    (ht : t.toNat ≠ Gen.c_hasCrcMsg ∧ t.toNat ≠ Gen.c_compressMsg ∧ t.toNat ≠ Gen.c_hasLabelMsg)
    (hlabel : c.label.length ≤ 255) (hnonce : c.nonce.length = 12) :
    recvPacket P c.label c.key (sendPacket P c useComp (t :: rest)) = some (t :: rest) := by
  obtain ⟨t1, r1, h1, h1t⟩ := compLayer_head P (c.compress && useComp) t rest
  have ht1 : t1.toNat ≠ Gen.c_hasCrcMsg ∧ t1.toNat ≠ Gen.c_hasLabelMsg := by
    rcases h1t with rfl | rfl
    · exact ⟨ht.1, ht.2.2⟩
    · decide
  obtain ⟨t2, r2, h2, h2t⟩ := crcLayer_head P c.crc t1 r1
  have ht2 : t2.toNat ≠ Gen.c_hasLabelMsg := by
    rcases h2t with rfl | rfl
    · exact ht1.2
    · decide
  obtain ⟨t3, r3, h3, h3t⟩ := encLayer_head P c t2 r2
  have ht3 : t3.toNat ≠ Gen.c_hasLabelMsg := by
    rcases h3t with rfl | rfl | rfl
    · exact ht2
    · decide
    · decide
  have hrm : removeLabel (addLabel c.label (t3 :: r3)) = .ok (t3 :: r3, c.label) := by
    by_cases hl : c.label = []
    · rw [hl]; exact C16_nolabel_roundtrip _ (by intro t' h; simp at h; subst h; exact ht3)
    · exact C16_label_roundtrip c.label _ (by cases hcl : c.label with | nil => exact absurd hcl hl | cons a b => simp) hlabel
  unfold sendPacket recvPacket
  rw [h1, h2, h3, hrm]
  simp only [labelGate, Bool.false_eq_true, ↓reduceIte, beq_self_eq_true]
  rw [← h3, unEnc_encLayer P c _ hnonce, Option.bind_some, ← h2, unCrc_crcLayer P c.crc t1 r1 ht1.1,
    Option.bind_some, ← h1, unComp_compLayer P _ t rest ht.2.1]

/-- every message type a node emits at the head of a packet payload satisfies the hypothesis of
`C12_packet_roundtrip` (fact theorem over the regenerated numbering) -/
theorem C12_emitted_types_ok :
    [Gen.c_pingMsg, Gen.c_indirectPingMsg, Gen.c_ackRespMsg, Gen.c_suspectMsg, Gen.c_aliveMsg, Gen.c_deadMsg,
     Gen.c_pushPullMsg, Gen.c_compoundMsg, Gen.c_userMsg, Gen.c_nackRespMsg, Gen.c_errMsg].all
      (fun t => t ≠ Gen.c_hasCrcMsg && t ≠ Gen.c_compressMsg && t ≠ Gen.c_hasLabelMsg && t < 256) = true := by decide

end Swim.Codec
