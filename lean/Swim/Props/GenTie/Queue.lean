import Swim.Gen.FuncsQueue
import Swim.Model.Queue
/-!
# The translated Go functions agree with the hand-written model (Queue)

`Swim.GenF.Queue` is regenerated on every run from `/repo`'s source by `tools/extract/translate.go`
(a tiny Go-to-Lean translator for loop-free integer functions). Each theorem states that the
translation of the function *as it is written in the repository now* computes what the
hand-written model computes, for every argument. A change to one of these Go functions changes
the generated definition, and the corresponding theorem stops checking.
-/
namespace Swim.GenTie.Queue
open Swim.GenF.Queue

/-- `limitedBroadcast.Less` (queue.go) = `Queue.less` -/
theorem bcastLess_tie (a b : Queue.Item) :
    bcastLess (a.id : Int) (b.id : Int) (a.len : Int) (b.len : Int) (a.tx : Int) (b.tx : Int) = Queue.less a b := by
  unfold bcastLess Queue.less
  by_cases h1 : a.tx < b.tx
  · have : (a.tx : Int) < (b.tx : Int) := by omega
    simp [h1, this]
  · by_cases h2 : a.tx > b.tx
    · have h1' : ¬ (a.tx : Int) < (b.tx : Int) := by omega
      have h2' : (a.tx : Int) > (b.tx : Int) := by omega
      simp [h1, h2, h1', h2']
    · have h1' : ¬ (a.tx : Int) < (b.tx : Int) := by omega
      have h2' : ¬ (a.tx : Int) > (b.tx : Int) := by omega
      by_cases h3 : a.len > b.len
      · have : (a.len : Int) > (b.len : Int) := by omega
        simp [h1, h2, h1', h2', h3, this]
      · by_cases h4 : a.len < b.len
        · have h3' : ¬ (a.len : Int) > (b.len : Int) := by omega
          have h4' : (a.len : Int) < (b.len : Int) := by omega
          simp [h1, h2, h1', h2', h3, h4, h3', h4']
        · have h3' : ¬ (a.len : Int) > (b.len : Int) := by omega
          have h4' : ¬ (a.len : Int) < (b.len : Int) := by omega
          simp only [h1, h2, h1', h2', h3, h4, h3', h4', if_false]
          by_cases h5 : a.id > b.id
          · have : (a.id : Int) > (b.id : Int) := by omega
            simp [h5, this]
          · have : ¬ (a.id : Int) > (b.id : Int) := by omega
            simp [h5, this]

/-- nothing was left out of the translated bodies -/
theorem dropped_calls_none : droppedCalls = [] := by decide

end Swim.GenTie.Queue
