import Swim.Gen.FuncsKeyring
import Swim.Model.Keyring
/-!
# The translated Go functions agree with the hand-written model (Keyring)

`Swim.GenF.Keyring` is regenerated on every run from `/repo`'s source by `tools/extract/translate.go`
(a tiny Go-to-Lean translator for loop-free integer functions). Each theorem states that the
translation of the function *as it is written in the repository now* computes what the
hand-written model computes, for every argument. A change to one of these Go functions changes
the generated definition, and the corresponding theorem stops checking.
-/
namespace Swim.GenTie.Keyring
open Swim.GenF.Keyring

/-- `ValidateKey` (keyring.go) = `Keyring.validLen` -/
theorem validateKey_tie (k : Keyring.Key) : validateKey (k.length : Int) = Keyring.validLen k := by
  unfold validateKey Keyring.validLen
  by_cases h16 : k.length = 16
  · simp [h16]
  · by_cases h24 : k.length = 24
    · simp [h24]
    · by_cases h32 : k.length = 32
      · simp [h32]
      · have a : ((k.length : Int) ≠ 16) := by omega
        have b : ((k.length : Int) ≠ 24) := by omega
        have c : ((k.length : Int) ≠ 32) := by omega
        simp [h16, h24, h32, a, b, c]

/-- nothing was left out of the translated bodies -/
theorem dropped_calls_none : droppedCalls = [] := by decide

end Swim.GenTie.Keyring
