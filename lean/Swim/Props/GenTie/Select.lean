import Swim.Gen.FuncsSelect
import Swim.Model.Select
/-!
# The translated exclusion rules agree with the hand-written model (Select)

`Swim.GenF.Select` is regenerated on every run from `/repo`'s source: the function literals that
`gossip`, `probeNode` and `pushPull` hand to `kRandomNodes` are translated to Lean by
`tools/extract/translate.go` (name comparisons become flag inputs, `time.Since(x)` an integer input).
Each theorem states that the rule *as it is written in the repository now* is the rule of the model
(`Swim.Select.gossipExcl`, `relayExcl`, `pushPullExcl`) for every argument; the theorems of
`Swim.Props.Select` are about the latter. `selectionCalls` (Gen.Facts) lists every call of the two
helpers with its arguments.
-/
namespace Swim.GenTie.Select
open Swim.GenF.Select

def flag (b : Bool) : Int := if b then 1 else 0

/-- `gossip()`'s rule = `Select.gossipExcl`, for every state code, age, window and name comparison -/
theorem gossipExclude_tie (isSelf : Bool) (state : Nat) (since window : Int) :
    gossipExclude (state : Int) since window (flag isSelf) =
      Swim.Select.gossipExcl isSelf state (decide (since > window)) := by
  unfold gossipExclude Swim.Select.gossipExcl flag
  cases isSelf <;> simp [Gen.c_StateAlive, Gen.c_StateSuspect, Gen.c_StateDead]
  all_goals (by_cases h0 : state = 0 <;> by_cases h1 : state = 1 <;> by_cases h2 : state = 2 <;> simp [h0, h1, h2] <;> omega)

/-- `probeNode()`'s relay rule = `Select.relayExcl` -/
theorem relayExclude_tie (isSelf isTarget : Bool) (state : Nat) :
    relayExclude (flag isSelf) (flag isTarget) (state : Int) = Swim.Select.relayExcl isSelf isTarget state := by
  unfold relayExclude Swim.Select.relayExcl flag
  cases isSelf <;> cases isTarget <;> simp [Gen.c_StateAlive] <;> by_cases h : state = 0 <;> simp [h]

/-- `pushPull()`'s partner rule = `Select.pushPullExcl` -/
theorem pushPullExclude_tie (isSelf : Bool) (state : Nat) :
    pushPullExclude (flag isSelf) (state : Int) = Swim.Select.pushPullExcl isSelf state := by
  unfold pushPullExclude Swim.Select.pushPullExcl flag
  cases isSelf <;> simp [Gen.c_StateAlive] <;> by_cases h : state = 0 <;> simp [h]

/-- nothing was left out of the translated bodies -/
theorem dropped_calls_none : droppedCalls = [] := by decide

/-- **C03 / C08 (fact).** The member list is reaped in exactly one place, with the gossip-to-the-dead
window (not another interval), and the three selections draw from the member list with the configured
fan-outs. -/
theorem C03_selection_call_sites :
    Gen.selectionCalls =
      [("kRandomNodes", "Memberlist.gossip", "m.config.GossipNodes", "m.nodes"),
       ("kRandomNodes", "Memberlist.probeNode", "m.config.IndirectChecks", "m.nodes"),
       ("kRandomNodes", "Memberlist.pushPull", "1", "m.nodes"),
       ("moveDeadNodes", "Memberlist.resetNodes", "m.nodes", "m.config.GossipToTheDeadTime")] := by decide

end Swim.GenTie.Select
