import Swim.Gen.FuncsCodec
import Swim.Model.Codec
/-!
# The translated Go functions agree with the hand-written model (Codec)

`Swim.GenF.Codec` is regenerated on every run from `/repo`'s source by `tools/extract/translate.go`
(a tiny Go-to-Lean translator for loop-free integer functions). Each theorem states that the
translation of the function *as it is written in the repository now* computes what the
hand-written model computes, for every argument. A change to one of these Go functions changes
the generated definition, and the corresponding theorem stops checking.
-/
namespace Swim.GenTie.Codec
open Swim.GenF.Codec

/-- Go's `%` on non-negative operands is the mathematical remainder -/
theorem tmod_nat (a b : Nat) : Int.tmod (a : Int) (b : Int) = ((a % b : Nat) : Int) := by
  exact (Int.ofNat_tmod a b).symm

/-- `encryptedLength` (security.go) = `Codec.encryptedLength`, every version and length -/
theorem encryptedLength_tie (vsn inp : Nat) :
    encryptedLength (vsn : Int) (inp : Int) = ((Codec.encryptedLength vsn inp : Nat) : Int) := by
  unfold encryptedLength Codec.encryptedLength
  by_cases h : vsn ≥ 1
  · have h' : ((vsn : Int) ≥ (1 : Int)) := by omega
    simp only [h, h', if_true]
    omega
  · have h' : ¬ ((vsn : Int) ≥ (1 : Int)) := by omega
    simp only [h, h', if_false]
    rw [tmod_nat]
    have hb : inp % Gen.c_blockSize < Gen.c_blockSize := Nat.mod_lt _ (by decide)
    omega

/-- `encryptOverhead` (security.go) = `Codec.encryptOverhead` on the two supported versions and panics elsewhere -/
theorem encryptOverhead_tie (vsn : Nat) :
    encryptOverhead (vsn : Int) = if vsn ≤ 1 then some ((Codec.encryptOverhead vsn : Nat) : Int) else none := by
  unfold encryptOverhead Codec.encryptOverhead
  match vsn with
  | 0 => rfl
  | 1 => rfl
  | n + 2 =>
    have h0 : ¬ (((n + 2 : Nat) : Int) = 0) := by omega
    have h1 : ¬ (((n + 2 : Nat) : Int) = 1) := by omega
    have h2 : ¬ (n + 2 ≤ 1) := by omega
    simp only [h0, h1, h2, if_false]

/-- `labelOverhead` (label.go) = `Codec.labelOverhead` -/
theorem labelOverhead_tie (label : Codec.Bytes) :
    labelOverhead (label.length : Int) = ((Codec.labelOverhead label : Nat) : Int) := by
  unfold labelOverhead Codec.labelOverhead
  cases label with
  | nil => simp
  | cons x xs =>
    have : ¬ (((x :: xs).length : Int) = 0) := by simp; omega
    simp only [this, if_false, List.isEmpty_cons, Bool.false_eq_true]
    omega

/-- `Memberlist.encryptionVersion` (net.go): protocol version 1 seals in the first format (padded blocks),
every other protocol version in the second -/
theorem encryptionVersion_tie (proto : Int) : encryptionVersion proto = if proto = 1 then 0 else 1 := by
  unfold encryptionVersion
  by_cases h : proto = 1 <;> simp [h]

/-- nothing was left out of the translated bodies -/
theorem dropped_calls_none : droppedCalls = [] := by decide

end Swim.GenTie.Codec
