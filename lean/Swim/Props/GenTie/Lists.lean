import Swim.Gen.FuncsLists
import Swim.Model.Select
/-!
# The translated loops over the member list and the allow-list agree with the model (Lists)

`Swim.GenF.Lists` is regenerated on every run from `/repo`'s source: `Memberlist.anyAlive`,
`Memberlist.NumMembers`, `Memberlist.Members`, `Config.IPMustBeChecked`, `Config.IPAllowed` and
`GenF.Lists.randomOffset`, translated by `tools/extract/translate.go` (a range loop over a slice with one guarded
`return`, `x++` or `append` becomes `List.any` / `List.countP` / `List.filter` over the features of an
element the guard reads). The theorems state, for every list, that the code as written now is the
model, and two consequences that hold of the code's own text (NumMembers = len(Members()); the
allow-list verdict).
-/
namespace Swim.GenTie.Lists
open Swim.Select

def flag (b : Bool) : Int := if b then 1 else 0

theorem any_ext {α} (p q : α → Bool) : ∀ l : List α, (∀ x ∈ l, p x = q x) → l.any p = l.any q
  | [], _ => rfl
  | a :: l, h => by
    simp only [List.any_cons]
    rw [h a (by simp), any_ext p q l (fun x hx => h x (by simp [hx]))]

theorem flag_ne_zero (b : Bool) : (flag b ≠ 0) ↔ b = true := by cases b <;> simp [flag]

/-- `Memberlist.anyAlive` = `Select.anyAlive`, for every member list -/
theorem anyAlive_tie (self : String) (nodes : List SNode) :
    GenF.Lists.anyAlive (nodes.map fun n => (flag n.gone, flag (n.name == self))) = Swim.Select.anyAlive self nodes := by
  unfold GenF.Lists.anyAlive Swim.Select.anyAlive
  simp only [List.any_map]
  have : ∀ l : List SNode,
      (l.any ((fun x => decide ((¬ (x.1 ≠ 0)) ∧ (x.2 = 0))) ∘ fun n => (flag n.gone, flag (n.name == self)))) =
      l.any (fun n => !n.gone && n.name != self) := by
    intro l
    apply any_ext
    intro n _
    cases hg : n.gone <;> cases hs : (n.name == self) <;> simp_all [flag, bne]
  have h := this nodes
  cases hh : nodes.any (fun n => !n.gone && n.name != self) <;> simp_all [Function.comp_def]

/-- `Memberlist.NumMembers` = `Select.numMembers` -/
theorem numMembers_tie (nodes : List SNode) :
    GenF.Lists.numMembers (nodes.map fun n => flag n.gone) = (Swim.Select.numMembers nodes : Int) := by
  unfold GenF.Lists.numMembers Swim.Select.numMembers
  simp only [List.countP_map, Int.zero_add]
  congr 1
  apply List.countP_congr
  intro n _
  cases hg : n.gone <;> simp [flag, hg]

/-- `Memberlist.Members` keeps exactly the records `Select.members` keeps, in the same order -/
theorem members_tie (nodes : List SNode) :
    GenF.Lists.members (nodes.map fun n => flag n.gone) = (Swim.Select.members nodes).map (fun n => flag n.gone) := by
  unfold GenF.Lists.members Swim.Select.members
  simp only [List.nil_append, List.filter_map]
  congr 1
  apply List.filter_congr
  intro n _
  cases hg : n.gone <;> simp [flag, hg]

/-- **C06 / C07 (code text).** `NumMembers()` is the length of `Members()` - for every member list, as the
two functions are written in the repository now. -/
theorem C07_numMembers_is_length_of_members (l : List Int) :
    GenF.Lists.numMembers l = ((GenF.Lists.members l).length : Int) := by
  unfold GenF.Lists.numMembers GenF.Lists.members
  simp [List.countP_eq_length_filter]

/-- `Config.IPMustBeChecked`: an allow-list is in force exactly when it has an entry -/
theorem ipMustBeChecked_tie (n : Nat) : GenF.Lists.ipMustBeChecked (n : Int) = decide (0 < n) := by
  unfold GenF.Lists.ipMustBeChecked; simp

/-- **C18 (code text).** `Config.IPAllowed` = `Select.ipAllowed`: with no list everything is admitted; with a
list, exactly the addresses some configured network contains - in particular a list none of whose
entries contains the address admits nothing, whatever the entries look like. -/
theorem C18_ipAllowed_tie (contains : List Bool) :
    GenF.Lists.ipAllowed (flag (GenF.Lists.ipMustBeChecked (contains.length : Int))) (contains.map flag) = Swim.Select.ipAllowed contains := by
  unfold GenF.Lists.ipAllowed Swim.Select.ipAllowed GenF.Lists.ipMustBeChecked
  cases contains with
  | nil => simp [flag]
  | cons a as =>
    have : ((a :: as).map flag).any (fun x => decide (x ≠ 0)) = (a :: as).any id := by
      simp only [List.any_map]
      apply any_ext
      intro b _
      cases b <;> simp [flag]
    rw [this]
    have hl : ((((a :: as).length : Nat) : Int) > 0) := by
      have : 0 < (a :: as).length := by simp
      omega
    have hd : decide ((((a :: as).length : Nat) : Int) > 0) = true := by simpa using hl
    rw [hd]
    cases h : (a :: as).any id <;> simp [flag, h]

theorem C18_nonempty_list_admits_only_contained (contains : List Bool) (h : contains ≠ []) :
    Swim.Select.ipAllowed contains = true ↔ true ∈ contains := by
  unfold Swim.Select.ipAllowed
  cases contains with
  | nil => exact absurd rfl h
  | cons a as => simp

/-- `GenF.Lists.randomOffset(n)` is an index of the list: below `n` for every value of the generator (`n > 0`), and 0 for
the empty list - the second loop of `kRandomNodes` never indexes out of range -/
theorem randomOffset_in_range (n r : Nat) (h : 0 < n) :
    0 ≤ GenF.Lists.randomOffset n r ∧ GenF.Lists.randomOffset n r < n := by
  unfold GenF.Lists.randomOffset
  have hn : (n : Int) ≠ 0 := by omega
  simp only [hn, if_false]
  constructor
  · exact Int.tmod_nonneg _ (by omega)
  · exact Int.tmod_lt_of_pos _ (by omega)

theorem randomOffset_empty (r : Int) : GenF.Lists.randomOffset 0 r = 0 := by simp [GenF.Lists.randomOffset]

/-- what the translation left out: the read lock around each loop, released by a deferred call (so the
lock is held until the function returns - `Members()` and `NumMembers()` read the list under it) -/
theorem C07_loops_hold_the_read_lock :
    GenF.Lists.droppedCalls = ["Memberlist.Members: defer m.nodeLock.RUnlock", "Memberlist.Members: m.nodeLock.RLock",
      "Memberlist.NumMembers: defer m.nodeLock.RUnlock", "Memberlist.NumMembers: m.nodeLock.RLock",
      "Memberlist.anyAlive: defer m.nodeLock.RUnlock", "Memberlist.anyAlive: m.nodeLock.RLock"] := by decide

end Swim.GenTie.Lists
