import Swim.Gen.FuncsState
import Swim.Model.Merge
/-!
# The translated Go functions agree with the hand-written model (State)

`Swim.GenF.State` is regenerated on every run from `/repo`'s source by `tools/extract/translate.go`
(a tiny Go-to-Lean translator for loop-free integer functions). Each theorem states that the
translation of the function *as it is written in the repository now* computes what the
hand-written model computes, for every argument. A change to one of these Go functions changes
the generated definition, and the corresponding theorem stops checking.
-/
namespace Swim.GenTie.State
open Swim.GenF.State

/-- numeric code of a model state, as in state.go -/
def stCode : Merge.St → Nat
  | .alive => Gen.c_StateAlive | .suspect => Gen.c_StateSuspect | .dead => Gen.c_StateDead | .left => Gen.c_StateLeft

/-- `nodeState.DeadOrLeft` (state.go) = `St.deadOrLeft` -/
theorem deadOrLeft_tie (s : Merge.St) : deadOrLeft (stCode s : Int) = s.deadOrLeft := by
  cases s <;> decide

/-- nothing was left out of the translated bodies -/
theorem dropped_calls_none : droppedCalls = [] := by decide

end Swim.GenTie.State
