import Swim.Gen.FuncsAcks
import Swim.Model.Acks
/-!
# The translated Go functions agree with the hand-written model (Acks)

`Swim.GenF.Acks` is regenerated on every run from `/repo`'s source by `tools/extract/translate.go`
(a tiny Go-to-Lean translator for loop-free integer functions). Each theorem states that the
translation of the function *as it is written in the repository now* computes what the
hand-written model computes, for every argument. A change to one of these Go functions changes
the generated definition, and the corresponding theorem stops checking.
-/
namespace Swim.GenTie.Acks
open Swim.GenF.Acks

/-- `awareness.ApplyDelta` (awareness.go) = `Acks.applyDelta`, for a maximum of at least 1 (with
`AwarenessMaxMultiplier = 0` the Go code stores -1, which the model's natural-number score cannot hold) -/
theorem applyDelta_tie (max score : Nat) (delta : Int) (hm : 1 ≤ max) :
    applyDelta delta (score : Int) (max : Int) = ((Acks.applyDelta max score delta : Nat) : Int) := by
  unfold applyDelta Acks.applyDelta
  simp only
  by_cases h1 : (score : Int) + delta < 0
  · simp [h1]
  · by_cases h2 : (score : Int) + delta > (max : Int) - 1
    · simp only [h1, h2, if_true, if_false, ite_self]
      omega
    · simp only [h1, h2, if_false, ite_self]
      omega

/-- `awareness.ScaleTimeout` (awareness.go) = the probe deadline of the model -/
theorem scaleTimeout_tie (c : Acks.Cfg) (score : Nat) :
    scaleTimeout (c.probeInterval : Int) (score : Int) = ((Acks.deadline c score : Nat) : Int) := by
  unfold scaleTimeout Acks.deadline
  simp

/-- what the translation left out of the translated bodies: locks and metrics only -/
theorem dropped_calls_are_locks_and_metrics :
    droppedCalls = ["awareness.ApplyDelta: a.Lock", "awareness.ApplyDelta: a.Unlock",
      "awareness.ApplyDelta: metrics.SetGaugeWithLabels", "awareness.ScaleTimeout: a.RLock",
      "awareness.ScaleTimeout: a.RUnlock"] := by decide

end Swim.GenTie.Acks
