import Swim.Model.Codec
/-!
# C16  Labels isolate logical clusters
-/
namespace Swim.Codec

/-- **label_packet_roundtrip.** Adding and then removing the label header returns the original
payload and label, for every label of 1-255 bytes and every payload. -/
theorem C16_label_roundtrip (label buf : Bytes) (h1 : 1 ≤ label.length) (h2 : label.length ≤ 255) :
    removeLabel (addLabel label buf) = .ok (buf, label) := by
  have hne : label.isEmpty = false := by cases label <;> simp_all
  have hsz : (UInt8.ofNat label.length).toNat = label.length := by
    simp [UInt8.toNat_ofNat']; omega
  simp only [addLabel, hne, Bool.false_eq_true, ↓reduceIte, List.cons_append, List.nil_append, removeLabel,
    Gen.c_hasLabelMsg, List.append_assoc]
  have h244 : (UInt8.ofNat 244).toNat = 244 := by decide
  simp only [h244, ne_eq, not_true_eq_false, ↓reduceIte, hsz]
  have : ¬ label.length < 1 := by omega
  simp [this]

/-- without a label the packet is passed through unchanged, provided it does not itself start
with the label marker (no emitted message type does — `C16_types_below_marker`) -/
theorem C16_nolabel_roundtrip (buf : Bytes) (h : ∀ t, buf.head? = some t → t.toNat ≠ Gen.c_hasLabelMsg) :
    removeLabel (addLabel [] buf) = .ok (buf, []) := by
  simp only [addLabel, List.isEmpty_nil, ↓reduceIte, removeLabel]
  cases buf with
  | nil => rfl
  | cons t rest => simp [h t rfl]

/-- fact theorem: every message type the package defines is numerically below the label marker,
and the encryption version bytes (0, 1) are too -/
theorem C16_types_below_marker :
    [Gen.c_pingMsg, Gen.c_indirectPingMsg, Gen.c_ackRespMsg, Gen.c_suspectMsg, Gen.c_aliveMsg, Gen.c_deadMsg,
     Gen.c_pushPullMsg, Gen.c_compoundMsg, Gen.c_userMsg, Gen.c_compressMsg, Gen.c_encryptMsg, Gen.c_nackRespMsg,
     Gen.c_hasCrcMsg, Gen.c_errMsg, Gen.c_maxEncryptionVersion].all (· < Gen.c_hasLabelMsg) = true := by decide

/-- fact theorem: the message-type numbering is the protocol's (append-only, all distinct) -/
theorem C16_type_numbering :
    [Gen.c_pingMsg, Gen.c_indirectPingMsg, Gen.c_ackRespMsg, Gen.c_suspectMsg, Gen.c_aliveMsg, Gen.c_deadMsg,
     Gen.c_pushPullMsg, Gen.c_compoundMsg, Gen.c_userMsg, Gen.c_compressMsg, Gen.c_encryptMsg, Gen.c_nackRespMsg,
     Gen.c_hasCrcMsg, Gen.c_errMsg] = List.range 14 ∧ Gen.c_hasLabelMsg = 244 ∧ Gen.c_LabelMaxSize = 255 := by decide

/-- **label_accept_iff.** The receiver goes on past the label gate iff the carried label equals
its own, or — when the inbound check is delegated — iff no header is carried at all. -/
theorem C16_label_accept_iff (cfgLabel carried : Bytes) (skip : Bool) :
    (labelGate cfgLabel skip carried).isSome =
      (if skip then carried.isEmpty else cfgLabel == carried) := by
  unfold labelGate
  cases skip <;> simp
  · split <;> simp_all
  · split <;> simp_all

/-- traffic for any other label is discarded (checked inbound) -/
theorem C16_other_label_dropped (cfgLabel carried : Bytes) (h : cfgLabel ≠ carried) :
    labelGate cfgLabel false carried = none := by
  simp [labelGate, h]

/-- **double_header_rejected.** With the inbound check delegated, a packet that still carries a
header is discarded. -/
theorem C16_double_header_rejected (cfgLabel carried : Bytes) (h : carried ≠ []) :
    labelGate cfgLabel true carried = none := by
  cases carried <;> simp_all [labelGate]

/-- the label the receiver continues with (the AAD of decryption) is always its own -/
theorem C16_gate_yields_own_label (cfgLabel carried l : Bytes) (skip : Bool)
    (h : labelGate cfgLabel skip carried = some l) : l = cfgLabel := by
  unfold labelGate at h
  cases skip <;> simp at h
  · obtain ⟨h1, h2⟩ := h; rw [← h2]; exact h1.symm
  · exact h.2.symm

/-- **C09 / C14 (streams).** A sealed stream is admitted only if it was sealed under an installed key with the
receiver's *own* label as associated data - also when the inbound header check is delegated to an outer
layer (then no header may be carried, and the associated data must still be the receiver's label). -/
theorem C14_sealed_stream_needs_own_label (cfgLabel carried aad : Bytes) (skip key : Bool)
    (h : sealedStreamAdmitted cfgLabel skip carried aad key = true) :
    key = true ∧ aad = cfgLabel ∧ (if skip then carried = [] else carried = cfgLabel) := by
  unfold sealedStreamAdmitted at h
  cases hg : labelGate cfgLabel skip carried with
  | none => simp [hg] at h
  | some l =>
    have hl := C16_gate_yields_own_label cfgLabel carried l skip hg
    simp [hg] at h
    refine ⟨h.1, by rw [← h.2, hl], ?_⟩
    have := C16_label_accept_iff cfgLabel carried skip
    rw [hg] at this
    cases skip <;> simp_all

/-- a sender that seals with its own label and carries it as header is admitted exactly by receivers with
that label that check it themselves (or, with no label at all, by label-less receivers) -/
theorem C09_honest_sender_admitted_iff (cfgLabel senderLabel : Bytes) (skip : Bool) :
    sealedStreamAdmitted cfgLabel skip senderLabel senderLabel true =
      (if skip then senderLabel.isEmpty && cfgLabel.isEmpty else cfgLabel == senderLabel) := by
  unfold sealedStreamAdmitted labelGate
  cases skip <;> simp
  · split <;> simp_all
  · cases senderLabel <;> cases cfgLabel <;> simp

/-- labels that are prefixes/extensions of each other are different labels -/
example : labelGate [1, 2] false [1, 2, 3] = none ∧ labelGate [1, 2, 3] false [1, 2] = none ∧
    labelGate [1, 2] false [1, 2] = some [1, 2] := by decide

end Swim.Codec
