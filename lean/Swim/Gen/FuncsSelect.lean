import Swim.Gen.Facts
/- GENERATED on every check run: Go functions translated to Lean by tools/extract/translate.go (see its header for the subset). Do not edit. -/
namespace Swim.GenF.Select
open Swim.Gen

/-- state.go: Memberlist.gossip/exclude -/
def gossipExclude (n_State since_n_StateChange m_config_GossipToTheDeadTime same_n_Name_m_config_Name : Int) : Bool :=
  if (same_n_Name_m_config_Name ≠ 0) then
  decide True
  else
  if (n_State = (c_StateAlive : Int)) ∨ (n_State = (c_StateSuspect : Int)) then
  decide False
  else
  if (n_State = (c_StateDead : Int)) then
  decide (since_n_StateChange > m_config_GossipToTheDeadTime)
  else
  decide True

/-- state.go: Memberlist.probeNode/exclude -/
def relayExclude (same_n_Name_m_config_Name same_n_Name_node_Name n_State : Int) : Bool :=
  decide (((same_n_Name_m_config_Name ≠ 0) ∨ (same_n_Name_node_Name ≠ 0)) ∨ (n_State ≠ (c_StateAlive : Int)))

/-- state.go: Memberlist.pushPull/exclude -/
def pushPullExclude (same_n_Name_m_config_Name n_State : Int) : Bool :=
  decide ((same_n_Name_m_config_Name ≠ 0) ∨ (n_State ≠ (c_StateAlive : Int)))

/-- calls in statement position that the translation dropped (locks, metrics) -/
def droppedCalls : List String := []

end Swim.GenF.Select
