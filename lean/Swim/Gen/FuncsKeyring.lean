import Swim.Gen.Facts
/- GENERATED on every check run: Go functions translated to Lean by tools/extract/translate.go (see its header for the subset). Do not edit. -/
namespace Swim.GenF.Keyring
open Swim.Gen

/-- keyring.go: ValidateKey; result: the returned error is nil -/
def validateKey (key_len : Int) : Bool :=
  let l := key_len
  if (((l ≠ (16 : Int)) ∧ (l ≠ (24 : Int))) ∧ (l ≠ (32 : Int))) then
  false
  else
  true

/-- calls in statement position that the translation dropped (locks, metrics) -/
def droppedCalls : List String := []

end Swim.GenF.Keyring
