import Swim.Gen.Facts
/- GENERATED on every check run: Go functions translated to Lean by tools/extract/translate.go (see its header for the subset). Do not edit. -/
namespace Swim.GenF.Queue
open Swim.Gen

/-- queue.go: limitedBroadcast.Less -/
def bcastLess (b_id than_id b_msgLen than_msgLen b_transmits than_transmits : Int) : Bool :=
  if (b_transmits < than_transmits) then
  decide True
  else
  if (b_transmits > than_transmits) then
  decide False
  else
  if (b_msgLen > than_msgLen) then
  decide True
  else
  if (b_msgLen < than_msgLen) then
  decide False
  else
  decide (b_id > than_id)

/-- calls in statement position that the translation dropped (locks, metrics) -/
def droppedCalls : List String := []

end Swim.GenF.Queue
