import Swim.Gen.Facts
/- GENERATED on every check run: Go functions translated to Lean by tools/extract/translate.go (see its header for the subset). Do not edit. -/
namespace Swim.GenF.Lists
open Swim.Gen

/-- memberlist.go: Memberlist.anyAlive -/
def anyAlive (m_nodes : List (Int × Int)) : Bool :=
  if m_nodes.any (fun (n_DeadOrLeft, same_n_Name_m_config_Name) => decide ((¬ (n_DeadOrLeft ≠ 0)) ∧ (same_n_Name_m_config_Name = 0))) then
  decide True
  else
  decide False

/-- memberlist.go: Memberlist.NumMembers -/
def numMembers (m_nodes : List (Int)) : Int :=
  let alive := (0 : Int)
  let alive := alive + ((m_nodes.countP (fun n_DeadOrLeft => decide (¬ (n_DeadOrLeft ≠ 0))) : Nat) : Int)
  alive

/-- memberlist.go: Memberlist.Members -/
def members (m_nodes : List (Int)) : List (Int) :=
  let nodes := []
  let nodes := nodes ++ m_nodes.filter (fun n_DeadOrLeft => decide (¬ (n_DeadOrLeft ≠ 0)))
  nodes

/-- config.go: Config.IPMustBeChecked -/
def ipMustBeChecked (c_CIDRsAllowed_len : Int) : Bool :=
  decide (c_CIDRsAllowed_len > (0 : Int))

/-- config.go: Config.IPAllowed; result: the returned error is nil -/
def ipAllowed (c_IPMustBeChecked : Int) (c_CIDRsAllowed : List (Int)) : Bool :=
  if (¬ (c_IPMustBeChecked ≠ 0)) then
  true
  else
  if c_CIDRsAllowed.any (fun n_Contains_ip => decide (n_Contains_ip ≠ 0)) then
  true
  else
  false

/-- util.go: randomOffset -/
def randomOffset (n rand_Uint32 : Int) : Int :=
  if (n = (0 : Int)) then
  (0 : Int)
  else
  (Int.tmod rand_Uint32 n)

/-- calls in statement position that the translation dropped (locks, metrics) -/
def droppedCalls : List String := ["Memberlist.Members: defer m.nodeLock.RUnlock", "Memberlist.Members: m.nodeLock.RLock", "Memberlist.NumMembers: defer m.nodeLock.RUnlock", "Memberlist.NumMembers: m.nodeLock.RLock", "Memberlist.anyAlive: defer m.nodeLock.RUnlock", "Memberlist.anyAlive: m.nodeLock.RLock"]

end Swim.GenF.Lists
