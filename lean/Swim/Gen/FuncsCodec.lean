import Swim.Gen.Facts
/- GENERATED on every check run: Go functions translated to Lean by tools/extract/translate.go (see its header for the subset). Do not edit. -/
namespace Swim.GenF.Codec
open Swim.Gen

/-- security.go: encryptOverhead -/
def encryptOverhead (vsn : Int) : Option (Int) :=
  if (vsn = (0 : Int)) then
  some ((45 : Int))
  else
  if (vsn = (1 : Int)) then
  some ((29 : Int))
  else
  none

/-- security.go: encryptedLength -/
def encryptedLength (vsn inp : Int) : Int :=
  if (vsn ≥ (1 : Int)) then
  ((((c_versionSize : Int) + (c_nonceSize : Int)) + inp) + (c_tagSize : Int))
  else
  let padding := ((c_blockSize : Int) - ((Int.tmod inp (c_blockSize : Int))))
  (((((c_versionSize : Int) + (c_nonceSize : Int)) + inp) + padding) + (c_tagSize : Int))

/-- label.go: labelOverhead -/
def labelOverhead (label_len : Int) : Int :=
  if (label_len = 0) then
  (0 : Int)
  else
  ((2 : Int) + label_len)

/-- net.go: Memberlist.encryptionVersion -/
def encryptionVersion (m_ProtocolVersion : Int) : Int :=
  if (m_ProtocolVersion = (1 : Int)) then
  (0 : Int)
  else
  (1 : Int)

/-- calls in statement position that the translation dropped (locks, metrics) -/
def droppedCalls : List String := []

end Swim.GenF.Codec
