import Swim.Gen.Facts
/- GENERATED on every check run: Go functions translated to Lean by tools/extract/translate.go (see its header for the subset). Do not edit. -/
namespace Swim.GenF.Acks
open Swim.Gen

/-- awareness.go: awareness.ApplyDelta; result: the receiver field(s) a_score afterwards -/
def applyDelta (delta a_score a_max : Int) : Int :=
  let initial := a_score
  let a_score := (a_score + delta)
  if (a_score < (0 : Int)) then
  let a_score := (0 : Int)
  let final := a_score
  if (initial ≠ final) then
  a_score
  else
  a_score
  else
  if (a_score > ((a_max - (1 : Int)))) then
  let a_score := ((a_max - (1 : Int)))
  let final := a_score
  if (initial ≠ final) then
  a_score
  else
  a_score
  else
  let final := a_score
  if (initial ≠ final) then
  a_score
  else
  a_score

/-- awareness.go: awareness.ScaleTimeout -/
def scaleTimeout (timeout a_score : Int) : Int :=
  let score := a_score
  (timeout * ((score + (1 : Int))))

/-- calls in statement position that the translation dropped (locks, metrics) -/
def droppedCalls : List String := ["awareness.ApplyDelta: a.Lock", "awareness.ApplyDelta: a.Unlock", "awareness.ApplyDelta: metrics.SetGaugeWithLabels", "awareness.ScaleTimeout: a.RLock", "awareness.ScaleTimeout: a.RUnlock"]

end Swim.GenF.Acks
