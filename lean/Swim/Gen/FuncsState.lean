import Swim.Gen.Facts
/- GENERATED on every check run: Go functions translated to Lean by tools/extract/translate.go (see its header for the subset). Do not edit. -/
namespace Swim.GenF.State
open Swim.Gen

/-- state.go: nodeState.DeadOrLeft -/
def deadOrLeft (n_State : Int) : Bool :=
  decide ((n_State = (c_StateDead : Int)) ∨ (n_State = (c_StateLeft : Int)))

/-- calls in statement position that the translation dropped (locks, metrics) -/
def droppedCalls : List String := []

end Swim.GenF.State
