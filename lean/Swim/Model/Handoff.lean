/-
Model of the handoff between the packet listener and the handler goroutine (net.go `handleCommand`,
`getNextMessage`, `packetHandler`): two bounded queues - alive gossip in the first, suspect / dead /
user messages in the second - filled at the back, emptied from the back (newest first), the first queue
before the second; a message that finds its queue full is dropped.
-/
namespace Swim.Handoff

inductive Kind where
  | alive | other
  deriving DecidableEq, Repr

structure Msg where
  kind : Kind
  tag : Nat        -- identifies the message (ghost)
  srcOk : Bool     -- its source address passes the allow-list
  deriving DecidableEq, Repr

structure Q where
  high : List Msg := []
  low : List Msg := []
  deriving Repr

/-- `handleCommand`: append to the queue of the message's kind unless that queue is full -/
def push (depth : Nat) (q : Q) (m : Msg) : Q :=
  match m.kind with
  | .alive => if q.high.length ≥ depth then q else { q with high := q.high ++ [m] }
  | .other => if q.low.length ≥ depth then q else { q with low := q.low ++ [m] }

def pushes (depth : Nat) (q : Q) (ms : List Msg) : Q := ms.foldl (push depth) q

/-- the order in which a parked handler takes the queued messages once it runs: `getNextMessage` until empty -/
def order (q : Q) : List Msg := q.high.reverse ++ q.low.reverse

/-- what an observer sees of a handled message: an alive from an allowed source is a join of its member, an
alive from elsewhere nothing, any other message its delivery -/
def effect (m : Msg) : Option (Kind × Nat) :=
  match m.kind with
  | .alive => if m.srcOk then some (.alive, m.tag) else none
  | .other => some (.other, m.tag)

def effects (q : Q) : List (Kind × Nat) := (order q).filterMap effect

end Swim.Handoff
