/-
Model of the probe cursor of state.go: probe() walking m.nodes with probeIndex, skipping the
local node and dead/left members, and resetNodes() (reap + shuffle) at the wrap-around.
The shuffle is an input: `reorder` gives the observed order of the survivors.
-/
namespace Swim.Probe

structure PNode where
  name : String
  gone : Bool        -- dead or left
  reapable : Bool    -- dead/left for longer than GossipToTheDeadTime
  deriving DecidableEq, Repr

structure Cursor where
  nodes : List PNode
  idx : Nat
  deriving Repr

def eligible (self : String) (n : PNode) : Bool := n.name != self && !n.gone

/-- `resetNodes`: drop the reapable records (never the local one), then the observed permutation -/
def reset (self : String) (nodes : List PNode) (reorder : List PNode → List PNode) : List PNode :=
  reorder (nodes.filter fun n => !(n.gone && n.reapable) || n.name == self)

/-- `probe()`: returns the new cursor and the member handed to probeNode (if any).
`numCheck` counts skipped entries and wrap-arounds; the walk gives up when it reaches the list length. -/
def probeLoop (self : String) (reorder : List PNode → List PNode) : Nat → Nat → Cursor → Cursor × Option PNode
  | 0, _, c => (c, none)
  | fuel + 1, numCheck, c =>
    if numCheck ≥ c.nodes.length then (c, none)
    else if c.idx ≥ c.nodes.length then
      probeLoop self reorder fuel (numCheck + 1) { nodes := reset self c.nodes reorder, idx := 0 }
    else
      match c.nodes[c.idx]? with
      | none => (c, none)
      | some n =>
        if eligible self n then ({ c with idx := c.idx + 1 }, some n)
        else probeLoop self reorder fuel (numCheck + 1) { c with idx := c.idx + 1 }

def probe (self : String) (reorder : List PNode → List PNode) (c : Cursor) : Cursor × Option PNode :=
  probeLoop self reorder (2 * c.nodes.length + 2) 0 c

/-- a new member is appended and swapped with the entry at a random offset (`aliveNode`) -/
def insert (c : Cursor) (n : PNode) (offset : Nat) : Cursor :=
  let k := c.nodes.length
  let l := c.nodes ++ [n]
  let o := if k == 0 then 0 else offset % k
  match l[o]?, l[k]? with
  | some a, some b => { c with nodes := (l.set o b).set k a }
  | _, _ => { c with nodes := l }

/-- the detection bound of the property: two passes over a list of at most `nMax` entries at one
probe per `delta` (the awareness-scaled probe interval), plus the maximum suspicion timeout -/
def detectBound (nMax delta suspMax : Nat) : Nat := 2 * (nMax + 1) * delta + suspMax

end Swim.Probe
