import Swim.Model.Merge
/-
Cluster model: any number of nodes, each running the per-member rules of `Swim.Model.Merge`,
joined by a network that is a monotone pool of claims. A claim handed to the network stays in
the pool for ever; a delivery step hands any pool entry to any node, any number of times, in any
order (reordering, duplication, delay); never delivering an entry is loss. A push/pull exchange is
a `snapshot` step (the sender's whole record list enters the pool as state entries) followed by
deliveries of those entries - a superset of the real interleavings, where the receiver merges the
whole list under its lock.

What a node hands to the network is read off the effects of its step (`emit`): a re-gossiped alive
claim is the received message itself (state.go:1129), a refutation is built from the node's own
record (state.go:931-945), suspect and dead claims carry (incarnation, node, from).
-/
namespace Swim.Cluster
open Swim.Merge

inductive Msg where
  | alive (a : AliveMsg)
  | suspect (c : Claim)
  | dead (c : Claim)
  | state (s : PushState)     -- one entry of a push/pull state list; the verdict fields are the receiver's
  deriving DecidableEq, Repr

structure World where
  nodes : List Node := []
  pool : List Msg := []
  log : List (String × Out) := []     -- (node, effect) in order
  deriving Repr

def aliveOfRec (r : Rec) : AliveMsg :=
  { inc := r.inc, node := r.name, addr := r.addr, port := r.port, md := r.md, vsn := r.vsn }

def aliveOfState (s : PushState) : AliveMsg :=
  { inc := s.inc, node := s.name, addr := s.addr, port := s.port, md := s.md, vsn := s.vsn }

def stateOfRec (r : Rec) : PushState :=
  { name := r.name, addr := r.addr, port := r.port, md := r.md, inc := r.inc, st := r.st, vsn := r.vsn,
    ipAllowed := true, delegateOk := true, offset := 0 }

/-- the claims a node hands to the network for one effect of a step; `src` is the alive claim the step
was given (received, built from a state entry, or the node's own announcement) -/
def emit (n' : Node) (src : Option AliveMsg) : Out → List Msg
  | .bcast q .alive node _ _ _ =>
    if q == node then (match src with | some a => [.alive a] | none => [])
    else (match lookup n'.recs node with | some r => [.alive (aliveOfRec r)] | none => [])
  | .bcast _ .suspect node inc frm _ => [.suspect { inc, node, frm }]
  | .bcast _ .dead node inc frm _ => [.dead { inc, node, frm }]
  | _ => []

/-- effects of a step paired with the claims handed to the network for each -/
def emitOuts (n' : Node) (src : Option AliveMsg) (outs : List Out) : List (Out × List Msg) :=
  outs.map fun o => (o, emit n' src o)

/-- a state-list merge, entry by entry, with what each entry makes the node send -/
def mergeEmit (n : Node) (rs : List PushState) (now : Nat) : Node × List (Out × List Msg) :=
  rs.foldl (fun (acc : Node × List (Out × List Msg)) r =>
    let res := mergeOne acc.1 r now
    (res.1, acc.2 ++ emitOuts res.1 (if r.st = .alive then some (aliveOfState r) else none) res.2)) (n, [])

/-- one operation of the single-node model with what it hands to the network (tied to the
implementation's broadcast queue by the step harness) -/
def stepEmit (n : Node) (op : Op) : List (Out × List Msg) :=
  match op with
  | .alive a _ _ => emitOuts (step n op).1 (some a) (step n op).2
  | .merge rs now => (mergeEmit n rs now).2
  | .update addr port md vsn _ =>
    emitOuts (step n op).1 (some { inc := (n.selfInc + 1) % u32, node := n.cfg.self, addr, port, md, vsn }) (step n op).2
  | _ => emitOuts (step n op).1 none (step n op).2

/-- node `x` performs `f`; its effects are logged and its claims enter the pool -/
def act (w : World) (x : String) (f : Node → Node × List Out) (src : Option AliveMsg) : World :=
  match w.nodes.find? (·.cfg.self == x) with
  | none => w
  | some n =>
    let r := f n
    { nodes := w.nodes.map (fun k => if k.cfg.self == x then r.1 else k),
      pool := w.pool ++ r.2.flatMap (emit r.1 src),
      log := w.log ++ r.2.map (fun o => (x, o)) }

def withEnv (s : PushState) (env : Env) : PushState :=
  { s with ipAllowed := env.ipAllowed, delegateOk := env.delegateOk, offset := env.offset }

/-- a node processes one claim from the network -/
def receive (m : Msg) (env : Env) (n : Node) : Node × List Out :=
  match m with
  | .alive a => aliveNode n a false false env
  | .suspect c => suspectNode n c env
  | .dead c => deadNode n c env
  | .state s => mergeOne n (withEnv s env) env.now

def srcOf : Msg → Option AliveMsg
  | .alive a => some a
  | .state s => if s.st = .alive then some (aliveOfState s) else none
  | _ => none

/-- `setAlive` / `UpdateNode`: the node announces itself with the next incarnation. Address, port and
versions are those of its record once it has one (they come from the transport and the configuration,
which do not change); the six version bytes are always sent. -/
def announce (addr port md : Nat) (vsn : List Nat) (env : Env) (n : Node) : Node × List Out :=
  match lookup n.recs n.cfg.self with
  | some me => updateNode n me.addr me.port md me.vsn true env
  | none => if vsn.length = 6 then updateNode n addr port md vsn true env else (n, [])

def announceSrc (addr port md : Nat) (vsn : List Nat) (n : Node) : AliveMsg :=
  match lookup n.recs n.cfg.self with
  | some me => { inc := (n.selfInc + 1) % u32, node := n.cfg.self, addr := me.addr, port := me.port, md, vsn := me.vsn }
  | none => { inc := (n.selfInc + 1) % u32, node := n.cfg.self, addr, port, md, vsn }

/-- an unanswered probe: the prober suspects the target at the incarnation it holds (state.go:505-521) -/
def probeFail (target : String) (env : Env) (n : Node) : Node × List Out :=
  if target == n.cfg.self then (n, [])      -- a node never probes itself (C03_probe_target_ok)
  else
    match lookup n.recs target with
    | none => (n, [])
    | some r => suspectNode n { inc := r.inc, node := target, frm := n.cfg.self } env

inductive COp where
  | deliver (x : String) (k : Nat) (env : Env)      -- pool entry `k` reaches node `x`
  | snapshot (x : String)                           -- `x` sends its state list (push/pull, either direction)
  | announce (x : String) (addr port md : Nat) (vsn : List Nat) (env : Env)
  | leave (x : String) (env : Env)
  | fire (x : String) (node : String) (changedAt : Nat) (env : Env)
  | reap (x : String)
  | age (x : String) (name : String)
  | probeFail (x : String) (target : String) (env : Env)
  deriving Repr

def World.step (w : World) : COp → World
  | .deliver x k env =>
    match w.pool[k]? with
    | none => w
    | some m => act w x (receive m env) (srcOf m)
  | .snapshot x =>
    match w.nodes.find? (·.cfg.self == x) with
    | none => w
    | some n => { w with pool := w.pool ++ n.recs.map (fun r => .state (stateOfRec r)) }
  | .announce x addr port md vsn env =>
    match w.nodes.find? (·.cfg.self == x) with
    | none => w
    | some n => act w x (announce addr port md vsn env) (some (announceSrc addr port md vsn n))
  | .leave x env => act w x (fun n => leave n env) none
  | .fire x node ca env => act w x (fun n => timerFire n node ca env) none
  | .reap x => act w x (fun n => (reap n, [])) none
  | .age x name => act w x (fun n => (ageRec n name, [])) none
  | .probeFail x t env => act w x (probeFail t env) none

def World.run (w : World) (ops : List COp) : World := ops.foldl World.step w

def nodeAt (w : World) (y : String) : Option Node := w.nodes.find? (·.cfg.self == y)

/-- the single-node operation a cluster step makes its acting node perform (if any) -/
def nodeOp (w : World) : COp → Option (String × Op)
  | .deliver x i env =>
    match w.pool[i]? with
    | none => none
    | some (.alive a) => some (x, .alive a false env)
    | some (.suspect c) => some (x, .suspect c env)
    | some (.dead c) => some (x, .dead c env)
    | some (.state s) => some (x, .merge [withEnv s env] env.now)
  | .snapshot _ => none
  | .announce x addr port md vsn env =>
    match nodeAt w x with
    | none => none
    | some n =>
      match lookup n.recs n.cfg.self with
      | some me => some (x, .update me.addr me.port md me.vsn env)
      | none => if vsn.length = 6 then some (x, .update addr port md vsn env) else none
  | .leave x env => some (x, .leave env)
  | .fire x node ca env => some (x, .fire node ca env)
  | .reap x => some (x, .reap)
  | .age x name => some (x, .age name)
  | .probeFail x t env =>
    match nodeAt w x with
    | none => none
    | some n =>
      if t == n.cfg.self then none
      else match lookup n.recs t with
        | none => none
        | some r => some (x, .suspect { inc := r.inc, node := t, frm := n.cfg.self } env)

/-- a cluster that has not started: distinct names, nothing known, nothing in flight -/
def Fresh (w : World) : Prop :=
  (w.nodes.map (·.cfg.self)).Nodup ∧
  (∀ n ∈ w.nodes, n.recs = [] ∧ n.timers = [] ∧ n.selfInc = 0 ∧ n.hasLeft = false ∧ n.score = 0) ∧
  w.pool = [] ∧ w.log = []

/-- steps of a healthy cluster: everything except an unanswered probe (C04_ack_in_time_no_suspect:
with every member responsive and packets delivered within half the probe timeout no probe goes
unanswered) -/
def COp.healthy : COp → Bool
  | .probeFail .. => false
  | _ => true

end Swim.Cluster
