/-
Model of verifyProtocol (state.go) and of the admission sequence of mergeRemoteState (net.go).
-/
namespace Swim.Verify

/-- version vector of a node: pmin pmax pcur dmin dmax dcur -/
structure Vsn where
  pmin : Nat
  pmax : Nat
  pcur : Nat
  dmin : Nat
  dmax : Nat
  dcur : Nat
  deriving DecidableEq, Repr

/-- a remote push/pull entry as far as verifyProtocol looks at it -/
structure Remote where
  alive : Bool
  vsn : List Nat        -- as received: may be shorter than 6
  deriving Repr

/-- a local record -/
structure Local where
  alive : Bool
  v : Vsn
  deriving Repr

structure Range where
  maxpmin : Nat := 0
  minpmax : Nat := 255
  maxdmin : Nat := 0
  mindmax : Nat := 255
  deriving DecidableEq, Repr

def foldRemote (r : Range) (x : Remote) : Range :=
  if !x.alive then r
  else if x.vsn.length < 5 then r
  else
    { maxpmin := max r.maxpmin (x.vsn.getD 0 0)
      minpmax := min r.minpmax (x.vsn.getD 1 0)
      maxdmin := max r.maxdmin (x.vsn.getD 3 0)
      mindmax := min r.mindmax (x.vsn.getD 4 0) }

def foldLocal (r : Range) (x : Local) : Range :=
  if !x.alive then r
  else
    { maxpmin := max r.maxpmin x.v.pmin
      minpmax := min r.minpmax x.v.pmax
      maxdmin := max r.maxdmin x.v.dmin
      mindmax := min r.mindmax x.v.dmax }

def range (remote : List Remote) (loc : List Local) : Range :=
  loc.foldl foldLocal (remote.foldl foldRemote {})

def curOf (x : Remote) : Nat × Nat := if x.vsn.length ≥ 6 then (x.vsn.getD 2 0, x.vsn.getD 5 0) else (0, 0)

def inRange (r : Range) (pcur dcur : Nat) : Bool :=
  r.maxpmin ≤ pcur && pcur ≤ r.minpmax && r.maxdmin ≤ dcur && dcur ≤ r.mindmax

/-- `verifyProtocol`: every remote entry (whatever its state) and every local record speaks
versions inside the range understood by all alive nodes of both sides -/
def verify (remote : List Remote) (loc : List Local) : Bool :=
  let r := range remote loc
  remote.all (fun x => inRange r (curOf x).1 (curOf x).2) && loc.all (fun x => inRange r x.v.pcur x.v.dcur)

inductive Admit where
  | versionError | vetoed | merged
  deriving DecidableEq, Repr

/-- `mergeRemoteState`: verify, then (join only) the merge delegate, then the merge -/
def admission (remote : List Remote) (loc : List Local) (join hasMergeDelegate delegateOk : Bool) : Admit :=
  if !verify remote loc then .versionError
  else if join && hasMergeDelegate && !delegateOk then .vetoed
  else .merged

end Swim.Verify
