/-
Model of queue.go (TransmitLimitedQueue) after the two `fix:` commits
(Prune uses lenLocked; the id generator is reset only when the queue is idle).

The btree is modelled as a plain list of items with pairwise distinct ids; "the first
item AscendRange yields" is the `Less`-minimum of the candidates (`pickMin`).
`uid` is a ghost token (never reset) identifying the submission for the conservation
theorems; the code has no such field.
-/
namespace Swim.Queue

inductive Kind where
  | named    -- implements NamedBroadcast (name may be empty)
  | unique   -- implements UniqueBroadcast
  | plain    -- neither
  deriving DecidableEq, Repr

structure Item where
  tx : Nat
  len : Nat
  id : Nat
  kind : Kind
  name : String   -- `Name()` for named broadcasts, "" otherwise
  subj : Nat      -- subject used by the harness broadcasts' `Invalidates`
  uid : Nat       -- ghost
  deriving DecidableEq, Repr

/-- `limitedBroadcast.Less` -/
def less (a b : Item) : Bool :=
  if a.tx < b.tx then true
  else if a.tx > b.tx then false
  else if a.len > b.len then true
  else if a.len < b.len then false
  else a.id > b.id

structure Q where
  items : List Item := []
  idGen : Nat := 0
  nextUid : Nat := 0        -- ghost
  finished : List Nat := []  -- ghost: uids whose Finished() ran, in order
  deriving Repr

/-- the `Less`-minimum of a list (first element wins ties, which do not occur with distinct ids) -/
def pickMin : List Item → Option Item
  | [] => none
  | x :: xs =>
    match pickMin xs with
    | none => some x
    | some y => if less y x then some y else some x

/-- the `Less`-maximum (`tq.Max()`) -/
def pickMax : List Item → Option Item
  | [] => none
  | x :: xs =>
    match pickMax xs with
    | none => some x
    | some y => if less x y then some y else some x

def removeId (items : List Item) (id : Nat) : List Item := items.filter (fun x => x.id != id)

/-- The `Invalidates` relation of the harness broadcasts (an input of the model):
named: other is named with the same name; unique: nothing; plain: other plain, same subject. -/
def invalidates (b c : Item) : Bool :=
  match b.kind with
  | .named => c.kind == .named && c.name == b.name
  | .unique => false
  | .plain => c.kind == .plain && c.subj == b.subj

/-- which queued items a new broadcast `lb` finishes and replaces -/
def victimP (items : List Item) (lb : Item) : Item → Bool :=
  if lb.name ≠ "" then
    match items.find? (fun x => x.name == lb.name) with
    | some v => fun x => x.id == v.id
    | none => fun _ => false
  else if lb.kind = .unique then fun _ => false
  else fun c => c.kind == .plain && invalidates lb c

/-- insert a stamped item `lb`, finishing and removing what it supersedes -/
def queueWith (q : Q) (lb : Item) : Q :=
  { items := lb :: q.items.filter (fun x => !victimP q.items lb x)
    idGen := lb.id
    nextUid := q.nextUid + 1
    finished := q.finished ++ (q.items.filter (victimP q.items lb)).map (·.uid) }

def mkItem (q : Q) (kind : Kind) (name : String) (subj len : Nat) : Item :=
  { tx := 0, len, id := q.idGen + 1, kind, name := if kind = .named then name else "", subj, uid := q.nextUid }

/-- `QueueBroadcast` (initial transmits 0) of a broadcast described by kind/name/subject/len. -/
def queue (q : Q) (kind : Kind) (name : String) (subj len : Nat) : Q :=
  queueWith q (mkItem q kind name subj len)

structure GetSt where
  items : List Item
  used : Int
  out : List Item       -- picked items (as they were when picked), in pick order
  reins : List Item     -- to reinsert, transmits already bumped
  done : List Item      -- picked items whose Finished() ran in this call

def bump (k : Item) : Item := { k with tx := k.tx + 1 }

/-- effect of handing out `k`: remove it from the tree, account its size, then either
finish it (limit reached) or remember it for reinsertion one tier up -/
def pickStep (overhead tl : Int) (s : GetSt) (k : Item) : GetSt :=
  if (k.tx : Int) + 1 ≥ tl then
    { items := removeId s.items k.id, used := s.used + overhead + k.len,
      out := s.out ++ [k], reins := s.reins, done := s.done ++ [k] }
  else
    { items := removeId s.items k.id, used := s.used + overhead + k.len,
      out := s.out ++ [k], reins := s.reins ++ [bump k], done := s.done }

/-- candidates of tier `t` that fit into `free` bytes -/
def cands (s : GetSt) (t : Nat) (free : Int) : List Item :=
  s.items.filter (fun x => x.tx == t && (x.len : Int) ≤ free)

/-- the tier walk of `GetBroadcasts`; `tl` is the value `retransmitLimit` returned for this call -/
def getLoop (overhead limit tl : Int) : Nat → Nat → Nat → GetSt → GetSt
  | 0, _, _, s => s
  | fuel + 1, t, maxT, s =>
    if t > maxT then s
    else if limit - s.used - overhead ≤ 0 then s
    else
      match pickMin (cands s t (limit - s.used - overhead)) with
      | none => getLoop overhead limit tl fuel (t + 1) maxT s
      | some k => getLoop overhead limit tl fuel t maxT (pickStep overhead tl s k)

def minTx (items : List Item) : Nat := (items.map (·.tx)).foldl min ((items.map (·.tx)).headD 0)
def maxTx (items : List Item) : Nat := (items.map (·.tx)).foldl max 0

def getRun (q : Q) (overhead limit tl : Int) : GetSt :=
  let lo := minTx q.items
  let hi := maxTx q.items
  getLoop overhead limit tl (q.items.length + (hi - lo) + 2) lo hi
    { items := q.items, used := 0, out := [], reins := [], done := [] }

/-- `GetBroadcasts`: new queue and the picked items in order -/
def get (q : Q) (overhead limit tl : Int) : Q × List Item :=
  if q.items.isEmpty then (q, [])
  else
    let s := getRun q overhead limit tl
    let items := s.reins ++ s.items
    ({ q with items, idGen := if items.isEmpty then 0 else q.idGen, finished := q.finished ++ s.done.map (·.uid) }, s.out)

/-- `Prune`: finish and drop the `Less`-greatest item until at most `maxRetain` remain -/
def pruneLoop (maxRetain : Int) : Nat → List Item → List Item → List Item × List Item
  | 0, items, done => (items, done)
  | fuel + 1, items, done =>
    if (items.length : Int) > maxRetain then
      match pickMax items with
      | none => (items, done)
      | some m => pruneLoop maxRetain fuel (removeId items m.id) (done ++ [m])
    else (items, done)

def prune (q : Q) (maxRetain : Int) : Q :=
  let r := pruneLoop maxRetain q.items.length q.items []
  { q with items := r.1, idGen := if r.1.isEmpty then 0 else q.idGen,
           finished := q.finished ++ r.2.map (·.uid) }

/-- `Reset` -/
def reset (q : Q) : Q :=
  { q with items := [], idGen := 0, finished := q.finished ++ q.items.map (·.uid) }

def numQueued (q : Q) : Nat := q.items.length

inductive Op where
  | queue (kind : Kind) (name : String) (subj len : Nat)
  | get (overhead limit tl : Int)
  | prune (maxRetain : Int)
  | reset
  | num
  deriving Repr

def step (q : Q) : Op → Q
  | .queue k n s l => queue q k n s l
  | .get o l tl => (get q o l tl).1
  | .prune m => prune q m
  | .reset => reset q
  | .num => q

def run (q : Q) (ops : List Op) : Q := ops.foldl step q

end Swim.Queue
