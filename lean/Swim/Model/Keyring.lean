/-
Model of keyring.go (after the two `fix:` commits to RemoveKey).
A key is its byte string; the ring is the ordered key list, primary first.
-/
namespace Swim.Keyring

abbrev Key := List UInt8

inductive Err where
  | keySize        -- "key size must be 16, 24 or 32 bytes"
  | emptyPrimary   -- "empty primary key not allowed"
  | notInRing      -- "requested key is not in the keyring"
  | removePrimary  -- "removing the primary key is not allowed"
  deriving DecidableEq, Repr

def validLen (k : Key) : Bool := k.length == 16 || k.length == 24 || k.length == 32

/-- `installKeysLocked`: primary first, then every other key in order. -/
def install (keys : List Key) (primary : Key) : List Key :=
  primary :: keys.filter (fun k => decide (k ≠ primary))

def primary (ring : List Key) : Option Key := ring.head?

/-- `AddKey` -/
def addKey (ring : List Key) (k : Key) : Except Err (List Key) :=
  if validLen k = false then .error .keySize
  else if k ∈ ring then .ok ring
  else
    let keys := ring ++ [k]
    .ok (install keys ((primary ring).getD k))

/-- `UseKey` -/
def useKey (ring : List Key) (k : Key) : Except Err (List Key) :=
  if k ∈ ring then .ok (install ring k) else .error .notInRing

/-- `RemoveKey` (fixed code: guards the empty ring, builds a fresh slice). -/
def removeKey (ring : List Key) (k : Key) : Except Err (List Key) :=
  match ring with
  | [] => .ok []
  | p :: rest =>
    if k = p then .error .removePrimary
    else if k ∈ rest then .ok (install (p :: rest.erase k) p)
    else .ok (p :: rest)

def addAll : List Key → List Key → Except Err (List Key)
  | ring, [] => .ok ring
  | ring, k :: ks =>
    match addKey ring k with
    | .error e => .error e
    | .ok r => addAll r ks

/-- `NewKeyring` -/
def newKeyring (keys : List Key) (prim : Key) : Except Err (List Key) :=
  if keys.isEmpty && prim.isEmpty then .ok []
  else if prim.isEmpty then .error .emptyPrimary
  else addAll [] (prim :: keys)

inductive Op where
  | add (k : Key)
  | use (k : Key)
  | remove (k : Key)
  | getKeys
  | getPrimary
  deriving Repr

/-- One API call on an existing ring: new ring and the error (if any). -/
def step (ring : List Key) : Op → List Key × Option Err
  | .add k => match addKey ring k with | .ok r => (r, none) | .error e => (ring, some e)
  | .use k => match useKey ring k with | .ok r => (r, none) | .error e => (ring, some e)
  | .remove k => match removeKey ring k with | .ok r => (r, none) | .error e => (ring, some e)
  | .getKeys => (ring, none)
  | .getPrimary => (ring, none)

def run (ring : List Key) (ops : List Op) : List Key := ops.foldl (fun r op => (step r op).1) ring

/-- Ring invariant: no duplicates, every key has a valid AES length. -/
def Inv (ring : List Key) : Prop := ring.Nodup ∧ ∀ k ∈ ring, validLen k = true

/-- executable twin of `Inv` used on implementation results -/
def invB (ring : List Key) : Bool :=
  ring.all validLen && (ring.eraseDups.length == ring.length)

/-! ### Cluster rotation -/

/-- A cluster is one ring per node. -/
abbrev Cluster := List (List Key)

def allHave (c : Cluster) (k : Key) : Bool := c.all (·.contains k)
def allPrimary (c : Cluster) (k : Key) : Bool := c.all (fun r => primary r == some k)

/-- Rotation steps from `old` to `new`, each guarded by its phase barrier:
`install` any time, `use` only once everybody has installed `new`,
`remove` only once everybody uses `new`. -/
inductive RotStep where
  | install (i : Nat)
  | use (i : Nat)
  | remove (i : Nat)
  deriving Repr

def modifyAt (c : Cluster) (i : Nat) (f : List Key → List Key) : Cluster :=
  c.mapIdx fun j r => if j = i then f r else r

def okOr (r : List Key) (x : Except Err (List Key)) : List Key :=
  match x with | .ok r' => r' | .error _ => r

def rotStep (old new : Key) (c : Cluster) : RotStep → Cluster
  | .install i => modifyAt c i fun r => okOr r (addKey r new)
  | .use i => if allHave c new then modifyAt c i fun r => okOr r (useKey r new) else c
  | .remove i => if allPrimary c new then modifyAt c i fun r => okOr r (removeKey r old) else c

/-- every sender's primary key is installed at every receiver -/
def canTalk (c : Cluster) : Prop :=
  ∀ s ∈ c, ∀ r ∈ c, ∀ k, primary s = some k → k ∈ r

def canTalkB (c : Cluster) : Bool :=
  c.all fun s => c.all fun r => match primary s with | some k => r.contains k | none => true

end Swim.Keyring
