/-
Model of the member-selection helpers of util.go, statement by statement:

* `moveDeadNodes` (the in-place partition that `resetNodes` runs before it truncates the member list),
* `shuffleNodes` (as the permutation it produced: an input),
* `kRandomNodes` (both branches: the exhaustive walk over a shuffled copy for short lists and the
  `3*n` random draws for long ones),
* the three exclusion rules handed to `kRandomNodes` by `gossip`, `probeNode` (indirect relays) and
  `pushPull`.

Random choices are inputs (`shuffled`: the order `shuffleNodes` gave the copy; `offs`: the values
`randomOffset(n)` returned, in order); the clock enters through the Boolean `old`
(`time.Since(StateChange) > GossipToTheDeadTime`).
-/
namespace Swim.Select

structure SNode where
  name : String
  state : Nat      -- 0 alive, 1 suspect, 2 dead, 3 left (the numbering of NodeStateType, see Gen.Facts)
  old : Bool       -- time.Since(StateChange) > GossipToTheDeadTime
  excl : Bool      -- verdict of the caller's exclude function for this entry
  deriving DecidableEq, Repr, Inhabited

def SNode.gone (n : SNode) : Bool := n.state == 2 || n.state == 3   -- DeadOrLeft()

/-- the test of moveDeadNodes: departed, and for longer than the gossip-to-the-dead window -/
def SNode.reap (n : SNode) : Bool := n.gone && n.old

/-- the loop of `moveDeadNodes` from position `i` with `numDead` entries already moved to the tail:
`for i := 0; i < n-numDead; i++ { if !reap(nodes[i]) {continue}; swap(i, n-numDead-1); numDead++; i-- }` -/
def moveDeadLoop (xs : Array SNode) (i numDead : Nat) : Array SNode × Nat :=
  if h : i < xs.size - numDead then
    if (xs[i]'(by omega)).reap then
      moveDeadLoop (xs.swap i (xs.size - numDead - 1) (by omega) (by omega)) i (numDead + 1)
    else moveDeadLoop xs (i + 1) numDead
  else (xs, xs.size - numDead)
termination_by xs.size - numDead - i
decreasing_by
  all_goals simp_wf
  all_goals omega

/-- `moveDeadNodes(nodes, gossipToTheDeadTime)`: the rearranged slice and the returned index -/
def moveDead (xs : Array SNode) : Array SNode × Nat := moveDeadLoop xs 0 0

/-- the second loop of `kRandomNodes` (long lists): one random draw per round, at most `3*n` rounds,
stops when `k` members are chosen; skips excluded entries and names chosen before -/
def pickLoop (k : Nat) (nodes : Array SNode) : List Nat → List SNode → List SNode
  | [], acc => acc
  | o :: os, acc =>
    if acc.length ≥ k then acc
    else
      match nodes[o]? with
      | none => acc        -- cannot happen: randomOffset(n) < n; Go would panic
      | some s =>
        if s.excl then pickLoop k nodes os acc
        else if acc.any (fun a => a.name == s.name) then pickLoop k nodes os acc
        else pickLoop k nodes os (acc ++ [s])

/-- `kRandomNodes(k, nodes, exclude)` -/
def kRandom (k : Nat) (nodes : Array SNode) (shuffled : List SNode) (offs : List Nat) : List SNode :=
  if nodes.size < k * 3 then (shuffled.filter (fun s => !s.excl)).take k
  else pickLoop k nodes (offs.take (3 * nodes.size)) []

/-! exclusion rules of the three callers (hand-written; tied to the translated closures in
`Props/GenTie/Select.lean`) -/

/-- `gossip()`: never the node itself; alive and suspect members always; dead members only inside the
gossip-to-the-dead window; anything else (left) never -/
def gossipExcl (isSelf : Bool) (state : Nat) (old : Bool) : Bool :=
  if isSelf then true
  else if state == 0 || state == 1 then false
  else if state == 2 then old
  else true

/-- `probeNode()` choosing relays for an indirect ping: not itself, not the target, alive only -/
def relayExcl (isSelf isTarget : Bool) (state : Nat) : Bool :=
  isSelf || isTarget || state != 0

/-- `pushPull()` choosing its partner: not itself, alive only -/
def pushPullExcl (isSelf : Bool) (state : Nat) : Bool :=
  isSelf || state != 0

/-- what `resetNodes` keeps (before the final shuffle): the records in front of the index `moveDeadNodes`
returned, and - never reaped - the node's own record when it sits behind that index (it is swapped to the
index, which then moves one up) -/
def resetKeep (self : String) (xs : Array SNode) : List SNode :=
  let r := moveDead xs
  let kept := r.1.toList.take r.2
  match (r.1.toList.drop r.2).find? (fun n => n.name == self) with
  | some s => kept ++ [s]
  | none => kept

/-! the three loops over the member list in memberlist.go -/

/-- `anyAlive()`: is there a member other than the node itself that has not departed? (`Leave` waits for
its departure to be gossiped only then) -/
def anyAlive (self : String) (nodes : List SNode) : Bool :=
  nodes.any (fun n => !n.gone && n.name != self)

/-- `Members()`: the records that have not departed, in list order -/
def members (nodes : List SNode) : List SNode := nodes.filter (fun n => !n.gone)

/-- `NumMembers()` -/
def numMembers (nodes : List SNode) : Nat := nodes.countP (fun n => !n.gone)

/-- `Config.IPAllowed(ip)` given the verdict of each configured network on `ip` -/
def ipAllowed (contains : List Bool) : Bool := contains.isEmpty || contains.any id

end Swim.Select
