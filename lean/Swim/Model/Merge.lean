/-
Model of the per-member merge rules of state.go: aliveNode, suspectNode, deadNode,
mergeState, refute, the suspicion-timer callback, resetNodes (reaping), and the local
API entry points that feed them (setAlive/UpdateNode, Leave).

Abstractions (each tied by the step harness):
* addresses and metadata are opaque codes (`Nat`); the harness maps distinct byte strings
  (address bytes as compared by bytes.Equal, plus port) to distinct codes;
* time is logical: `changed = some t` is "changed by the operation with stamp t" (recent,
  younger than every configured threshold), `changed = none` is "long ago" (zero time, or
  aged past DeadNodeReclaimTime / GossipToTheDeadTime by the harness);
* random choices (insertion offset, shuffle) and float-derived timer parameters are inputs.
-/
namespace Swim.Merge

inductive St where
  | alive | suspect | dead | left
  deriving DecidableEq, Repr, Inhabited

def St.deadOrLeft : St → Bool
  | .dead => true | .left => true | _ => false

structure Rec where
  name : String
  inc : Nat
  st : St
  addr : Nat
  port : Nat
  md : Nat
  vsn : List Nat          -- pmin pmax pcur dmin dmax dcur as stored (always 6 values)
  changed : Option Nat
  deriving DecidableEq, Repr, Inhabited

structure Timer where
  node : String
  k : Nat
  n : Nat                    -- confirmations counted
  confirmers : List String   -- includes the original accuser
  changedAt : Nat            -- the change stamp the callback compares with
  deriving DecidableEq, Repr

structure Cfg where
  self : String
  reclaim : Bool             -- DeadNodeReclaimTime > 0
  hasAliveDelegate : Bool
  hasConflictDelegate : Bool
  awarenessMax : Nat
  suspicionK : Nat           -- SuspicionMult - 2
  deriving Repr

structure Node where
  cfg : Cfg
  recs : List Rec := []
  timers : List Timer := []        -- live timers (the nodeTimers map)
  selfInc : Nat := 0               -- m.incarnation
  hasLeft : Bool := false
  score : Nat := 0
  numNodes : Nat := 0
  deriving Repr

inductive Kind where
  | alive | suspect | dead
  deriving DecidableEq, Repr

/-- observable effects of one operation, in order -/
inductive Out where
  | join (name : String) (addr port md : Nat)
  | update (name : String) (md : Nat)
  | leave (name : String)
  | conflict (name : String) (addr port : Nat)
  | bcast (qname : String) (kind : Kind) (node : String) (inc : Nat) (frm : String) (notify : Bool)
  | newTimer (node : String) (k : Nat) (frm : String)
  deriving DecidableEq, Repr

structure AliveMsg where
  inc : Nat
  node : String
  addr : Nat
  port : Nat
  md : Nat
  vsn : List Nat
  deriving DecidableEq, Repr

/-- environment of one call: logical time stamp, allow-list verdict for the claimed address,
alive-delegate verdict, random insertion offset, name of the address string used as queue name -/
structure Env where
  now : Nat
  ipAllowed : Bool
  delegateOk : Bool
  offset : Nat
  deriving Repr

def lookup (recs : List Rec) (name : String) : Option Rec := recs.find? (·.name == name)

def setRec (recs : List Rec) (r : Rec) : List Rec := recs.map fun x => if x.name == r.name then r else x

def delTimer (ts : List Timer) (name : String) : List Timer := ts.filter (·.node != name)

def u32 : Nat := 4294967296

/-- `refute`: next incarnation strictly above the accusation (uint32 arithmetic), health +1,
alive broadcast queued under the address string (modelled as `"@" ++ name`). -/
def refuteInc (cur acc : Nat) : Nat :=
  let i := (cur + 1) % u32
  if acc ≥ i then (i + (acc + u32 - i + 1) % u32) % u32 else i

def bumpScore (n : Node) (delta : Int) : Nat :=
  let s : Int := (n.score : Int) + delta
  if s < 0 then 0 else if s > (n.cfg.awarenessMax : Int) - 1 then ((n.cfg.awarenessMax : Int) - 1).toNat else s.toNat

def refute (n : Node) (me : Rec) (accused : Nat) : Node × List Out :=
  let inc := refuteInc n.selfInc accused
  let me' := { me with inc }
  ({ n with selfInc := inc, recs := setRec n.recs me', score := bumpScore n 1 },
   [.bcast ("@" ++ me.name) .alive me.name inc "" false])

def vsnBad (v : List Nat) : Bool :=
  v.length ≥ 3 && (v.getD 0 0 == 0 || v.getD 1 0 == 0 || v.getD 0 0 > v.getD 1 0)

/-- the record `aliveNode` inserts for a member it has never heard of: dead, incarnation 0 -/
def stub (a : AliveMsg) : Rec :=
  { name := a.node, inc := 0, st := .dead, addr := a.addr, port := a.port, md := a.md,
    vsn := if a.vsn.length > 5 then a.vsn.take 6 else [0, 0, 0, 0, 0, 0], changed := none }

def withStub (n : Node) (a : AliveMsg) : Node :=
  { n with recs := n.recs ++ [stub a], numNodes := n.numNodes + 1 }

/-- may a different address take this record over? left: at once; dead: once the reclaim time elapsed -/
def reclaimable (n : Node) (r : Rec) : Bool :=
  r.st == .left || (r.st == .dead && n.cfg.reclaim && r.changed == none)

/-- what `aliveNode` decides to do with a claim -/
inductive AliveDec where
  | ignore                        -- nothing happens
  | conflict                      -- different address, holder not reclaimable: conflict callback only
  | stubOnly                      -- unknown member announced with incarnation 0: dead stub inserted, nothing else
  | delTimerOnly (isNew : Bool)   -- local node, same incarnation/meta/versions: only the timer entry is dropped
  | refuteSelf (isNew : Bool)     -- local node accused: refute
  | accept (isNew : Bool)         -- record updated, re-gossiped, event
  deriving DecidableEq, Repr

/-- the staleness tests and the local-node branch, for a known (or freshly stubbed) record -/
def decideKnown (n : Node) (a : AliveMsg) (bootstrap : Bool) (state : Rec) (updatesNode isNew : Bool) : AliveDec :=
  let isLocal := a.node == n.cfg.self
  if a.inc ≤ state.inc && !isLocal && !updatesNode then (if isNew then .stubOnly else .ignore)
  else if a.inc < state.inc && isLocal then (if isNew then .stubOnly else .ignore)
  else if !bootstrap && isLocal then
    if a.inc == state.inc && a.md == state.md && a.vsn == state.vsn then .delTimerOnly isNew else .refuteSelf isNew
  else .accept isNew

def aliveDecide (n : Node) (a : AliveMsg) (bootstrap : Bool) (env : Env) : AliveDec :=
  if n.hasLeft && a.node == n.cfg.self then .ignore
  else if vsnBad a.vsn then .ignore
  else if n.cfg.hasAliveDelegate && (a.vsn.length < 6 || !env.delegateOk) then .ignore
  else
    match lookup n.recs a.node with
    | none => if !env.ipAllowed then .ignore else decideKnown n a bootstrap (stub a) false true
    | some state =>
      if state.addr != a.addr || state.port != a.port then
        if !env.ipAllowed then .ignore
        else if reclaimable n state then decideKnown n a bootstrap state true false
        else .conflict
      else decideKnown n a bootstrap state false false

/-- the updated record of an accepted alive claim -/
def acceptRec (state : Rec) (a : AliveMsg) (env : Env) : Rec :=
  { state with
    vsn := if a.vsn.length ≥ 6 then a.vsn.take 6 else state.vsn
    inc := a.inc
    md := a.md
    addr := a.addr
    port := a.port
    st := .alive
    changed := if state.st != .alive then some env.now else state.changed }

def aliveApply (n : Node) (a : AliveMsg) (notify : Bool) (env : Env) : AliveDec → Node × List Out
  | .ignore => (n, [])
  | .conflict => (n, if n.cfg.hasConflictDelegate then [.conflict a.node a.addr a.port] else [])
  | .stubOnly => (withStub n a, [])
  | .delTimerOnly isNew =>
    let base := if isNew then withStub n a else n
    ({ base with timers := delTimer base.timers a.node }, [])
  | .refuteSelf isNew =>
    let base := if isNew then withStub n a else n
    let state := (lookup base.recs a.node).getD (stub a)
    let base := { base with timers := delTimer base.timers a.node }
    let (n', outs) := refute base state a.inc
    (n', outs ++ (if state.st.deadOrLeft then [.join state.name state.addr state.port state.md] else []))
  | .accept isNew =>
    let base := if isNew then withStub n a else n
    let state := (lookup base.recs a.node).getD (stub a)
    ({ base with timers := delTimer base.timers a.node, recs := setRec base.recs (acceptRec state a env) },
     [.bcast a.node .alive a.node a.inc "" notify] ++
     (if state.st.deadOrLeft then [.join a.node a.addr a.port a.md]
      else if state.md != a.md then [.update a.node a.md] else []))

/-- `aliveNode` -/
def aliveNode (n : Node) (a : AliveMsg) (notify bootstrap : Bool) (env : Env) : Node × List Out :=
  aliveApply n a notify env (aliveDecide n a bootstrap env)

structure Claim where   -- suspect / dead message
  inc : Nat
  node : String
  frm : String
  deriving DecidableEq, Repr

/-- `suspicion.Confirm` (bookkeeping part; the timing part is `Swim.Model.Susp`) -/
def Timer.confirm (t : Timer) (frm : String) : Timer × Bool :=
  if t.n ≥ t.k then (t, false)
  else if t.confirmers.contains frm then (t, false)
  else ({ t with n := t.n + 1, confirmers := t.confirmers ++ [frm] }, true)

/-- `suspectNode`; `k` for a new timer is computed from the cluster-size estimate -/
def suspectNode (n : Node) (s : Claim) (env : Env) : Node × List Out :=
  match lookup n.recs s.node with
  | none => (n, [])
  | some state =>
    if s.inc < state.inc then (n, [])
    else
      match n.timers.find? (·.node == s.node) with
      | some t =>
        let (t', ok) := t.confirm s.frm
        if ok then ({ n with timers := n.timers.map fun x => if x.node == s.node then t' else x },
                    [.bcast s.node .suspect s.node s.inc s.frm false])
        else (n, [])
      | none =>
        if state.st != .alive then (n, [])
        else if state.name == n.cfg.self then refute n state s.inc
        else
          let st' := { state with inc := s.inc, st := .suspect, changed := some env.now }
          let k := if n.numNodes < n.cfg.suspicionK + 2 then 0 else n.cfg.suspicionK
          let t : Timer := { node := s.node, k, n := 0, confirmers := [s.frm], changedAt := env.now }
          ({ n with recs := setRec n.recs st', timers := n.timers ++ [t] },
           [.bcast s.node .suspect s.node s.inc s.frm false, .newTimer s.node k s.frm])

/-- `deadNode` -/
def deadNode (n : Node) (d : Claim) (env : Env) : Node × List Out :=
  match lookup n.recs d.node with
  | none => (n, [])
  | some state =>
    if d.inc < state.inc then (n, [])
    else
      let n := { n with timers := delTimer n.timers d.node }
      if state.st.deadOrLeft then (n, [])
      else if state.name == n.cfg.self && !n.hasLeft then refute n state d.inc
      else
        let st' := { state with inc := d.inc, st := if d.node == d.frm then .left else .dead, changed := some env.now }
        ({ n with recs := setRec n.recs st' },
         [.bcast d.node .dead d.node d.inc d.frm (state.name == n.cfg.self), .leave d.node])

/-- one entry of a push/pull state list -/
structure PushState where
  name : String
  addr : Nat
  port : Nat
  md : Nat
  inc : Nat
  st : St
  vsn : List Nat
  ipAllowed : Bool    -- environment verdicts for this entry
  delegateOk : Bool
  offset : Nat
  deriving DecidableEq, Repr

/-- `mergeState`: alive → aliveNode, left → deadNode(from = name), dead|suspect → suspectNode(from = self) -/
def mergeOne (n : Node) (r : PushState) (now : Nat) : Node × List Out :=
  let env : Env := { now, ipAllowed := r.ipAllowed, delegateOk := r.delegateOk, offset := r.offset }
  match r.st with
  | .alive => aliveNode n { inc := r.inc, node := r.name, addr := r.addr, port := r.port, md := r.md, vsn := r.vsn } false false env
  | .left => deadNode n { inc := r.inc, node := r.name, frm := r.name } env
  | .dead => suspectNode n { inc := r.inc, node := r.name, frm := n.cfg.self } env
  | .suspect => suspectNode n { inc := r.inc, node := r.name, frm := n.cfg.self } env

def mergeState (n : Node) (rs : List PushState) (now : Nat) : Node × List Out :=
  rs.foldl (fun (acc : Node × List Out) r => let (n', o) := mergeOne acc.1 r now; (n', acc.2 ++ o)) (n, [])

/-- the suspicion timer callback of the timer created with change stamp `changedAt` for `node` -/
def timerFire (n : Node) (node : String) (changedAt : Nat) (env : Env) : Node × List Out :=
  match lookup n.recs node with
  | none => (n, [])
  | some state =>
    if state.st == .suspect && state.changed == some changedAt then
      deadNode n { inc := state.inc, node := state.name, frm := n.cfg.self } env
    else (n, [])

/-- `resetNodes`: drop dead/left records that changed long ago (never our own). The shuffle that
follows is irrelevant here (records are compared as a set; the probe order is `Swim.Model.Probe`). -/
def reap (n : Node) : Node :=
  let keep := n.recs.filter fun r => !(r.st.deadOrLeft && r.changed == none) || r.name == n.cfg.self
  { n with recs := keep, numNodes := keep.length }

/-- `setAlive` / `UpdateNode`: bump the incarnation, then a bootstrap alive about ourselves -/
def updateNode (n : Node) (addr port md : Nat) (vsn : List Nat) (notify : Bool) (env : Env) : Node × List Out :=
  let inc := (n.selfInc + 1) % u32
  aliveNode { n with selfInc := inc } { inc, node := n.cfg.self, addr, port, md, vsn } notify true env

/-- `Leave` (state part): set the flag, then a self-signed dead at the record's incarnation -/
def leave (n : Node) (env : Env) : Node × List Out :=
  if n.hasLeft then (n, [])
  else
    let n := { n with hasLeft := true }
    match lookup n.recs n.cfg.self with
    | none => (n, [])
    | some state => deadNode n { inc := state.inc, node := state.name, frm := state.name } env

/-- aging: the harness moves the change time of a record into the far past -/
def ageRec (n : Node) (name : String) : Node :=
  { n with recs := n.recs.map fun r => if r.name == name then { r with changed := none } else r }

inductive Op where
  | alive (a : AliveMsg) (bootstrap : Bool) (env : Env)
  | suspect (c : Claim) (env : Env)
  | dead (c : Claim) (env : Env)
  | merge (rs : List PushState) (now : Nat)
  | fire (node : String) (changedAt : Nat) (env : Env)
  | reap
  | update (addr port md : Nat) (vsn : List Nat) (env : Env)
  | leave (env : Env)
  | age (name : String)
  deriving Repr

def step (n : Node) : Op → Node × List Out
  | .alive a b env => aliveNode n a false b env
  | .suspect c env => suspectNode n c env
  | .dead c env => deadNode n c env
  | .merge rs now => mergeState n rs now
  | .fire node ca env => timerFire n node ca env
  | .reap => (reap n, [])
  | .update a p m v env => updateNode n a p m v true env
  | .leave env => leave n env
  | .age name => (ageRec n name, [])

/-- `Members()`: names of the records that are neither dead nor left, in list order -/
def members (n : Node) : List String := (n.recs.filter (fun r => !r.st.deadOrLeft)).map (·.name)

end Swim.Merge
