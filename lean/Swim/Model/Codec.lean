import Swim.Gen.Facts
/-
Byte-exact models of the framing layers of util.go / label.go / security.go:
compound messages, label headers, PKCS7 padding, encrypted length and the packet budgets
of gossip() / sendMsg() / getBroadcasts(). Constants come from the regenerated facts.
-/
namespace Swim.Codec

abbrev Bytes := List UInt8

def be16 (n : Nat) : Bytes := [UInt8.ofNat (n / 256 % 256), UInt8.ofNat (n % 256)]

def rd16 (a b : UInt8) : Nat := a.toNat * 256 + b.toNat

/-! ### compound messages -/

/-- `makeCompoundMessage`: type byte, count byte (mod 256), 16-bit lengths (mod 65536), bodies -/
def makeCompound (msgs : List Bytes) : Bytes :=
  [UInt8.ofNat Gen.c_compoundMsg, UInt8.ofNat (msgs.length % 256)] ++
    msgs.flatMap (fun m => be16 (m.length % 65536)) ++ msgs.flatten

def chunks (k : Nat) : Nat → List Bytes → List (List Bytes)
  | 0, _ => []
  | fuel + 1, msgs => if msgs.length ≤ k then (if msgs.isEmpty then [] else [msgs]) else msgs.take k :: chunks k fuel (msgs.drop k)

/-- `makeCompoundMessages`: at most 255 parts per compound message -/
def makeCompounds (msgs : List Bytes) : List Bytes :=
  (chunks Gen.c_maxCompoundParts (msgs.length + 1) msgs).map makeCompound

def readLens : Nat → Bytes → Option (List Nat × Bytes)
  | 0, buf => some ([], buf)
  | n + 1, a :: b :: rest => (readLens n rest).map fun (ls, r) => (rd16 a b :: ls, r)
  | _ + 1, _ => none

/-- split bodies; stops at the first length that does not fit (truncation) -/
def splitParts : List Nat → Bytes → List Bytes × Nat
  | [], _ => ([], 0)
  | l :: ls, buf =>
    if buf.length < l then ([], (l :: ls).length)
    else
      let (ps, t) := splitParts ls (buf.drop l)
      (buf.take l :: ps, t)

inductive DecErr where
  | missingLen | truncLens
  deriving DecidableEq, Repr

/-- `decodeCompoundMessage` (input without the type byte): (truncated count, parts) -/
def decodeCompound (buf : Bytes) : Except DecErr (Nat × List Bytes) :=
  match buf with
  | [] => .error .missingLen
  | n :: rest =>
    match readLens n.toNat rest with
    | none => .error .truncLens
    | some (lens, body) =>
      let (ps, t) := splitParts lens body
      .ok (t, ps)

/-! ### label header -/

/-- `makeLabelHeader` / `AddLabelHeaderToPacket` (label of at most 255 bytes) -/
def addLabel (label : Bytes) (buf : Bytes) : Bytes :=
  if label.isEmpty then buf
  else [UInt8.ofNat Gen.c_hasLabelMsg, UInt8.ofNat label.length] ++ label ++ buf

inductive LabelErr where
  | truncated | emptyLabel
  deriving DecidableEq, Repr

/-- `RemoveLabelHeaderFromPacket`: (payload, label) -/
def removeLabel (buf : Bytes) : Except LabelErr (Bytes × Bytes) :=
  match buf with
  | [] => .ok ([], [])
  | t :: rest =>
    if t.toNat ≠ Gen.c_hasLabelMsg then .ok (buf, [])
    else
      match rest with
      | [] => .error .truncated
      | sz :: rest2 =>
        if sz.toNat < 1 then .error .emptyLabel
        else if rest2.length < sz.toNat then .error .truncated
        else .ok (rest2.drop sz.toNat, rest2.take sz.toNat)

def labelOverhead (label : Bytes) : Nat := if label.isEmpty then 0 else 2 + label.length

/-- the label gate of `ingestPacket` / `handleConn`: which label the receiver goes on with,
or `none` if the traffic is discarded -/
def labelGate (cfgLabel : Bytes) (skipInbound : Bool) (carried : Bytes) : Option Bytes :=
  if skipInbound then (if !carried.isEmpty then none else some cfgLabel)
  else if cfgLabel == carried then some carried else none

/-- a sealed stream (push/pull, reliable user message, fallback ping) as `handleConn` treats it: the label
gate first, then the AEAD opens only under an installed key with the label the receiver went on with as
associated data. `carried` is the label header on the stream, `aad` the label the sender sealed with. -/
def sealedStreamAdmitted (cfgLabel : Bytes) (skipInbound : Bool) (carried aad : Bytes) (keyInstalled : Bool) : Bool :=
  match labelGate cfgLabel skipInbound carried with
  | none => false
  | some l => keyInstalled && l == aad

/-! ### PKCS7 -/

/-- `pkcs7encode` with `ignore = 0` -/
def pkcs7pad (buf : Bytes) (bs : Nat) : Bytes :=
  let more := bs - buf.length % bs
  buf ++ List.replicate more (UInt8.ofNat more)

/-- `pkcs7valid` -/
def pkcs7valid (buf : Bytes) (bs : Nat) : Bool :=
  match buf.getLast? with
  | none => false
  | some last =>
    buf.length % bs == 0 && 1 ≤ last.toNat && last.toNat ≤ bs && last.toNat ≤ buf.length &&
      (buf.drop (buf.length - last.toNat)).all (· == last)

/-- `pkcs7decode` (only called after `pkcs7valid`) -/
def pkcs7strip (buf : Bytes) : Bytes :=
  match buf.getLast? with
  | none => buf
  | some last => buf.take (buf.length - last.toNat)

/-! ### lengths and budgets -/

/-- `encryptedLength` -/
def encryptedLength (vsn inp : Nat) : Nat :=
  if vsn ≥ 1 then Gen.c_versionSize + Gen.c_nonceSize + inp + Gen.c_tagSize
  else Gen.c_versionSize + Gen.c_nonceSize + inp + (Gen.c_blockSize - inp % Gen.c_blockSize) + Gen.c_tagSize

def encryptOverhead (vsn : Nat) : Nat := if vsn = 0 then Gen.c_encryptOverhead0 else Gen.c_encryptOverhead1

structure PktCfg where
  udpBufferSize : Nat
  label : Bytes
  encrypt : Bool        -- EncryptionEnabled && GossipVerifyOutgoing
  encEnabled : Bool     -- EncryptionEnabled (gossip() subtracts on this alone)
  vsn : Nat             -- encryption version
  crc : Bool            -- peer understands protocol version 5

/-- bytes on the wire for a payload of `n` bytes handed to `rawSendMsgPacket`
(compression is only used when it makes the payload smaller, so `n` is an upper bound) -/
def wireLen (c : PktCfg) (n : Nat) : Nat :=
  let n1 := if c.crc then n + Gen.c_crcHeaderOverhead else n
  let n2 := if c.encrypt then encryptedLength c.vsn n1 else n1
  labelOverhead c.label + n2

/-- `bytesAvail` of `gossip()` (may be negative) -/
def gossipAvail (c : PktCfg) : Int :=
  (c.udpBufferSize : Int) - Gen.c_compoundHeaderOverhead - Gen.c_crcHeaderOverhead - labelOverhead c.label -
    (if c.encEnabled then (encryptOverhead c.vsn : Int) else 0)

/-- `bytesAvail` of `sendMsg()` for a primary message of `m` bytes -/
def sendMsgAvail (c : PktCfg) (m : Nat) : Int :=
  (c.udpBufferSize : Int) - m - Gen.c_compoundHeaderOverhead - Gen.c_compoundOverhead - Gen.c_crcHeaderOverhead -
    labelOverhead c.label - (if c.encrypt then (encryptOverhead c.vsn : Int) else 0)

/-- length of one compound message holding parts of the given lengths -/
def compoundLen (lens : List Nat) : Nat := 2 + 2 * lens.length + lens.sum

end Swim.Codec
