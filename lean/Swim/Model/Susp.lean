/-
Model of suspicion.go: the suspicion timer with accelerating confirmations.
Times are integers (nanoseconds). The timeout schedule `tmo n` (what remainingSuspicionTime
computes with floating point, plus the elapsed time) is a parameter; the harness reads the table
from the real function on every run and the driver checks the hypotheses `Sched` on it.
-/
namespace Swim.Susp

structure T where
  k : Nat
  minT : Nat
  maxT : Nat
  start : Nat
  n : Nat := 0
  confirmers : List String
  deadline : Option Nat      -- absolute firing time while the runtime timer is pending
  firedAt : Option Nat := none
  deriving Repr

/-- `newSuspicion` at time `now` -/
def new (frm : String) (k minT maxT now : Nat) : T :=
  { k, minT, maxT, start := now, confirmers := [frm],
    deadline := some (now + (if k < 1 then minT else maxT)) }

/-- the runtime timer fires -/
def fire (s : T) (now : Nat) : T :=
  match s.deadline with
  | some d => if d ≤ now ∧ s.firedAt.isNone then { s with deadline := none, firedAt := some d } else s
  | none => s

/-- `Confirm(from)` at time `now` (after any due firing has been delivered) -/
def confirm (tmo : Nat → Nat) (s : T) (frm : String) (now : Nat) : T × Bool :=
  let s := fire s now
  if s.n ≥ s.k then (s, false)
  else if s.confirmers.contains frm then (s, false)
  else
    let n := s.n + 1
    let s := { s with n, confirmers := s.confirmers ++ [frm] }
    match s.deadline with
    | some _ =>        -- timer.Stop() succeeded
      if s.start + tmo n > now then ({ s with deadline := some (s.start + tmo n) }, true)
      else ({ s with deadline := none, firedAt := some now }, true)   -- go timeoutFn()
    | none => (s, true)   -- already fired: nothing to reschedule

/-- run a timed script of confirmations, then let the timer run out -/
def run (tmo : Nat → Nat) (s : T) : List (Nat × String) → T
  | [] => match s.deadline with
    | some d => fire s d
    | none => s
  | (t, frm) :: rest => run tmo (confirm tmo s frm t).1 rest

/-- hypotheses on the timeout schedule: the documented shape of remainingSuspicionTime -/
structure Sched (tmo : Nat → Nat) (k minT maxT : Nat) : Prop where
  bounded : ∀ j, minT ≤ tmo j ∧ tmo j ≤ maxT
  atK : tmo k = minT
  antitone : ∀ i j, i ≤ j → tmo j ≤ tmo i

end Swim.Susp
