/-
Model of the probe / acknowledgement logic of state.go and net.go:
probeNode's outcome as a function of the timed ack/nack schedule, the relay side
(handleIndirectPing), and the awareness score.
Times are relative to the start of the probe, in nanoseconds.
-/
namespace Swim.Acks

inductive Kind where
  | ack | nack
  deriving DecidableEq, Repr

structure Ev where
  t : Nat
  kind : Kind
  mine : Bool        -- carries this probe's own sequence number
  deriving Repr

structure Cfg where
  probeInterval : Nat
  probeTimeout : Nat
  awarenessMax : Nat
  indirectChecks : Nat
  deriving Repr

/-- the probe's deadline: the awareness-scaled probe interval -/
def deadline (c : Cfg) (score : Nat) : Nat := c.probeInterval * (score + 1)

/-- the ack handler is alive from the start of the probe until its deadline, or its first use -/
def answered (c : Cfg) (score : Nat) (evs : List Ev) : Bool :=
  evs.any fun e => e.kind == .ack && e.mine && e.t < deadline c score

/-- nacks counted: own sequence number, before the deadline and before the handler is consumed by an
ack; the channel holds at most `indirectChecks + 1` -/
def nackCount (c : Cfg) (score : Nat) (evs : List Ev) : Nat :=
  min (c.indirectChecks + 1) ((evs.filter fun e => e.kind == .nack && e.mine && e.t < deadline c score).length)

/-- outcome of `probeNode`: (target suspected?, awareness delta) -/
def probeOutcome (c : Cfg) (score : Nat) (evs : List Ev) (expectedNacks : Nat) (tcpOk : Bool) : Bool × Int :=
  if answered c score evs then (false, -1)
  else if tcpOk then (false, -1)
  else
    let d : Int :=
      if expectedNacks > 0 then
        (if nackCount c score evs < expectedNacks then (expectedNacks : Int) - nackCount c score evs else 0)
      else 1
    (true, d)

/-- how the direct ping left the node: handed to the transport, refused with an error that blames the
remote side (`failedRemote`: a udp dial/read/write `*net.OpError`), or refused with any other
(local) error -/
inductive Sent where
  | ok | remoteError | localError
  deriving DecidableEq, Repr

/-- outcome of `probeNode` including the send of the direct ping. A local send error ends the probe at
once: no verdict, no awareness change. A remote error jumps to the failure path (indirect pings, TCP
fallback), skipping the line that arms the `-1`: a success there leaves the score alone. -/
def probeWithSend (sent : Sent) (c : Cfg) (score : Nat) (evs : List Ev) (expectedNacks : Nat) (tcpOk : Bool) : Bool × Int :=
  match sent with
  | .ok => probeOutcome c score evs expectedNacks tcpOk
  | .localError => (false, 0)
  | .remoteError =>
    let r := probeOutcome c score evs expectedNacks tcpOk
    if r.1 then r else (false, 0)

/-- the `Ping` API: one direct ping whose pending record lives for a probe interval while the caller waits
for the probe timeout: answered iff an acknowledgement with its own sequence number arrives before both -/
def pingAnswered (interval timeout : Nat) (evs : List Ev) : Bool :=
  evs.any fun e => e.kind == .ack && e.mine && e.t < min interval timeout

/-- `awareness.ApplyDelta` -/
def applyDelta (max : Nat) (score : Nat) (delta : Int) : Nat :=
  let s : Int := (score : Int) + delta
  if s < 0 then 0 else if s > (max : Int) - 1 then ((max : Int) - 1).toNat else s.toNat

/-- relay side (`handleIndirectPing`): given whether and when the ack for the relay's own fresh
sequence number arrives, what is sent back to the requester: (acks forwarded, nacks sent) -/
def relayOutcome (probeTimeout : Nat) (nackWanted : Bool) (ackAt : Option Nat) : Nat × Nat :=
  match ackAt with
  | some t => if t < probeTimeout then (1, 0) else (0, if nackWanted then 1 else 0)
  | none => (0, if nackWanted then 1 else 0)

end Swim.Acks
