/-
Model of the msgpack encoding memberlist uses for its wire structs (util.go `encode` / `decode` with
`codec.MsgpackHandle{}` of hashicorp/go-msgpack v2: no `WriteExt`, so strings and byte slices share the
legacy "raw" family; structs are maps keyed by field name, fields in byte order of their names;
`omitempty` fields are left out when empty).

`encStruct` is byte-exact (compared with the real encoder on every run); `decStruct` is a strict
decoder: it accepts what the encoder emits (plus non-minimal unsigned forms) and is compared with
the real, more liberal decoder wherever it accepts.
-/
namespace Swim.Msgpack

abbrev Bytes := List UInt8

def b (n : Nat) : UInt8 := UInt8.ofNat n

def be16 (n : Nat) : Bytes := [b (n / 256), b n]
def be32 (n : Nat) : Bytes := [b (n / 16777216), b (n / 65536), b (n / 256), b n]
def be64 (n : Nat) : Bytes :=
  [b (n / 72057594037927936), b (n / 281474976710656), b (n / 1099511627776), b (n / 4294967296),
   b (n / 16777216), b (n / 65536), b (n / 256), b n]

def rd16 : Bytes → Option (Nat × Bytes)
  | x :: y :: r => some (x.toNat * 256 + y.toNat, r)
  | _ => none
def rd32 : Bytes → Option (Nat × Bytes)
  | x :: y :: z :: w :: r => some (((x.toNat * 256 + y.toNat) * 256 + z.toNat) * 256 + w.toNat, r)
  | _ => none
def rd64 : Bytes → Option (Nat × Bytes)
  | a :: b :: c :: d :: e :: f :: g :: h :: r =>
    some (((((((a.toNat * 256 + b.toNat) * 256 + c.toNat) * 256 + d.toNat) * 256 + e.toNat) * 256 + f.toNat) * 256
      + g.toNat) * 256 + h.toNat, r)
  | _ => none

/-- `EncodeUint` -/
def encUint (n : Nat) : Bytes :=
  if n ≤ 127 then [b n]
  else if n ≤ 255 then [b 0xcc, b n]
  else if n ≤ 65535 then b 0xcd :: be16 n
  else if n ≤ 4294967295 then b 0xce :: be32 n
  else b 0xcf :: be64 n

/-- `EncodeInt` on a non-negative value (lengths, counts, states) -/
def encInt (n : Nat) : Bytes :=
  if n ≤ 127 then [b n]
  else if n ≤ 32767 then b 0xd1 :: be16 n
  else if n ≤ 2147483647 then b 0xd2 :: be32 n
  else b 0xd3 :: be64 n

/-- `writeContainerLen(msgpackContainerRawLegacy)` followed by the bytes -/
def encRaw (s : Bytes) : Bytes :=
  if s.length < 32 then b (0xa0 + s.length) :: s
  else if s.length < 65536 then b 0xda :: (be16 s.length ++ s)
  else b 0xdb :: (be32 s.length ++ s)

def encBool (v : Bool) : Bytes := if v then [b 0xc3] else [b 0xc2]

def decUint : Bytes → Option (Nat × Bytes)
  | [] => none
  | t :: r =>
    if t.toNat ≤ 127 then some (t.toNat, r)
    else if t.toNat = 0xcc then (match r with | x :: r' => some (x.toNat, r') | [] => none)
    else if t.toNat = 0xcd then rd16 r
    else if t.toNat = 0xce then rd32 r
    else if t.toNat = 0xcf then rd64 r
    else none

def decInt : Bytes → Option (Nat × Bytes)
  | [] => none
  | t :: r =>
    if t.toNat ≤ 127 then some (t.toNat, r)
    else if t.toNat = 0xd1 then (match rd16 r with | some (n, r') => if n ≤ 32767 then some (n, r') else none | none => none)
    else if t.toNat = 0xd2 then (match rd32 r with | some (n, r') => if n ≤ 2147483647 then some (n, r') else none | none => none)
    else if t.toNat = 0xd3 then (match rd64 r with | some (n, r') => if n ≤ 9223372036854775807 then some (n, r') else none | none => none)
    else none

def takeN (n : Nat) (r : Bytes) : Option (Bytes × Bytes) :=
  if n ≤ r.length then some (r.take n, r.drop n) else none

def decRaw : Bytes → Option (Bytes × Bytes)
  | [] => none
  | t :: r =>
    if 0xa0 ≤ t.toNat ∧ t.toNat ≤ 0xbf then takeN (t.toNat - 0xa0) r
    else if t.toNat = 0xda then (match rd16 r with | some (n, r') => takeN n r' | none => none)
    else if t.toNat = 0xdb then (match rd32 r with | some (n, r') => takeN n r' | none => none)
    else none

def decBool : Bytes → Option (Bool × Bytes)
  | [] => none
  | t :: r => if t.toNat = 0xc3 then some (true, r) else if t.toNat = 0xc2 then some (false, r) else none

/-! ### schema-driven structs -/

inductive Ty where
  | uint | int | str | bytes | bool
  deriving DecidableEq, Repr

inductive Val where
  | uint (n : Nat)
  | int (n : Nat)
  | str (s : Bytes)
  | bytes (v : Option Bytes)   -- a nil slice is `none`
  | bool (v : Bool)
  deriving DecidableEq, Repr

structure Field where
  name : Bytes
  ty : Ty
  omitE : Bool := false   -- `codec:",omitempty"`

def Val.ty : Val → Ty
  | .uint _ => .uint | .int _ => .int | .str _ => .str | .bytes _ => .bytes | .bool _ => .bool

/-- the emptiness test of `omitempty` -/
def Val.isEmpty : Val → Bool
  | .uint n => n == 0 | .int n => n == 0 | .str s => s.isEmpty
  | .bytes none => true | .bytes (some s) => s.isEmpty | .bool v => !v

def zero : Ty → Val
  | .uint => .uint 0 | .int => .int 0 | .str => .str [] | .bytes => .bytes none | .bool => .bool false

def encVal : Val → Bytes
  | .uint n => encUint n
  | .int n => encInt n
  | .str s => encRaw s
  | .bytes none => [b 0xc0]
  | .bytes (some s) => encRaw s
  | .bool v => encBool v

def decVal (t : Ty) (bs : Bytes) : Option (Val × Bytes) :=
  match t with
  | .uint => (decUint bs).map fun (n, r) => (.uint n, r)
  | .int => (decInt bs).map fun (n, r) => (.int n, r)
  | .str => (decRaw bs).map fun (s, r) => (.str s, r)
  | .bytes =>
    (match bs with
     | t :: r => if t.toNat = 0xc0 then some (.bytes none, r) else (decRaw bs).map fun (s, r) => (.bytes (some s), r)
     | [] => none)
  | .bool => (decBool bs).map fun (v, r) => (.bool v, r)

def present (f : Field) (v : Val) : Bool := !(f.omitE && v.isEmpty)

def encFields : List Field → List Val → Bytes
  | f :: fs, v :: vs => (if present f v then encRaw f.name ++ encVal v else []) ++ encFields fs vs
  | _, _ => []

def count : List Field → List Val → Nat
  | f :: fs, v :: vs => (if present f v then 1 else 0) + count fs vs
  | _, _ => 0

/-- a struct: fixmap header (fewer than 16 entries), then key / value pairs -/
def encStruct (fs : List Field) (vs : List Val) : Bytes := b (0x80 + count fs vs) :: encFields fs vs

/-- the bytes after the key `name`, when the input starts with that key -/
def matchKey (name : Bytes) (bs : Bytes) : Option Bytes :=
  match decRaw bs with
  | some (k, r) => if k = name then some r else none
  | none => none

/-- decode the fields of a schema from `k` remaining map entries -/
def decFields : List Field → Nat → Bytes → Option (List Val × Bytes)
  | [], 0, bs => some ([], bs)
  | [], _ + 1, _ => none
  | f :: fs, k, bs =>
    match (if k = 0 then none else matchKey f.name bs) with
    | some bs' =>
      (match decVal f.ty bs' with
       | some (v, bs'') =>
         (match decFields fs (k - 1) bs'' with
          | some (vs, r) => some (v :: vs, r)
          | none => none)
       | none => none)
    | none =>
      if f.omitE then
        (match decFields fs k bs with
         | some (vs, r) => some (zero f.ty :: vs, r)
         | none => none)
      else none

def decStruct (fs : List Field) : Bytes → Option (List Val × Bytes)
  | [] => none
  | t :: r => if 0x80 ≤ t.toNat ∧ t.toNat ≤ 0x8f then decFields fs (t.toNat - 0x80) r else none

/-! ### the wire structs of net.go (fields in the order the encoder writes them: by name) -/

/-- ASCII bytes of a name given as a list of characters (string literals do not reduce in the kernel) -/
def s (cs : List Char) : Bytes := cs.map fun c => UInt8.ofNat c.toNat

inductive Kind where
  | ping | indirectPing | ack | nack | err | suspect | alive | dead | pushPullHeader | userMsgHeader
  | pushNodeState | compress
  deriving DecidableEq, Repr

def fld (n : List Char) (t : Ty) (o : Bool) : Field := { name := s n, ty := t, omitE := o }

def schema : Kind → List Field
  | .ping => [fld ['N', 'o', 'd', 'e'] .str false, fld ['S', 'e', 'q', 'N', 'o'] .uint false, fld ['S', 'o', 'u', 'r', 'c', 'e', 'A', 'd', 'd', 'r'] .bytes true,
      fld ['S', 'o', 'u', 'r', 'c', 'e', 'N', 'o', 'd', 'e'] .str true, fld ['S', 'o', 'u', 'r', 'c', 'e', 'P', 'o', 'r', 't'] .uint true]
  | .indirectPing => [fld ['N', 'a', 'c', 'k'] .bool false, fld ['N', 'o', 'd', 'e'] .str false, fld ['P', 'o', 'r', 't'] .uint false,
      fld ['S', 'e', 'q', 'N', 'o'] .uint false, fld ['S', 'o', 'u', 'r', 'c', 'e', 'A', 'd', 'd', 'r'] .bytes true, fld ['S', 'o', 'u', 'r', 'c', 'e', 'N', 'o', 'd', 'e'] .str true,
      fld ['S', 'o', 'u', 'r', 'c', 'e', 'P', 'o', 'r', 't'] .uint true, fld ['T', 'a', 'r', 'g', 'e', 't'] .bytes false]
  | .ack => [fld ['P', 'a', 'y', 'l', 'o', 'a', 'd'] .bytes false, fld ['S', 'e', 'q', 'N', 'o'] .uint false]
  | .nack => [fld ['S', 'e', 'q', 'N', 'o'] .uint false]
  | .err => [fld ['E', 'r', 'r', 'o', 'r'] .str false]
  | .suspect => [fld ['F', 'r', 'o', 'm'] .str false, fld ['I', 'n', 'c', 'a', 'r', 'n', 'a', 't', 'i', 'o', 'n'] .uint false, fld ['N', 'o', 'd', 'e'] .str false]
  | .dead => [fld ['F', 'r', 'o', 'm'] .str false, fld ['I', 'n', 'c', 'a', 'r', 'n', 'a', 't', 'i', 'o', 'n'] .uint false, fld ['N', 'o', 'd', 'e'] .str false]
  | .alive => [fld ['A', 'd', 'd', 'r'] .bytes false, fld ['I', 'n', 'c', 'a', 'r', 'n', 'a', 't', 'i', 'o', 'n'] .uint false, fld ['M', 'e', 't', 'a'] .bytes false,
      fld ['N', 'o', 'd', 'e'] .str false, fld ['P', 'o', 'r', 't'] .uint false, fld ['V', 's', 'n'] .bytes false]
  | .pushPullHeader => [fld ['J', 'o', 'i', 'n'] .bool false, fld ['N', 'o', 'd', 'e', 's'] .int false, fld ['U', 's', 'e', 'r', 'S', 't', 'a', 't', 'e', 'L', 'e', 'n'] .int false]
  | .userMsgHeader => [fld ['U', 's', 'e', 'r', 'M', 's', 'g', 'L', 'e', 'n'] .int false]
  | .pushNodeState => [fld ['A', 'd', 'd', 'r'] .bytes false, fld ['I', 'n', 'c', 'a', 'r', 'n', 'a', 't', 'i', 'o', 'n'] .uint false, fld ['M', 'e', 't', 'a'] .bytes false,
      fld ['N', 'a', 'm', 'e'] .str false, fld ['P', 'o', 'r', 't'] .uint false, fld ['S', 't', 'a', 't', 'e'] .int false, fld ['V', 's', 'n'] .bytes false]
  | .compress => [fld ['A', 'l', 'g', 'o'] .uint false, fld ['B', 'u', 'f'] .bytes false]

/-! ### the push/pull state exchange (net.go `sendLocalState` / `readRemoteState`, behind the type byte) -/

/-- one `pushNodeState` after the other, no separator -/
def encStates : List (List Val) → Bytes
  | [] => []
  | st :: sts => encStruct (schema .pushNodeState) st ++ encStates sts

/-- header (declared node count, declared user-state length, join flag), the node states, the user state -/
def encPushPull (join : Bool) (sts : List (List Val)) (user : Bytes) : Bytes :=
  encStruct (schema .pushPullHeader) [.bool join, .int sts.length, .int user.length] ++ (encStates sts ++ user)

def decStates : Nat → Bytes → Option (List (List Val) × Bytes)
  | 0, bs => some ([], bs)
  | n + 1, bs =>
    match decStruct (schema .pushNodeState) bs with
    | some (st, r) =>
      (match decStates n r with
       | some (sts, r') => some (st :: sts, r')
       | none => none)
    | none => none

/-- `readRemoteState` without its caps: as many node states as the header declares, then exactly the
declared number of user-state bytes -/
def decPushPull (bs : Bytes) : Option (Bool × List (List Val) × Bytes × Bytes) :=
  match decStruct (schema .pushPullHeader) bs with
  | some ([.bool join, .int n, .int u], r) =>
    (match decStates n r with
     | some (sts, r') => (takeN u r').map fun (user, rest) => (join, sts, user, rest)
     | none => none)
  | _ => none

/-- `readRemoteState`, last step: an entry without a port (or, below protocol version 2, every entry)
gets the configured port -/
def normState (bindPort : Nat) (all : Bool) : List Val → List Val
  | [a, i, m, n, .uint p, st, v] => [a, i, m, n, .uint (if all || p == 0 then bindPort else p), st, v]
  | other => other

/-- `handleAlive`: the same rule for an alive message on the packet path -/
def alivePort (bindPort : Nat) (proto : Nat) (port : Nat) : Nat :=
  if proto < 2 || port == 0 then bindPort else port

def readRemoteState (bindPort : Nat) (all : Bool) (bs : Bytes) : Option (Bool × List (List Val) × Bytes × Bytes) :=
  (decPushPull bs).map fun (join, sts, user, rest) => (join, sts.map (normState bindPort all), user, rest)

end Swim.Msgpack
