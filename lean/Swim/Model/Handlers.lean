/-
Model of the pending-acknowledgement table of state.go (ackHandlers): setProbeChannels /
setAckHandler register a handler under a sequence number with a reaping timer; invokeAckHandler
consumes it; invokeNackHandler notifies it; the timer removes it at its deadline (and, for probe
channels, reports the timeout). Time is a counter advanced by `tick`.
-/
namespace Swim.Handlers

inductive HKind where
  | probe      -- setProbeChannels: ack channel + nack channel, timeout reported
  | relay      -- setAckHandler: ack function only (indirect ping relay), no nacks
  deriving DecidableEq, Repr

structure H where
  seq : Nat
  deadline : Nat
  kind : HKind
  deriving DecidableEq, Repr

inductive Ev where
  | ack (seq : Nat)        -- the handler's ack function ran
  | nack (seq : Nat)       -- the handler's nack function ran
  | timeout (seq : Nat)    -- the reaping timer reported the timeout (probe handlers)
  deriving DecidableEq, Repr

structure T where
  hs : List H := []
  now : Nat := 0
  deriving DecidableEq, Repr

inductive Op where
  | set (seq timeout : Nat) (kind : HKind)   -- timeout > 0
  | ack (seq : Nat)
  | nack (seq : Nat)
  | tick (d : Nat)
  deriving Repr

/-- registering under a sequence number replaces whatever was registered under it (map assignment) -/
def set (t : T) (seq timeout : Nat) (kind : HKind) : T :=
  { t with hs := t.hs.filter (·.seq != seq) ++ [{ seq, deadline := t.now + timeout, kind }] }

def step (t : T) : Op → T × List Ev
  | .set seq timeout kind => (set t seq timeout kind, [])
  | .ack seq =>
    match t.hs.find? (·.seq == seq) with
    | some _ => ({ t with hs := t.hs.filter (·.seq != seq) }, [.ack seq])
    | none => (t, [])
  | .nack seq =>
    match t.hs.find? (·.seq == seq) with
    | some h => (t, if h.kind == .probe then [.nack seq] else [])
    | none => (t, [])
  | .tick d =>
    let now := t.now + d
    ({ hs := t.hs.filter (fun h => now < h.deadline), now },
     (t.hs.filter (fun h => h.deadline ≤ now && h.kind == .probe)).map (fun h => .timeout h.seq))

def run (t : T) (ops : List Op) : T × List Ev :=
  ops.foldl (fun (acc : T × List Ev) op => ((step acc.1 op).1, acc.2 ++ (step acc.1 op).2)) (t, [])

end Swim.Handlers
