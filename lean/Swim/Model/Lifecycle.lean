/-
Sequential model of the lifecycle stages of a Memberlist and of the outcome of each public call at
each stage (memberlist.go: Leave, Shutdown, UpdateNode, the query API). Compared with the real calls
by the simulator's stage probes (`table=` in the `C20 api` lines).
-/
namespace Swim.Lifecycle

inductive Stage where
  | joined | left | leftReaped | shutdown | leftShutdown
  /-- created, but the node's own configuration refused its own record (CIDRsAllowed without its
  address): it is not a member of itself -/
  | denied | deniedShutdown
  deriving DecidableEq, Repr

inductive Call where
  | members | numMembers | localNode | updateNode | sendBestEffort | sendReliable | ping
  | healthScore | join | leave | shutdownC | protocolVersion
  deriving DecidableEq, Repr

inductive Outcome where
  | ok            -- returns a value / nil
  | error         -- returns an error
  | okOrError     -- depends on the network
  | documentedPanic
  | PANIC | BLOCKS
  deriving DecidableEq, Repr

/-- outcome of a public call at a stage (fixed code: the local record is never reaped, UpdateNode
after Leave returns an error instead of waiting for a broadcast that is never queued) -/
def outcome : Stage → Call → Outcome
  | _, .members => .ok
  | _, .numMembers => .ok
  -- known finding C20-selfdenied-localnode: LocalNode dereferences the missing own record
  | .denied, .localNode => .PANIC
  | .deniedShutdown, .localNode => .PANIC
  | _, .localNode => .ok
  | _, .healthScore => .ok
  | _, .protocolVersion => .ok
  | .joined, .updateNode => .okOrError
  | _, .updateNode => .error
  | _, .sendBestEffort => .okOrError
  | _, .sendReliable => .okOrError
  | _, .ping => .okOrError
  | _, .join => .okOrError
  | .joined, .leave => .okOrError
  | .left, .leave => .ok
  | .leftReaped, .leave => .ok
  | .shutdown, .leave => .documentedPanic
  | .leftShutdown, .leave => .documentedPanic
  | .denied, .leave => .ok            -- "Leave but we're not in the node map"
  | .deniedShutdown, .leave => .documentedPanic
  | _, .shutdownC => .ok

def next : Stage → Call → Stage
  | .joined, .leave => .left
  | .joined, .shutdownC => .shutdown
  | .left, .shutdownC => .leftShutdown
  | .leftReaped, .shutdownC => .leftShutdown
  | .denied, .shutdownC => .deniedShutdown
  | s, _ => s

/-- the reaper: a departed node's own record would age out; with the fix it stays -/
def age : Stage → Stage
  | .left => .leftReaped
  | s => s

/-- the node is a member of itself (its own record was admitted at creation) -/
def Stage.selfListed : Stage → Bool
  | .denied => false
  | .deniedShutdown => false
  | _ => true

end Swim.Lifecycle
