import Swim.Model.Codec
/-
Model of the inbound packet path of net.go / security.go / label.go:
RemoveLabelHeaderFromPacket → label gate → decryptPayload (over an abstract AEAD `open`) →
checksum → handleCommand with compound recursion.  Slice and index operations are explicit
primitives that fail with `Fail.panic` exactly when the Go expression would panic, so that
"no panic" is a theorem rather than an artefact of total functions.
-/
namespace Swim.Ingest
open Swim.Codec

inductive Fail where
  | panic                      -- a Go run-time panic (index / slice bounds)
  | drop (why : String)        -- the packet (or part) is discarded with a log line
  deriving DecidableEq, Repr

abbrev G := Except Fail

/-- `b[i:j]` -/
def slice (b : Bytes) (i j : Nat) : G Bytes :=
  if i ≤ j ∧ j ≤ b.length then .ok ((b.drop i).take (j - i)) else .error .panic

/-- `b[i:]` -/
def sliceFrom (b : Bytes) (i : Nat) : G Bytes :=
  if i ≤ b.length then .ok (b.drop i) else .error .panic

/-- `b[:j]` -/
def sliceTo (b : Bytes) (j : Nat) : G Bytes :=
  if j ≤ b.length then .ok (b.take j) else .error .panic

/-- `b[i]` -/
def idx (b : Bytes) (i : Nat) : G UInt8 :=
  match b[i]? with
  | some x => .ok x
  | none => .error .panic

/-- the AEAD primitive: `open key nonce aad ciphertext` (crypto/cipher GCM Open), abstract -/
structure Aead where
  openB : (key nonce aad ct : Bytes) → Option Bytes

/-- `pkcs7decode` as written (no validation): `buf[:len(buf)-int(buf[len(buf)-1])]` -/
def pkcs7decodeRaw (buf : Bytes) : G Bytes :=
  if buf.length = 0 then .error .panic   -- explicit panic("Cannot decode a PKCS7 buffer of zero length")
  else do
    let last ← idx buf (buf.length - 1)
    if last.toNat ≤ buf.length then sliceTo buf (buf.length - last.toNat) else .error .panic

/-- try the installed keys in order (`for _, key := range keys`) -/
def tryKeys (A : Aead) (vsn : UInt8) (nonce ct aad : Bytes) : List Bytes → G Bytes
  | [] => .error (.drop "no installed keys could decrypt the message")
  | k :: ks =>
    match A.openB k nonce aad ct with
    | some plain =>
      if vsn == 0 then
        (if pkcs7valid plain 16 then pkcs7decodeRaw plain else .error (.drop "invalid PKCS7 padding"))
      else .ok plain
    | none => tryKeys A vsn nonce ct aad ks

/-- `decryptPayload` (fixed code: padding validated before it is stripped) -/
def decryptPayload (A : Aead) (keys : List Bytes) (msg aad : Bytes) : G Bytes :=
  if msg.length = 0 then .error (.drop "cannot decrypt empty payload")
  else do
    let vsn ← idx msg 0
    if vsn.toNat > Gen.c_maxEncryptionVersion then .error (.drop "unsupported encryption version")
    else if msg.length < encryptedLength vsn.toNat 0 then .error (.drop "payload is too small to decrypt")
    else do
      let nonce ← slice msg Gen.c_versionSize (Gen.c_versionSize + Gen.c_nonceSize)
      let ct ← sliceFrom msg (Gen.c_versionSize + Gen.c_nonceSize)
      tryKeys A vsn nonce ct aad keys

/-- the pinned code: PKCS7 stripped without validation -/
def tryKeysPinned (A : Aead) (vsn : UInt8) (nonce ct aad : Bytes) : List Bytes → G Bytes
  | [] => .error (.drop "no installed keys could decrypt the message")
  | k :: ks =>
    match A.openB k nonce aad ct with
    | some plain => if vsn == 0 then pkcs7decodeRaw plain else .ok plain
    | none => tryKeysPinned A vsn nonce ct aad ks

/-- dispatched leaf commands -/
inductive Leaf where
  | user (payload : Bytes)
  | other (msgType : Nat) (body : Bytes)    -- ping / ack / alive / suspect / dead / ... handed to its decoder
  | compressed (body : Bytes)               -- handed to the (opaque) decompressor
  | unsupported (msgType : Nat)
  deriving DecidableEq, Repr

/-- `handleCommand` with the compound recursion of `handleCompound`; fuel bounds the nesting -/
def handleCommand : Nat → Bytes → G (List Leaf)
  | 0, _ => .ok []
  | fuel + 1, buf =>
    match buf with
    | [] => .ok []      -- "missing message type byte"
    | t :: body =>
      if t.toNat = Gen.c_compoundMsg then
        match decodeCompound body with
        | .error _ => .ok []
        | .ok (_, parts) =>
          parts.foldlM (fun acc p => do let l ← handleCommand fuel p; pure (acc ++ l)) []
      else if t.toNat = Gen.c_compressMsg then .ok [.compressed body]
      else if t.toNat = Gen.c_userMsg then .ok [.user body]
      else if t.toNat = Gen.c_pingMsg ∨ t.toNat = Gen.c_indirectPingMsg ∨ t.toNat = Gen.c_ackRespMsg ∨
              t.toNat = Gen.c_nackRespMsg ∨ t.toNat = Gen.c_suspectMsg ∨ t.toNat = Gen.c_aliveMsg ∨
              t.toNat = Gen.c_deadMsg then .ok [.other t.toNat body]
      else .ok [.unsupported t.toNat]

structure RxCfg where
  label : Bytes
  skipInbound : Bool
  keys : List Bytes          -- installed keys ([] = encryption off)
  verifyIncoming : Bool

/-- the checksum layer of `ingestPacket`; `crcOk` is the (abstract) CRC comparison -/
def unCrc (crcOk : Bytes → Bytes → Bool) (buf : Bytes) : G Bytes :=
  if buf.length ≥ 5 ∧ (buf.head?.map (·.toNat)) = some Gen.c_hasCrcMsg then do
    let want ← slice buf 1 5
    let rest ← sliceFrom buf 5
    if crcOk want rest then .ok rest else .error (.drop "invalid checksum")
  else .ok buf

/-- the decryption layer of `ingestPacket`: with a keyring, decrypt; on failure fall back to
plaintext only if incoming verification is off -/
def decLayer (A : Aead) (c : RxCfg) (l b1 : Bytes) : G Bytes :=
  if c.keys.isEmpty then .ok b1
  else
    match decryptPayload A c.keys b1 l with
    | .ok p => .ok p
    | .error .panic => .error .panic
    | .error (.drop w) => if c.verifyIncoming then .error (.drop w) else .ok b1

/-- `ingestPacket` -/
def ingestPacket (A : Aead) (crcOk : Bytes → Bytes → Bool) (c : RxCfg) (buf : Bytes) : G (List Leaf) :=
  match removeLabel buf with
  | .error _ => .error (.drop "label header")
  | .ok (b1, carried) =>
    match labelGate c.label c.skipInbound carried with
    | none => .error (.drop "unacceptable label")
    | some l =>
      match decLayer A c l b1 with
      | .error f => .error f
      | .ok b2 =>
        match unCrc crcOk b2 with
        | .error f => .error f
        | .ok b3 => handleCommand (b3.length + 1) b3

end Swim.Ingest
