/-
Integer models of the three logarithmic scale functions of util.go, which the Go code computes with
float64 (`math.Log10`, `math.Log2`, `math.Ceil`):

* `retransmitLimit mult n = mult * ceil(log10(n+1))`           = mult * (number of decimal digits of n)
* `pushPullScale interval n = interval * (ceil(log2 n - log2 32) + 1)` for n > 32, else interval
* `suspicionTimeout mult n interval = mult * floor(1000 * max(1, log10(max(1, n)))) * interval / 1000`

The float computation agrees with these integer definitions for every n up to 3 000 000 and at all
powers of ten / two (±2) below 10^14 (compared on every run). Beyond that float64 rounding makes the Go
functions one step smaller than the mathematical value (first at n = 2^49 + 1 for `pushPullScale`, at
n = 10^15 for `retransmitLimit`), which is outside the model and far beyond any cluster size.
-/
namespace Swim.Scale

/-- number of decimal digits of `n` (0 for 0) = ceil(log10(n+1)) -/
def digits : Nat → Nat
  | 0 => 0
  | n + 1 => 1 + digits ((n + 1) / 10)
decreasing_by omega

/-- smallest `k` with `2^k ≥ n` = ceil(log2 n) (0 for n ≤ 1) -/
def clog2 (n : Nat) : Nat :=
  if h : n ≤ 1 then 0 else 1 + clog2 ((n + 1) / 2)
decreasing_by omega

def retransmitLimit (mult n : Nat) : Nat := mult * digits n

/-- the multiplier of `pushPullScale` -/
def pushPullMult (n : Nat) : Nat := if n ≤ 32 then 1 else clog2 n - 4

def pushPullScale (interval n : Nat) : Nat := pushPullMult n * interval

/-- floor(1000 * log10 n) for n ≥ 1: the largest m with 10^m ≤ n^1000 -/
def flog10x1000 (n : Nat) : Nat := digits (n ^ 1000) - 1

/-- `time.Duration(nodeScale*1000)` -/
def suspScale (n : Nat) : Nat := max 1000 (flog10x1000 (max 1 n))

def suspicionTimeout (mult n interval : Nat) : Nat := mult * suspScale n * interval / 1000

end Swim.Scale
