import Swim.Util.Parse
import Swim.Model.Keyring
import Swim.Props.C17
