package harness

import (
	"fmt"
	"log"
	"strings"
	"sync"
	"testing"
	"testing/synctest"
	"time"

	ml "github.com/hashicorp/memberlist"
)

// c06Script runs one timed confirmation script on a real suspicion timer in virtual time.
func c06Script(r *rng, id string) {
	k := []int{0, 1, 2, 2, 3, 4, 6, -1}[r.intn(8)] // -1: SuspicionMult = 1 gives k = SuspicionMult-2 < 0
	minD := []time.Duration{100 * time.Millisecond, ml.VerifSuspicionTimeout(4, 50, 100*time.Millisecond),
		2 * time.Second, ml.VerifSuspicionTimeout(4, 11, time.Second), 500 * time.Millisecond,
		ml.VerifSuspicionTimeout(3, 7000, 33*time.Millisecond)}[r.intn(6)]
	maxD := time.Duration([]int{1, 2, 6, 6}[r.intn(4)]) * minD
	var table []string
	for j := 0; j <= k; j++ {
		table = append(table, fmt.Sprint(int64(ml.VerifRemainingSuspicionTime(int32(j), int32(k), 0, minD, maxD))))
	}
	var mu sync.Mutex
	fired := int64(-1)
	firedN := -1
	t0 := time.Now()
	s := ml.VerifNewSuspicion("a", k, minD, maxD, func(n int) {
		mu.Lock()
		if fired < 0 {
			fired = int64(time.Since(t0))
			firedN = n
		} else {
			firedN = -100 - n // fired twice
		}
		mu.Unlock()
	})
	froms := []string{"a", "b", "c", "d", "e", "f", "g"}
	var script []string
	steps := r.intn(9)
	for i := 0; i < steps; i++ {
		var dt time.Duration
		switch r.intn(4) {
		case 0:
			dt = 0
		case 1:
			dt = time.Duration(r.intn(int(minD/2) + 1))
		case 2:
			dt = time.Duration(r.intn(int(maxD) + 1))
		default:
			dt = time.Duration(r.intn(50)) * time.Millisecond
		}
		time.Sleep(dt)
		from := froms[r.intn(len(froms))]
		res := s.Confirm(from)
		synctest.Wait()
		script = append(script, fmt.Sprintf("%d:%s:%d", int64(time.Since(t0)), from, b2i(res)))
	}
	time.Sleep(maxD + time.Second)
	synctest.Wait()
	mu.Lock()
	f, fn := fired, firedN
	mu.Unlock()
	sc := "-"
	if len(script) > 0 {
		sc = strings.Join(script, ";")
	}
	emit("C06 susp id=%s k=%d min=%d max=%d table=%s script=%s fired=%d:%d", id, k, int64(minD), int64(maxD), strings.Join(table, ","), sc, f, fn)
}

func TestC06(t *testing.T) {
	n := envInt("VERIF_N", 4000)
	if thorough() {
		n = envInt("VERIF_N", 200000)
	}
	forCases(n, 61, "t", func(i int, r *rng, id string) {
		synctest.Test(t, func(t *testing.T) { c06Script(r, id) })
	})
	// node level: suspicion / refutation / re-suspicion / stale timers / name reuse
	forCases(n/4, 62, "h", func(i int, r *rng, id string) { timerHistory("C06", r, id) })
	// suspicionTimeout (the minimum of the suspicion timer) against its integer model
	forCases(8, 63, "sc", func(i int, r *rng, id string) { scaleLeg("C06", "susp", r, id, 0) })
	// suspicion on the node's own evidence: the real probe round against silent, late and answering peers; the
	// accusation it queues is signed by the node itself
	forCases(60, 65, "r", func(i int, r *rng, id string) { c06Race(r, id) })
	c19Prop = "C06"
	forCases(n/20, 64, "p", func(i int, r *rng, id string) {
		probeBubble(t, id, func() { c19Probe(r, id) })
	})
	c19Prop = "C19"
}

// timerHistory: node-level histories around one member's suspicion: suspicion / refutation / re-suspicion /
// stale and current dead claims / timer expiry / name reuse.
func timerHistory(prop string, r *rng, id string) {
	c := randomCfg(r)
	c.reclaim = r.chance(1, 2)
	k := 4 + r.intn(20)
	ops := []mop{{kind: 'A', node: "n2", inc: 1, addr: 2}, {kind: 'A', node: "n3", inc: 1, addr: 7}}
	nt := 0
	// a third of the histories contain the chain suspicion - refutation - new suspicion - expiry of the FIRST
	// suspicion's timer (it was dropped from the table but not stopped): the old timer must not touch the new suspicion
	chainAt := -1
	if r.chance(1, 3) {
		chainAt = r.intn(k)
	}
	for j := 0; j < k; j++ {
		if j == chainAt {
			i := uint32(1 + r.intn(2))
			from := []string{"S", "n2", "n3"}
			ops = append(ops, mop{kind: 'A', node: "n1", inc: i, addr: 1},
				mop{kind: 'S', node: "n1", inc: i, from: from[r.intn(3)]},
				mop{kind: 'A', node: "n1", inc: i + 1, addr: 1},
				mop{kind: 'S', node: "n1", inc: i + 1, from: from[r.intn(3)]})
			for f := 0; f < 4; f++ {
				ops = append(ops, mop{kind: 'F', timer: f})
			}
			continue
		}
		switch r.intn(10) {
		case 0, 1:
			ops = append(ops, mop{kind: 'S', node: "n1", inc: uint32(1 + r.intn(3)), from: []string{"S", "n2", "n3"}[r.intn(3)]})
		case 2:
			ops = append(ops, mop{kind: 'A', node: "n1", inc: uint32(1 + r.intn(3)), addr: []int{1, 1, 2}[r.intn(3)], port: r.intn(2)})
		case 3:
			ops = append(ops, mop{kind: 'D', node: "n1", inc: uint32(1 + r.intn(3)), from: []string{"n1", "n2"}[r.intn(2)]})
		case 4, 5:
			ops = append(ops, mop{kind: 'F', timer: r.intn(5)})
		case 6:
			ops = append(ops, mop{kind: 'G', node: "n1"})
		default:
			ops = append(ops, randomOp(r, c, 0, &nt))
		}
	}
	runHistory(prop, id, c, ops)
}

// hookWriter is a log sink that runs f (once) when a line containing match is written: the library's own log
// statements are schedule points - whatever another goroutine could do at that moment is done there.
type hookWriter struct {
	match string
	f     func()
	done  bool
}

func (w *hookWriter) Write(p []byte) (int, error) {
	if !w.done && w.f != nil && strings.Contains(string(p), w.match) {
		w.done = true
		w.f()
	}
	return len(p), nil
}

// c06Race: the suspicion of a member expires; while the expiry is being carried out (after it has checked the
// record, before it declares the death - the window contains a log statement) the member's refutation is
// accepted on another path. The refutation came first: the member stays.
func c06Race(r *rng, id string) {
	w := &hookWriter{match: "suspect timeout reached"}
	conf := ml.DefaultLANConfig()
	conf.Name = "S"
	conf.Transport = newCapTransport()
	conf.AdvertiseAddr = "10.0.0.9"
	conf.AdvertisePort = 7946
	conf.BindPort = 7946
	conf.ProbeInterval = time.Hour
	conf.GossipInterval = 0
	conf.PushPullInterval = 0
	conf.Logger = log.New(w, "", 0)
	m, err := ml.Create(conf)
	if err != nil {
		return
	}
	defer m.Shutdown()
	ml.VerifDeschedule(m)
	vsn := []uint8{1, 5, 2, 0, 0, 0}
	peers := 1 + r.intn(6)
	for i := 0; i < peers; i++ {
		ml.VerifAliveNode(m, 1, fmt.Sprintf("p%d", i), []byte{10, 0, 1, byte(i + 1)}, 7946, nil, vsn, nil, false)
	}
	inc := uint32(1 + r.intn(5))
	ml.VerifAliveNode(m, inc, "T", []byte{10, 0, 0, 1}, 7946, []byte("t"), vsn, nil, false)
	ml.VerifSuspectNode(m, inc, "T", []string{"S", "p0"}[r.intn(2)])
	tm, ok := ml.VerifSnapshotState(m).Timers["T"]
	if !ok {
		return
	}
	how := r.intn(3)
	w.f = func() {
		switch how {
		case 0: // the refutation arrives as gossip
			ml.VerifAliveNode(m, inc+1, "T", []byte{10, 0, 0, 1}, 7946, []byte("t"), vsn, nil, false)
		case 1: // ... by push/pull
			ml.VerifMergeState(m, []ml.VerifPushNodeState{{Name: "T", Addr: []byte{10, 0, 0, 1}, Port: 7946, Meta: []byte("t"), Incarnation: inc + 1, State: ml.StateAlive, Vsn: vsn}})
		default: // nothing happens in the window: the expiry goes through
		}
	}
	tm.Handle.Fire()
	st, ginc, listed := -1, uint32(0), 0
	for _, nd := range ml.VerifSnapshotState(m).Nodes {
		if nd.Name == "T" {
			st, ginc = int(nd.State), nd.Incarnation
		}
	}
	for _, nd := range m.Members() {
		if nd.Name == "T" {
			listed = 1
		}
	}
	emit("C06 race id=%s inc=%d how=%d hooked=%d state=%d ginc=%d listed=%d", id, inc, how, b2i(w.done), st, ginc, listed)
}
