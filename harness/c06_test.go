package harness

import (
	"fmt"
	"strings"
	"sync"
	"testing"
	"testing/synctest"
	"time"

	ml "github.com/hashicorp/memberlist"
)

// c06Script runs one timed confirmation script on a real suspicion timer in virtual time.
func c06Script(r *rng, id string) {
	k := []int{0, 1, 2, 2, 3, 4, 6, -1}[r.intn(8)] // -1: SuspicionMult = 1 gives k = SuspicionMult-2 < 0
	minD := []time.Duration{100 * time.Millisecond, ml.VerifSuspicionTimeout(4, 50, 100*time.Millisecond),
		2 * time.Second, ml.VerifSuspicionTimeout(4, 11, time.Second), 500 * time.Millisecond,
		ml.VerifSuspicionTimeout(3, 7000, 33*time.Millisecond)}[r.intn(6)]
	maxD := time.Duration([]int{1, 2, 6, 6}[r.intn(4)]) * minD
	var table []string
	for j := 0; j <= k; j++ {
		table = append(table, fmt.Sprint(int64(ml.VerifRemainingSuspicionTime(int32(j), int32(k), 0, minD, maxD))))
	}
	var mu sync.Mutex
	fired := int64(-1)
	firedN := -1
	t0 := time.Now()
	s := ml.VerifNewSuspicion("a", k, minD, maxD, func(n int) {
		mu.Lock()
		if fired < 0 {
			fired = int64(time.Since(t0))
			firedN = n
		} else {
			firedN = -100 - n // fired twice
		}
		mu.Unlock()
	})
	froms := []string{"a", "b", "c", "d", "e", "f", "g"}
	var script []string
	steps := r.intn(9)
	for i := 0; i < steps; i++ {
		var dt time.Duration
		switch r.intn(4) {
		case 0:
			dt = 0
		case 1:
			dt = time.Duration(r.intn(int(minD/2) + 1))
		case 2:
			dt = time.Duration(r.intn(int(maxD) + 1))
		default:
			dt = time.Duration(r.intn(50)) * time.Millisecond
		}
		time.Sleep(dt)
		from := froms[r.intn(len(froms))]
		res := s.Confirm(from)
		synctest.Wait()
		script = append(script, fmt.Sprintf("%d:%s:%d", int64(time.Since(t0)), from, b2i(res)))
	}
	time.Sleep(maxD + time.Second)
	synctest.Wait()
	mu.Lock()
	f, fn := fired, firedN
	mu.Unlock()
	sc := "-"
	if len(script) > 0 {
		sc = strings.Join(script, ";")
	}
	emit("C06 susp id=%s k=%d min=%d max=%d table=%s script=%s fired=%d:%d", id, k, int64(minD), int64(maxD), strings.Join(table, ","), sc, f, fn)
}

func TestC06(t *testing.T) {
	n := envInt("VERIF_N", 4000)
	if thorough() {
		n = envInt("VERIF_N", 200000)
	}
	forCases(n, 61, "t", func(i int, r *rng, id string) {
		synctest.Test(t, func(t *testing.T) { c06Script(r, id) })
	})
	// node level: suspicion / refutation / re-suspicion / stale timers / name reuse
	forCases(n/4, 62, "h", func(i int, r *rng, id string) { timerHistory("C06", r, id) })
	// suspicionTimeout (the minimum of the suspicion timer) against its integer model
	forCases(8, 63, "sc", func(i int, r *rng, id string) { scaleLeg("C06", "susp", r, id, 0) })
	// suspicion on the node's own evidence: the real probe round against silent, late and answering peers; the
	// accusation it queues is signed by the node itself
	c19Prop = "C06"
	forCases(n/20, 64, "p", func(i int, r *rng, id string) {
		synctest.Test(t, func(t *testing.T) { c19Probe(r, id) })
	})
	c19Prop = "C19"
}

// timerHistory: node-level histories around one member's suspicion: suspicion / refutation / re-suspicion /
// stale and current dead claims / timer expiry / name reuse.
func timerHistory(prop string, r *rng, id string) {
	c := randomCfg(r)
	c.reclaim = r.chance(1, 2)
	k := 4 + r.intn(20)
	ops := []mop{{kind: 'A', node: "n2", inc: 1, addr: 2}, {kind: 'A', node: "n3", inc: 1, addr: 7}}
	nt := 0
	// a third of the histories contain the chain suspicion - refutation - new suspicion - expiry of the FIRST
	// suspicion's timer (it was dropped from the table but not stopped): the old timer must not touch the new suspicion
	chainAt := -1
	if r.chance(1, 3) {
		chainAt = r.intn(k)
	}
	for j := 0; j < k; j++ {
		if j == chainAt {
			i := uint32(1 + r.intn(2))
			from := []string{"S", "n2", "n3"}
			ops = append(ops, mop{kind: 'A', node: "n1", inc: i, addr: 1},
				mop{kind: 'S', node: "n1", inc: i, from: from[r.intn(3)]},
				mop{kind: 'A', node: "n1", inc: i + 1, addr: 1},
				mop{kind: 'S', node: "n1", inc: i + 1, from: from[r.intn(3)]})
			for f := 0; f < 4; f++ {
				ops = append(ops, mop{kind: 'F', timer: f})
			}
			continue
		}
		switch r.intn(10) {
		case 0, 1:
			ops = append(ops, mop{kind: 'S', node: "n1", inc: uint32(1 + r.intn(3)), from: []string{"S", "n2", "n3"}[r.intn(3)]})
		case 2:
			ops = append(ops, mop{kind: 'A', node: "n1", inc: uint32(1 + r.intn(3)), addr: []int{1, 1, 2}[r.intn(3)], port: r.intn(2)})
		case 3:
			ops = append(ops, mop{kind: 'D', node: "n1", inc: uint32(1 + r.intn(3)), from: []string{"n1", "n2"}[r.intn(2)]})
		case 4, 5:
			ops = append(ops, mop{kind: 'F', timer: r.intn(5)})
		case 6:
			ops = append(ops, mop{kind: 'G', node: "n1"})
		default:
			ops = append(ops, randomOp(r, c, 0, &nt))
		}
	}
	runHistory(prop, id, c, ops)
}
