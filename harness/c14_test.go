package harness

import (
	"bytes"
	"fmt"
	"net"
	"strings"
	"testing"
	"time"

	ml "github.com/hashicorp/memberlist"
)

// C14: mutation campaign on genuine ciphertexts (packet and stream path).
func c14Mut(r *rng, id string) {
	label := []string{"", "", "blue", "L"}[r.intn(4)]
	k1, k2, k3 := mkKey(r, 16), mkKey(r, []int{16, 24, 32}[r.intn(3)]), mkKey(r, 16)
	v := r.intn(2)
	proto := uint8(2)
	if v == 0 {
		proto = 1
	}
	k4 := mkKey(r, 16)
	src := []string{"genuine1", "genuine1", "genuine2", "foreign", "removed", "otherlabel", "plain", "skipown", "skipunlabelled",
		"removedmid", "keptlast", "stallremove", "skipforeign"}[r.intn(13)]
	skip := strings.HasPrefix(src, "skip")
	if skip && label == "" {
		label = "blue"
	}
	ring := [][]byte{k2}
	if src == "removedmid" || src == "keptlast" {
		ring = [][]byte{k2, k4} // k2 sits in the middle of [k1 k2 k4]
	}
	// a quarter of the receivers were created with the first key as SecretKey next to a still empty keyring of the
	// application, which installs the other keys (and later retires some) through that handle
	viaApp := r.chance(1, 4)
	rcv, err := newCnode(ccfg{label: label, key: k1, keys: ring, verifyIn: true, verifyOut: true, name: "R", proto: proto, skipIn: skip,
		secretKey: viaApp, emptyRing: viaApp})
	if err != nil {
		return
	}
	defer rcv.m.Shutdown()
	sc := ccfg{label: label, key: k1, verifyIn: true, verifyOut: true, proto: proto}
	switch src {
	case "genuine2":
		sc.key = k2
	case "foreign":
		sc.key = k3
	case "removed", "removedmid", "stallremove":
		sc.key = k2
	case "keptlast":
		sc.key = k4
	case "otherlabel":
		sc.label = label + "x"
	case "plain":
		sc.key = nil
		sc.compress = r.chance(1, 2) // a peer without a key writes compressed frames by default
	case "skipunlabelled":
		sc.label = "" // same key, sealed with an empty label as associated data
	case "skipforeign":
		sc.label = label + "x" // another pool's traffic, its own label header still in front (same key)
	}
	snd, err := newCnode(sc)
	if err != nil {
		return
	}
	defer snd.m.Shutdown()
	if src == "removed" || src == "removedmid" || src == "keptlast" {
		rcv.kr.RemoveKey(k2)
	}
	// payload: sometimes engineered so that the sealed plaintext ([8] ++ payload) ends in valid PKCS7 padding
	n := []int{1, 5, 14, 15, 16, 30, 31, 47}[r.intn(8)]
	payload := r.bytes(n)
	if (n+1)%16 == 0 && r.chance(2, 3) {
		payload[n-1] = 1
		if n >= 6 && r.chance(1, 2) {
			// padding that is wrong by one byte: the last p-1 bytes say p, the byte before them does not
			pad := 2 + r.intn(4)
			for j := 1; j < pad; j++ {
				payload[n-j] = byte(pad)
			}
			payload[n-pad] = byte(pad + 1)
		}
	}
	path := []string{"pkt", "str"}[r.intn(2)]
	if src == "stallremove" {
		path = "str" // the key is removed while the stream is stalled between its header and its body
	}
	to := &ml.Node{Name: "R", Addr: []byte{10, 0, 0, 1}, Port: 7946, PMax: 2}
	var base []byte
	if path == "pkt" {
		snd.tr.take()
		snd.m.SendBestEffort(to, payload)
		pk := snd.tr.take()
		if len(pk) != 1 {
			return
		}
		base = pk[0]
	} else if src == "plain" && r.chance(1, 3) {
		// an unsealed state exchange (the sender would teach the receiver about itself and n5)
		ml.VerifAliveNode(snd.m, 5, "n5", []byte{10, 0, 0, 5}, 7946, nil, []uint8{1, 5, 2, 0, 0, 0}, nil, false)
		base = captureStream(snd, func() { snd.m.Join([]string{"R/10.0.0.1:7946"}) })
	} else {
		base = captureStream(snd, func() { snd.m.SendReliable(to, payload) })
	}
	if src == "skipown" {
		// the outer layer that checks labels has removed the header already
		if nb, _, err := ml.RemoveLabelHeaderFromPacket(base); err == nil {
			base = nb
		}
	}
	if src == "otherlabel" {
		// re-head the traffic with the receiver's label
		if nb, _, err := ml.RemoveLabelHeaderFromPacket(base); err == nil {
			base, _ = ml.AddLabelHeaderToPacket(nb, label)
		}
	}
	hdr := len2(label)
	if skip {
		hdr = 0
	}
	if src == "skipforeign" {
		hdr = len2(sc.label) // the foreign header is still in front of the sealed part
	}
	verOff := hdr // packet: version byte right behind the label header
	if path == "str" {
		verOff = hdr + 5 // encryptMsg type byte + 4 length bytes
	}
	feed := func(in []byte) (acted bool, eq bool, pan bool) {
		rcv.del.take()
		rcv.tr.take()
		before := fmt.Sprint(ml.VerifSnapshotState(rcv.m).Nodes)
		if path == "pkt" {
			pan = rcv.ingest(in)
		} else {
			func() {
				defer func() {
					if rec := recover(); rec != nil {
						pan = true
					}
				}()
				fc := newFragConn(in, nil)
				if src == "stallremove" && len(in) > verOff {
					fc = newFragConn(in, []int{verOff})
					fc.onFrag = func(i int) {
						if i == 1 {
							rcv.kr.RemoveKey(k2)
						}
					}
				}
				ml.VerifHandleConn(rcv.m, fc)
			}()
		}
		got := rcv.del.take()
		after := fmt.Sprint(ml.VerifSnapshotState(rcv.m).Nodes)
		acted = len(got) > 0 || after != before || (path == "pkt" && len(rcv.tr.take()) > 0)
		eq = len(got) == 1 && bytes.Equal(got[0], payload)
		return
	}
	bActed, bEq, bPan := feed(append([]byte(nil), base...))
	total := 0
	var acts []string
	note := func(kind string, off, bit int, in []byte) {
		total++
		a, e, p := feed(in)
		if p {
			acts = append(acts, fmt.Sprintf("%s:%d:%d:panic", kind, off, bit))
		} else if a {
			acts = append(acts, fmt.Sprintf("%s:%d:%d:%d", kind, off, bit, b2i(e)))
		}
	}
	if src == "plain" || len(base) <= verOff {
		// nothing sealed to mutate: only the baseline matters, plus a few random strings
		for i := 0; i < 20; i++ {
			note("random", 0, 0, r.bytes(r.intn(80)))
		}
	} else {
		for bit := 0; bit < 8; bit++ {
			m := append([]byte(nil), base...)
			m[verOff] ^= 1 << uint(bit)
			note("ver", verOff, bit, m)
		}
		for off := 0; off < len(base); off++ {
			if off == verOff {
				continue
			}
			bits := []int{r.intn(8)}
			if off < verOff+13 || off >= len(base)-16 || len(base) < 90 {
				bits = []int{0, 1, 2, 3, 4, 5, 6, 7}
			}
			kind := "body"
			switch {
			case off < hdr:
				kind = "label"
			case off < verOff:
				kind = "prefix"
			case off < verOff+13:
				kind = "nonce"
			case off >= len(base)-16:
				kind = "tag"
			}
			for _, bit := range bits {
				m := append([]byte(nil), base...)
				m[off] ^= 1 << uint(bit)
				note(kind, off, bit, m)
			}
		}
		for cut := 0; cut < len(base); cut++ {
			note("trunc", cut, 0, append([]byte(nil), base[:cut]...))
		}
		for ext := 1; ext <= 16; ext += 5 {
			note("extend", len(base), ext, append(append([]byte(nil), base...), r.bytes(ext)...))
		}
	}
	as := "-"
	if len(acts) > 0 {
		if len(acts) > 12 {
			acts = acts[:12]
		}
		as = strings.Join(acts, ",")
	}
	sealed := append([]byte{8}, payload...)
	if path == "str" {
		sealed = append(ml.VerifEncodeUserMsgHeader(len(payload)), payload...)
	}
	emit("C14 mut id=%s path=%s v=%d src=%s label=%d len=%d plain=%s base=%d%d%d n=%d acted=%s",
		id, path, v, src, len(label), len(base), hx(sealed), b2i(bActed), b2i(bEq), b2i(bPan), total, as)
}

func TestC14(t *testing.T) {
	n := envInt("VERIF_N", 180)
	if thorough() {
		n = envInt("VERIF_N", 8000)
	}
	forCases(n, 141, "m", func(i int, r *rng, id string) { c14Mut(r, id) })
	// a key being retired while another is installed (and every other pair of keyring calls at once): the
	// retired key must be gone afterwards - judged against both sequential orders of the keyring model
	forCases(12, 142, "c", func(i int, r *rng, id string) { krConcP("C14", r, id) })
	forCases(n/2, 143, "f", func(i int, r *rng, id string) { c14FbPing(r, id) })
}

// c14FbPing: the stream fallback of a probe, as initiator. The reply on that stream is inbound traffic too: the
// acknowledgement counts only if it opens under an installed key with the node's own label as associated data
// (whether or not the inbound header check is delegated), and carries the probe's number.
func c14FbPing(r *rng, id string) {
	labels := []string{"", "blue", "green"}
	own := labels[r.intn(3)]
	skip := r.chance(1, 2)
	k1, k2 := mkKey(r, 16), mkKey(r, 16)
	n, err := newCnode(ccfg{label: own, key: k1, verifyIn: true, verifyOut: true, name: "S", skipIn: skip})
	if err != nil {
		return
	}
	defer n.m.Shutdown()
	// what the peer seals its reply with
	aad := labels[r.intn(3)]
	if r.chance(1, 2) {
		aad = own
	}
	sameKey := r.chance(2, 3)
	pk := k1
	if !sameKey {
		pk = k2
	}
	plain := r.chance(1, 8) // an unsealed reply
	peer, err := newCnode(ccfg{label: aad, key: pk, verifyIn: true, verifyOut: true, name: "P"})
	if err != nil {
		return
	}
	defer peer.m.Shutdown()
	seqOff := uint32(0)
	if r.chance(1, 6) {
		seqOff = 1 + uint32(r.intn(3))
	}
	n.tr.dial = func(addr string) (net.Conn, error) {
		a, b := net.Pipe()
		go func() {
			defer b.Close()
			// the request arrives in several writes (label header, then the sealed ping): read until the
			// initiator has nothing more to say
			buf := make([]byte, 4096)
			got := 0
			for {
				b.SetReadDeadline(time.Now().Add(200 * time.Millisecond))
				k, err := b.Read(buf)
				got += k
				if err != nil {
					break
				}
			}
			if got == 0 {
				return
			}
			ack, _ := ml.VerifEncode(2, 4242+seqOff, "", nil)
			if plain {
				b.Write(ack)
				return
			}
			ml.VerifRawSendMsgStream(peer.m, b, ack, aad)
		}()
		return a, nil
	}
	type res struct {
		ok  bool
		err error
	}
	ch := make(chan res, 1)
	go func() {
		defer func() {
			if rec := recover(); rec != nil {
				ch <- res{false, fmt.Errorf("panic")}
			}
		}()
		ok, err := ml.VerifSendPingAndWaitForAck(n.m, "10.0.0.1:7946", "P", 4242, time.Now().Add(3*time.Second))
		ch <- res{ok, err}
	}()
	out := "blocked"
	select {
	case x := <-ch:
		out = "refused"
		if x.ok {
			out = "acked"
		}
		if x.err != nil && x.err.Error() == "panic" {
			out = "panic"
		}
	case <-time.After(10 * time.Second):
	}
	emit("C14 fbping id=%s own=%s aad=%s skip=%d samekey=%d plain=%d seqoff=%d res=%s", id, hx([]byte(own)), hx([]byte(aad)), b2i(skip), b2i(sameKey), b2i(plain), seqOff, out)
}
