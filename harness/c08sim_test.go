package harness

import (
	"fmt"
	"testing"
	"time"

	ml "github.com/hashicorp/memberlist"
)

// c08Leave: the API-level clause of C08 in the simulator: when Leave returns nil, at least one live
// peer has been sent the departure, and every peer that listed the node records it as left.
func c08Leave(r *rng, id string) {
	nn := 3 + r.intn(4)
	c := defaultSimCfg()
	cl, err := newSimCluster(r, nn, c)
	if err != nil {
		emit("C08 leave id=%s err=create", id)
		return
	}
	cl.net.latMin, cl.net.latMax = 0, 20*time.Millisecond
	mon := cl.startMonitor()
	cl.joinAll(100 * time.Millisecond)
	time.Sleep(4 * time.Second)
	lv := cl.nodes[1+r.intn(nn-1)]
	// count self-signed dead messages about the leaver that leave its transport
	sentDeparture := 0
	cl.net.tap = func(src, dst string, buf []byte) {
		if src != lv.tr.addr {
			return
		}
		// only packets addressed to a member that is really there count as "a peer was sent the departure"
		live := false
		for _, o := range cl.nodes {
			if o != lv && o.tr.addr == dst && !o.left && !o.crashed {
				live = true
			}
		}
		if !live {
			return
		}
		for _, p := range simParts(buf) {
			if len(p) > 1 && p[0] == 5 {
				if c, ok := ml.VerifDecodeClaim(5, p[1:]); ok && c.Node == lv.name && c.From == lv.name {
					sentDeparture++
				}
			}
		}
	}
	scenario := []string{"plain", "plain", "timeout-then-again", "suspected-peers", "plain-zero", "many-departed"}[r.intn(6)]
	res1, res2 := "-", "-"
	sentAtReturn := -1
	errS := func(err error) string {
		if err != nil {
			return "err"
		}
		return "nil"
	}
	if r.chance(1, 2) {
		// the application has user broadcasts pending: they travel in the same packets as the departure
		lv.queueBurst([]int{1, 3, 40, 300}[r.intn(4)])
		if r.chance(1, 2) {
			lv.mu.Lock()
			lv.chatty = 100000 // ... and keeps having one for every packet that leaves
			lv.mu.Unlock()
		}
	}
	switch scenario {
	case "plain":
		res1 = errS(lv.m.Leave(3 * time.Second))
		sentAtReturn = sentDeparture
	case "plain-zero":
		// timeout 0: wait for the broadcast however long it takes
		res1 = errS(lv.m.Leave(0))
		sentAtReturn = sentDeparture
	case "many-departed":
		// a scale-down: the leaver still holds the records of many members that left a moment ago (they are
		// gone: nothing answers at their addresses); the departure is for those who are still there
		for g := 0; g < 40; g++ {
			name := fmt.Sprintf("gone%d", g)
			ml.VerifAliveNode(lv.m, 1, name, []byte{10, 9, byte(g / 250), byte(g%250 + 1)}, 7946, nil, []uint8{1, 5, 2, 0, 0, 0}, nil, false)
			ml.VerifDeadNode(lv.m, 1, name, name)
		}
		res1 = errS(lv.m.Leave(3 * time.Second))
		sentAtReturn = sentDeparture
	case "suspected-peers":
		// the leaver holds every peer as suspect (its own probes just failed): they are still members and
		// still to be told of the departure
		for _, s := range ml.VerifSnapshotState(lv.m).Nodes {
			if s.Name != lv.name && s.State == ml.StateAlive {
				ml.VerifSuspectNode(lv.m, s.Incarnation, s.Name, lv.name)
			}
		}
		res1 = errS(lv.m.Leave(3 * time.Second))
		sentAtReturn = sentDeparture
	case "timeout-then-again":
		// the leaver's packets are lost while the first Leave waits
		cl.net.mu.Lock()
		for _, o := range cl.nodes {
			cl.net.blocked[[2]string{lv.tr.addr, o.tr.addr}] = true
		}
		cl.net.mu.Unlock()
		// "sent" is read as "handed to the transport for a peer chosen by the gossip rule" (the leaver
		// cannot know more), so packets lost in the network still count
		res1 = errS(lv.m.Leave(time.Duration(20+r.intn(250)) * time.Millisecond))
		cl.net.mu.Lock()
		cl.net.blocked = map[[2]string]bool{}
		cl.net.mu.Unlock()
		res2 = errS(lv.m.Leave(3 * time.Second))
		sentAtReturn = sentDeparture
	}
	lv.left = true
	time.Sleep(20 * time.Second)
	// what the peers recorded
	recordedLeft, recordedOther, stillListed := 0, 0, 0
	for _, p := range cl.nodes {
		if p == lv {
			continue
		}
		for _, s := range ml.VerifSnapshotState(p.m).Nodes {
			if s.Name == lv.name {
				switch s.State {
				case ml.StateLeft:
					recordedLeft++
				case ml.StateAlive, ml.StateSuspect:
					stillListed++
				default:
					recordedOther++
				}
			}
		}
	}
	inv := mon.verdict(cl.nodes)
	cl.shutdownAll()
	emit("C08 leave id=%s n=%d scenario=%s res1=%s res2=%s sentatreturn=%d left=%d failed=%d listed=%d inv=%s claims=%d",
		id, nn, scenario, res1, res2, sentAtReturn, recordedLeft, recordedOther, stillListed, inv, mon.total)
}

func TestC08Sim(t *testing.T) {
	n := envInt("VERIF_N", 1500) / 25
	if thorough() {
		n = envInt("VERIF_N", 60000) / 25
	}
	forCases(n, 108, "l", func(i int, r *rng, id string) {
		bubble(t, "C08", id, func() { c08Leave(r, id) })
	})
}
