package harness

// Multi-node step harness: the cluster model (Swim.Cluster.World) against several real Memberlist
// instances that never talk by themselves (null transports, no tickers). The harness plays the
// network: it keeps the pool of every claim a node has queued for gossip (decoded from the real
// broadcast queues) and of the state-list entries of every snapshot, and hands pool entries to
// nodes through the real aliveNode / suspectNode / deadNode / mergeState. Every step prints the
// acting node's post-state; the driver replays the same steps on the cluster model, checks that
// each delivered claim is in the model's pool, compares states, effects and claim contents, and
// evaluates the cluster invariants on the real nodes' states.

import (
	"fmt"
	"strings"
	"testing"
	"time"

	ml "github.com/hashicorp/memberlist"
)

type cmsg struct {
	kind  byte // a s d e
	claim ml.VerifClaim
	st    ml.NodeStateType // state entries
}

func (c cmsg) token(p *addrPool) string {
	switch c.kind {
	case 'a':
		return fmt.Sprintf("a~%s~%d~%d~%d~%d~%s", c.claim.Node, c.claim.Incarnation, p.addrCode(c.claim.Addr), p.portCode(c.claim.Port), mdCode(c.claim.Meta), vsnStr(c.claim.Vsn))
	case 's':
		return fmt.Sprintf("s~%s~%d~%s", c.claim.Node, c.claim.Incarnation, c.claim.From)
	case 'd':
		return fmt.Sprintf("d~%s~%d~%s", c.claim.Node, c.claim.Incarnation, c.claim.From)
	default:
		return fmt.Sprintf("e~%s~%d~%d~%d~%d~%s~%s", c.claim.Node, p.addrCode(c.claim.Addr), p.portCode(c.claim.Port), mdCode(c.claim.Meta), c.claim.Incarnation, stLetter[c.st], vsnStr(c.claim.Vsn))
	}
}

// collect decodes what the node has queued for gossip since the last call (observe() resets the queue)
func collect(mn *mnode) []cmsg {
	var out []cmsg
	for _, b := range ml.VerifBroadcasts(mn.m) {
		if len(b.Raw) < 2 {
			continue
		}
		c, ok := ml.VerifDecodeClaim(b.Raw[0], b.Raw[1:])
		if !ok {
			continue
		}
		out = append(out, cmsg{kind: map[uint8]byte{3: 's', 4: 'a', 5: 'd'}[c.Type], claim: c})
	}
	return out
}

func clusterCase(prop, id string, r *rng, healthy bool) {
	names := []string{"n1", "n2", "n3"}
	adv := []string{"10.0.0.1", "10.0.0.2", "10.0.0.9"}
	nn := 2 + r.intn(2)
	var nodes []*mnode
	var cfgs []string
	for i := 0; i < nn; i++ {
		c := mcfg{reclaim: r.chance(1, 2), awareMax: []int{8, 8, 2}[r.intn(3)], suspMult: []int{4, 4, 2, 6}[r.intn(4)], name: names[i], advertise: adv[i]}
		mn, err := newMnode(c)
		if err != nil {
			emit("%s cluster id=%s err=create", prop, id)
			return
		}
		defer mn.m.Shutdown()
		nodes = append(nodes, mn)
		cfgs = append(cfgs, c.String())
	}
	p := nodes[0].pool
	var sb strings.Builder
	var inits []string
	var pool []cmsg
	for _, mn := range nodes {
		inits = append(inits, mn.observe(time.Now()))
		// the announcement made by Create (its queue entry was dropped by newMnode)
		s := ml.VerifSnapshotState(mn.m)
		for _, rec := range s.Nodes {
			if rec.Name == mn.m.LocalNode().Name {
				v := make([]uint8, 6)
				copy(v, rec.Vsn[:])
				pool = append(pool, cmsg{kind: 'a', claim: ml.VerifClaim{Type: 4, Incarnation: rec.Incarnation, Node: rec.Name, Addr: rec.Addr, Port: rec.Port, Meta: rec.Meta, Vsn: v}})
			}
		}
	}
	fmt.Fprintf(&sb, "%s cluster id=%s healthy=%d names=%s cfgs=%s init=%s ops=", prop, id, b2i(healthy), strings.Join(names[:nn], ","), strings.Join(cfgs, ","), strings.Join(inits, "~~"))
	nops := 10 + r.intn(50)
	for i := 0; i < nops; i++ {
		x := r.intn(nn)
		mn := nodes[x]
		k := r.intn(100)
		tok := ""
		start := time.Now()
		switch {
		case k < 50 && len(pool) > 0:
			// bias towards recent claims so that news spreads, with old ones mixed in (reordering, duplication)
			idx := r.intn(len(pool))
			if r.chance(1, 2) && len(pool) > 6 {
				idx = len(pool) - 1 - r.intn(6)
			}
			m := pool[idx]
			tok = fmt.Sprintf("V:%s:%s", names[x], m.token(p))
			switch m.kind {
			case 'a':
				ml.VerifAliveNode(mn.m, m.claim.Incarnation, m.claim.Node, m.claim.Addr, m.claim.Port, m.claim.Meta, m.claim.Vsn, nil, false)
			case 's':
				ml.VerifSuspectNode(mn.m, m.claim.Incarnation, m.claim.Node, m.claim.From)
			case 'd':
				ml.VerifDeadNode(mn.m, m.claim.Incarnation, m.claim.Node, m.claim.From)
			case 'e':
				ml.VerifMergeState(mn.m, []ml.VerifPushNodeState{{Name: m.claim.Node, Addr: m.claim.Addr, Port: m.claim.Port, Meta: m.claim.Meta,
					Incarnation: m.claim.Incarnation, State: m.st, Vsn: m.claim.Vsn}})
			}
		case k < 56 && len(pool) > 3:
			// a whole state list in one merge (the receiver holds its lock for all entries): 2-4 state entries
			var es []cmsg
			for _, m := range pool {
				if m.kind == 'e' {
					es = append(es, m)
				}
			}
			if len(es) >= 2 {
				cnt := 2 + r.intn(3)
				var batch []cmsg
				var rs []ml.VerifPushNodeState
				var ts []string
				for j := 0; j < cnt; j++ {
					m := es[r.intn(len(es))]
					batch = append(batch, m)
					rs = append(rs, ml.VerifPushNodeState{Name: m.claim.Node, Addr: m.claim.Addr, Port: m.claim.Port, Meta: m.claim.Meta,
						Incarnation: m.claim.Incarnation, State: m.st, Vsn: m.claim.Vsn})
					ts = append(ts, m.token(p))
				}
				_ = batch
				tok = fmt.Sprintf("W:%s:%s", names[x], strings.Join(ts, "+"))
				ml.VerifMergeState(mn.m, rs)
			}
		case k < 60:
			tok = "N:" + names[x]
			for _, rec := range ml.VerifSnapshotState(mn.m).Nodes {
				v := make([]uint8, 6)
				copy(v, rec.Vsn[:])
				pool = append(pool, cmsg{kind: 'e', st: rec.State, claim: ml.VerifClaim{Incarnation: rec.Incarnation, Node: rec.Name, Addr: rec.Addr, Port: rec.Port, Meta: rec.Meta, Vsn: v}})
			}
		case k < 68:
			md := r.intn(3)
			mn.rec.meta = mdPool[md]
			tok = fmt.Sprintf("U:%s:%d", names[x], md)
			done := make(chan error, 1)
			go func() { defer panicsAsNil(done); done <- mn.m.UpdateNode(time.Millisecond) }()
			select {
			case err := <-done:
				if err == errPanicked {
					tok += "!blocked"
				}
			case <-time.After(5 * time.Second):
				tok += "!blocked"
			}
		case k < 72:
			tok = "L:" + names[x]
			done := make(chan error, 1)
			go func() { defer panicsAsNil(done); done <- mn.m.Leave(time.Millisecond) }()
			select {
			case err := <-done:
				if err == errPanicked {
					tok += "!blocked"
				}
			case <-time.After(5 * time.Second):
				tok += "!blocked"
			}
		case k < 80 && !healthy:
			// an unanswered probe: the prober suspects the target at the incarnation it holds (state.go:505-521)
			t := names[r.intn(nn)]
			tok = fmt.Sprintf("P:%s:%s", names[x], t)
			if t != names[x] {
				for _, rec := range ml.VerifSnapshotState(mn.m).Nodes {
					if rec.Name == t {
						ml.VerifSuspectNode(mn.m, rec.Incarnation, t, names[x])
					}
				}
			}
		case k < 88 && !healthy:
			if len(mn.timers) == 0 {
				tok = "R:" + names[x]
				ml.VerifResetNodes(mn.m)
			} else {
				ti := r.intn(len(mn.timers))
				tok = fmt.Sprintf("F:%s:%d", names[x], ti)
				mn.timers[ti].Fire()
			}
		case k < 93:
			tok = "R:" + names[x]
			ml.VerifResetNodes(mn.m)
		default:
			t := names[r.intn(nn)]
			tok = fmt.Sprintf("G:%s:%s", names[x], t)
			ml.VerifSetStateChange(mn.m, t, time.Now().Add(-2*time.Hour))
		}
		if tok == "" {
			tok = "R:" + names[x]
			ml.VerifResetNodes(mn.m)
		}
		pool = append(pool, collect(mn)...)
		if i > 0 {
			sb.WriteByte(';')
		}
		fmt.Fprintf(&sb, "%s>%s", tok, mn.observe(start))
	}
	emit("%s", sb.String())
}

func TestC04Cluster(t *testing.T) {
	n := envInt("VERIF_N", 400)
	if thorough() {
		n = envInt("VERIF_N", 20000)
	}
	forCases(n, 141, "k", func(i int, r *rng, id string) { clusterCase("C04", id, r, true) })
}

func TestC05Cluster(t *testing.T) {
	n := envInt("VERIF_N", 600)
	if thorough() {
		n = envInt("VERIF_N", 30000)
	}
	forCases(n, 151, "k", func(i int, r *rng, id string) { clusterCase("C05", id, r, false) })
}
